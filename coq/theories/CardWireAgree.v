(** CardWireAgree.v — C09: the two Coq models of the CardDAV server's REPORT decoding
    describe the same function.

    [CardWire.handle_report] (C09: body tree -> backend call with its arguments) and
    [ServerTotal.card_handle_report] (C13: request -> status / panic, the same decoders
    with results abstracted to "decoded or 400") were written independently after
    carddav/server.go and carddav/elements.go, over two representations of XML trees.
    This file translates C09's trees into C13's ([tr], onto), factors C13's handler into
    its decoding stage [st_decode] and the backend/response stage [st_continue]
    ([st_factor], by unfolding), and proves that on every tree both models make the
    same decision. *)
From Coq Require Import Lia.
From GW Require Import Base CardXml CardWire CardWireProofs CardWireProofs2.
From GW Require ServerTotal CardWireUint CardWireUint2.
Module ST := ServerTotal.

(* ------------------------------------------------------------------------- *)
(** * Trees *)

Definition tr_attr (a : attr) : ST.xattr :=
  {| ST.a_ns := fst (fst a); ST.a_local := snd (fst a); ST.a_val := snd a |}.

Fixpoint tr (t : xtree) : ST.xtree :=
  match t with
  | Elem n a k => ST.XElem (fst n) (snd n) (map tr_attr a) (map tr k)
  | Text s => ST.XText s
  | Comment _ => ST.XOther
  end.

(** every tree of ServerTotal is the translation of a tree of CardXml *)
Definition untr_attr (a : ST.xattr) : attr := ((ST.a_ns a, ST.a_local a), ST.a_val a).
Fixpoint untr (t : ST.xtree) : xtree :=
  match t with
  | ST.XElem ns l a k => Elem (ns, l) (map untr_attr a) (map untr k)
  | ST.XText s => Text s
  | ST.XOther => Comment ""
  end.

Fixpoint st_ind2 (P : ST.xtree -> Prop)
    (He : forall ns l a k, Forall P k -> P (ST.XElem ns l a k))
    (Ht : forall s, P (ST.XText s)) (Ho : P ST.XOther) (t : ST.xtree) : P t :=
  match t with
  | ST.XElem ns l a k =>
    He ns l a k ((fix go (l : list ST.xtree) : Forall P l :=
                    match l with
                    | [] => Forall_nil P
                    | x :: r => Forall_cons x (st_ind2 P He Ht Ho x) (go r)
                    end) k)
  | ST.XText s => Ht s
  | ST.XOther => Ho
  end.

Lemma map_id_Forall {A} (f : A -> A) l : Forall (fun x => f x = x) l -> map f l = l.
Proof. induction 1; simpl; congruence. Qed.

Lemma tr_untr T : tr (untr T) = T.
Proof.
  induction T as [ns l a k IH| |] using st_ind2; try reflexivity.
  cbn [untr tr fst snd]. f_equal.
  - rewrite map_map. apply map_id_Forall. apply Forall_forall. intros [x y z] _. reflexivity.
  - rewrite map_map. apply map_id_Forall. exact IH.
Qed.

Lemma chardata_tr k : ST.chardata (map tr k) = chardata k.
Proof. induction k as [|x k IH]; simpl; auto. destruct x; simpl; auto. rewrite IH. reflexivity. Qed.

Lemma str_empty_eqb s : str_empty s = String.eqb s "".
Proof. symmetry. apply eqb_empty_r. Qed.

Lemma is_nsdecl_tr a : ST.is_ns_decl (tr_attr a) = is_nsdecl a.
Proof. unfold ST.is_ns_decl, is_nsdecl, tr_attr. cbn. rewrite str_empty_eqb. reflexivity. Qed.

Lemma filter_map_tr {A B} (f : A -> B) (p : B -> bool) (q : A -> bool) l :
  (forall x, p (f x) = q x) -> filter p (map f l) = map f (filter q l).
Proof. intros H. induction l as [|x l IH]; simpl; auto. rewrite H. destruct (q x); simpl; congruence. Qed.

(** RawXMLValue's capture *)
Lemma capture_tr t : ST.strip_decls (tr t) = tr (capture t).
Proof.
  induction t as [n a k IH|s|s] using xtree_ind2; try reflexivity.
  cbn [tr ST.strip_decls capture fst snd]. f_equal.
  - unfold without_nsdecls. apply filter_map_tr. intros x. rewrite is_nsdecl_tr. reflexivity.
  - rewrite !map_map. induction IH; simpl; congruence.
Qed.

(** unqualifiedAttrReader *)
Lemma strip_tr t : ST.drop_qualified (tr t) = tr (strip_qualified t).
Proof.
  induction t as [n a k IH|s|s] using xtree_ind2; try reflexivity.
  cbn [tr ST.drop_qualified strip_qualified fst snd]. f_equal.
  - unfold strip_attrs. apply filter_map_tr. intros x. unfold unqualified, tr_attr. cbn. apply str_empty_eqb.
  - rewrite !map_map. induction IH; simpl; congruence.
Qed.

(* ------------------------------------------------------------------------- *)
(** * The two unmarshalling loops *)

Definition res_opt {A} (r : res A) : option A := match r with Ok a => Some a | _ => None end.

(** [Rres R r o]: C09's result [r] and C13's result [o] agree up to [R] *)
Definition Rres {A B} (R : A -> B -> Prop) (r : res A) (o : option B) : Prop :=
  match r, o with
  | Ok a, Some b => R a b
  | Err c, None => c = 400%N
  | _, _ => False
  end.

Lemma chk_lt {A} d (k : option A) : (d < ST.MAXD)%N -> ST.chk d k = k.
Proof. intros H. unfold ST.chk. destruct (N.leb_spec ST.MAXD d); [lia|reflexivity]. Qed.

Lemma fold_attrs {W V} (R : W -> V -> Prop) set fa :
  (forall w v a, R w v -> Rres R (set (snd (fst a)) (snd a) w) (fa v (tr_attr a))) ->
  forall attrs w v, R w v -> Rres R (assign_attrs set w attrs) (ST.fold_opt fa (map tr_attr attrs) v).
Proof.
  intros H. induction attrs as [|a attrs IH]; intros w v HR; simpl; auto.
  specialize (H w v a HR). unfold attr, qname in *. destruct (set (snd (fst a)) (snd a) w) as [w1|c|], (fa v (tr_attr a)) as [v1|];
    cbn [Rres bind] in *; try contradiction; [apply IH, H|exact H].
Qed.

Lemma fold_kids {W V} (R : W -> V -> Prop) step fk :
  (forall w v n a k, R w v -> Rres R (step n a k w) (fk v (tr (Elem n a k)))) ->
  (forall v s, fk v (ST.XText s) = Some v) -> (forall v, fk v ST.XOther = Some v) ->
  forall kids w v, R w v -> Rres R (walk_kids step w kids) (ST.fold_opt fk (map tr kids) v).
Proof.
  intros H Ht Ho. induction kids as [|x kids IH]; intros w v HR; simpl; auto.
  destruct x as [n a k|s|s].
  - specialize (H w v n a k HR). cbn [tr] in H |- *.
    destruct (step n a k w) as [w1|c|], (fk v (ST.XElem (fst n) (snd n) (map tr_attr a) (map tr k))) as [v1|];
      cbn [Rres bind] in *; try contradiction; [apply IH, H|exact H].
  - cbn [tr]. rewrite Ht. apply IH, HR.
  - cbn [tr]. rewrite Ho. apply IH, HR.
Qed.

Lemma name_ok_tr ns local (n : qname) :
  ns <> "" -> ST.name_ok (Some (ns, local)) (fst n) (snd n) = check_name ns local n.
Proof.
  intros Hne. unfold ST.name_ok, check_name. rewrite (String.eqb_sym local), (String.eqb_sym ns).
  destruct ns; [contradiction|reflexivity].
Qed.

Lemma assign_trivial {W} (w : W) a : assign_attrs (fun _ _ w => Ok w) w a = Ok w.
Proof. induction a; simpl; auto. Qed.
Lemma walk_trivial {W} (w : W) k : walk_kids (fun _ _ _ w => Ok w) w k = Ok w.
Proof. induction k as [|x k IH]; simpl; auto. destruct x; auto. Qed.
Lemma bind_ok_r {A} (r : res A) : bind r (fun x => Ok x) = r.
Proof. destruct r; reflexivity. Qed.

(** one struct: XMLName check, attributes, children, character data *)
Lemma um_struct_agree {W V} (R : W -> V -> Prop) ns local set fa step fk ft (fin : W -> string -> W) d :
  ns <> "" -> (d < ST.MAXD)%N ->
  (forall w v a, R w v -> Rres R (set (snd (fst a)) (snd a) w) (fa v (tr_attr a))) ->
  (forall w v n a k, R w v -> Rres R (step n a k w) (fk v (tr (Elem n a k)))) ->
  (forall v s, fk v (ST.XText s) = Some v) -> (forall v, fk v ST.XOther = Some v) ->
  (forall w v s, R w v -> R (fin w s) (ft v s)) ->
  forall w v n a k, R w v ->
  Rres R (if negb (check_name ns local n) then CardWire.bad_request
          else do w1 <- assign_attrs set w a; do w2 <- walk_kids step w1 k; Ok (fin w2 (chardata k)))
       (ST.um_struct (Some (ns, local)) fa fk ft d v (tr (Elem n a k))).
Proof.
  intros Hns Hd Ha Hk Ht Ho Hf w v n a k HR. cbn [tr ST.um_struct]. rewrite (chk_lt _ _ Hd), (name_ok_tr _ _ _ Hns).
  destruct (check_name ns local n); cbn [negb]; [|reflexivity].
  pose proof (fold_attrs R set fa Ha a w v HR) as A.
  destruct (assign_attrs set w a) as [w1|c|], (ST.fold_opt fa (map tr_attr a) v) as [v1|]; cbn [Rres bind] in *; try contradiction; [|exact A].
  pose proof (fold_kids R step fk Hk Ht Ho k w1 v1 A) as K.
  destruct (walk_kids step w1 k) as [w2|c|], (ST.fold_opt fk (map tr k) v1) as [v2|]; cbn [Rres bind] in *; try contradiction; [|exact K].
  rewrite chardata_tr. apply Hf, K.
Qed.

(* ------------------------------------------------------------------------- *)
(** * The wire structs of carddav/elements.go *)

Definition tr_tm (w : w_text_match) : ST.textMatchW :=
  {| ST.tm_text := wtm_text w; ST.tm_collation := wtm_collation w; ST.tm_negate := wtm_negate w; ST.tm_type := wtm_match w |}.
Definition tr_pa (w : w_param_filter) : ST.paramFilterW :=
  {| ST.paf_name := wpa_name w; ST.paf_ind := wpa_ind w; ST.paf_tm := option_map tr_tm (wpa_tm w) |}.
Definition tr_pf (w : w_prop_filter) : ST.apropFilterW :=
  {| ST.apf_name := wpf_name w; ST.apf_test := wpf_test w; ST.apf_ind := wpf_ind w;
     ST.apf_tms := map tr_tm (wpf_tms w); ST.apf_params := map tr_pa (wpf_params w) |}.
Definition tr_f (w : w_filter) : ST.cardFilterW :=
  {| ST.af_test := wf_test w; ST.af_props := map tr_pf (wf_props w) |}.
Definition tr_raw (r : raw_value) : ST.rawval :=
  match r with RawOut _ => ST.RawOut | RawTok t => ST.RawTok (tr t) end.
Definition tr_ad (w : w_address_data) : ST.addrDataW :=
  {| ST.ad_props := wad_props w; ST.ad_allprop := wad_allprop w |}.

Definition Eq {W V} (f : W -> V) (w : W) (v : V) : Prop := v = f w.

Ltac done_eq := cbn [Rres bind]; unfold Eq; try reflexivity.

Lemma negate_cases v : Rres (fun x y => y = x) (unmarshal_negate v) (ST.parse_yes_no v).
Proof. unfold unmarshal_negate, ST.parse_yes_no. destruct (String.eqb v "yes"), (String.eqb v "no"); simpl; auto. Qed.

Lemma tm_agree d w0 n a k : (d < ST.MAXD)%N ->
  Rres (Eq tr_tm) (unmarshal_text_match w0 n a k) (ST.um_text_match true ST.NS_CARD d (tr_tm w0) (tr (Elem n a k))).
Proof.
  intros Hd. unfold unmarshal_text_match, ST.um_text_match.
  replace (do w <- assign_attrs tm_set w0 a; Ok (mkWTM (chardata k) (wtm_collation w) (wtm_negate w) (wtm_match w)))
    with (do w1 <- assign_attrs tm_set w0 a; do w2 <- walk_kids (fun _ _ _ w => Ok w) w1 k;
          Ok ((fun w s => mkWTM s (wtm_collation w) (wtm_negate w) (wtm_match w)) w2 (chardata k))).
  2:{ destruct (assign_attrs tm_set w0 a); cbn [bind]; auto. rewrite walk_trivial. reflexivity. }
  match goal with |- Rres _ _ (ST.um_struct _ ?fa ?fk ?ft _ _ _) =>
    apply (um_struct_agree (Eq tr_tm) NS_CARD "text-match" tm_set fa (fun _ _ _ w => Ok w) fk ft
             (fun w s => mkWTM s (wtm_collation w) (wtm_negate w) (wtm_match w)) d) end;
    auto; try discriminate; try reflexivity.
  - intros w v x E. unfold Eq in E. subst v. unfold tm_set, tr_attr. cbn [ST.a_local ST.a_val fst snd andb].
    unfold attr, qname in *.
    destruct (String.eqb (snd (fst x)) "collation"); [done_eq|].
    destruct (String.eqb (snd (fst x)) "negate-condition").
    { pose proof (negate_cases (snd x)) as N. destruct (unmarshal_negate (snd x)), (ST.parse_yes_no (snd x)); cbn [Rres bind] in *; try contradiction; auto. subst. done_eq. }
    destruct (String.eqb (snd (fst x)) "match-type"); [|done_eq].
    unfold unmarshal_match_type, ST.match_type_ok. destruct (_ || _); done_eq.
  - intros w v s E. unfold Eq in E. subst v. done_eq.
Qed.

Ltac dlt := unfold ST.MAXD in *; lia.
Ltac substE := match goal with E : Eq _ _ _ |- _ => unfold Eq in E; subst end.

Lemma kid_local_tr n a k l : ST.kid_local (tr (Elem n a k)) l = String.eqb (snd n) l.
Proof. reflexivity. Qed.
Lemma kid_is_tr n a k ns l : ST.kid_is (tr (Elem n a k)) ns l = qname_eqb n (ns, l).
Proof. reflexivity. Qed.

Lemma pa_agree d w0 n a k : (d + 5 < ST.MAXD)%N ->
  Rres (Eq tr_pa) (unmarshal_param_filter w0 n a k) (ST.um_param_filter true ST.NS_CARD d (tr_pa w0) (tr (Elem n a k))).
Proof.
  intros Hd. unfold unmarshal_param_filter, ST.um_param_filter.
  replace (do w <- assign_attrs pa_set w0 a; walk_kids pa_step w k)
    with (do w1 <- assign_attrs pa_set w0 a; do w2 <- walk_kids pa_step w1 k; Ok ((fun w (_ : string) => w) w2 (chardata k))).
  2:{ destruct (assign_attrs pa_set w0 a); cbn [bind]; auto. apply bind_ok_r. }
  match goal with |- Rres _ _ (ST.um_struct _ ?fa ?fk ?ft _ _ _) =>
    apply (um_struct_agree (Eq tr_pa) NS_CARD "param-filter" pa_set fa pa_step fk ft (fun w _ => w) d) end;
    auto; try discriminate; try reflexivity; try dlt.
  - intros w v x E. substE. unfold pa_set, tr_attr. cbn [ST.a_local ST.a_val fst snd]. unfold attr, qname in *.
    destruct (String.eqb (snd (fst x)) "name"); done_eq.
  - intros w v n0 a0 k0 E. substE. unfold pa_step. rewrite !kid_local_tr.
    destruct (String.eqb (snd n0) "is-not-defined").
    { unfold ST.into_flag. rewrite chk_lt by dlt. done_eq. }
    destruct (String.eqb (snd n0) "text-match"); [|done_eq].
    unfold ST.into_ptr. cbn [tr_pa ST.paf_tm ST.paf_name ST.paf_ind].
    replace (match option_map tr_tm (wpa_tm w) with Some u => u | None => ST.text_match_zero end)
      with (tr_tm (dflt wtm_zero (wpa_tm w))) by (destruct (wpa_tm w); reflexivity).
    pose proof (tm_agree (d + 1) (dflt wtm_zero (wpa_tm w)) n0 a0 k0 ltac:(dlt)) as T.
    destruct (unmarshal_text_match _ n0 a0 k0), (ST.um_text_match _ _ _ _ _); cbn [Rres bind] in *; try contradiction; auto.
    substE. done_eq.
Qed.

Lemma pf_agree d w0 n a k : (d + 10 < ST.MAXD)%N ->
  Rres (Eq tr_pf) (unmarshal_prop_filter w0 n a k) (ST.um_aprop_filter d (tr_pf w0) (tr (Elem n a k))).
Proof.
  intros Hd. unfold unmarshal_prop_filter, ST.um_aprop_filter.
  replace (do w <- assign_attrs pf_set w0 a; walk_kids pf_step w k)
    with (do w1 <- assign_attrs pf_set w0 a; do w2 <- walk_kids pf_step w1 k; Ok ((fun w (_ : string) => w) w2 (chardata k))).
  2:{ destruct (assign_attrs pf_set w0 a); cbn [bind]; auto. apply bind_ok_r. }
  match goal with |- Rres _ _ (ST.um_struct _ ?fa ?fk ?ft _ _ _) =>
    apply (um_struct_agree (Eq tr_pf) NS_CARD "prop-filter" pf_set fa pf_step fk ft (fun w _ => w) d) end;
    auto; try discriminate; try reflexivity; try dlt.
  - intros w v x E. substE. unfold pf_set, tr_attr. cbn [ST.a_local ST.a_val fst snd]. unfold attr, qname in *.
    destruct (String.eqb (snd (fst x)) "name"); [done_eq|].
    destruct (String.eqb (snd (fst x)) "test"); [|done_eq].
    unfold unmarshal_filter_test, ST.filter_test_ok. destruct (_ || _); done_eq.
  - intros w v n0 a0 k0 E. substE. unfold pf_step. rewrite !kid_local_tr.
    destruct (String.eqb (snd n0) "is-not-defined").
    { unfold ST.into_flag. rewrite chk_lt by dlt. done_eq. }
    destruct (String.eqb (snd n0) "text-match").
    { unfold ST.into_slice. rewrite chk_lt by dlt.
      pose proof (tm_agree (d + 2) wtm_zero n0 a0 k0 ltac:(dlt)) as T.
      change (tr_tm wtm_zero) with ST.text_match_zero in T.
      destruct (unmarshal_text_match _ n0 a0 k0), (ST.um_text_match _ _ _ _ _); cbn [Rres bind] in *; try contradiction; auto.
      substE. unfold Eq, tr_pf. cbn. rewrite map_app. reflexivity. }
    destruct (String.eqb (snd n0) "param-filter"); [|done_eq].
    unfold ST.into_slice. rewrite chk_lt by dlt.
    pose proof (pa_agree (d + 2) wpa_zero n0 a0 k0 ltac:(dlt)) as T.
    change (tr_pa wpa_zero) with ST.param_filter_zero in T.
    destruct (unmarshal_param_filter _ n0 a0 k0), (ST.um_param_filter _ _ _ _ _); cbn [Rres bind] in *; try contradiction; auto.
    substE. unfold Eq, tr_pf. cbn. rewrite map_app. reflexivity.
Qed.

Lemma f_agree d w0 n a k : (d + 20 < ST.MAXD)%N ->
  Rres (Eq tr_f) (unmarshal_filter w0 n a k) (ST.um_card_filter d (tr_f w0) (tr (Elem n a k))).
Proof.
  intros Hd. unfold unmarshal_filter, ST.um_card_filter.
  replace (do w <- assign_attrs f_set w0 a; walk_kids f_step w k)
    with (do w1 <- assign_attrs f_set w0 a; do w2 <- walk_kids f_step w1 k; Ok ((fun w (_ : string) => w) w2 (chardata k))).
  2:{ destruct (assign_attrs f_set w0 a); cbn [bind]; auto. apply bind_ok_r. }
  match goal with |- Rres _ _ (ST.um_struct _ ?fa ?fk ?ft _ _ _) =>
    apply (um_struct_agree (Eq tr_f) NS_CARD "filter" f_set fa f_step fk ft (fun w _ => w) d) end;
    auto; try discriminate; try reflexivity; try dlt.
  - intros w v x E. substE. unfold f_set, tr_attr. cbn [ST.a_local ST.a_val fst snd]. unfold attr, qname in *.
    destruct (String.eqb (snd (fst x)) "test"); [|done_eq].
    unfold unmarshal_filter_test, ST.filter_test_ok. destruct (_ || _); done_eq.
  - intros w v n0 a0 k0 E. substE. unfold f_step. rewrite !kid_local_tr.
    destruct (String.eqb (snd n0) "prop-filter"); [|done_eq].
    unfold ST.into_slice. rewrite chk_lt by dlt.
    pose proof (pf_agree (d + 2) wpf_zero n0 a0 k0 ltac:(dlt)) as T.
    change (tr_pf wpf_zero) with ST.aprop_filter_zero in T.
    destruct (unmarshal_prop_filter _ n0 a0 k0), (ST.um_aprop_filter _ _ _); cbn [Rres bind] in *; try contradiction; auto.
    substE. unfold Eq, tr_f. cbn. rewrite map_app. reflexivity.
Qed.

(** address-data, decoded from the captured element *)
Lemma cprop_agree d n a k : (d + 2 < ST.MAXD)%N ->
  Rres (Eq (fun s : string => s)) (unmarshal_cprop n a k) (ST.um_named ST.NS_CARD "prop" d "" (tr (Elem n a k))).
Proof.
  intros Hd. unfold unmarshal_cprop, ST.um_named.
  replace (assign_attrs cprop_set "" a)
    with (do w1 <- assign_attrs cprop_set "" a; do w2 <- walk_kids (fun _ _ _ w => Ok w) w1 k; Ok ((fun w (_ : string) => w) w2 (chardata k))).
  2:{ destruct (assign_attrs cprop_set "" a); cbn [bind]; auto. rewrite walk_trivial. reflexivity. }
  match goal with |- Rres _ _ (ST.um_struct _ ?fa ?fk ?ft _ _ _) =>
    apply (um_struct_agree (Eq (fun s : string => s)) NS_CARD "prop" cprop_set fa (fun _ _ _ w => Ok w) fk ft (fun w _ => w) d) end;
    auto; try discriminate; try reflexivity; try dlt.
  intros w v x E. substE. unfold cprop_set, tr_attr. cbn [ST.a_local ST.a_val fst snd]. unfold attr, qname in *.
  destruct (String.eqb (snd (fst x)) "name"); done_eq.
Qed.

Lemma ad_agree d w0 n a k : (d + 5 < ST.MAXD)%N ->
  Rres (Eq tr_ad) (unmarshal_address_data w0 n a k) (ST.um_addr_data d (tr_ad w0) (tr (Elem n a k))).
Proof.
  intros Hd. unfold unmarshal_address_data, ST.um_addr_data.
  replace (walk_kids ad_step w0 k)
    with (do w1 <- assign_attrs (fun _ _ w => Ok w) w0 a; do w2 <- walk_kids ad_step w1 k; Ok ((fun w (_ : string) => w) w2 (chardata k))).
  2:{ rewrite assign_trivial. cbn [bind]. apply bind_ok_r. }
  match goal with |- Rres _ _ (ST.um_struct _ ?fa ?fk ?ft _ _ _) =>
    apply (um_struct_agree (Eq tr_ad) NS_CARD "address-data" (fun _ _ w => Ok w) fa ad_step fk ft (fun w _ => w) d) end;
    auto; try discriminate; try reflexivity; try dlt.
  intros w v n0 a0 k0 E. substE. unfold ad_step. rewrite !kid_local_tr.
  destruct (String.eqb (snd n0) "prop").
  { unfold ST.into_slice. rewrite chk_lt by dlt.
    pose proof (cprop_agree (d + 2) n0 a0 k0 ltac:(dlt)) as T.
    destruct (unmarshal_cprop n0 a0 k0), (ST.um_named _ _ _ _ _); cbn [Rres bind] in *; try contradiction; auto.
    substE. done_eq. }
  destruct (String.eqb (snd n0) "allprop"); [|done_eq].
  unfold ST.into_flag. rewrite chk_lt by dlt. done_eq.
Qed.

(** DAV:prop: every child element captured *)
Lemma raws_fold d k : (d + 2 < ST.MAXD)%N -> forall cur,
  ST.fold_opt (fun acc k => match k with
                            | ST.XElem _ _ _ _ => ST.chk (d + 2) (Some (acc ++ [ST.RawTok (ST.strip_decls k)])%list)
                            | _ => Some acc
                            end) (map tr k) (map tr_raw cur)
  = Some (map tr_raw (cur ++ raw_kids k)).
Proof.
  intros Hd. induction k as [|x k IH]; intros cur; cbn [map ST.fold_opt raw_kids].
  - rewrite app_nil_r. reflexivity.
  - destruct x as [n a kk|s|s]; cbn [tr].
    + rewrite chk_lt by dlt.
      change (ST.XElem (fst n) (snd n) (map tr_attr a) (map tr kk)) with (tr (Elem n a kk)).
      rewrite capture_tr.
      replace (map tr_raw cur ++ [ST.RawTok (tr (capture (Elem n a kk)))])%list
        with (map tr_raw (cur ++ [RawTok (capture (Elem n a kk))])) by (rewrite map_app; reflexivity).
      rewrite IH, <- app_assoc. reflexivity.
    + apply IH.
    + apply IH.
Qed.

Lemma raws_agree d cur n a k : (d + 2 < ST.MAXD)%N -> qname_eqb n (NS_DAV, "prop") = true ->
  ST.um_raws "prop" d (map tr_raw cur) (tr (Elem n a k)) = Some (map tr_raw (cur ++ raw_kids k)).
Proof.
  intros Hd Hn. apply qname_eqb_spec in Hn. subst n. unfold ST.um_raws. cbn [tr ST.um_struct fst snd].
  rewrite chk_lt by dlt. replace (ST.name_ok _ _ _) with true by reflexivity.
  replace (ST.fold_opt ST.no_attr (map tr_attr a) (map tr_raw cur)) with (Some (map tr_raw cur)).
  2:{ induction a; simpl; auto. }
  rewrite (raws_fold d k Hd cur). reflexivity.
Qed.

Definition tr_sel (p : option w_prop) (ap pn : bool) : ST.selW :=
  {| ST.s_prop := option_map (map tr_raw) p; ST.s_allprop := ap; ST.s_propname := pn |}.

(** the three selector children, as both query and multiget handle them *)
Lemma sel_agree d p ap pn n a k : (d + 5 < ST.MAXD)%N ->
  ST.um_sel d (tr_sel p ap pn) (tr (Elem n a k)) =
  if qname_eqb n (NS_DAV, "prop") then Some (Some (tr_sel (Some (dflt [] p ++ raw_kids k)%list) ap pn))
  else if qname_eqb n (NS_DAV, "allprop") then Some (Some (tr_sel p true pn))
  else if qname_eqb n (NS_DAV, "propname") then Some (Some (tr_sel p ap true))
  else Some None.
Proof.
  intros Hd. unfold ST.um_sel. rewrite !kid_is_tr. change ST.NS_DAV with NS_DAV.
  destruct (qname_eqb n (NS_DAV, "prop")) eqn:E1.
  { unfold ST.into_ptr. cbn [tr_sel ST.s_prop ST.s_allprop ST.s_propname].
    replace (match option_map (map tr_raw) p with Some u => u | None => [] end) with (map tr_raw (dflt [] p))
      by (destruct p; reflexivity).
    rewrite (raws_agree (d + 1) (dflt [] p) n a k ltac:(dlt) E1). reflexivity. }
  destruct (qname_eqb n (NS_DAV, "allprop")).
  { unfold ST.into_flag. rewrite chk_lt by dlt. reflexivity. }
  destruct (qname_eqb n (NS_DAV, "propname")); [|reflexivity].
  unfold ST.into_flag. rewrite chk_lt by dlt. reflexivity.
Qed.

(* ------------------------------------------------------------------------- *)
(** * nresults.  The two models read the number with two independently written models
      of strings.TrimSpace + strconv.ParseUint; their agreement is the premise
      [uint_agree] of this section, discharged at the end with CardWireUint2.uint_agree_all. *)

Section WithUint.
Hypothesis uint_agree : forall s, Rres (fun x y : N => y = x) (unmarshal_uint s) (ST.parse_uint s).

Definition small (n : N) : Prop := (n < two64)%N.

Lemma unmarshal_uint_small s n : unmarshal_uint s = Ok n -> small n.
Proof.
  unfold unmarshal_uint, small. destruct (str_empty s); [intros H; inversion H; reflexivity|].
  unfold parse_uint64. destruct (digits_to_N (go_trim_space s)) as [m|]; [|discriminate].
  destruct (N.ltb_spec m two64) as [Hlt|Hge]; [|discriminate]. intros H; inversion H; subst; assumption.
Qed.

Definition Rn (w : N) (v : N) : Prop := v = w /\ small w.

Lemma limit_agree d w0 n a k : (d + 5 < ST.MAXD)%N -> small w0 ->
  Rres Rn (unmarshal_limit w0 n a k) (ST.um_limit d w0 (tr (Elem n a k))).
Proof.
  intros Hd Hs. unfold unmarshal_limit, ST.um_limit.
  replace (walk_kids lim_step w0 k)
    with (do w1 <- assign_attrs (fun _ _ w => Ok w) w0 a; do w2 <- walk_kids lim_step w1 k; Ok ((fun w (_ : string) => w) w2 (chardata k))).
  2:{ rewrite assign_trivial. cbn [bind]. apply bind_ok_r. }
  match goal with |- Rres _ _ (ST.um_struct _ ?fa ?fk ?ft _ _ _) =>
    apply (um_struct_agree Rn NS_CARD "limit" (fun _ _ w => Ok w) fa lim_step fk ft (fun w _ => w) d) end;
    auto; try discriminate; try reflexivity; try dlt; try (split; auto; fail).
  intros w v n0 a0 k0 [E Hw]. subst v. unfold lim_step. rewrite !kid_local_tr.
  destruct (String.eqb (snd n0) "nresults"); [|cbn [Rres]; split; auto].
  cbn [tr ST.um_uint]. rewrite chk_lt by dlt. rewrite chardata_tr.
  pose proof (uint_agree (chardata k0)) as U. pose proof (unmarshal_uint_small (chardata k0)) as S.
  destruct (unmarshal_uint (chardata k0)), (ST.parse_uint (chardata k0)); cbn [Rres] in *; try contradiction; auto.
  split; auto.
Qed.

(* ------------------------------------------------------------------------- *)
(** * addressbook-query and addressbook-multiget *)

Definition tr_q (w : w_query) : ST.cardQueryW :=
  {| ST.aq_sel := tr_sel (wq_prop w) (wq_allprop w) (wq_propname w);
     ST.aq_filter := tr_f (wq_filter w); ST.aq_limit := wq_limit w |}.

Definition Rq (w : w_query) (v : ST.cardQueryW) : Prop :=
  v = tr_q w /\ forall n, wq_limit w = Some n -> small n.

Lemma q_agree w0 n a k : Rq w0 (tr_q w0) ->
  Rres Rq (if negb (check_name NS_CARD "addressbook-query" n) then CardWire.bad_request else walk_kids q_step w0 k)
       (ST.um_card_query 0 (tr_q w0) (tr (Elem n a k))).
Proof.
  intros H0. unfold ST.um_card_query.
  replace (walk_kids q_step w0 k)
    with (do w1 <- assign_attrs (fun _ _ w => Ok w) w0 a; do w2 <- walk_kids q_step w1 k; Ok ((fun w (_ : string) => w) w2 (chardata k))).
  2:{ rewrite assign_trivial. cbn [bind]. apply bind_ok_r. }
  match goal with |- Rres _ _ (ST.um_struct _ ?fa ?fk ?ft _ _ _) =>
    apply (um_struct_agree Rq NS_CARD "addressbook-query" (fun _ _ w => Ok w) fa q_step fk ft (fun w _ => w) 0) end;
    auto; try discriminate; try reflexivity; try dlt.
  intros w v n0 a0 k0 [E Hw]. subst v. unfold q_step. cbn [tr_q ST.aq_sel ST.aq_filter ST.aq_limit].
  rewrite (sel_agree 0 (wq_prop w) (wq_allprop w) (wq_propname w) n0 a0 k0 ltac:(dlt)).
  destruct (qname_eqb n0 (NS_DAV, "prop")); [cbn [Rres]; split; [reflexivity|exact Hw]|].
  destruct (qname_eqb n0 (NS_DAV, "allprop")); [cbn [Rres]; split; [reflexivity|exact Hw]|].
  destruct (qname_eqb n0 (NS_DAV, "propname")); [cbn [Rres]; split; [reflexivity|exact Hw]|].
  rewrite !kid_local_tr.
  destruct (String.eqb (snd n0) "filter").
  { pose proof (f_agree (0 + 1) (wq_filter w) n0 a0 k0 ltac:(dlt)) as T.
    destruct (unmarshal_filter _ n0 a0 k0), (ST.um_card_filter _ _ _); cbn [Rres bind] in *; try contradiction; auto.
    substE. split; [reflexivity|exact Hw]. }
  destruct (String.eqb (snd n0) "limit"); [|cbn [Rres]; split; [reflexivity|exact Hw]].
  unfold ST.into_ptr.
  replace (match wq_limit w with Some u => u | None => 0%N end) with (dflt 0%N (wq_limit w)) by (destruct (wq_limit w); reflexivity).
  assert (S0 : small (dflt 0%N (wq_limit w))).
  { destruct (wq_limit w) as [m|] eqn:El; cbn [dflt]; [apply Hw; reflexivity|reflexivity]. }
  pose proof (limit_agree (0 + 1) (dflt 0%N (wq_limit w)) n0 a0 k0 ltac:(dlt) S0) as T.
  destruct (unmarshal_limit _ n0 a0 k0), (ST.um_limit _ _ _); cbn [Rres bind] in *; try contradiction; auto.
  destruct T as [-> Hs]. split; [reflexivity|]. cbn [wq_limit]. intros m Hm. inversion Hm; subst; exact Hs.
Qed.


Definition Rm (up : string -> option string) (w : w_multiget) (v : ST.multigetW) : Prop :=
  ST.mg_sel v = tr_sel (wm_prop w) (wm_allprop w) (wm_propname w) /\
  omapM up (ST.mg_hrefs v) = Some (wm_hrefs w).

Lemma omapM_snoc {A B} (f : A -> option B) l x l' y :
  omapM f l = Some l' -> f x = Some y -> omapM f (l ++ [x])%list = Some (l' ++ [y])%list.
Proof.
  revert l'. induction l as [|a l IH]; simpl; intros l' H Hx.
  - inversion H; subst. rewrite Hx. reflexivity.
  - apply obind_some in H. destruct H as [b [Hb H]]. apply obind_some in H. destruct H as [bs [Hbs H]].
    inversion H; subst. rewrite Hb. cbn [obind]. rewrite (IH _ Hbs Hx). reflexivity.
Qed.

Lemma m_agree up n a k :
  Rres (Rm up) (unmarshal_multiget up n a k)
       (ST.um_multiget ST.NS_CARD "addressbook-multiget" (fun s => is_some (up s)) 0 ST.multiget_zero (tr (Elem n a k))).
Proof.
  unfold unmarshal_multiget, ST.um_multiget.
  replace (walk_kids (m_step up) wm_zero k)
    with (do w1 <- assign_attrs (fun _ _ w => Ok w) wm_zero a; do w2 <- walk_kids (m_step up) w1 k; Ok ((fun w (_ : string) => w) w2 (chardata k))).
  2:{ rewrite assign_trivial. cbn [bind]. apply bind_ok_r. }
  match goal with |- Rres _ _ (ST.um_struct _ ?fa ?fk ?ft _ _ _) =>
    apply (um_struct_agree (Rm up) NS_CARD "addressbook-multiget" (fun _ _ w => Ok w) fa (m_step up) fk ft (fun w _ => w) 0) end;
    auto; try discriminate; try reflexivity; try dlt; try (split; reflexivity).
  intros w v n0 a0 k0 [Es Eh]. unfold m_step. rewrite Es.
  rewrite (sel_agree 0 (wm_prop w) (wm_allprop w) (wm_propname w) n0 a0 k0 ltac:(dlt)).
  rewrite kid_is_tr. change ST.NS_DAV with NS_DAV.
  destruct (qname_eqb n0 (NS_DAV, "href")) eqn:Eh0.
  { apply qname_eqb_spec in Eh0. subst n0.
    replace (qname_eqb (NS_DAV, "href") (NS_DAV, "prop")) with false by reflexivity.
    replace (qname_eqb (NS_DAV, "href") (NS_DAV, "allprop")) with false by reflexivity.
    replace (qname_eqb (NS_DAV, "href") (NS_DAV, "propname")) with false by reflexivity.
    unfold ST.into_slice. rewrite chk_lt by dlt. cbn [tr ST.um_href]. rewrite chk_lt by dlt. rewrite chardata_tr.
    destruct (up (chardata k0)) as [p|] eqn:Eu; cbn [is_some Rres]; [|reflexivity].
    split; [reflexivity|]. cbn [ST.mg_hrefs wm_hrefs]. apply omapM_snoc; assumption. }
  destruct (qname_eqb n0 (NS_DAV, "prop")); [cbn [Rres]; split; [reflexivity|exact Eh]|].
  destruct (qname_eqb n0 (NS_DAV, "allprop")); [cbn [Rres]; split; [reflexivity|exact Eh]|].
  destruct (qname_eqb n0 (NS_DAV, "propname")); cbn [Rres]; (split; [first [reflexivity|exact Es]|exact Eh]).
Qed.

(* ------------------------------------------------------------------------- *)
(** * After decoding: handleQuery / handleMultiget up to the backend *)

Lemma prop_get_tr p ns l :
  ST.prop_get (map tr_raw p) ns l = option_map (fun t => ST.RawTok (tr t)) (prop_get p (ns, l)) /\
  (forall t, prop_get p (ns, l) = Some t -> exists n a k, t = Elem n a k).
Proof.
  induction p as [|r p [IH1 IH2]]; cbn [map ST.prop_get prop_get option_map]; [split; [reflexivity|discriminate]|].
  destruct r as [x|t]; cbn [tr_raw ST.raw_name_is]; [split; assumption|].
  destruct t as [n a k|s|s]; cbn [tr ST.kid_is]; [|split; assumption|split; assumption].
  change (String.eqb (fst n) ns && String.eqb (snd n) l) with (qname_eqb n (ns, l)).
  destruct (qname_eqb n (ns, l)); [|split; assumption].
  split; [reflexivity|]. intros t H; inversion H; eauto.
Qed.

Lemma data_agree p ap pn :
  match data_request_of p with
  | Ok _ => ST.addr_data_of_prop (tr_sel p ap pn) = ST.SGo
  | Err c => c = 400%N /\ ST.addr_data_of_prop (tr_sel p ap pn) = ST.SBad
  | Panic => False
  end.
Proof.
  unfold data_request_of, ST.addr_data_of_prop. cbn [tr_sel ST.s_prop].
  destruct p as [raw|]; cbn [option_map]; [|reflexivity].
  destruct (prop_get_tr raw NS_CARD "address-data") as [E Hel]. change ST.NS_CARD with NS_CARD. rewrite E.
  unfold addressDataName. destruct (prop_get raw (NS_CARD, "address-data")) as [t|]; cbn [option_map].
  - destruct (Hel t eq_refl) as [n [a [k ->]]]. cbn [ST.raw_token_reader].
    pose proof (ad_agree 0 wad_zero n a k ltac:(dlt)) as T. change (tr_ad wad_zero) with ST.addr_data_zero in T.
    destruct (unmarshal_address_data wad_zero n a k) as [x|c|], (ST.um_addr_data 0 ST.addr_data_zero (tr (Elem n a k))) as [y|];
      cbn [Rres bind] in *; try contradiction.
    + substE. unfold decode_address_data_req, ST.decode_addr_data_req, tr_ad. cbn [ST.ad_allprop ST.ad_props].
      change (ST.nonempty (wad_props x)) with (nonempty (wad_props x)).
      destruct (wad_allprop x && nonempty (wad_props x)); cbn; auto.
    + cbn. auto.
  - cbn. reflexivity.
Qed.

Lemma decode_pa_agree w :
  match decode_param_filter w with Ok _ => ST.decode_param_filter (tr_pa w) = true
                                 | Err _ => ST.decode_param_filter (tr_pa w) = false | Panic => False end.
Proof.
  unfold decode_param_filter, ST.decode_param_filter, tr_pa. cbn [ST.paf_ind ST.paf_tm].
  destruct (wpa_ind w), (wpa_tm w); reflexivity.
Qed.

Lemma decode_pas_agree l :
  match mapM decode_param_filter l with Ok _ => forallb ST.decode_param_filter (map tr_pa l) = true
                                      | Err _ => forallb ST.decode_param_filter (map tr_pa l) = false | Panic => False end.
Proof.
  induction l as [|w l IH]; cbn [mapM map forallb]; [reflexivity|].
  pose proof (decode_pa_agree w) as D. destruct (decode_param_filter w); cbn [bind]; try contradiction.
  - rewrite D. cbn [andb]. destruct (mapM decode_param_filter l); cbn [bind]; auto.
  - rewrite D. reflexivity.
Qed.

Lemma decode_pf_agree w :
  match decode_prop_filter w with Ok _ => ST.decode_aprop_filter (tr_pf w) = true
                                | Err _ => ST.decode_aprop_filter (tr_pf w) = false | Panic => False end.
Proof.
  unfold decode_prop_filter, ST.decode_aprop_filter, tr_pf. cbn [ST.apf_ind ST.apf_tms ST.apf_params].
  replace (ST.nonempty (map tr_tm (wpf_tms w))) with (nonempty (wpf_tms w)) by (destruct (wpf_tms w); reflexivity).
  replace (ST.nonempty (map tr_pa (wpf_params w))) with (nonempty (wpf_params w)) by (destruct (wpf_params w); reflexivity).
  destruct (wpf_ind w && (nonempty (wpf_tms w) || nonempty (wpf_params w))); [reflexivity|].
  pose proof (decode_pas_agree (wpf_params w)) as D. destruct (mapM decode_param_filter (wpf_params w)); cbn [bind]; auto.
Qed.

Definition decode_pf_400 (el : w_prop_filter) : res PropFilter :=
  match decode_prop_filter el with Ok pf => Ok pf | Err _ => CardWire.bad_request | Panic => Panic end.

Lemma decode_pfs_agree l :
  match mapM decode_pf_400 l with
  | Ok _ => forallb ST.decode_aprop_filter (map tr_pf l) = true
  | Err c => c = 400%N /\ forallb ST.decode_aprop_filter (map tr_pf l) = false
  | Panic => False end.
Proof.
  induction l as [|w l IH]; cbn [mapM map forallb]; [reflexivity|].
  pose proof (decode_pf_agree w) as D. unfold decode_pf_400 at 1. destruct (decode_prop_filter w); cbn [bind]; try contradiction.
  - rewrite D. cbn [andb]. destruct (mapM decode_pf_400 l); cbn [bind]; auto.
  - rewrite D. split; reflexivity.
Qed.

Lemma limit_nonpos n : small n -> (int_of_uint n <=? 0)%Z = ST.limit_nonpositive n.
Proof.
  unfold small, int_of_uint, ST.limit_nonpositive, two64, two63. intros H.
  destruct (N.ltb_spec n 9223372036854775808); destruct (N.eqb_spec n 0); destruct (N.leb_spec 9223372036854775808 n);
    cbn [orb]; try lia; try (apply Z.leb_le; lia); try (apply Z.leb_gt; lia).
Qed.

(* ------------------------------------------------------------------------- *)
(** * ServerTotal's handler, factored into its decoding stage and the rest *)

Inductive st_stage :=
| StBad                                          (* 400 *)
| StPanic
| StEmpty                                        (* 207 without a backend call *)
| StQuery (s : ST.selW)                          (* Backend.QueryAddressObjects is called *)
| StMultiget (s : ST.selW) (hrefs : list string).   (* Backend.GetAddressObject per href *)

Definition st_decode (url_ok : string -> bool) (T : ST.xtree) : st_stage :=
  match ST.um_card_report url_ok 0 T with
  | None => StBad
  | Some (ST.CardQuery q) =>
    match ST.addr_data_of_prop (ST.aq_sel q) with
    | ST.SPanic => StPanic
    | ST.SBad => StBad
    | ST.SGo =>
      if negb (forallb ST.decode_aprop_filter (ST.af_props (ST.aq_filter q))) then StBad
      else if match ST.aq_limit q with Some n => ST.limit_nonpositive n | None => false end then StEmpty
      else StQuery (ST.aq_sel q)
    end
  | Some (ST.CardMultiget m) =>
    match ST.addr_data_of_prop (ST.mg_sel m) with
    | ST.SPanic => StPanic
    | ST.SBad => StBad
    | ST.SGo => StMultiget (ST.mg_sel m) (ST.mg_hrefs m)
    end
  end.

Definition st_continue (env : ST.card_env) (s : st_stage) : ST.hres N :=
  match s with
  | StBad => ST.bad_request
  | StPanic => ST.HPanic
  | StEmpty => ST.HOk 207%N []
  | StQuery sel =>
    match ST.ae_query env with
    | ST.BErr e => ST.HErr e []
    | ST.BOk objs => ST.hmap (fun _ => 207%N) (ST.each_response sel objs)
    end
  | StMultiget sel hrefs => ST.multiget_loop (ST.ae_get_obj env) sel hrefs
  end.

(** card_handle_report is the composition (for a request with an XML content type whose
    body parses to the tree [T]) *)
Lemma st_factor env r T :
  ST.is_content_xml r = true -> ST.r_xml r = ST.XTree T ->
  ST.card_handle_report env r = st_continue env (st_decode (ST.r_url_ok r) T).
Proof.
  intros Hc Hx. unfold ST.card_handle_report, ST.decode_xml_request, st_decode. rewrite Hc, Hx. cbn [negb].
  destruct (ST.um_card_report (ST.r_url_ok r) 0 T) as [[q|m]|]; [| |reflexivity].
  - unfold ST.card_handle_query. destruct (ST.addr_data_of_prop (ST.aq_sel q)); try reflexivity.
    destruct (negb (forallb ST.decode_aprop_filter (ST.af_props (ST.aq_filter q)))); [reflexivity|].
    destruct (match ST.aq_limit q with Some n => ST.limit_nonpositive n | None => false end); reflexivity.
  - unfold ST.card_handle_multiget. destruct (ST.addr_data_of_prop (ST.mg_sel m)); reflexivity.
Qed.

(** ... and so is the whole handler for a REPORT *)
Lemma st_factor_serve env r T :
  ST.ae_has_backend env = true -> String.eqb (ST.r_path r) "/.well-known/carddav" = false ->
  ST.r_method r = "REPORT" -> ST.is_content_xml r = true -> ST.r_xml r = ST.XTree T ->
  ST.serve (ST.CCard env r) = ST.finish (st_continue env (st_decode (ST.r_url_ok r) T)).
Proof.
  intros Hb Hp Hm Hc Hx. cbn [ST.serve]. unfold ST.serve_carddav. rewrite Hb, Hp, Hm. cbn [negb].
  replace (String.eqb "REPORT" "REPORT") with true by reflexivity.
  rewrite (st_factor env r T Hc Hx). reflexivity.
Qed.

(* ------------------------------------------------------------------------- *)
(** * The two models agree *)

(** the same decision: the same backend operation (with the same hrefs, as far as
    ServerTotal records them: it keeps the href texts, CardWire the parsed paths), the
    same empty multistatus, the same error status *)
Definition same_decision (up : string -> option string) (path : string) (r : res outcome) (s : st_stage) : Prop :=
  match r, s with
  | Ok (CallQuery p _), StQuery _ => p = path
  | Ok EmptyMultiStatus, StEmpty => True
  | Ok (CallsGet l), StMultiget _ hrefs => omapM up hrefs = Some (map fst l)
  | Err c, StBad => c = 400%N
  | _, _ => False
  end.

Theorem models_agree_decoded up path t :
  same_decision up path (handle_report up path t) (st_decode (fun s => is_some (up s)) (tr t)).
Proof.
  unfold handle_report, st_decode, ST.um_card_report. rewrite chk_lt by dlt. rewrite strip_tr.
  destruct t as [n a k|s|s]; [|reflexivity|reflexivity].
  cbn [strip_qualified]. set (a' := strip_attrs a). set (k' := map strip_qualified k).
  change (tr (Elem n a k)) with (ST.XElem (fst n) (snd n) (map tr_attr a) (map tr k)). cbn [ST.kid_is].
  change (String.eqb (fst n) ST.NS_CARD && String.eqb (snd n) "addressbook-query") with (qname_eqb n (NS_CARD, "addressbook-query")).
  change (String.eqb (fst n) ST.NS_CARD && String.eqb (snd n) "addressbook-multiget") with (qname_eqb n (NS_CARD, "addressbook-multiget")).
  unfold handle_decoded.
  destruct (qname_eqb n (NS_CARD, "addressbook-query")) eqn:E1.
  - (* addressbook-query *)
    assert (R0 : Rq wq_zero (tr_q wq_zero)) by (split; [reflexivity|discriminate]).
    pose proof (q_agree wq_zero n a' k' R0) as Q. change (tr_q wq_zero) with ST.card_query_zero in Q.
    unfold unmarshal_query.
    destruct (if negb (check_name NS_CARD "addressbook-query" n) then CardWire.bad_request else walk_kids q_step wq_zero k') as [w|c|];
      destruct (ST.um_card_query 0 ST.card_query_zero (tr (Elem n a' k'))) as [v|]; cbn [Rres bind] in *; try contradiction; [|exact Q].
    destruct Q as [-> Hs]. unfold handle_query. cbn [tr_q ST.aq_sel ST.aq_filter ST.aq_limit tr_f ST.af_props].
    pose proof (data_agree (wq_prop w) (wq_allprop w) (wq_propname w)) as D.
    destruct (data_request_of (wq_prop w)) as [dr|c|]; cbn [bind]; try contradiction; [|destruct D as [-> ->]; reflexivity].
    rewrite D. pose proof (decode_pfs_agree (wf_props (wq_filter w))) as P. fold decode_pf_400.
    change (mapM (fun el => match decode_prop_filter el with Ok pf => Ok pf | Err _ => CardWire.bad_request | Panic => Panic end))
      with (mapM decode_pf_400).
    destruct (mapM decode_pf_400 (wf_props (wq_filter w))) as [pfs|c|]; cbn [bind]; try contradiction; [|destruct P as [-> ->]; reflexivity].
    rewrite P. cbn [negb]. destruct (wq_limit w) as [m|] eqn:El; [|reflexivity].
    rewrite (limit_nonpos m (Hs m eq_refl)). destruct (ST.limit_nonpositive m); reflexivity.
  - destruct (qname_eqb n (NS_CARD, "addressbook-multiget")) eqn:E2; [|reflexivity].
    pose proof (m_agree up n a' k') as M.
    destruct (unmarshal_multiget up n a' k') as [w|c|];
      destruct (ST.um_multiget ST.NS_CARD "addressbook-multiget" (fun s => is_some (up s)) 0 ST.multiget_zero (tr (Elem n a' k'))) as [v|];
      cbn [Rres bind] in *; try contradiction; [|exact M].
    destruct M as [Es Eh]. unfold handle_multiget. rewrite Es.
    pose proof (data_agree (wm_prop w) (wm_allprop w) (wm_propname w)) as D.
    destruct (data_request_of (wm_prop w)) as [dr|c|]; cbn [bind]; try contradiction; [|destruct D as [-> ->]; reflexivity].
    rewrite D. cbn [same_decision]. rewrite map_map. cbn [fst]. rewrite map_id. exact Eh.
Qed.

End WithUint.

(* ------------------------------------------------------------------------- *)
(** * The statement without premise *)

Theorem models_agree up path t :
  same_decision up path (handle_report up path t) (st_decode (fun s => is_some (up s)) (tr t)).
Proof. exact (models_agree_decoded CardWireUint2.uint_agree_all up path t). Qed.

(** the same, quantified over ServerTotal's trees *)
Theorem models_agree_st up path T :
  same_decision up path (handle_report up path (untr T)) (st_decode (fun s => is_some (up s)) T).
Proof. pose proof (models_agree up path (untr T)) as H. rewrite tr_untr in H. exact H. Qed.

Lemma fold_opt_ext {A T} (f g : T -> A -> option T) l : (forall a x, f a x = g a x) ->
  forall acc, ST.fold_opt f l acc = ST.fold_opt g l acc.
Proof. intros H. induction l as [|x l IH]; intros acc; simpl; auto. rewrite H. destruct (g acc x); auto. Qed.

Lemma st_decode_ext u1 u2 T : (forall s, u1 s = u2 s) -> st_decode u1 T = st_decode u2 T.
Proof.
  intros H. unfold st_decode, ST.um_card_report.
  assert (E : forall d acc T', ST.um_multiget ST.NS_CARD "addressbook-multiget" u1 d acc T'
                               = ST.um_multiget ST.NS_CARD "addressbook-multiget" u2 d acc T').
  { intros d acc T'. unfold ST.um_multiget, ST.um_struct. destruct T' as [ns l a k| |]; auto.
    f_equal. destruct (ST.name_ok _ ns l); auto. destruct (ST.fold_opt ST.no_attr a acc); auto.
    rewrite (fold_opt_ext _ (fun acc k =>
       match ST.um_sel d (ST.mg_sel acc) k with
       | None => None
       | Some (Some s) => Some {| ST.mg_sel := s; ST.mg_hrefs := ST.mg_hrefs acc |}
       | Some None =>
         if ST.kid_is k ST.NS_DAV "href" then
           match ST.into_slice (ST.um_href u2) "" d (ST.mg_hrefs acc) k with
           | Some v => Some {| ST.mg_sel := ST.mg_sel acc; ST.mg_hrefs := v |} | None => None end
         else Some acc
       end)); [reflexivity|].
    intros a0 x. destruct (ST.um_sel d (ST.mg_sel a0) x) as [[?|]|]; auto.
    destruct (ST.kid_is x ST.NS_DAV "href"); auto. unfold ST.into_slice, ST.um_href.
    destruct x; auto. rewrite H. reflexivity. }
  rewrite E. reflexivity.
Qed.

(** and down to ServerTotal's response: for a REPORT request with an XML content type
    whose body is the tree [tr t], with a backend, not on the well-known path, the status
    and the calls ServerTotal computes are those of [st_continue] on a stage that makes
    the decision of [handle_report] *)
Theorem models_agree_serve env r up path t :
  ST.ae_has_backend env = true -> String.eqb (ST.r_path r) "/.well-known/carddav" = false ->
  ST.r_method r = "REPORT" -> ST.is_content_xml r = true -> ST.r_xml r = ST.XTree (tr t) ->
  (forall s, ST.r_url_ok r s = is_some (up s)) ->
  exists stage, ST.serve (ST.CCard env r) = ST.finish (st_continue env stage) /\
                same_decision up path (handle_report up path t) stage.
Proof.
  intros Hb Hp Hm Hc Hx Hu. exists (st_decode (ST.r_url_ok r) (tr t)). split.
  - apply st_factor_serve; assumption.
  - rewrite (st_decode_ext (ST.r_url_ok r) (fun s => is_some (up s)) (tr t) Hu). apply models_agree.
Qed.
