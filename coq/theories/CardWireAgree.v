(** CardWireAgree.v — C09: the two Coq models of the CardDAV server's REPORT decoding
    describe the same function.

    [CardWire.handle_report] (C09: body tree -> backend call with its arguments) and
    [ServerTotal.card_handle_report] (C13: request -> status / panic, the same decoders
    with results abstracted to "decoded or 400") were written independently after
    carddav/server.go and carddav/elements.go, over two representations of XML trees.
    This file translates C09's trees into C13's ([tr], onto), factors C13's handler into
    its decoding stage [st_decode] and the backend/response stage [st_continue]
    ([st_factor], by unfolding), and proves that on every tree both models make the
    same decision. *)
From Coq Require Import Lia.
From GW Require Import Base CardXml CardWire CardWireProofs CardWireProofs2.
From GW Require ServerTotal.
Module ST := ServerTotal.

(* ------------------------------------------------------------------------- *)
(** * Trees *)

Definition tr_attr (a : attr) : ST.xattr :=
  {| ST.a_ns := fst (fst a); ST.a_local := snd (fst a); ST.a_val := snd a |}.

Fixpoint tr (t : xtree) : ST.xtree :=
  match t with
  | Elem n a k => ST.XElem (fst n) (snd n) (map tr_attr a) (map tr k)
  | Text s => ST.XText s
  | Comment _ => ST.XOther
  end.

(** every tree of ServerTotal is the translation of a tree of CardXml *)
Definition untr_attr (a : ST.xattr) : attr := ((ST.a_ns a, ST.a_local a), ST.a_val a).
Fixpoint untr (t : ST.xtree) : xtree :=
  match t with
  | ST.XElem ns l a k => Elem (ns, l) (map untr_attr a) (map untr k)
  | ST.XText s => Text s
  | ST.XOther => Comment ""
  end.

Fixpoint st_ind2 (P : ST.xtree -> Prop)
    (He : forall ns l a k, Forall P k -> P (ST.XElem ns l a k))
    (Ht : forall s, P (ST.XText s)) (Ho : P ST.XOther) (t : ST.xtree) : P t :=
  match t with
  | ST.XElem ns l a k =>
    He ns l a k ((fix go (l : list ST.xtree) : Forall P l :=
                    match l with
                    | [] => Forall_nil P
                    | x :: r => Forall_cons x (st_ind2 P He Ht Ho x) (go r)
                    end) k)
  | ST.XText s => Ht s
  | ST.XOther => Ho
  end.

Lemma map_id_Forall {A} (f : A -> A) l : Forall (fun x => f x = x) l -> map f l = l.
Proof. induction 1; simpl; congruence. Qed.

Lemma tr_untr T : tr (untr T) = T.
Proof.
  induction T as [ns l a k IH| |] using st_ind2; try reflexivity.
  cbn [untr tr fst snd]. f_equal.
  - rewrite map_map. apply map_id_Forall. apply Forall_forall. intros [x y z] _. reflexivity.
  - rewrite map_map. apply map_id_Forall. exact IH.
Qed.

Lemma chardata_tr k : ST.chardata (map tr k) = chardata k.
Proof. induction k as [|x k IH]; simpl; auto. destruct x; simpl; auto. rewrite IH. reflexivity. Qed.

Lemma str_empty_eqb s : str_empty s = String.eqb s "".
Proof. symmetry. apply eqb_empty_r. Qed.

Lemma is_nsdecl_tr a : ST.is_ns_decl (tr_attr a) = is_nsdecl a.
Proof. unfold ST.is_ns_decl, is_nsdecl, tr_attr. cbn. rewrite str_empty_eqb. reflexivity. Qed.

Lemma filter_map_tr {A B} (f : A -> B) (p : B -> bool) (q : A -> bool) l :
  (forall x, p (f x) = q x) -> filter p (map f l) = map f (filter q l).
Proof. intros H. induction l as [|x l IH]; simpl; auto. rewrite H. destruct (q x); simpl; congruence. Qed.

(** RawXMLValue's capture *)
Lemma capture_tr t : ST.strip_decls (tr t) = tr (capture t).
Proof.
  induction t as [n a k IH|s|s] using xtree_ind2; try reflexivity.
  cbn [tr ST.strip_decls capture fst snd]. f_equal.
  - unfold without_nsdecls. apply filter_map_tr. intros x. rewrite is_nsdecl_tr. reflexivity.
  - rewrite !map_map. induction IH; simpl; congruence.
Qed.

(** unqualifiedAttrReader *)
Lemma strip_tr t : ST.drop_qualified (tr t) = tr (strip_qualified t).
Proof.
  induction t as [n a k IH|s|s] using xtree_ind2; try reflexivity.
  cbn [tr ST.drop_qualified strip_qualified fst snd]. f_equal.
  - unfold strip_attrs. apply filter_map_tr. intros x. unfold unqualified, tr_attr. cbn. apply str_empty_eqb.
  - rewrite !map_map. induction IH; simpl; congruence.
Qed.

(* ------------------------------------------------------------------------- *)
(** * The two unmarshalling loops *)

Definition res_opt {A} (r : res A) : option A := match r with Ok a => Some a | _ => None end.

(** [Rres R r o]: C09's result [r] and C13's result [o] agree up to [R] *)
Definition Rres {A B} (R : A -> B -> Prop) (r : res A) (o : option B) : Prop :=
  match r, o with
  | Ok a, Some b => R a b
  | Err c, None => c = 400%N
  | _, _ => False
  end.

Lemma chk_lt {A} d (k : option A) : (d < ST.MAXD)%N -> ST.chk d k = k.
Proof. intros H. unfold ST.chk. destruct (N.leb_spec ST.MAXD d); [lia|reflexivity]. Qed.

Lemma fold_attrs {W V} (R : W -> V -> Prop) set fa :
  (forall w v a, R w v -> Rres R (set (snd (fst a)) (snd a) w) (fa v (tr_attr a))) ->
  forall attrs w v, R w v -> Rres R (assign_attrs set w attrs) (ST.fold_opt fa (map tr_attr attrs) v).
Proof.
  intros H. induction attrs as [|a attrs IH]; intros w v HR; simpl; auto.
  specialize (H w v a HR). unfold attr, qname in *. destruct (set (snd (fst a)) (snd a) w) as [w1|c|], (fa v (tr_attr a)) as [v1|];
    cbn [Rres bind] in *; try contradiction; [apply IH, H|exact H].
Qed.

Lemma fold_kids {W V} (R : W -> V -> Prop) step fk :
  (forall w v n a k, R w v -> Rres R (step n a k w) (fk v (tr (Elem n a k)))) ->
  (forall v s, fk v (ST.XText s) = Some v) -> (forall v, fk v ST.XOther = Some v) ->
  forall kids w v, R w v -> Rres R (walk_kids step w kids) (ST.fold_opt fk (map tr kids) v).
Proof.
  intros H Ht Ho. induction kids as [|x kids IH]; intros w v HR; simpl; auto.
  destruct x as [n a k|s|s].
  - specialize (H w v n a k HR). cbn [tr] in H |- *.
    destruct (step n a k w) as [w1|c|], (fk v (ST.XElem (fst n) (snd n) (map tr_attr a) (map tr k))) as [v1|];
      cbn [Rres bind] in *; try contradiction; [apply IH, H|exact H].
  - cbn [tr]. rewrite Ht. apply IH, HR.
  - cbn [tr]. rewrite Ho. apply IH, HR.
Qed.

Lemma name_ok_tr ns local (n : qname) :
  ns <> "" -> ST.name_ok (Some (ns, local)) (fst n) (snd n) = check_name ns local n.
Proof.
  intros Hne. unfold ST.name_ok, check_name. rewrite (String.eqb_sym local), (String.eqb_sym ns).
  destruct ns; [contradiction|reflexivity].
Qed.

Lemma assign_trivial {W} (w : W) a : assign_attrs (fun _ _ w => Ok w) w a = Ok w.
Proof. induction a; simpl; auto. Qed.
Lemma walk_trivial {W} (w : W) k : walk_kids (fun _ _ _ w => Ok w) w k = Ok w.
Proof. induction k as [|x k IH]; simpl; auto. destruct x; auto. Qed.
Lemma bind_ok_r {A} (r : res A) : bind r (fun x => Ok x) = r.
Proof. destruct r; reflexivity. Qed.

(** one struct: XMLName check, attributes, children, character data *)
Lemma um_struct_agree {W V} (R : W -> V -> Prop) ns local set fa step fk ft (fin : W -> string -> W) d :
  ns <> "" -> (d < ST.MAXD)%N ->
  (forall w v a, R w v -> Rres R (set (snd (fst a)) (snd a) w) (fa v (tr_attr a))) ->
  (forall w v n a k, R w v -> Rres R (step n a k w) (fk v (tr (Elem n a k)))) ->
  (forall v s, fk v (ST.XText s) = Some v) -> (forall v, fk v ST.XOther = Some v) ->
  (forall w v s, R w v -> R (fin w s) (ft v s)) ->
  forall w v n a k, R w v ->
  Rres R (if negb (check_name ns local n) then CardWire.bad_request
          else do w1 <- assign_attrs set w a; do w2 <- walk_kids step w1 k; Ok (fin w2 (chardata k)))
       (ST.um_struct (Some (ns, local)) fa fk ft d v (tr (Elem n a k))).
Proof.
  intros Hns Hd Ha Hk Ht Ho Hf w v n a k HR. cbn [tr ST.um_struct]. rewrite (chk_lt _ _ Hd), (name_ok_tr _ _ _ Hns).
  destruct (check_name ns local n); cbn [negb]; [|reflexivity].
  pose proof (fold_attrs R set fa Ha a w v HR) as A.
  destruct (assign_attrs set w a) as [w1|c|], (ST.fold_opt fa (map tr_attr a) v) as [v1|]; cbn [Rres bind] in *; try contradiction; [|exact A].
  pose proof (fold_kids R step fk Hk Ht Ho k w1 v1 A) as K.
  destruct (walk_kids step w1 k) as [w2|c|], (ST.fold_opt fk (map tr k) v1) as [v2|]; cbn [Rres bind] in *; try contradiction; [|exact K].
  rewrite chardata_tr. apply Hf, K.
Qed.

(* ------------------------------------------------------------------------- *)
(** * The wire structs of carddav/elements.go *)

Definition tr_tm (w : w_text_match) : ST.textMatchW :=
  {| ST.tm_text := wtm_text w; ST.tm_collation := wtm_collation w; ST.tm_negate := wtm_negate w; ST.tm_type := wtm_match w |}.
Definition tr_pa (w : w_param_filter) : ST.paramFilterW :=
  {| ST.paf_name := wpa_name w; ST.paf_ind := wpa_ind w; ST.paf_tm := option_map tr_tm (wpa_tm w) |}.
Definition tr_pf (w : w_prop_filter) : ST.apropFilterW :=
  {| ST.apf_name := wpf_name w; ST.apf_test := wpf_test w; ST.apf_ind := wpf_ind w;
     ST.apf_tms := map tr_tm (wpf_tms w); ST.apf_params := map tr_pa (wpf_params w) |}.
Definition tr_f (w : w_filter) : ST.cardFilterW :=
  {| ST.af_test := wf_test w; ST.af_props := map tr_pf (wf_props w) |}.
Definition tr_raw (r : raw_value) : ST.rawval :=
  match r with RawOut _ => ST.RawOut | RawTok t => ST.RawTok (tr t) end.
Definition tr_ad (w : w_address_data) : ST.addrDataW :=
  {| ST.ad_props := wad_props w; ST.ad_allprop := wad_allprop w |}.

Definition Eq {W V} (f : W -> V) (w : W) (v : V) : Prop := v = f w.

Ltac done_eq := cbn [Rres bind]; unfold Eq; try reflexivity.

Lemma negate_cases v : Rres (fun x y => y = x) (unmarshal_negate v) (ST.parse_yes_no v).
Proof. unfold unmarshal_negate, ST.parse_yes_no. destruct (String.eqb v "yes"), (String.eqb v "no"); simpl; auto. Qed.

Lemma tm_agree d w0 n a k : (d < ST.MAXD)%N ->
  Rres (Eq tr_tm) (unmarshal_text_match w0 n a k) (ST.um_text_match true ST.NS_CARD d (tr_tm w0) (tr (Elem n a k))).
Proof.
  intros Hd. unfold unmarshal_text_match, ST.um_text_match.
  replace (do w <- assign_attrs tm_set w0 a; Ok (mkWTM (chardata k) (wtm_collation w) (wtm_negate w) (wtm_match w)))
    with (do w1 <- assign_attrs tm_set w0 a; do w2 <- walk_kids (fun _ _ _ w => Ok w) w1 k;
          Ok ((fun w s => mkWTM s (wtm_collation w) (wtm_negate w) (wtm_match w)) w2 (chardata k))).
  2:{ destruct (assign_attrs tm_set w0 a); cbn [bind]; auto. rewrite walk_trivial. reflexivity. }
  match goal with |- Rres _ _ (ST.um_struct _ ?fa ?fk ?ft _ _ _) =>
    apply (um_struct_agree (Eq tr_tm) NS_CARD "text-match" tm_set fa (fun _ _ _ w => Ok w) fk ft
             (fun w s => mkWTM s (wtm_collation w) (wtm_negate w) (wtm_match w)) d) end;
    auto; try discriminate; try reflexivity.
  - intros w v x E. unfold Eq in E. subst v. unfold tm_set, tr_attr. cbn [ST.a_local ST.a_val fst snd andb].
    unfold attr, qname in *.
    destruct (String.eqb (snd (fst x)) "collation"); [done_eq|].
    destruct (String.eqb (snd (fst x)) "negate-condition").
    { pose proof (negate_cases (snd x)) as N. destruct (unmarshal_negate (snd x)), (ST.parse_yes_no (snd x)); cbn [Rres bind] in *; try contradiction; auto. subst. done_eq. }
    destruct (String.eqb (snd (fst x)) "match-type"); [|done_eq].
    unfold unmarshal_match_type, ST.match_type_ok. destruct (_ || _); done_eq.
  - intros w v s E. unfold Eq in E. subst v. done_eq.
Qed.

Ltac dlt := unfold ST.MAXD in *; lia.
Ltac substE := match goal with E : Eq _ _ _ |- _ => unfold Eq in E; subst end.

Lemma kid_local_tr n a k l : ST.kid_local (tr (Elem n a k)) l = String.eqb (snd n) l.
Proof. reflexivity. Qed.
Lemma kid_is_tr n a k ns l : ST.kid_is (tr (Elem n a k)) ns l = qname_eqb n (ns, l).
Proof. reflexivity. Qed.

Lemma pa_agree d w0 n a k : (d + 5 < ST.MAXD)%N ->
  Rres (Eq tr_pa) (unmarshal_param_filter w0 n a k) (ST.um_param_filter true ST.NS_CARD d (tr_pa w0) (tr (Elem n a k))).
Proof.
  intros Hd. unfold unmarshal_param_filter, ST.um_param_filter.
  replace (do w <- assign_attrs pa_set w0 a; walk_kids pa_step w k)
    with (do w1 <- assign_attrs pa_set w0 a; do w2 <- walk_kids pa_step w1 k; Ok ((fun w (_ : string) => w) w2 (chardata k))).
  2:{ destruct (assign_attrs pa_set w0 a); cbn [bind]; auto. apply bind_ok_r. }
  match goal with |- Rres _ _ (ST.um_struct _ ?fa ?fk ?ft _ _ _) =>
    apply (um_struct_agree (Eq tr_pa) NS_CARD "param-filter" pa_set fa pa_step fk ft (fun w _ => w) d) end;
    auto; try discriminate; try reflexivity; try dlt.
  - intros w v x E. substE. unfold pa_set, tr_attr. cbn [ST.a_local ST.a_val fst snd]. unfold attr, qname in *.
    destruct (String.eqb (snd (fst x)) "name"); done_eq.
  - intros w v n0 a0 k0 E. substE. unfold pa_step. rewrite !kid_local_tr.
    destruct (String.eqb (snd n0) "is-not-defined").
    { unfold ST.into_flag. rewrite chk_lt by dlt. done_eq. }
    destruct (String.eqb (snd n0) "text-match"); [|done_eq].
    unfold ST.into_ptr. cbn [tr_pa ST.paf_tm ST.paf_name ST.paf_ind].
    replace (match option_map tr_tm (wpa_tm w) with Some u => u | None => ST.text_match_zero end)
      with (tr_tm (dflt wtm_zero (wpa_tm w))) by (destruct (wpa_tm w); reflexivity).
    pose proof (tm_agree (d + 1) (dflt wtm_zero (wpa_tm w)) n0 a0 k0 ltac:(dlt)) as T.
    destruct (unmarshal_text_match _ n0 a0 k0), (ST.um_text_match _ _ _ _ _); cbn [Rres bind] in *; try contradiction; auto.
    substE. done_eq.
Qed.

Lemma pf_agree d w0 n a k : (d + 10 < ST.MAXD)%N ->
  Rres (Eq tr_pf) (unmarshal_prop_filter w0 n a k) (ST.um_aprop_filter d (tr_pf w0) (tr (Elem n a k))).
Proof.
  intros Hd. unfold unmarshal_prop_filter, ST.um_aprop_filter.
  replace (do w <- assign_attrs pf_set w0 a; walk_kids pf_step w k)
    with (do w1 <- assign_attrs pf_set w0 a; do w2 <- walk_kids pf_step w1 k; Ok ((fun w (_ : string) => w) w2 (chardata k))).
  2:{ destruct (assign_attrs pf_set w0 a); cbn [bind]; auto. apply bind_ok_r. }
  match goal with |- Rres _ _ (ST.um_struct _ ?fa ?fk ?ft _ _ _) =>
    apply (um_struct_agree (Eq tr_pf) NS_CARD "prop-filter" pf_set fa pf_step fk ft (fun w _ => w) d) end;
    auto; try discriminate; try reflexivity; try dlt.
  - intros w v x E. substE. unfold pf_set, tr_attr. cbn [ST.a_local ST.a_val fst snd]. unfold attr, qname in *.
    destruct (String.eqb (snd (fst x)) "name"); [done_eq|].
    destruct (String.eqb (snd (fst x)) "test"); [|done_eq].
    unfold unmarshal_filter_test, ST.filter_test_ok. destruct (_ || _); done_eq.
  - intros w v n0 a0 k0 E. substE. unfold pf_step. rewrite !kid_local_tr.
    destruct (String.eqb (snd n0) "is-not-defined").
    { unfold ST.into_flag. rewrite chk_lt by dlt. done_eq. }
    destruct (String.eqb (snd n0) "text-match").
    { unfold ST.into_slice. rewrite chk_lt by dlt.
      pose proof (tm_agree (d + 2) wtm_zero n0 a0 k0 ltac:(dlt)) as T.
      change (tr_tm wtm_zero) with ST.text_match_zero in T.
      destruct (unmarshal_text_match _ n0 a0 k0), (ST.um_text_match _ _ _ _ _); cbn [Rres bind] in *; try contradiction; auto.
      substE. unfold Eq, tr_pf. cbn. rewrite map_app. reflexivity. }
    destruct (String.eqb (snd n0) "param-filter"); [|done_eq].
    unfold ST.into_slice. rewrite chk_lt by dlt.
    pose proof (pa_agree (d + 2) wpa_zero n0 a0 k0 ltac:(dlt)) as T.
    change (tr_pa wpa_zero) with ST.param_filter_zero in T.
    destruct (unmarshal_param_filter _ n0 a0 k0), (ST.um_param_filter _ _ _ _ _); cbn [Rres bind] in *; try contradiction; auto.
    substE. unfold Eq, tr_pf. cbn. rewrite map_app. reflexivity.
Qed.

Lemma f_agree d w0 n a k : (d + 20 < ST.MAXD)%N ->
  Rres (Eq tr_f) (unmarshal_filter w0 n a k) (ST.um_card_filter d (tr_f w0) (tr (Elem n a k))).
Proof.
  intros Hd. unfold unmarshal_filter, ST.um_card_filter.
  replace (do w <- assign_attrs f_set w0 a; walk_kids f_step w k)
    with (do w1 <- assign_attrs f_set w0 a; do w2 <- walk_kids f_step w1 k; Ok ((fun w (_ : string) => w) w2 (chardata k))).
  2:{ destruct (assign_attrs f_set w0 a); cbn [bind]; auto. apply bind_ok_r. }
  match goal with |- Rres _ _ (ST.um_struct _ ?fa ?fk ?ft _ _ _) =>
    apply (um_struct_agree (Eq tr_f) NS_CARD "filter" f_set fa f_step fk ft (fun w _ => w) d) end;
    auto; try discriminate; try reflexivity; try dlt.
  - intros w v x E. substE. unfold f_set, tr_attr. cbn [ST.a_local ST.a_val fst snd]. unfold attr, qname in *.
    destruct (String.eqb (snd (fst x)) "test"); [|done_eq].
    unfold unmarshal_filter_test, ST.filter_test_ok. destruct (_ || _); done_eq.
  - intros w v n0 a0 k0 E. substE. unfold f_step. rewrite !kid_local_tr.
    destruct (String.eqb (snd n0) "prop-filter"); [|done_eq].
    unfold ST.into_slice. rewrite chk_lt by dlt.
    pose proof (pf_agree (d + 2) wpf_zero n0 a0 k0 ltac:(dlt)) as T.
    change (tr_pf wpf_zero) with ST.aprop_filter_zero in T.
    destruct (unmarshal_prop_filter _ n0 a0 k0), (ST.um_aprop_filter _ _ _); cbn [Rres bind] in *; try contradiction; auto.
    substE. unfold Eq, tr_f. cbn. rewrite map_app. reflexivity.
Qed.

(** address-data, decoded from the captured element *)
Lemma cprop_agree d n a k : (d + 2 < ST.MAXD)%N ->
  Rres (Eq (fun s : string => s)) (unmarshal_cprop n a k) (ST.um_named ST.NS_CARD "prop" d "" (tr (Elem n a k))).
Proof.
  intros Hd. unfold unmarshal_cprop, ST.um_named.
  replace (assign_attrs cprop_set "" a)
    with (do w1 <- assign_attrs cprop_set "" a; do w2 <- walk_kids (fun _ _ _ w => Ok w) w1 k; Ok ((fun w (_ : string) => w) w2 (chardata k))).
  2:{ destruct (assign_attrs cprop_set "" a); cbn [bind]; auto. rewrite walk_trivial. reflexivity. }
  match goal with |- Rres _ _ (ST.um_struct _ ?fa ?fk ?ft _ _ _) =>
    apply (um_struct_agree (Eq (fun s : string => s)) NS_CARD "prop" cprop_set fa (fun _ _ _ w => Ok w) fk ft (fun w _ => w) d) end;
    auto; try discriminate; try reflexivity; try dlt.
  intros w v x E. substE. unfold cprop_set, tr_attr. cbn [ST.a_local ST.a_val fst snd]. unfold attr, qname in *.
  destruct (String.eqb (snd (fst x)) "name"); done_eq.
Qed.

Lemma ad_agree d w0 n a k : (d + 5 < ST.MAXD)%N ->
  Rres (Eq tr_ad) (unmarshal_address_data w0 n a k) (ST.um_addr_data d (tr_ad w0) (tr (Elem n a k))).
Proof.
  intros Hd. unfold unmarshal_address_data, ST.um_addr_data.
  replace (walk_kids ad_step w0 k)
    with (do w1 <- assign_attrs (fun _ _ w => Ok w) w0 a; do w2 <- walk_kids ad_step w1 k; Ok ((fun w (_ : string) => w) w2 (chardata k))).
  2:{ rewrite assign_trivial. cbn [bind]. apply bind_ok_r. }
  match goal with |- Rres _ _ (ST.um_struct _ ?fa ?fk ?ft _ _ _) =>
    apply (um_struct_agree (Eq tr_ad) NS_CARD "address-data" (fun _ _ w => Ok w) fa ad_step fk ft (fun w _ => w) d) end;
    auto; try discriminate; try reflexivity; try dlt.
  intros w v n0 a0 k0 E. substE. unfold ad_step. rewrite !kid_local_tr.
  destruct (String.eqb (snd n0) "prop").
  { unfold ST.into_slice. rewrite chk_lt by dlt.
    pose proof (cprop_agree (d + 2) n0 a0 k0 ltac:(dlt)) as T.
    destruct (unmarshal_cprop n0 a0 k0), (ST.um_named _ _ _ _ _); cbn [Rres bind] in *; try contradiction; auto.
    substE. done_eq. }
  destruct (String.eqb (snd n0) "allprop"); [|done_eq].
  unfold ST.into_flag. rewrite chk_lt by dlt. done_eq.
Qed.
