(** ObjCodecsProofs.v — the premises of C10's end-to-end theorems discharged from C16's
    theorems for the modelled codecs (ObjCodecs.v), and the end-to-end theorems restated
    without them ([…_modelled]).  What remains as a premise: the round trip of the
    go-ical / go-vcard codecs ([pay_rt]) and the domains C16 states (paths in
    [href_in_domain], instants of the years 0..9999, any byte string as entity tag). *)
From GW Require Import Base Wire WireProofs Civil CivilSweep CivilProofs Quote Utf8Proofs QuoteProofs Href HrefProofs.
From GW Require Import ObjXml Objects ObjRfc ObjCheck ObjCodecs ObjectsProofs ObjectsE2E ObjectsReader ObjectsVariants.

Local Open Scope Z_scope.
Local Open Scope list_scope.

Section Modelled.
Variable ip : N -> bool.
Variable pe pd : flavor -> string -> option string.
Variable st : Z -> string.

Notation mcd := (modelled_cd ip pe pd st).
Notation mhd := (modelled_hd ip pe pd st).

(* ------------------------------------------------------------------ *)
(** * The round-trip laws, from C16 *)

Lemma m_href_roundtrip p : href_in_domain p = true -> m_href_dec (m_href_enc p) = Some p.
Proof. intros H. unfold m_href_dec, m_href_enc. rewrite href_roundtrip by exact H. reflexivity. Qed.

Lemma m_href_nonempty p : href_in_domain p = true -> str_empty (m_href_enc p) = false.
Proof.
  intros H. destruct (str_empty (m_href_enc p)) eqn:E; [|reflexivity].
  apply str_empty_spec in E. pose proof (m_href_roundtrip p H) as R. rewrite E in R.
  vm_compute in R. inversion R. subst p. discriminate.
Qed.

Lemma m_etag_roundtrip e : m_etag_dec (etag_marshal ip e) = Some e.
Proof. unfold m_etag_dec. rewrite etag_roundtrip. reflexivity. Qed.
Lemma m_etag_nonempty e : str_empty (etag_marshal ip e) = false.
Proof. reflexivity. Qed.

Lemma year_ok_range s : year_ok s = true -> 0 <= year_of_unix s <= 9999.
Proof. unfold year_ok. intros H. apply andb_true_iff in H. destruct H as [A B]. apply Z.leb_le in A. apply Z.leb_le in B. lia. Qed.

Lemma m_time_roundtrip s : year_ok s = true -> m_time_dec (m_time_enc s) = Some s.
Proof. intros H. unfold m_time_dec, m_time_enc. rewrite time_roundtrip by (apply year_ok_range, H). reflexivity. Qed.
Lemma m_time_nonempty s : year_ok s = true -> str_empty (m_time_enc s) = false.
Proof.
  intros H. destruct (str_empty (m_time_enc s)) eqn:E; [|reflexivity].
  apply str_empty_spec in E. pose proof (m_time_roundtrip s H) as R. rewrite E in R.
  vm_compute in R. discriminate.
Qed.

(* ------------------------------------------------------------------ *)
(** * The premises of the general theorems hold on the domains *)

Lemma path_ok_modelled p : href_in_domain p = true -> path_ok mcd p = true.
Proof. intros H. unfold path_ok. cbn [href_enc href_dec modelled_cd]. rewrite m_href_roundtrip by exact H. cbn. apply String.eqb_refl. Qed.

Lemma href_ok_modelled p : href_in_domain p = true -> href_ok mcd p.
Proof. intros H. unfold href_ok. cbn [href_enc modelled_cd]. apply m_href_nonempty, H. Qed.

Lemma obj_codec_ok_modelled fl o : obj_dom pe pd fl o = true -> obj_codec_ok mcd fl o = true.
Proof.
  unfold obj_dom, obj_codec_ok. rewrite !andb_true_iff. intros [[[HP HM] HD] HL].
  repeat split.
  - apply path_ok_modelled, HP.
  - cbn [etag_enc etag_dec modelled_cd]. rewrite m_etag_roundtrip. cbn. rewrite String.eqb_refl. apply orb_true_r.
  - unfold meta_dom in HM. destruct (is_zero_time o); [reflexivity|]. cbn [orb] in HM |- *.
    cbn [time_enc time_dec modelled_cd]. rewrite m_time_roundtrip by exact HM. apply Z.eqb_refl.
  - exact HD.
  - exact HL.
Qed.

Lemma hdr_meta_ok_modelled o : meta_dom o = true -> hdr_meta_ok mcd mhd o = true.
Proof.
  intros HM. unfold hdr_meta_ok. apply andb_true_iff. split.
  - cbn [etag_enc etag_dec modelled_cd modelled_hd]. rewrite unquote_quote. cbn. rewrite String.eqb_refl. apply orb_true_r.
  - unfold meta_dom in HM. destruct (is_zero_time o); [reflexivity|]. cbn [orb] in HM |- *.
    cbn [time_enc time_dec modelled_hd]. rewrite m_time_nonempty, m_time_roundtrip by exact HM. cbn. apply Z.eqb_refl.
Qed.

Lemma hdr_loc_ok_modelled o : loc_dom o = true -> hdr_loc_ok mhd o = true.
Proof.
  unfold loc_dom, hdr_loc_ok. destruct (str_empty (o_path o)); [reflexivity|]. cbn [orb]. intros H.
  cbn [href_enc href_dec modelled_hd]. rewrite m_href_nonempty, m_href_roundtrip by exact H. cbn. apply String.eqb_refl.
Qed.

Lemma coll_codec_ok_modelled c : coll_dom c = true -> coll_codec_ok mcd c = true.
Proof.
  unfold coll_dom, coll_codec_ok. rewrite !andb_true_iff. intros [HP HM]. split; [apply path_ok_modelled, HP | exact HM].
Qed.

Lemma outcome_ok_modelled fl h out : outcome_dom pe pd fl h out = true -> outcome_ok mcd fl h out = true.
Proof.
  destruct out as [o | c d p]; cbn [outcome_dom outcome_ok].
  - rewrite !andb_true_iff. intros [H E]. split; [apply obj_codec_ok_modelled, H | exact E].
  - rewrite !andb_true_iff. intros [[[HP H1] H2] H3]. repeat split; try assumption.
    + apply path_ok_modelled, HP.
    + apply negb_true_iff in H1. clear - H2 H3. apply Z.leb_le in H2. apply Z.leb_le in H3.
      unfold int64_ok. apply andb_true_iff. split; [apply Z.leb_le | apply Z.ltb_lt]; lia.
Qed.

Lemma forallb_impl {A} (f g : A -> bool) l : (forall x, f x = true -> g x = true) -> forallb f l = true -> forallb g l = true.
Proof. intros H. rewrite !forallb_forall. intros F x Hx. apply H, F, Hx. Qed.

(* ------------------------------------------------------------------ *)
(** * The end-to-end theorems on the modelled codecs *)

Theorem query_modelled fl principal os :
  forallb (obj_dom pe pd fl) os = true ->
  e2e_query mcd fl principal os = COk (map report_view os).
Proof. intros H. apply query_roundtrip. eapply forallb_impl; [|exact H]. intros o. apply obj_codec_ok_modelled. Qed.

Theorem multiget_modelled fl principal backend hrefs :
  forallb (fun h => outcome_dom pe pd fl h (backend h)) hrefs = true ->
  e2e_multiget mcd fl principal backend hrefs = spec_multiget_client backend hrefs.
Proof.
  intros H. apply multiget_roundtrip. eapply forallb_impl; [|exact H]. intros h. apply outcome_ok_modelled.
Qed.

Theorem find_modelled fl principal home cs :
  forallb coll_dom cs = true -> href_in_domain home = true ->
  e2e_find mcd fl principal home cs = COk (map (coll_spec_view fl) cs).
Proof.
  intros H HH. apply find_roundtrip; [|apply path_ok_modelled, HH].
  eapply forallb_impl; [|exact H]. intros c. apply coll_codec_ok_modelled.
Qed.

Theorem get_modelled fl reqpath o :
  obj_dom pe pd fl o = true ->
  e2e_get mcd mhd fl reqpath (Found o) = COk (get_view reqpath o).
Proof.
  intros H. apply get_roundtrip; [apply obj_codec_ok_modelled, H|].
  apply hdr_meta_ok_modelled. unfold obj_dom in H. rewrite !andb_true_iff in H. tauto.
Qed.

Theorem put_modelled fl reqpath data o :
  pay_rt pe pd fl data = true -> loc_dom o = true -> meta_dom o = true ->
  e2e_put mcd mhd fl reqpath data (Found o) = (COk (put_view reqpath o), Some data).
Proof.
  intros HD HL HM. unfold pay_rt in HD. destruct (pe fl data) as [b|] eqn:EB; [|discriminate].
  apply (put_roundtrip mcd mhd fl reqpath data o b);
    [exact EB | apply opt_str_is_true, HD | apply hdr_loc_ok_modelled, HL | apply hdr_meta_ok_modelled, HM].
Qed.

Theorem put_failure_modelled fl reqpath data c d p :
  pay_rt pe pd fl data = true -> (Z.quot (fail_code c) 100 =? 2) = false ->
  e2e_put mcd mhd fl reqpath data (Failed c d p) = (CHttp (fail_code c), Some data).
Proof.
  intros HD HC. unfold pay_rt in HD. destruct (pe fl data) as [b|] eqn:EB; [|discriminate].
  apply (put_failure mcd mhd fl reqpath data c d p b); [exact EB | apply opt_str_is_true, HD | exact HC].
Qed.

(** SyncCollection: a member is in the domain *)
Definition member_dom (reqpath : string) (m : member) : Prop :=
  match m with
  | Changed p e s => href_in_domain p = true /\ year_ok s = true /\ p <> reqpath /\ reqpath <> (p ++ "/")%string
  | Gone p => href_in_domain p = true
  end.
Theorem sync_modelled reqpath members token :
  (forall m, In m members -> member_dom reqpath m) ->
  sync_collection mcd reqpath (rfc_write (sync_doc mcd members token)) = COk (token, map sync_item_of members).
Proof.
  intros H. apply sync_reads_canonical. intros m Hm. specialize (H m Hm).
  destruct m as [p e s | p]; cbn [member_dom member_ok] in *.
  - destruct H as (HP & HY & N1 & N2). cbn [href_enc href_dec etag_enc etag_dec time_enc time_dec modelled_cd].
    repeat split; [apply m_href_roundtrip, HP | apply m_etag_roundtrip | apply m_time_roundtrip, HY | exact N1 | exact N2].
  - cbn [href_enc href_dec modelled_cd]. apply m_href_roundtrip, H.
Qed.

(** The independent reader on the servers' bodies *)
Theorem reader_query_modelled fl principal req os :
  req <> [] -> (forall o, In o os -> href_in_domain (o_path o) = true) ->
  exists T, rfc4918_read_multistatus (server_query mcd fl principal req os) = Some T
            /\ chunks_ok (object_rows mcd fl principal req) os T.
Proof. intros HR H. apply reader_query; [exact HR|]. intros o Ho. apply href_ok_modelled, H, Ho. Qed.

Definition multiget_href_dom (backend : string -> outcome) (h : string) : Prop :=
  match backend h with
  | Found o => href_in_domain (o_path o) = true
  | Failed c _ _ => href_in_domain h = true /\ 100 <= fail_code c <= 999
  end.
Theorem reader_multiget_modelled fl principal req backend hrefs :
  req <> [] -> (forall h, In h hrefs -> multiget_href_dom backend h) ->
  exists T, rfc4918_read_multistatus (server_multiget mcd fl principal req backend hrefs) = Some T
            /\ chunks_ok (multiget_rows mcd fl principal req backend) hrefs T.
Proof.
  intros HR H. apply reader_multiget; [exact HR|]. intros h Hh. specialize (H h Hh).
  unfold multiget_href_dom in H. unfold multiget_href_ok. destruct (backend h).
  - apply href_ok_modelled, H.
  - destruct H. split; [apply href_ok_modelled; assumption | assumption].
Qed.

Theorem reader_listing_modelled fl principal req c os :
  req <> [] -> href_in_domain (c_path c) = true -> (forall o, In o os -> href_in_domain (o_path o) = true) ->
  exists T0 T, rfc4918_read_multistatus (server_propfind_collection mcd fl principal req c os) = Some (T0 ++ T)
               /\ collection_rows mcd fl principal req c T0 /\ chunks_ok (object_rows mcd fl principal req) os T.
Proof.
  intros HR HC H. apply reader_propfind_collection; [exact HR | apply href_ok_modelled, HC|].
  intros o Ho. apply href_ok_modelled, H, Ho.
Qed.

Theorem reader_discovery_modelled fl principal home req cs :
  req <> [] -> href_in_domain home = true -> (forall c, In c cs -> href_in_domain (c_path c) = true) ->
  exists T0 T, rfc4918_read_multistatus (server_propfind_homeset mcd fl principal home req cs) = Some (T0 ++ T)
               /\ chunks_ok (collection_rows mcd fl principal req) cs T.
Proof.
  intros HR HH H. apply reader_find; [exact HR | apply href_ok_modelled, HH|].
  intros c Hc. apply href_ok_modelled, H, Hc.
Qed.

End Modelled.
