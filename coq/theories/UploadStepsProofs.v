(** UploadStepsProofs.v — the OS-call sequence of the upload (UploadSteps.v) computes
    the single step of [DavServer.do_put], with Leibniz equality of the whole
    sandbox: whatever pieces the body arrives in, wherever it breaks off, whatever
    the (new) temporary name. *)
From GW Require Import Base GoPath Fs DavServer FsProofs UploadSteps.
Local Open Scope list_scope.

(** * Association lists: undoing an insertion or a replacement *)

Lemma del_ins k v l : assoc k l = None -> del_assoc k (ins_assoc k v l) = l.
Proof.
  induction l as [|[k' v'] r IH]; intros H; cbn in *.
  - rewrite String.eqb_refl. reflexivity.
  - destruct (String.eqb k' k) eqn:E; [discriminate|].
    destruct (str_ltb k k'); cbn; rewrite ?String.eqb_refl; cbn; rewrite E; cbn.
    + f_equal. clear IH. induction r as [|[k2 v2] r2 IH2]; [reflexivity|].
      cbn in *. destruct (String.eqb k2 k) eqn:E2; [discriminate|]. cbn. f_equal. apply IH2. exact H.
    + f_equal. apply IH. exact H.
Qed.

Lemma rep_ins k v v' l : assoc k l = None -> rep_assoc k v' (ins_assoc k v l) = ins_assoc k v' l.
Proof.
  induction l as [|[k' w] r IH]; intros H; cbn in *.
  - rewrite String.eqb_refl. reflexivity.
  - destruct (String.eqb k' k) eqn:E; [discriminate|].
    destruct (str_ltb k k'); cbn; rewrite ?String.eqb_refl; [reflexivity|].
    rewrite E. f_equal. apply IH. exact H.
Qed.

Lemma rep_rep k v v' l : rep_assoc k v (rep_assoc k v' l) = rep_assoc k v l.
Proof.
  induction l as [|[k' w] r IH]; [reflexivity|]. cbn.
  destruct (String.eqb k' k) eqn:E; cbn; rewrite ?String.eqb_refl, ?E; [reflexivity|]. f_equal. exact IH.
Qed.

Lemma rep_back k c l : assoc k l = Some c -> rep_assoc k c l = l.
Proof.
  induction l as [|[k' w] r IH]; intros H; [reflexivity|]. cbn in *.
  destruct (String.eqb k' k) eqn:E.
  - apply String.eqb_eq in E. inversion H; subst. reflexivity.
  - f_equal. apply IH. exact H.
Qed.

Lemma assoc_rep_some k v l : assoc k l <> None -> assoc k (rep_assoc k v l) <> None.
Proof. intros H. rewrite assoc_rep_same by exact H. discriminate. Qed.

Lemma set_set k c c' ch : set_assoc k c (set_assoc k c' ch) = set_assoc k c ch.
Proof.
  unfold set_assoc at 1. rewrite assoc_set_same. unfold set_assoc.
  destruct (assoc k ch) eqn:E.
  - apply rep_rep.
  - apply rep_ins. exact E.
Qed.

Lemma set_back k c ch : assoc k ch = Some c -> set_assoc k c ch = ch.
Proof. intros H. unfold set_assoc. rewrite H. apply rep_back. exact H. Qed.

Lemma str_app_empty_r (s : string) : (s ++ "")%string = s.
Proof. induction s as [|a s IH]; cbn; [reflexivity|rewrite IH; reflexivity]. Qed.

Lemma str_app_assoc (a b c : string) : ((a ++ b) ++ c)%string = (a ++ (b ++ c))%string.
Proof. induction a as [|x a IH]; cbn; [reflexivity|rewrite IH; reflexivity]. Qed.

(** * Trees *)

(** Mapping something at a path where nothing was, then unmapping it, gives back the
    very same tree. *)
Lemma remo_seto_fresh p : forall on x t,
  p <> [] -> geto on p = None -> seto on p x = Some t -> remo (Some t) p = on.
Proof.
  induction p as [|s r IH]; intros on x t Hne Hg Hs; [congruence|].
  rewrite seto_cons in Hs. destruct on as [[c m|ch]|]; try discriminate.
  destruct (seto (assoc s ch) r x) as [c'|] eqn:E; [|discriminate].
  inversion Hs; subst t; clear Hs.
  cbn [remo]. rewrite assoc_set_same.
  destruct r as [|s2 r2].
  - cbn in E. inversion E; subst c'. cbn [remo]. cbn in Hg.
    unfold set_assoc. rewrite Hg. rewrite del_ins by exact Hg. reflexivity.
  - cbn [geto] in Hg.
    destruct (assoc s ch) as [c0|] eqn:Ea.
    2:{ cbn in E. discriminate. }
    rewrite (IH (Some c0) x c') by (congruence || assumption).
    rewrite set_set, set_back by exact Ea. reflexivity.
Qed.

(** Mapping twice at the same path is mapping the second node. *)
Lemma seto_seto p : forall on x y t, seto on p x = Some t -> seto (Some t) p y = seto on p y.
Proof.
  induction p as [|s r IH]; intros on x y t H; [reflexivity|].
  rewrite seto_cons in H. destruct on as [[c m|ch]|]; try discriminate.
  destruct (seto (assoc s ch) r x) as [c'|] eqn:E; [|discriminate].
  inversion H; subst t; clear H.
  rewrite !seto_cons. rewrite assoc_set_same.
  rewrite (IH _ _ y _ E).
  destruct (seto (assoc s ch) r y); [|reflexivity].
  rewrite set_set. reflexivity.
Qed.

Lemma geto_seto_self p on x t : seto on p x = Some t -> geto (Some t) p = Some x.
Proof. intros H. rewrite <- (app_nil_r p). rewrite (geto_seto_at _ _ _ _ [] H). reflexivity. Qed.

(** * The upload *)

Section Upload.
  Variables (sb : option node) (dir : path) (tmp name : string) (st : N).
  Hypothesis Hdir : is_dir (geto sb dir) = true.
  Hypothesis Hfresh : geto sb (dir ++ [tmp]) = None.      (* O_EXCL: the temporary name is new *)

  Let tmpP := u_tmp dir tmp.
  Let tgtP := u_tgt dir name.

  Lemma tmpP_not_nil : tmpP <> [].
  Proof. unfold tmpP, u_tmp. destruct dir; discriminate. Qed.

  Lemma tmp_file_ok w : exists t, seto sb tmpP (File w st) = Some t.
  Proof.
    apply seto_ok; [apply tmpP_not_nil|]. unfold tmpP, u_tmp. rewrite removelast_last. exact Hdir.
  Qed.

  (** "sb plus the temporary file holding [w]" *)
  Definition with_tmp (w : string) (s : option node) : Prop :=
    exists t, s = Some t /\ seto sb tmpP (File w st) = Some t.

  Lemma with_tmp_without w s : with_tmp w s -> remo s tmpP = sb.
  Proof.
    intros (t & -> & Ht). apply (remo_seto_fresh tmpP sb (File w st) t); [apply tmpP_not_nil|exact Hfresh|exact Ht].
  Qed.

  Lemma create_with_tmp : with_tmp "" (u_create sb dir tmp st).
  Proof. destruct (tmp_file_ok "") as [t Ht]. exists t. split; [exact Ht|exact Ht]. Qed.

  Lemma write_with_tmp w w' s : with_tmp w s -> with_tmp w' (u_write dir tmp st w' s).
  Proof.
    intros (t & -> & Ht). unfold u_write. fold tmpP.
    rewrite (seto_seto tmpP sb (File w st) (File w' st) t Ht).
    destruct (tmp_file_ok w') as [t' Ht']. exists t'. split; assumption.
  Qed.

  (** Every state the upload passes through is the original sandbox plus the
      temporary file, which holds the bytes received so far. *)
  Lemma writes_with_tmp chunks : forall s acc l e a,
    with_tmp acc s -> u_writes dir tmp st s acc chunks = (l, e, a) ->
    a = (acc ++ concat_str chunks)%string /\ with_tmp a e /\
    Forall (fun s' => exists w, with_tmp w s') l.
  Proof.
    induction chunks as [|c r IH]; intros s acc l e a Hs H; cbn [u_writes] in H.
    - inversion H; subst. cbn. rewrite str_app_empty_r. repeat split; [exact Hs|constructor].
    - destruct (u_writes dir tmp st (u_write dir tmp st (acc ++ c) s) (acc ++ c) r) as [[l' e'] a'] eqn:E.
      inversion H; subst; clear H.
      assert (Hs' := write_with_tmp acc (acc ++ c)%string s Hs).
      destruct (IH _ _ _ _ _ Hs' E) as (Ha & He & Hl).
      repeat split.
      + rewrite Ha. cbn. rewrite str_app_assoc. reflexivity.
      + exact He.
      + constructor; [eauto|exact Hl].
  Qed.

  (** C02, step level: wherever the body breaks off — after any number of pieces of
      any sizes — removing the temporary file restores the very tree that was there. *)
  Theorem upload_abort_restores chunks : snd (upload sb dir tmp name st chunks true) = sb.
  Proof.
    unfold upload.
    destruct (u_writes dir tmp st (u_create sb dir tmp st) "" chunks) as [[l e] a] eqn:E.
    destruct (writes_with_tmp chunks _ _ _ _ _ create_with_tmp E) as (_ & He & _).
    cbn [snd]. unfold u_abort. fold tmpP. apply (with_tmp_without _ _ He).
  Qed.

  (** C01, step level: when the whole body has arrived, renaming the temporary file
      over the target gives exactly the tree in which the body is mapped at the
      target, and nothing else differs. *)
  Theorem upload_commit_is_put chunks :
    snd (upload sb dir tmp name st chunks false) = seto sb tgtP (File (concat_str chunks) st).
  Proof.
    unfold upload.
    destruct (u_writes dir tmp st (u_create sb dir tmp st) "" chunks) as [[l e] a] eqn:E.
    destruct (writes_with_tmp chunks _ _ _ _ _ create_with_tmp E) as (Ha & He & _).
    cbn [snd]. unfold u_rename. fold tmpP tgtP.
    rewrite (with_tmp_without _ _ He).
    destruct He as (t & -> & Ht). rewrite (geto_seto_self _ _ _ _ Ht).
    rewrite Ha. reflexivity.
  Qed.

  (** While the upload is in progress nothing but the temporary name differs from the
      tree before: the target and every other resource keep bytes and times. *)
  Theorem upload_in_progress_frame chunks fails :
    Forall (fun s => remo s tmpP = sb) (fst (upload sb dir tmp name st chunks fails)).
  Proof.
    unfold upload.
    destruct (u_writes dir tmp st (u_create sb dir tmp st) "" chunks) as [[l e] a] eqn:E.
    destruct (writes_with_tmp chunks _ _ _ _ _ create_with_tmp E) as (_ & _ & Hl).
    cbn [fst]. constructor.
    - apply (with_tmp_without "" _ create_with_tmp).
    - eapply Forall_impl; [|exact Hl]. intros s (w & Hw). apply (with_tmp_without _ _ Hw).
  Qed.

  Corollary upload_in_progress_lookup chunks fails s q :
    In s (fst (upload sb dir tmp name st chunks fails)) ->
    is_prefix tmpP q = false -> is_prefix q tmpP = false -> geto s q = geto sb q.
  Proof.
    intros Hin H1 H2. pose proof (upload_in_progress_frame chunks fails) as HF.
    rewrite Forall_forall in HF. specialize (HF s Hin).
    transitivity (geto (remo s tmpP) q); [|rewrite HF; reflexivity].
    symmetry. apply geto_remo_other; assumption.
  Qed.
End Upload.

(** * The single step of [do_put] is this sequence *)

Lemma hp_parent_last root (segs : path) :
  segs <> [] -> hp root segs = hp root (parent segs) ++ [last segs ""%string].
Proof.
  intros H. unfold hp, parent. rewrite <- app_assoc. f_equal. apply app_removelast_last. exact H.
Qed.

Theorem put_is_upload root sb r segs tmp chunks :
  segs_of (rpath r) = GOk segs ->
  req_cond r (match geto sb (hp root segs) with Some n => fi_etag (fi_of (dir_tag r) n) | None => ""%string end) = None ->
  is_dir (geto sb (hp root segs)) = false -> segs <> [] ->
  is_dir (geto sb (hp root (parent segs))) = true ->
  geto sb (hp root (parent segs) ++ [tmp]) = None ->
  (body_fails r = false -> concat_str chunks = body r) ->
  snd (upload sb (hp root (parent segs)) tmp (last segs ""%string) (stamp r) chunks (body_fails r))
  = fst (do_put root sb r).
Proof.
  intros Hsegs Hcond Hnd Hne Hpar Hfresh Hbody.
  unfold do_put. rewrite Hsegs, Hcond, Hnd. cbn [orb].
  assert (Hm : match segs with [] => true | _ :: _ => false end = false) by (destruct segs; [congruence|reflexivity]).
  rewrite Hm, Hpar. cbn [negb].
  destruct (body_fails r) eqn:Ef.
  - cbn [fst]. apply upload_abort_restores; assumption.
  - rewrite upload_commit_is_put by assumption.
    rewrite Hbody by reflexivity. unfold u_tgt. rewrite <- hp_parent_last by exact Hne.
    destruct (seto sb (hp root segs) (File (body r) (stamp r))) as [t|] eqn:Eset; [reflexivity|].
    exfalso.
    destruct (seto_ok (hp root segs) sb (File (body r) (stamp r))) as [t Ht].
    + unfold hp. destruct segs; [congruence|]. destruct root; discriminate.
    + rewrite hp_parent_last by exact Hne. rewrite removelast_last. exact Hpar.
    + congruence.
Qed.

(** * Why the temporary name must be new *)

(** With a name that is already taken (what a predictable name opened with O_TRUNC
    amounts to) a failing upload destroys the resource of that name: the freshness
    hypothesis above is necessary, and it is what O_EXCL provides. *)
Theorem upload_not_fresh_loses_data :
  exists sb dir tmp name st chunks,
    is_dir (geto sb dir) = true /\ geto sb (dir ++ [tmp]) <> None /\
    snd (upload sb dir tmp name st chunks true) <> sb.
Proof.
  exists (Some (Dir [("r", Dir [("t.part", File "unrelated" 1)])]))%string, ["r"%string], "t.part"%string, "t"%string, 2%N, ["ab"%string].
  split; [reflexivity|]. split; [discriminate|]. vm_compute. discriminate.
Qed.

(** the hypotheses are satisfiable and the statements say something *)
Example upload_example :
  let sb := Some (Dir [("r", Dir [("t", File "old" 1)])])%string in
  upload sb ["r"%string] ".up" "t" 7 ["ab"; "c"]%string false =
  ([Some (Dir [("r", Dir [(".up", File "" 7); ("t", File "old" 1)])]);
    Some (Dir [("r", Dir [(".up", File "ab" 7); ("t", File "old" 1)])]);
    Some (Dir [("r", Dir [(".up", File "abc" 7); ("t", File "old" 1)])])],
   Some (Dir [("r", Dir [("t", File "abc" 7)])]))%string.
Proof. vm_compute. reflexivity. Qed.
