(** CalWire.v — C08: CalDAV queries on the wire.

    Three independent parts, no proofs (this file is extracted):

    1. MODEL of the Go code, function by function:
       - the public values of caldav/caldav.go,
       - the client encoders of caldav/client.go ([encode_*], [query_calendar],
         [multiget_calendar]) into the wire structs of caldav/elements.go,
       - [marshal_*]: what [xml.Marshal] makes of each wire struct (element
         order = field order, omitempty per [isEmptyValue], attr fields,
         chardata, XMLName, TextMarshalers),
       - [u_*]: what [xml.Unmarshal] makes of an element for each wire struct
         ("into" an existing value, as Go does for struct and pointer fields:
         attributes overwrite, slices append, a repeated pointer/struct element
         is merged into the first; children are matched by namespace + local
         name, unknown ones skipped; attributes are matched by LOCAL NAME ONLY,
         every matching attribute in document order is assigned, so the last
         wins; chardata is the concatenation of all direct text; TextUnmarshaler
         errors abort the decode),
       - the server decoders of caldav/server.go ([decode_*], [handle_query],
         [handle_multiget], [handle_report]) producing the backend call.
    2. SPECIFICATION written from RFC 4791 sections 9.5-9.10 only:
       [rfc_write : request -> xtree] and [rfc_read : xtree -> option request],
       the validity predicate of the DTD, and [normalise].
    3. Verdict functions for the oracle.

    Instants are (unix seconds, zone offset in seconds).  Their text form is
    computed by [CalTime.fmt_utc]/[parse_utc], which the harness checks against
    Go's [time] on every instant it generates (the tie for that function).
    [url.URL.String]/[url.Parse] are external: they enter as the section
    variables [href_fmt]/[href_parse] (DESIGN.md section 6), instantiated per case
    by the oracle with the values the real functions returned. *)
From Coq Require Import Permutation ListDec.
From GW Require Import Base CalTime CalXml.

Definition C : string := "urn:ietf:params:xml:ns:caldav".
Definition D : string := "DAV:".
Definition cn (l : string) : xname := (C, l).
Definition dn (l : string) : xname := (D, l).

(** * 1a. Public values (caldav/caldav.go:74-126) *)

Definition instant := (Z * Z)%type.
Definition zero_instant : instant := (zero_sec, 0%Z).
(** [time.Time.IsZero]: the instant 0001-01-01T00:00:00Z in any zone (whole seconds). *)
Definition i_zero (i : instant) : bool := Z.eqb (fst i) zero_sec.

Record text_match := { tm_text : string; tm_negate : bool }.
Record param_filter := { paf_name : string; paf_ind : bool; paf_tm : option text_match }.
Record prop_filter := {
  pf_name : string; pf_ind : bool; pf_start : instant; pf_end : instant;
  pf_tm : option text_match; pf_params : list param_filter }.
Inductive comp_filter :=
| CompFilter (name : string) (ind : bool) (start end_ : instant)
             (props : list prop_filter) (comps : list comp_filter).
Inductive comp_request :=
| CompReq (name : string) (allprops : bool) (props : list string)
          (allcomps : bool) (comps : list comp_request)
          (expand : option (instant * instant)).
Record calendar_query := { q_cr : comp_request; q_cf : comp_filter }.
Record multiget := { mg_paths : list string; mg_cr : comp_request }.
Inductive request := RQuery (q : calendar_query) | RMultiget (m : multiget).

Definition zero_cr : comp_request := CompReq "" false [] false [] None.
Definition cr_expand (c : comp_request) : option (instant * instant) :=
  match c with CompReq _ _ _ _ _ e => e end.

(** What the backend is called with. *)
Inductive backend_call :=
| BQuery (path : string) (q : calendar_query)            (* QueryCalendarObjects(path, &q) *)
| BMultiget (paths : list string) (cr : comp_request).   (* GetCalendarObject(p, &cr) for each p, in order *)

(** * 1b. Wire structs (caldav/elements.go) *)

Record w_text_match := { wtm_text : string; wtm_collation : string; wtm_negate : bool }.
Record w_time_range := { wtr_start : option instant; wtr_end : option instant }.
Record w_param_filter := { wpaf_name : string; wpaf_ind : bool; wpaf_tm : option w_text_match }.
Record w_prop_filter := {
  wpf_name : string; wpf_ind : bool; wpf_tr : option w_time_range;
  wpf_tm : option w_text_match; wpf_params : list w_param_filter }.
Inductive w_comp_filter :=
| WCF (name : string) (ind : bool) (tr : option w_time_range)
      (pfs : list w_prop_filter) (cfs : list w_comp_filter).
Inductive w_comp :=
| WComp (name : string) (allprop : bool) (props : list string)
        (allcomp : bool) (comps : list w_comp).
Record w_expand := { wex_start : instant; wex_end : instant }.
Record w_cal_data_req := { wcd_comp : option w_comp; wcd_expand : option w_expand }.
(** [internal.Prop]: the raw child elements.  A marshal-only [RawXMLValue{out: v}]
    is represented by the tree [v] marshals to. *)
Definition w_prop := list xtree.
Record w_calendar_query := {
  wq_prop : option w_prop; wq_allprop : bool; wq_propname : bool; wq_filter : w_comp_filter }.
Record w_multiget := {
  wm_prop : option w_prop; wm_allprop : bool; wm_propname : bool; wm_hrefs : list string }.

Definition zero_wtm : w_text_match := {| wtm_text := ""; wtm_collation := ""; wtm_negate := false |}.
Definition zero_wtr : w_time_range := {| wtr_start := None; wtr_end := None |}.
Definition zero_wpaf : w_param_filter := {| wpaf_name := ""; wpaf_ind := false; wpaf_tm := None |}.
Definition zero_wpf : w_prop_filter :=
  {| wpf_name := ""; wpf_ind := false; wpf_tr := None; wpf_tm := None; wpf_params := [] |}.
Definition zero_wcf : w_comp_filter := WCF "" false None [] [].
Definition zero_wcomp : w_comp := WComp "" false [] false [].
Definition zero_wex : w_expand := {| wex_start := zero_instant; wex_end := zero_instant |}.
Definition zero_wcd : w_cal_data_req := {| wcd_comp := None; wcd_expand := None |}.
Definition zero_wq : w_calendar_query :=
  {| wq_prop := None; wq_allprop := false; wq_propname := false; wq_filter := zero_wcf |}.
Definition zero_wm : w_multiget :=
  {| wm_prop := None; wm_allprop := false; wm_propname := false; wm_hrefs := [] |}.

(** * 1c. Client encoders (caldav/client.go) *)

(** encodeTextMatch:215 *)
Definition encode_text_match (o : option text_match) : option w_text_match :=
  match o with
  | None => None
  | Some tm => Some {| wtm_text := tm_text tm; wtm_collation := ""; wtm_negate := tm_negate tm |}
  end.

(** newTimeRange (elements.go): nil when both bounds are zero, each bound only when set. *)
Definition new_time_range (s e : instant) : option w_time_range :=
  if i_zero s && i_zero e then None
  else Some {| wtr_start := if i_zero s then None else Some s;
               wtr_end := if i_zero e then None else Some e |}.

(** encodeParamFilter:204 *)
Definition encode_param_filter (p : param_filter) : w_param_filter :=
  {| wpaf_name := paf_name p; wpaf_ind := paf_ind p; wpaf_tm := encode_text_match (paf_tm p) |}.

(** encodePropFilter:186 *)
Definition encode_prop_filter (p : prop_filter) : w_prop_filter :=
  {| wpf_name := pf_name p; wpf_ind := pf_ind p;
     wpf_tr := new_time_range (pf_start p) (pf_end p);
     wpf_tm := encode_text_match (pf_tm p);
     wpf_params := map encode_param_filter (pf_params p) |}.

(** encodeCompFilter:166 *)
Fixpoint encode_comp_filter (f : comp_filter) : w_comp_filter :=
  match f with
  | CompFilter name ind s e props comps =>
    WCF name ind (new_time_range s e) (map encode_prop_filter props) (map encode_comp_filter comps)
  end.

(** encodeCalendarCompReq:127 (never fails) *)
Fixpoint encode_calendar_comp_req (c : comp_request) : w_comp :=
  match c with
  | CompReq name allprops props allcomps comps _ =>
    WComp name allprops props allcomps (map encode_calendar_comp_req comps)
  end.

(** encodeExpandRequest:226 *)
Definition encode_expand_request (e : option (instant * instant)) : option w_expand :=
  match e with
  | None => None
  | Some (s, e') => Some {| wex_start := s; wex_end := e' |}
  end.

(** * 1d. xml.Marshal of the wire structs *)

(** dateWithUTCTime.MarshalText: [t.UTC().Format(layout)]. *)
Definition marshal_instant (i : instant) : string := fmt_utc (fst i).

Definition marshal_text_match (tm : w_text_match) : xtree :=
  Elem (cn "text-match")
    ((if str_empty (wtm_collation tm) then [] else [cattr "collation" (wtm_collation tm)])
     ++ (if wtm_negate tm then [cattr "negate-condition" "yes"] else []))
    (text_kids (wtm_text tm)).

Definition marshal_time_range (tr : w_time_range) : xtree :=
  Elem (cn "time-range")
    (opt_list (fun i => cattr "start" (marshal_instant i)) (wtr_start tr)
     ++ opt_list (fun i => cattr "end" (marshal_instant i)) (wtr_end tr))
    [].

Definition marshal_param_filter (p : w_param_filter) : xtree :=
  Elem (cn "param-filter") [cattr "name" (wpaf_name p)]
    (flag_elem (wpaf_ind p) (cn "is-not-defined")
     ++ opt_list marshal_text_match (wpaf_tm p)).

Definition marshal_prop_filter (p : w_prop_filter) : xtree :=
  Elem (cn "prop-filter") [cattr "name" (wpf_name p)]
    (flag_elem (wpf_ind p) (cn "is-not-defined")
     ++ opt_list marshal_time_range (wpf_tr p)
     ++ opt_list marshal_text_match (wpf_tm p)
     ++ map marshal_param_filter (wpf_params p)).

Fixpoint marshal_comp_filter (f : w_comp_filter) : xtree :=
  match f with
  | WCF name ind tr pfs cfs =>
    Elem (cn "comp-filter") [cattr "name" name]
      (flag_elem ind (cn "is-not-defined")
       ++ opt_list marshal_time_range tr
       ++ map marshal_prop_filter pfs
       ++ map marshal_comp_filter cfs)
  end.

Definition marshal_cprop (name : string) : xtree := Elem (cn "prop") [cattr "name" name] [].

Fixpoint marshal_comp (c : w_comp) : xtree :=
  match c with
  | WComp name allprop props allcomp comps =>
    Elem (cn "comp") [cattr "name" name]
      (flag_elem allprop (cn "allprop")
       ++ map marshal_cprop props
       ++ flag_elem allcomp (cn "allcomp")
       ++ map marshal_comp comps)
  end.

Definition marshal_expand (e : w_expand) : xtree :=
  Elem (cn "expand")
    [cattr "start" (marshal_instant (wex_start e)); cattr "end" (marshal_instant (wex_end e))] [].

Definition marshal_cal_data_req (d : w_cal_data_req) : xtree :=
  Elem (cn "calendar-data") []
    (opt_list marshal_comp (wcd_comp d) ++ opt_list marshal_expand (wcd_expand d)).

Definition marshal_prop (p : w_prop) : xtree := Elem (dn "prop") [] p.

Definition marshal_calendar_query (q : w_calendar_query) : xtree :=
  Elem (cn "calendar-query") []
    (opt_list marshal_prop (wq_prop q)
     ++ flag_elem (wq_allprop q) (dn "allprop")
     ++ flag_elem (wq_propname q) (dn "propname")
     ++ [Elem (cn "filter") [] [marshal_comp_filter (wq_filter q)]]).

(** encodeCalendarReq:151: calendar-data, then getlastmodified and getetag. *)
Definition encode_calendar_req (c : comp_request) : w_prop :=
  [ marshal_cal_data_req
      {| wcd_comp := Some (encode_calendar_comp_req c);
         wcd_expand := encode_expand_request (cr_expand c) |};
    Elem (dn "getlastmodified") [] [];
    Elem (dn "getetag") [] [] ].

(** QueryCalendar:275 — the value handed to NewXMLRequest. *)
Definition query_calendar (q : calendar_query) : w_calendar_query :=
  {| wq_prop := Some (encode_calendar_req (q_cr q)); wq_allprop := false; wq_propname := false;
     wq_filter := encode_comp_filter (q_cf q) |}.

(** MultiGetCalendar:297 — the request path stands in for an empty path list. *)
Definition multiget_calendar (path : string) (m : multiget) : w_multiget :=
  {| wm_prop := Some (encode_calendar_req (mg_cr m)); wm_allprop := false; wm_propname := false;
     wm_hrefs := match mg_paths m with [] => [path] | ps => ps end |}.

(** * 1e. xml.Unmarshal of the wire structs *)

(** How [Decoder.unmarshalPath] picks the field for a child element: a field
    whose tag names a namespace ("DAV: prop") needs namespace and local name;
    a field whose tag has only a local name ("comp-filter") takes a child with
    that local name IN ANY NAMESPACE (encoding/xml does not inherit the
    enclosing struct's namespace).  If the field's type has an XMLName, the
    namespace is then checked by [unmarshal] and a mismatch is an error, not a
    skip; a [*struct{}] field has no XMLName and accepts any namespace. *)
Definition local_is (n : xname) (l : string) : bool := String.eqb (snd n) l.

(** dateWithUTCTime.UnmarshalText; the result is a UTC time. *)
Definition u_instant (v : string) : res instant :=
  match parse_utc v with Some s => Ok (s, 0%Z) | None => Err 400 end.

(** encoding/xml refuses to recurse deeper than 10000 ([errUnmarshalDepth]):
    [Decoder.unmarshal] checks its depth on entry; a struct field is unmarshalled
    one level below its struct, the element of a slice field one level below the
    slice (two below the struct), a pointer field costs nothing extra.  Every
    [u_*] function below takes the depth [d] it runs at, as [Decoder.unmarshal]
    does.  Any failure is a decoding error, i.e. a 400. *)
Definition MAXD : N := 10000.
Definition chk {A} (d : N) (r : res A) : res A := if N.leb MAXD d then Err 400 else r.
(** a [*struct{}] field below a struct at depth [d] *)
Definition flag_at {W} (d : N) (w : W) : res W := chk (d + 1) (Ok w).

(** The attribute loop of [Decoder.unmarshal]: every attribute, in document
    order, is offered to the struct's attribute fields by local name.  Since
    the repair eba20a7 the decoder of a REPORT request reads its tokens through
    [unqualifiedAttrReader] (caldav/elements.go), which removes namespace
    declarations with a prefix and every attribute that belongs to a
    namespace: only attributes in no namespace reach the loop. *)
Definition fold_attrs {W} (set : string -> string -> W -> res W) (a : list xattr) (w : W) : res W :=
  fold_res (fun w x => if str_empty (a_space x) then set (a_local x) (a_value x) w else Ok w) a w.

Definition tm_set (l v : string) (w : w_text_match) : res w_text_match :=
  if String.eqb l "collation" then
    Ok {| wtm_text := wtm_text w; wtm_collation := v; wtm_negate := wtm_negate w |}
  else if String.eqb l "negate-condition" then
    (* negateCondition.UnmarshalText *)
    if String.eqb v "yes" then Ok {| wtm_text := wtm_text w; wtm_collation := wtm_collation w; wtm_negate := true |}
    else if String.eqb v "no" then Ok {| wtm_text := wtm_text w; wtm_collation := wtm_collation w; wtm_negate := false |}
    else Err 400
  else Ok w.

Definition u_text_match (d : N) (init : w_text_match) (t : xtree) : res w_text_match :=
  match t with
  | Elem n a k =>
    chk d (
    if negb (name_eqb n (cn "text-match")) then Err 400 else
    match fold_attrs tm_set a init with
    | Ok w => Ok {| wtm_text := text_of k; wtm_collation := wtm_collation w; wtm_negate := wtm_negate w |}
    | Err c => Err c
    | Panic => Panic
    end)
  | _ => Err 400
  end.

Definition tr_set (l v : string) (w : w_time_range) : res w_time_range :=
  if String.eqb l "start" then
    match u_instant v with Ok i => Ok {| wtr_start := Some i; wtr_end := wtr_end w |} | Err c => Err c | Panic => Panic end
  else if String.eqb l "end" then
    match u_instant v with Ok i => Ok {| wtr_start := wtr_start w; wtr_end := Some i |} | Err c => Err c | Panic => Panic end
  else Ok w.

Definition u_time_range (d : N) (init : w_time_range) (t : xtree) : res w_time_range :=
  match t with
  | Elem n a _ => chk d (if negb (name_eqb n (cn "time-range")) then Err 400 else fold_attrs tr_set a init)
  | _ => Err 400
  end.

Definition ex_set (l v : string) (w : w_expand) : res w_expand :=
  if String.eqb l "start" then
    match u_instant v with Ok i => Ok {| wex_start := i; wex_end := wex_end w |} | Err c => Err c | Panic => Panic end
  else if String.eqb l "end" then
    match u_instant v with Ok i => Ok {| wex_start := wex_start w; wex_end := i |} | Err c => Err c | Panic => Panic end
  else Ok w.

Definition u_expand (d : N) (init : w_expand) (t : xtree) : res w_expand :=
  match t with
  | Elem n a _ => chk d (if negb (name_eqb n (cn "expand")) then Err 400 else fold_attrs ex_set a init)
  | _ => Err 400
  end.

Definition paf_set (l v : string) (w : w_param_filter) : res w_param_filter :=
  if String.eqb l "name" then Ok {| wpaf_name := v; wpaf_ind := wpaf_ind w; wpaf_tm := wpaf_tm w |}
  else Ok w.

Definition paf_kid (d : N) (w : w_param_filter) (kid : xtree) : res w_param_filter :=
  match kid with
  | Elem n _ _ =>
    if local_is n "is-not-defined" then
      flag_at d {| wpaf_name := wpaf_name w; wpaf_ind := true; wpaf_tm := wpaf_tm w |}
    else if local_is n "text-match" then
      match u_text_match (d + 1) (opt_default zero_wtm (wpaf_tm w)) kid with
      | Ok tm => Ok {| wpaf_name := wpaf_name w; wpaf_ind := wpaf_ind w; wpaf_tm := Some tm |}
      | Err c => Err c
      | Panic => Panic
      end
    else Ok w
  | _ => Ok w
  end.

Definition u_param_filter (d : N) (init : w_param_filter) (t : xtree) : res w_param_filter :=
  match t with
  | Elem n a k =>
    chk d (
    if negb (name_eqb n (cn "param-filter")) then Err 400 else
    match fold_attrs paf_set a init with
    | Ok w => fold_res (paf_kid d) k w
    | Err c => Err c
    | Panic => Panic
    end)
  | _ => Err 400
  end.

Definition pf_set (l v : string) (w : w_prop_filter) : res w_prop_filter :=
  if String.eqb l "name" then
    Ok {| wpf_name := v; wpf_ind := wpf_ind w; wpf_tr := wpf_tr w; wpf_tm := wpf_tm w; wpf_params := wpf_params w |}
  else Ok w.

Definition pf_kid (d : N) (w : w_prop_filter) (kid : xtree) : res w_prop_filter :=
  match kid with
  | Elem n _ _ =>
    if local_is n "is-not-defined" then
      flag_at d {| wpf_name := wpf_name w; wpf_ind := true; wpf_tr := wpf_tr w; wpf_tm := wpf_tm w; wpf_params := wpf_params w |}
    else if local_is n "time-range" then
      match u_time_range (d + 1) (opt_default zero_wtr (wpf_tr w)) kid with
      | Ok tr => Ok {| wpf_name := wpf_name w; wpf_ind := wpf_ind w; wpf_tr := Some tr; wpf_tm := wpf_tm w; wpf_params := wpf_params w |}
      | Err c => Err c
      | Panic => Panic
      end
    else if local_is n "text-match" then
      match u_text_match (d + 1) (opt_default zero_wtm (wpf_tm w)) kid with
      | Ok tm => Ok {| wpf_name := wpf_name w; wpf_ind := wpf_ind w; wpf_tr := wpf_tr w; wpf_tm := Some tm; wpf_params := wpf_params w |}
      | Err c => Err c
      | Panic => Panic
      end
    else if local_is n "param-filter" then
      chk (d + 1)
      match u_param_filter (d + 2) zero_wpaf kid with
      | Ok p => Ok {| wpf_name := wpf_name w; wpf_ind := wpf_ind w; wpf_tr := wpf_tr w; wpf_tm := wpf_tm w; wpf_params := wpf_params w ++ [p] |}
      | Err c => Err c
      | Panic => Panic
      end
    else Ok w
  | _ => Ok w
  end.

Definition u_prop_filter (d : N) (init : w_prop_filter) (t : xtree) : res w_prop_filter :=
  match t with
  | Elem n a k =>
    chk d (
    if negb (name_eqb n (cn "prop-filter")) then Err 400 else
    match fold_attrs pf_set a init with
    | Ok w => fold_res (pf_kid d) k w
    | Err c => Err c
    | Panic => Panic
    end)
  | _ => Err 400
  end.

Definition wcf_set (l v : string) (w : w_comp_filter) : res w_comp_filter :=
  match w with WCF name ind tr pfs cfs => if String.eqb l "name" then Ok (WCF v ind tr pfs cfs) else Ok w end.

Fixpoint u_comp_filter (d : N) (init : w_comp_filter) (t : xtree) {struct t} : res w_comp_filter :=
  match t with
  | Elem n a k =>
    chk d (
    if negb (name_eqb n (cn "comp-filter")) then Err 400 else
    match fold_attrs wcf_set a init with
    | Ok w0 =>
      fold_res (fun w kid =>
        match w with WCF name ind tr pfs cfs =>
        match kid with
        | Elem n' _ _ =>
          if local_is n' "is-not-defined" then flag_at d (WCF name true tr pfs cfs)
          else if local_is n' "time-range" then
            match u_time_range (d + 1) (opt_default zero_wtr tr) kid with
            | Ok tr' => Ok (WCF name ind (Some tr') pfs cfs)
            | Err c => Err c
            | Panic => Panic
            end
          else if local_is n' "prop-filter" then
            chk (d + 1)
            match u_prop_filter (d + 2) zero_wpf kid with
            | Ok p => Ok (WCF name ind tr (pfs ++ [p]) cfs)
            | Err c => Err c
            | Panic => Panic
            end
          else if local_is n' "comp-filter" then
            chk (d + 1)
            match u_comp_filter (d + 2) zero_wcf kid with
            | Ok c' => Ok (WCF name ind tr pfs (cfs ++ [c']))
            | Err c => Err c
            | Panic => Panic
            end
          else Ok w
        | _ => Ok w
        end end) k w0
    | Err c => Err c
    | Panic => Panic
    end)
  | _ => Err 400
  end.

(** [prop] of calendar-data (elements.go:217): only the name attribute. *)
Definition cprop_set (l v : string) (w : string) : res string :=
  if String.eqb l "name" then Ok v else Ok w.
Definition u_cprop (d : N) (t : xtree) : res string :=
  match t with
  | Elem n a _ => chk d (if negb (name_eqb n (cn "prop")) then Err 400 else fold_attrs cprop_set a "")
  | _ => Err 400
  end.

Definition wcomp_set (l v : string) (w : w_comp) : res w_comp :=
  match w with WComp name ap ps ac cs => if String.eqb l "name" then Ok (WComp v ap ps ac cs) else Ok w end.

Fixpoint u_comp (d : N) (init : w_comp) (t : xtree) {struct t} : res w_comp :=
  match t with
  | Elem n a k =>
    chk d (
    if negb (name_eqb n (cn "comp")) then Err 400 else
    match fold_attrs wcomp_set a init with
    | Ok w0 =>
      fold_res (fun w kid =>
        match w with WComp name ap ps ac cs =>
        match kid with
        | Elem n' _ _ =>
          if local_is n' "allprop" then flag_at d (WComp name true ps ac cs)
          else if local_is n' "prop" then
            chk (d + 1)
            match u_cprop (d + 2) kid with
            | Ok p => Ok (WComp name ap (ps ++ [p]) ac cs)
            | Err c => Err c
            | Panic => Panic
            end
          else if local_is n' "allcomp" then flag_at d (WComp name ap ps true cs)
          else if local_is n' "comp" then
            chk (d + 1)
            match u_comp (d + 2) zero_wcomp kid with
            | Ok c' => Ok (WComp name ap ps ac (cs ++ [c']))
            | Err c => Err c
            | Panic => Panic
            end
          else Ok w
        | _ => Ok w
        end end) k w0
    | Err c => Err c
    | Panic => Panic
    end)
  | _ => Err 400
  end.

Definition wcd_kid (d : N) (w : w_cal_data_req) (kid : xtree) : res w_cal_data_req :=
  match kid with
  | Elem n _ _ =>
    if local_is n "comp" then
      match u_comp (d + 1) (opt_default zero_wcomp (wcd_comp w)) kid with
      | Ok c => Ok {| wcd_comp := Some c; wcd_expand := wcd_expand w |}
      | Err c => Err c
      | Panic => Panic
      end
    else if local_is n "expand" then
      match u_expand (d + 1) (opt_default zero_wex (wcd_expand w)) kid with
      | Ok e => Ok {| wcd_comp := wcd_comp w; wcd_expand := Some e |}
      | Err c => Err c
      | Panic => Panic
      end
    else Ok w
  | _ => Ok w
  end.

Definition u_cal_data_req (d : N) (init : w_cal_data_req) (t : xtree) : res w_cal_data_req :=
  match t with
  | Elem n _ k => chk d (if negb (name_eqb n (cn "calendar-data")) then Err 400 else fold_res (wcd_kid d) k init)
  | _ => Err 400
  end.

(** [internal.Prop] ([Raw []RawXMLValue `xml:",any"`]): every child element is
    captured, without its namespace declarations (RawXMLValue.UnmarshalXML),
    from the token stream [unqualifiedAttrReader] has already filtered. *)
Definition dprop_kid (d : N) (w : w_prop) (kid : xtree) : res w_prop :=
  match kid with
  | Elem _ _ _ => chk (d + 2) (Ok (w ++ [strip_decls (strip_foreign kid)])%list)
  | _ => Ok w
  end.
Definition u_dprop (d : N) (init : w_prop) (t : xtree) : res w_prop :=
  match t with
  | Elem n _ k => chk d (if negb (name_eqb n (dn "prop")) then Err 400 else fold_res (dprop_kid d) k init)
  | _ => Err 400
  end.

(** [filter] (elements.go:89): CompFilter is a struct-typed field, a repeated
    comp-filter is merged into it. *)
Definition filter_kid (d : N) (w : w_comp_filter) (kid : xtree) : res w_comp_filter :=
  match kid with
  | Elem n _ _ => if local_is n "comp-filter" then u_comp_filter (d + 1) w kid else Ok w
  | _ => Ok w
  end.
Definition u_filter (d : N) (init : w_comp_filter) (t : xtree) : res w_comp_filter :=
  match t with
  | Elem n _ k => chk d (if negb (name_eqb n (cn "filter")) then Err 400 else fold_res (filter_kid d) k init)
  | _ => Err 400
  end.

Definition wq_kid (d : N) (w : w_calendar_query) (kid : xtree) : res w_calendar_query :=
  match kid with
  | Elem n _ _ =>
    if name_eqb n (dn "prop") then
      match u_dprop (d + 1) (opt_default [] (wq_prop w)) kid with
      | Ok p => Ok {| wq_prop := Some p; wq_allprop := wq_allprop w; wq_propname := wq_propname w; wq_filter := wq_filter w |}
      | Err c => Err c
      | Panic => Panic
      end
    else if name_eqb n (dn "allprop") then
      flag_at d {| wq_prop := wq_prop w; wq_allprop := true; wq_propname := wq_propname w; wq_filter := wq_filter w |}
    else if name_eqb n (dn "propname") then
      flag_at d {| wq_prop := wq_prop w; wq_allprop := wq_allprop w; wq_propname := true; wq_filter := wq_filter w |}
    else if local_is n "filter" then
      match u_filter (d + 1) (wq_filter w) kid with
      | Ok f => Ok {| wq_prop := wq_prop w; wq_allprop := wq_allprop w; wq_propname := wq_propname w; wq_filter := f |}
      | Err c => Err c
      | Panic => Panic
      end
    else Ok w
  | _ => Ok w
  end.

Definition u_calendar_query (d : N) (init : w_calendar_query) (t : xtree) : res w_calendar_query :=
  match t with
  | Elem n _ k => chk d (if negb (name_eqb n (cn "calendar-query")) then Err 400 else fold_res (wq_kid d) k init)
  | _ => Err 400
  end.

Section Href.
(** [(&url.URL{Path: p}).String()] and [url.Parse(text)] followed by [.Path]
    ([None] = parse error): net/url is external. *)
Variable href_fmt : string -> string.
Variable href_parse : string -> option string.

Definition marshal_href (p : string) : xtree := Elem (dn "href") [] (text_kids (href_fmt p)).

Definition marshal_multiget (m : w_multiget) : xtree :=
  Elem (cn "calendar-multiget") []
    (opt_list marshal_prop (wm_prop m)
     ++ flag_elem (wm_allprop m) (dn "allprop")
     ++ flag_elem (wm_propname m) (dn "propname")
     ++ map marshal_href (wm_hrefs m)).

(** [internal.Href] as an element: a TextUnmarshaler, fed the direct chardata. *)
Definition u_href (d : N) (t : xtree) : res string :=
  match t with
  | Elem _ _ k => chk d (match href_parse (text_of k) with Some p => Ok p | None => Err 400 end)
  | _ => Err 400
  end.

Definition wm_kid (d : N) (w : w_multiget) (kid : xtree) : res w_multiget :=
  match kid with
  | Elem n _ _ =>
    if name_eqb n (dn "prop") then
      match u_dprop (d + 1) (opt_default [] (wm_prop w)) kid with
      | Ok p => Ok {| wm_prop := Some p; wm_allprop := wm_allprop w; wm_propname := wm_propname w; wm_hrefs := wm_hrefs w |}
      | Err c => Err c
      | Panic => Panic
      end
    else if name_eqb n (dn "allprop") then
      flag_at d {| wm_prop := wm_prop w; wm_allprop := true; wm_propname := wm_propname w; wm_hrefs := wm_hrefs w |}
    else if name_eqb n (dn "propname") then
      flag_at d {| wm_prop := wm_prop w; wm_allprop := wm_allprop w; wm_propname := true; wm_hrefs := wm_hrefs w |}
    else if name_eqb n (dn "href") then
      chk (d + 1)
      match u_href (d + 2) kid with
      | Ok h => Ok {| wm_prop := wm_prop w; wm_allprop := wm_allprop w; wm_propname := wm_propname w; wm_hrefs := wm_hrefs w ++ [h] |}
      | Err c => Err c
      | Panic => Panic
      end
    else Ok w
  | _ => Ok w
  end.

Definition u_multiget (d : N) (init : w_multiget) (t : xtree) : res w_multiget :=
  match t with
  | Elem n _ k => chk d (if negb (name_eqb n (cn "calendar-multiget")) then Err 400 else fold_res (wm_kid d) k init)
  | _ => Err 400
  end.

(** The request body the client writes. *)
Definition client_body (path : string) (r : request) : xtree :=
  match r with
  | RQuery q => marshal_calendar_query (query_calendar q)
  | RMultiget m => marshal_multiget (multiget_calendar path m)
  end.

End Href.

(** * 1f. Server decoders (caldav/server.go) *)

Definition decode_text_match (o : option w_text_match) : option text_match :=
  match o with
  | None => None
  | Some tm => Some {| tm_text := wtm_text tm; tm_negate := wtm_negate tm |}
  end.

(** decodeParamFilter:105 *)
Definition decode_param_filter (el : w_param_filter) : res param_filter :=
  if wpaf_ind el && is_some (wpaf_tm el) then Err 400
  else Ok {| paf_name := wpaf_name el; paf_ind := wpaf_ind el; paf_tm := decode_text_match (wpaf_tm el) |}.

Definition tr_start (o : option w_time_range) : instant :=
  match o with Some tr => opt_default zero_instant (wtr_start tr) | None => zero_instant end.
Definition tr_end (o : option w_time_range) : instant :=
  match o with Some tr => opt_default zero_instant (wtr_end tr) | None => zero_instant end.

(** decodePropFilter:122 *)
Definition decode_prop_filter (el : w_prop_filter) : res prop_filter :=
  if wpf_ind el && (is_some (wpf_tm el) || is_some (wpf_tr el) || negb (Nat.eqb (List.length (wpf_params el)) 0))
  then Err 400
  else
    match map_res decode_param_filter (wpf_params el) with
    | Ok ps =>
      Ok {| pf_name := wpf_name el; pf_ind := wpf_ind el;
            pf_start := tr_start (wpf_tr el); pf_end := tr_end (wpf_tr el);
            pf_tm := decode_text_match (wpf_tm el); pf_params := ps |}
    | Err c => Err c
    | Panic => Panic
    end.

(** decodeCompFilter:154 *)
Fixpoint decode_comp_filter (el : w_comp_filter) : res comp_filter :=
  match el with
  | WCF name ind tr pfs cfs =>
    if ind && (is_some tr || negb (Nat.eqb (List.length pfs) 0) || negb (Nat.eqb (List.length cfs) 0))
    then Err 400
    else
      match map_res decode_prop_filter pfs with
      | Ok ps =>
        match map_res decode_comp_filter cfs with
        | Ok cs => Ok (CompFilter name ind (tr_start tr) (tr_end tr) ps cs)
        | Err c => Err c
        | Panic => Panic
        end
      | Err c => Err c
      | Panic => Panic
      end
  end.

(** decodeComp:187 (the nil check is in [decode_calendar_data_req]) *)
Fixpoint decode_comp (c : w_comp) : res comp_request :=
  match c with
  | WComp name allprop props allcomp comps =>
    if allprop && negb (Nat.eqb (List.length props) 0) then Err 400
    else if allcomp && negb (Nat.eqb (List.length comps) 0) then Err 400
    else
      match map_res decode_comp comps with
      | Ok cs => Ok (CompReq name allprop props allcomp cs None)
      | Err c => Err c
      | Panic => Panic
      end
  end.

Definition set_expand (c : comp_request) (e : option (instant * instant)) : comp_request :=
  match c with CompReq name ap ps ac cs _ => CompReq name ap ps ac cs e end.

(** decodeCalendarDataReq:217 *)
Definition decode_calendar_data_req (d : w_cal_data_req) : res comp_request :=
  match (match wcd_comp d with
         | None => Ok (CompReq "" true [] true [] None)
         | Some c => decode_comp c
         end) with
  | Ok req =>
    match wcd_expand d with
    | Some e => Ok (set_expand req (Some (wex_start e, wex_end e)))
    | None => Ok req
    end
  | Err c => Err c
  | Panic => Panic
  end.

(** [Prop.Decode(&calendarData)] followed by decodeCalendarDataReq, as both
    handleQuery and handleMultiget do: the first raw child named
    CALDAV:calendar-data is unmarshalled (by a fresh Decoder: depth 0 again);
    none = IsNotFound = zero value. *)
Definition is_caldata (t : xtree) : bool :=
  match t with Elem n _ _ => name_eqb n (cn "calendar-data") | _ => false end.

Definition decode_prop_caldata (p : option w_prop) : res comp_request :=
  match p with
  | None => Ok zero_cr
  | Some raws =>
    match (match find is_caldata raws with
           | None => Ok zero_wcd
           | Some raw => match u_cal_data_req 0 zero_wcd raw with Ok d => Ok d | Err _ => Err 400 | Panic => Panic end
           end) with
    | Ok d => decode_calendar_data_req d
    | Err c => Err c
    | Panic => Panic
    end
  end.

(** handleQuery:236 up to the backend call *)
Definition handle_query (path : string) (q : w_calendar_query) : res backend_call :=
  match decode_prop_caldata (wq_prop q) with
  | Ok cr =>
    match decode_comp_filter (wq_filter q) with
    | Ok cf => Ok (BQuery path {| q_cr := cr; q_cf := cf |})
    | Err c => Err c
    | Panic => Panic
    end
  | Err c => Err c
  | Panic => Panic
  end.

(** handleMultiget:284 up to the backend calls *)
Definition handle_multiget (m : w_multiget) : res backend_call :=
  match decode_prop_caldata (wm_prop m) with
  | Ok cr => Ok (BMultiget (wm_hrefs m) cr)
  | Err c => Err c
  | Panic => Panic
  end.

Section Href2.
Variable href_parse : string -> option string.

(** handleReport:91 with reportReq.UnmarshalXML's root switch (elements.go:250);
    the report struct is decoded by a fresh Decoder over the filtered tokens
    (depth 0); every decoding error is a 400 (internal.DecodeXMLRequest). *)
Definition handle_report (path : string) (doc : xtree) : res backend_call :=
  match doc with
  | Elem n _ _ =>
    if name_eqb n (cn "calendar-query") then
      match u_calendar_query 0 zero_wq doc with
      | Ok q => handle_query path q
      | Err c => Err c
      | Panic => Panic
      end
    else if name_eqb n (cn "calendar-multiget") then
      match u_multiget href_parse 0 zero_wm doc with
      | Ok m => handle_multiget m
      | Err c => Err c
      | Panic => Panic
      end
    else Err 400
  | _ => Err 400
  end.
End Href2.

(** * 2. Specification: RFC 4791 sections 9.5-9.10 *)

(** ** 2a. Writer.  One function per element declaration of the RFC. *)

Definition ind_elem : xtree := Elem (cn "is-not-defined") [] [].

(** 9.7.5  <!ELEMENT text-match (#PCDATA)>  negate-condition (yes|no) "no" *)
Definition w_tm (tm : text_match) : xtree :=
  Elem (cn "text-match")
    (if tm_negate tm then [cattr "negate-condition" "yes"] else [])
    (text_kids (tm_text tm)).

(** 9.9  <!ELEMENT time-range EMPTY>  start, end #IMPLIED, "date with UTC time" *)
Definition has_tr (s e : instant) : bool := negb (i_zero s && i_zero e).
Definition w_tr (s e : instant) : xtree :=
  Elem (cn "time-range")
    ((if i_zero s then [] else [cattr "start" (fmt_utc (fst s))])
     ++ (if i_zero e then [] else [cattr "end" (fmt_utc (fst e))]))
    [].

(** 9.7.3  <!ELEMENT param-filter (is-not-defined | text-match)?>  name #REQUIRED *)
Definition w_paf (p : param_filter) : xtree :=
  Elem (cn "param-filter") [cattr "name" (paf_name p)]
    (if paf_ind p then [ind_elem] else opt_list w_tm (paf_tm p)).

(** 9.7.2  <!ELEMENT prop-filter (is-not-defined | ((time-range | text-match)?, param-filter* ))> *)
Definition w_pf (p : prop_filter) : xtree :=
  Elem (cn "prop-filter") [cattr "name" (pf_name p)]
    (if pf_ind p then [ind_elem]
     else (if has_tr (pf_start p) (pf_end p) then [w_tr (pf_start p) (pf_end p)]
           else opt_list w_tm (pf_tm p))
          ++ map w_paf (pf_params p)).

(** 9.7.1  <!ELEMENT comp-filter (is-not-defined | (time-range?, prop-filter*, comp-filter* ))> *)
Fixpoint w_cf (f : comp_filter) : xtree :=
  match f with
  | CompFilter name ind s e props comps =>
    Elem (cn "comp-filter") [cattr "name" name]
      (if ind then [ind_elem]
       else (if has_tr s e then [w_tr s e] else []) ++ map w_pf props ++ map w_cf comps)
  end.

(** 9.6.4  <!ELEMENT prop EMPTY>  name #REQUIRED *)
Definition w_cprop (name : string) : xtree := Elem (cn "prop") [cattr "name" name] [].

(** 9.6.1  <!ELEMENT comp ((allprop | prop* ), (allcomp | comp* ))>  name #REQUIRED *)
Fixpoint w_comp_sel (c : comp_request) : xtree :=
  match c with
  | CompReq name allprops props allcomps comps _ =>
    Elem (cn "comp") [cattr "name" name]
      ((if allprops then [Elem (cn "allprop") [] []] else map w_cprop props)
       ++ (if allcomps then [Elem (cn "allcomp") [] []] else map w_comp_sel comps))
  end.

(** 9.6.5  <!ELEMENT expand EMPTY>  start, end #REQUIRED *)
Definition w_expand_el (se : instant * instant) : xtree :=
  Elem (cn "expand") [cattr "start" (fmt_utc (fst (fst se))); cattr "end" (fmt_utc (fst (snd se)))] [].

(** 9.6  <!ELEMENT calendar-data (comp?, (expand | limit-recurrence-set)?, limit-freebusy-set?)> *)
Definition w_caldata (c : comp_request) : xtree :=
  Elem (cn "calendar-data") [] (w_comp_sel c :: opt_list w_expand_el (cr_expand c)).

(** comp is optional in calendar-data (9.6: "comp?"); without it the whole
    object is asked for: all properties, all components.  The second form of
    the element for such a request: *)
Definition whole_cr (e : option (instant * instant)) : comp_request := CompReq "" true [] true [] e.
Definition is_whole (c : comp_request) : bool :=
  match c with
  | CompReq nm ap ps ac cs _ =>
    str_empty nm && ap && ac && match ps with [] => true | _ => false end
    && match cs with [] => true | _ => false end
  end.
Definition w_caldata_nc (e : option (instant * instant)) : xtree :=
  Elem (cn "calendar-data") [] (opt_list w_expand_el e).

(** DAV:prop holding the calendar-data request next to another property, in
    the order of the examples of RFC 4791 section 7.8. *)
Definition w_dprop_x (caldata : xtree) : xtree :=
  Elem (dn "prop") [] [Elem (dn "getetag") [] []; caldata].
Definition w_dprop (c : comp_request) : xtree :=
  Elem (dn "prop") [] [Elem (dn "getetag") [] []; w_caldata c].

(** 9.5  <!ELEMENT calendar-query ((DAV:allprop | DAV:propname | DAV:prop)?, filter, timezone?)>
    9.7  <!ELEMENT filter (comp-filter)> *)
Definition rfc_write_query (q : calendar_query) : xtree :=
  Elem (cn "calendar-query") [] [w_dprop (q_cr q); Elem (cn "filter") [] [w_cf (q_cf q)]].

Section HrefSpec.
Variable href_fmt : string -> string.
Variable href_parse : string -> option string.

Definition w_href (p : string) : xtree := Elem (dn "href") [] (text_kids (href_fmt p)).

(** 9.10  <!ELEMENT calendar-multiget ((DAV:allprop | DAV:propname | DAV:prop)?, DAV:href+)> *)
Definition rfc_write_multiget (m : multiget) : xtree :=
  Elem (cn "calendar-multiget") [] (w_dprop (mg_cr m) :: map w_href (mg_paths m)).

Definition rfc_write (r : request) : xtree :=
  match r with RQuery q => rfc_write_query q | RMultiget m => rfc_write_multiget m end.

(** the same documents with an arbitrary calendar-data element [x] ... *)
Definition rfc_write_x (x : xtree) (r : request) : xtree :=
  match r with
  | RQuery q => Elem (cn "calendar-query") [] [w_dprop_x x; Elem (cn "filter") [] [w_cf (q_cf q)]]
  | RMultiget m => Elem (cn "calendar-multiget") [] (w_dprop_x x :: map w_href (mg_paths m))
  end.
Definition req_cr (r : request) : comp_request :=
  match r with RQuery q => q_cr q | RMultiget m => mg_cr m end.
(** ... in particular the form without comp, for a request for the whole object *)
Definition rfc_write_nc (r : request) : xtree := rfc_write_x (w_caldata_nc (cr_expand (req_cr r))) r.

(** ** 2b. Reader: strict about names, namespaces, required attributes, child
    order and cardinality; ignores comments, white space between elements,
    namespace declarations and attributes it does not know. *)

Definition el_named (n : xname) (t : xtree) : bool :=
  match t with Elem n' _ _ => name_eqb n' n | _ => false end.

(** an element declared EMPTY *)
Definition r_empty (n : xname) (t : xtree) : bool :=
  match t with Elem n' _ k => name_eqb n' n && no_elems k && content_ok k | _ => false end.

Definition r_negate (a : list xattr) : option bool :=
  match get_attr "negate-condition" a with
  | None => Some false
  | Some v => if String.eqb v "yes" then Some true else if String.eqb v "no" then Some false else None
  end.

(** the public API has no collation: only the default one is representable *)
Definition r_collation_ok (a : list xattr) : bool :=
  match get_attr "collation" a with None => true | Some v => String.eqb v "i;ascii-casemap" end.

Definition r_tm (t : xtree) : option text_match :=
  match t with
  | Elem n a k =>
    if name_eqb n (cn "text-match") && no_elems k && r_collation_ok a then
      match r_negate a with
      | Some b => Some {| tm_text := text_of k; tm_negate := b |}
      | None => None
      end
    else None
  | _ => None
  end.

(** an optional bound; the zero instant stands for "absent" in the public
    values, so a bound that spells it out is not representable *)
Definition r_bound (l : string) (a : list xattr) : option instant :=
  match get_attr l a with
  | None => Some zero_instant
  | Some v =>
    match parse_utc v with
    | Some s => if Z.eqb s zero_sec then None else Some (s, 0%Z)
    | None => None
    end
  end.

Definition r_tr (t : xtree) : option (instant * instant) :=
  match t with
  | Elem n a k =>
    if name_eqb n (cn "time-range") && no_elems k && content_ok k then
      match r_bound "start" a, r_bound "end" a with
      | Some s, Some e => if i_zero s && i_zero e then None else Some (s, e)
      | _, _ => None
      end
    else None
  | _ => None
  end.

Definition r_paf (t : xtree) : option param_filter :=
  match t with
  | Elem n a k =>
    if name_eqb n (cn "param-filter") && content_ok k then
      match get_attr "name" a with
      | None => None
      | Some name =>
        match elems k with
        | [] => Some {| paf_name := name; paf_ind := false; paf_tm := None |}
        | [e] =>
          if r_empty (cn "is-not-defined") e then Some {| paf_name := name; paf_ind := true; paf_tm := None |}
          else match r_tm e with
               | Some tm => Some {| paf_name := name; paf_ind := false; paf_tm := Some tm |}
               | None => None
               end
        | _ => None
        end
      end
    else None
  | _ => None
  end.

Definition mk_pf (name : string) (ind : bool) (s e : instant) (tm : option text_match)
           (ps : list param_filter) : prop_filter :=
  {| pf_name := name; pf_ind := ind; pf_start := s; pf_end := e; pf_tm := tm; pf_params := ps |}.

Definition r_pf (t : xtree) : option prop_filter :=
  match t with
  | Elem n a k =>
    if name_eqb n (cn "prop-filter") && content_ok k then
      match get_attr "name" a with
      | None => None
      | Some name =>
        match elems k with
        | [] => Some (mk_pf name false zero_instant zero_instant None [])
        | e :: rest =>
          if el_named (cn "is-not-defined") e then
            if r_empty (cn "is-not-defined") e && Nat.eqb (List.length rest) 0
            then Some (mk_pf name true zero_instant zero_instant None [])
            else None
          else if el_named (cn "time-range") e then
            match r_tr e, map_opt r_paf rest with
            | Some (s, e'), Some ps => Some (mk_pf name false s e' None ps)
            | _, _ => None
            end
          else if el_named (cn "text-match") e then
            match r_tm e, map_opt r_paf rest with
            | Some tm, Some ps => Some (mk_pf name false zero_instant zero_instant (Some tm) ps)
            | _, _ => None
            end
          else
            match map_opt r_paf (e :: rest) with
            | Some ps => Some (mk_pf name false zero_instant zero_instant None ps)
            | None => None
            end
        end
      end
    else None
  | _ => None
  end.

(** children of comp-filter, classified; recursion happens here, the content
    model is checked on the classified list *)
Inductive cf_item :=
| CiInd (ok : bool)
| CiTR (o : option (instant * instant))
| CiPF (o : option prop_filter)
| CiCF (o : option comp_filter)
| CiSkip
| CiOther.

Definition ci_skip (i : cf_item) : bool := match i with CiSkip => true | _ => false end.

Fixpoint take_pfs (l : list cf_item) : option (list prop_filter * list cf_item) :=
  match l with
  | CiPF (Some p) :: r =>
    match take_pfs r with Some (ps, rest) => Some (p :: ps, rest) | None => None end
  | CiPF None :: _ => None
  | _ => Some ([], l)
  end.

Fixpoint take_cfs (l : list cf_item) : option (list comp_filter) :=
  match l with
  | [] => Some []
  | CiCF (Some c) :: r => match take_cfs r with Some cs => Some (c :: cs) | None => None end
  | _ => None
  end.

Definition assemble_cf (name : string) (items : list cf_item) : option comp_filter :=
  match items with
  | [CiInd true] => Some (CompFilter name true zero_instant zero_instant [] [])
  | _ =>
    match (match items with
           | CiTR (Some se) :: r => Some (se, r)
           | CiTR None :: _ => None
           | _ => Some ((zero_instant, zero_instant), items)
           end) with
    | None => None
    | Some ((s, e), r1) =>
      match take_pfs r1 with
      | None => None
      | Some (ps, r2) =>
        match take_cfs r2 with
        | None => None
        | Some cs => Some (CompFilter name false s e ps cs)
        end
      end
    end
  end.

Fixpoint r_cf (t : xtree) : option comp_filter :=
  match t with
  | Elem n a k =>
    if name_eqb n (cn "comp-filter") && content_ok k then
      match get_attr "name" a with
      | None => None
      | Some name =>
        assemble_cf name
          (filter (fun i => negb (ci_skip i))
             (map (fun kid =>
                match kid with
                | Elem n' _ _ =>
                  if name_eqb n' (cn "is-not-defined") then CiInd (r_empty (cn "is-not-defined") kid)
                  else if name_eqb n' (cn "time-range") then CiTR (r_tr kid)
                  else if name_eqb n' (cn "prop-filter") then CiPF (r_pf kid)
                  else if name_eqb n' (cn "comp-filter") then CiCF (r_cf kid)
                  else CiOther
                | _ => CiSkip
                end) k))
      end
    else None
  | _ => None
  end.

Definition r_cprop (t : xtree) : option string :=
  match t with
  | Elem n a k =>
    if name_eqb n (cn "prop") && no_elems k && content_ok k then get_attr "name" a else None
  | _ => None
  end.

Inductive comp_item :=
| MiAllprop (ok : bool)
| MiProp (o : option string)
| MiAllcomp (ok : bool)
| MiComp (o : option comp_request)
| MiSkip
| MiOther.

Definition mi_skip (i : comp_item) : bool := match i with MiSkip => true | _ => false end.

Fixpoint take_props (l : list comp_item) : option (list string * list comp_item) :=
  match l with
  | MiProp (Some p) :: r =>
    match take_props r with Some (ps, rest) => Some (p :: ps, rest) | None => None end
  | MiProp None :: _ => None
  | _ => Some ([], l)
  end.

Fixpoint take_comps (l : list comp_item) : option (list comp_request) :=
  match l with
  | [] => Some []
  | MiComp (Some c) :: r => match take_comps r with Some cs => Some (c :: cs) | None => None end
  | _ => None
  end.

Definition assemble_comp (name : string) (items : list comp_item) : option comp_request :=
  match (match items with
         | MiAllprop true :: r => Some (true, [], r)
         | MiAllprop false :: _ => None
         | _ => match take_props items with Some (ps, r) => Some (false, ps, r) | None => None end
         end) with
  | None => None
  | Some (ap, ps, r1) =>
    match r1 with
    | [MiAllcomp true] => Some (CompReq name ap ps true [] None)
    | _ =>
      match take_comps r1 with
      | Some cs => Some (CompReq name ap ps false cs None)
      | None => None
      end
    end
  end.

Fixpoint r_comp (t : xtree) : option comp_request :=
  match t with
  | Elem n a k =>
    if name_eqb n (cn "comp") && content_ok k then
      match get_attr "name" a with
      | None => None
      | Some name =>
        assemble_comp name
          (filter (fun i => negb (mi_skip i))
             (map (fun kid =>
                match kid with
                | Elem n' _ _ =>
                  if name_eqb n' (cn "allprop") then MiAllprop (r_empty (cn "allprop") kid)
                  else if name_eqb n' (cn "prop") then MiProp (r_cprop kid)
                  else if name_eqb n' (cn "allcomp") then MiAllcomp (r_empty (cn "allcomp") kid)
                  else if name_eqb n' (cn "comp") then MiComp (r_comp kid)
                  else MiOther
                | _ => MiSkip
                end) k))
      end
    else None
  | _ => None
  end.

Definition r_expand (t : xtree) : option (instant * instant) :=
  match t with
  | Elem n a k =>
    if name_eqb n (cn "expand") && no_elems k && content_ok k then
      match get_attr "start" a, get_attr "end" a with
      | Some vs, Some ve =>
        match parse_utc vs, parse_utc ve with
        | Some s, Some e => Some ((s, 0%Z), (e, 0%Z))
        | _, _ => None
        end
      | _, _ => None
      end
    else None
  | _ => None
  end.

(** calendar-data as the public API can express it: a comp, optionally expand *)
Definition r_caldata (t : xtree) : option comp_request :=
  match t with
  | Elem n _ k =>
    if name_eqb n (cn "calendar-data") && content_ok k then
      match elems k with
      | [] => Some (whole_cr None)
      | [x] =>
        if el_named (cn "expand") x then
          match r_expand x with Some se => Some (whole_cr (Some se)) | None => None end
        else r_comp x
      | [c; e] =>
        match r_comp c, r_expand e with
        | Some cr, Some se => Some (set_expand cr (Some se))
        | _, _ => None
        end
      | _ => None
      end
    else None
  | _ => None
  end.

(** DAV:prop: exactly one calendar-data among the requested properties *)
Definition r_dprop (t : xtree) : option comp_request :=
  match t with
  | Elem n _ k =>
    if name_eqb n (dn "prop") && content_ok k then
      match filter is_caldata (elems k) with
      | [c] => r_caldata c
      | _ => None
      end
    else None
  | _ => None
  end.

Definition r_filter (t : xtree) : option comp_filter :=
  match t with
  | Elem n _ k =>
    if name_eqb n (cn "filter") && content_ok k then
      match elems k with [c] => r_cf c | _ => None end
    else None
  | _ => None
  end.

Definition r_href (t : xtree) : option string :=
  match t with
  | Elem n _ k => if name_eqb n (dn "href") && no_elems k then href_parse (text_of k) else None
  | _ => None
  end.

Definition rfc_read (t : xtree) : option request :=
  match t with
  | Elem n _ k =>
    if negb (content_ok k) then None
    else if name_eqb n (cn "calendar-query") then
      match elems k with
      | [p; f] =>
        match r_dprop p, r_filter f with
        | Some cr, Some cf => Some (RQuery {| q_cr := cr; q_cf := cf |})
        | _, _ => None
        end
      | _ => None
      end
    else if name_eqb n (cn "calendar-multiget") then
      match elems k with
      | p :: ((_ :: _) as hs) =>
        match r_dprop p, map_opt r_href hs with
        | Some cr, Some ps => Some (RMultiget {| mg_paths := ps; mg_cr := cr |})
        | _, _ => None
        end
      | _ => None
      end
    else None
  | _ => None
  end.

(** ** 2c. Which public values the RFC grammar can carry *)

Definition utc_ok (i : instant) : bool := Z.eqb (snd i) 0 && in_range (fst i).

Definition valid_tm (o : option text_match) : bool := true.

Definition valid_paf (p : param_filter) : bool := negb (paf_ind p && is_some (paf_tm p)).

Definition valid_pf (p : prop_filter) : bool :=
  utc_ok (pf_start p) && utc_ok (pf_end p)
  && (if pf_ind p
      then negb (has_tr (pf_start p) (pf_end p)) && negb (is_some (pf_tm p)) && Nat.eqb (List.length (pf_params p)) 0
      else negb (has_tr (pf_start p) (pf_end p) && is_some (pf_tm p)))
  && forallb valid_paf (pf_params p).

Fixpoint valid_cf (f : comp_filter) : bool :=
  match f with
  | CompFilter _ ind s e props comps =>
    utc_ok s && utc_ok e
    && (if ind then negb (has_tr s e) && Nat.eqb (List.length props) 0 && Nat.eqb (List.length comps) 0 else true)
    && forallb valid_pf props && forallb valid_cf comps
  end.

(** a comp below the top: no expand of its own (the RFC has no place for it) *)
Fixpoint valid_comp_sel (c : comp_request) : bool :=
  match c with
  | CompReq _ allprops props allcomps comps e =>
    negb (allprops && negb (Nat.eqb (List.length props) 0))
    && negb (allcomps && negb (Nat.eqb (List.length comps) 0))
    && negb (is_some e)
    && forallb valid_comp_sel comps
  end.

Definition valid_cr (c : comp_request) : bool :=
  valid_comp_sel (set_expand c None)
  && match cr_expand c with Some (s, e) => utc_ok s && utc_ok e | None => true end.

Definition valid_path (p : string) : bool :=
  match href_parse (href_fmt p) with Some p' => String.eqb p' p | None => false end.

Definition valid (r : request) : bool :=
  match r with
  | RQuery q => valid_cr (q_cr q) && valid_cf (q_cf q)
  | RMultiget m =>
    valid_cr (mg_cr m) && negb (Nat.eqb (List.length (mg_paths m)) 0) && forallb valid_path (mg_paths m)
  end.

End HrefSpec.

(** ** 2d. Normalisation: instants to UTC seconds, nothing else *)

Definition norm_i (i : instant) : instant := (fst i, 0%Z).
Definition norm_paf (p : param_filter) : param_filter := p.
Definition norm_pf (p : prop_filter) : prop_filter :=
  {| pf_name := pf_name p; pf_ind := pf_ind p; pf_start := norm_i (pf_start p); pf_end := norm_i (pf_end p);
     pf_tm := pf_tm p; pf_params := pf_params p |}.
Fixpoint norm_cf (f : comp_filter) : comp_filter :=
  match f with
  | CompFilter name ind s e props comps =>
    CompFilter name ind (norm_i s) (norm_i e) (map norm_pf props) (map norm_cf comps)
  end.
Definition norm_cr (c : comp_request) : comp_request :=
  match c with
  | CompReq name ap ps ac cs e =>
    CompReq name ap ps ac cs
      (match e with Some (s, e') => Some (norm_i s, norm_i e') | None => None end)
  end.
Definition normalise (r : request) : request :=
  match r with
  | RQuery q => RQuery {| q_cr := norm_cr (q_cr q); q_cf := norm_cf (q_cf q) |}
  | RMultiget m => RMultiget {| mg_paths := mg_paths m; mg_cr := norm_cr (mg_cr m) |}
  end.

(** What a caller can express: its UTC form is carried by the grammar. *)
Definition expressible (href_fmt : string -> string) (href_parse : string -> option string)
           (r : request) : bool :=
  valid href_fmt href_parse (normalise r).

(** What a call of the client API denotes: a CalendarMultiGet without Paths
    asks for the resource the report is addressed to (caldav/client.go,
    MultiGetCalendar); every other value denotes itself. *)
Definition denote (path : string) (r : request) : request :=
  match r with
  | RMultiget m =>
    match mg_paths m with
    | [] => RMultiget {| mg_paths := [path]; mg_cr := mg_cr m |}
    | _ => r
    end
  | RQuery _ => r
  end.

(** The backend call a request denotes. *)
Definition backend_call_of (path : string) (r : request) : backend_call :=
  match r with
  | RQuery q => BQuery path q
  | RMultiget m => BMultiget (mg_paths m) (mg_cr m)
  end.

(** ** 2d'. Nesting: how deep the decoder of encoding/xml has to go for the RFC
    document of a request, relative to the depth of the element itself (a
    [*struct{}] or pointer field: one level; a slice element: two).  The limit is
    [MAXD]; the top comp-filter of a calendar-query is unmarshalled at depth 2,
    the comp of calendar-data at depth 1 (Prop.Decode starts a fresh decoder). *)
Definition maxl {A} (f : A -> N) (l : list A) : N := fold_right (fun x m => N.max (f x) m) 0%N l.

Definition need_paf (p : param_filter) : N := if paf_ind p || is_some (paf_tm p) then 1%N else 0%N.
Definition need_pf (p : prop_filter) : N :=
  N.max (if pf_ind p || has_tr (pf_start p) (pf_end p) || is_some (pf_tm p) then 1 else 0)%N
        (maxl (fun q => 2 + need_paf q)%N (pf_params p)).
Fixpoint need_cf (f : comp_filter) : N :=
  match f with
  | CompFilter _ ind s e props comps =>
    N.max (if ind || has_tr s e then 1 else 0)%N
          (N.max (maxl (fun p => 2 + need_pf p)%N props) (maxl (fun c => 2 + need_cf c)%N comps))
  end.
Fixpoint need_comp (c : comp_request) : N :=
  match c with
  | CompReq _ ap ps ac comps _ =>
    N.max (if ap || ac then 1 else 0)%N
          (N.max (match ps with [] => 0 | _ => 2 end)%N (maxl (fun k => 2 + need_comp k)%N comps))
  end.

(** the request's document stays below the nesting limit *)
Definition fits_request (r : request) : bool :=
  match r with
  | RQuery q => N.ltb (1 + need_comp (q_cr q)) MAXD && N.ltb (2 + need_cf (q_cf q)) MAXD
  | RMultiget m => N.ltb (1 + need_comp (mg_cr m)) MAXD
  end.

(** ** 2e. Lexical variants of a document

    [lexvar t t']: [t'] differs from [t] only in ways XML, XML namespaces and
    the RFC's DTD declare insignificant.  Prefixes are already gone in expanded
    trees; what remains is
    - attribute order; namespace declarations and attributes from other
      namespaces among the attributes (any prefix, also one spelled like an
      attribute of the grammar: [xmlns:name], [x:start]); attributes the DTD
      gives a default value spelled out with that value,
    - comments anywhere, white space between the children of an element that
      has element content, empty character-data tokens,
    - character data delivered in several pieces (CDATA sections, comments in
      the middle of a text). *)

Definition pcdata (n : xname) : bool := name_eqb n (cn "text-match") || name_eqb n (dn "href").

(** a namespace declaration or an attribute that belongs to a namespace *)
Definition foreign (x : xattr) : bool := negb (str_empty (a_space x)) || is_decl x.

(** attributes with a default value in the DTD (RFC 4791 9.6, 9.6.4, 9.7.5) *)
Definition default_attrs (n : xname) : list xattr :=
  if name_eqb n (cn "text-match") then [cattr "collation" "i;ascii-casemap"; cattr "negate-condition" "no"]
  else if name_eqb n (cn "calendar-data") then [cattr "content-type" "text/calendar"; cattr "version" "2.0"]
  else if name_eqb n (cn "prop") then [cattr "novalue" "no"]
  else [].

Definition extra_ok (n : xname) (a : list xattr) (x : xattr) : Prop :=
  foreign x = true \/ (In x (default_attrs n) /\ ~ In (fst x) (map fst a)).

Definition attrs_var (n : xname) (a a' : list xattr) : Prop :=
  exists extra, Permutation (a ++ extra) a' /\ Forall (extra_ok n a) extra /\ NoDup (map fst a').

Inductive lexvar : xtree -> xtree -> Prop :=
| LV_text s : lexvar (Text s) (Text s)
| LV_elem n a a' k k' :
    attrs_var n a a' -> kids_var (negb (pcdata n)) k k' -> lexvar (Elem n a k) (Elem n a' k')
with kids_var : bool -> list xtree -> list xtree -> Prop :=
| KV_nil b : kids_var b [] []
| KV_cons b t t' k k' : lexvar t t' -> kids_var b k k' -> kids_var b (t :: k) (t' :: k')
| KV_comment b c k k' : kids_var b k k' -> kids_var b k (Comment c :: k')
| KV_ws s k k' : is_ws s = true -> kids_var true k k' -> kids_var true k (Text s :: k')
| KV_empty b k k' : kids_var b k k' -> kids_var b k (Text "" :: k')
| KV_split b s1 s2 k k' : kids_var b (Text s2 :: k) k' -> kids_var b (Text (s1 ++ s2) :: k) (Text s1 :: k').

(** Statistics only: the documents that exercise the repair eba20a7 (a
    declaration or foreign attribute spelled like an attribute of the grammar;
    before the repair [encoding/xml] took it for that attribute). *)
Definition reserved (l : string) : bool :=
  String.eqb l "name" || String.eqb l "start" || String.eqb l "end"
  || String.eqb l "collation" || String.eqb l "negate-condition".
Definition shadow_attr (x : xattr) : bool := negb (String.eqb (a_space x) "") && reserved (a_local x).
Fixpoint has_shadow (t : xtree) : bool :=
  match t with
  | Elem _ a k => existsb shadow_attr a || existsb has_shadow k
  | _ => false
  end.

(** * 3. Decidable equality and the oracle's verdicts *)

Definition instant_eq_dec (a b : instant) : {a = b} + {a <> b}.
Proof. decide equality; apply Z.eq_dec. Defined.
Definition text_match_eq_dec (a b : text_match) : {a = b} + {a <> b}.
Proof. decide equality; [apply bool_dec | apply string_dec]. Defined.
Definition param_filter_eq_dec (a b : param_filter) : {a = b} + {a <> b}.
Proof.
  decide equality; try apply bool_dec; try apply string_dec.
  decide equality. apply text_match_eq_dec.
Defined.
Definition prop_filter_eq_dec (a b : prop_filter) : {a = b} + {a <> b}.
Proof.
  decide equality; try apply bool_dec; try apply string_dec; try apply instant_eq_dec.
  - apply (list_eq_dec param_filter_eq_dec).
  - decide equality. apply text_match_eq_dec.
Defined.
Fixpoint comp_filter_eq_dec (a b : comp_filter) : {a = b} + {a <> b}.
Proof.
  decide equality; try apply bool_dec; try apply string_dec; try apply instant_eq_dec.
  - apply (list_eq_dec comp_filter_eq_dec).
  - apply (list_eq_dec prop_filter_eq_dec).
Defined.
Fixpoint comp_request_eq_dec (a b : comp_request) : {a = b} + {a <> b}.
Proof.
  decide equality; try apply bool_dec; try apply string_dec.
  - decide equality. decide equality; apply instant_eq_dec.
  - apply (list_eq_dec comp_request_eq_dec).
  - apply (list_eq_dec string_dec).
Defined.
Definition calendar_query_eq_dec (a b : calendar_query) : {a = b} + {a <> b}.
Proof. decide equality; [apply comp_filter_eq_dec | apply comp_request_eq_dec]. Defined.
Definition multiget_eq_dec (a b : multiget) : {a = b} + {a <> b}.
Proof. decide equality; [apply comp_request_eq_dec | apply (list_eq_dec string_dec)]. Defined.
Definition request_eq_dec (a b : request) : {a = b} + {a <> b}.
Proof. decide equality; [apply calendar_query_eq_dec | apply multiget_eq_dec]. Defined.
Definition backend_call_eq_dec (a b : backend_call) : {a = b} + {a <> b}.
Proof.
  decide equality; try apply string_dec.
  - apply calendar_query_eq_dec.
  - apply comp_request_eq_dec.
  - apply (list_eq_dec string_dec).
Defined.
Definition res_call_eq_dec (a b : res backend_call) : {a = b} + {a <> b}.
Proof. decide equality; [apply backend_call_eq_dec | apply N.eq_dec]. Defined.
Definition opt_request_eq_dec (a b : option request) : {a = b} + {a <> b}.
Proof. decide equality. apply request_eq_dec. Defined.

Definition sb {P Q : Prop} (d : {P} + {Q}) : bool := if d then true else false.

(** A sufficient, decidable test that [doc] is a lexical variant of the
    canonical tree [t] (used by the oracle to tie the harness's own serialiser
    to [rfc_write]; a case it rejects is reported, never silently dropped). *)
Definition canon_attrs (n : xname) (a : list xattr) : list xattr :=
  filter (fun x => negb (foreign x) && negb (sb (in_dec xattr_eq_dec x (default_attrs n)))) a.

Definition attrs_perm_b (a b : list xattr) : bool :=
  Nat.eqb (List.length a) (List.length b)
  && forallb (fun x => sb (in_dec xattr_eq_dec x b)) a
  && forallb (fun x => sb (in_dec xattr_eq_dec x a)) b.

Definition names_nodup_b (a : list xattr) : bool :=
  sb (ListDec.NoDup_dec xname_eq_dec (map fst a)).

Fixpoint variant_b (t doc : xtree) {struct t} : bool :=
  match t, doc with
  | Text s, Text s' => String.eqb s s'
  | Elem n a k, Elem n' a' k' =>
    name_eqb n n'
    && names_nodup_b a'
    && attrs_perm_b a (canon_attrs n a')
    && (if pcdata n
        then no_elems k' && String.eqb (text_of k) (text_of k')
        else content_ok k'
             && (fix go (l : list xtree) (l' : list xtree) {struct l} : bool :=
                   match l, l' with
                   | [], [] => true
                   | x :: r, y :: r' => variant_b x y && go r r'
                   | _, _ => false
                   end) k (elems k'))
  | _, _ => false
  end.

(** no backend call is made for an empty href list: the component request is
    then not observable *)
Definition canon_call (c : res backend_call) : res backend_call :=
  match c with
  | Ok (BMultiget [] _) => Ok (BMultiget [] zero_cr)
  | _ => c
  end.

Section Verdicts.
Variable href_fmt : string -> string.
Variable href_parse : string -> option string.

(** Stream (a), client.  Observation: the body [caldav.Client] wrote, tokenised
    by Go's decoder, and what the real [caldav.Handler] handed its backend
    when given that very body. *)
Definition client_agrees (path : string) (r : request) (body : xtree) (call : res backend_call) : bool :=
  sb (xtree_eq_dec (strip_decls body) (client_body href_fmt path r))
  && sb (res_call_eq_dec (canon_call (handle_report href_parse path body)) call).

Definition client_spec_ok (path : string) (r : request) (body : xtree) (call : res backend_call) : bool :=
  let r' := denote path r in
  if expressible href_fmt href_parse r' && fits_request r' then
    sb (opt_request_eq_dec (rfc_read href_parse body) (Some (normalise r')))
    && sb (res_call_eq_dec call (Ok (backend_call_of path (normalise r'))))
  else true.

(** Stream (b), server.  [doc] is the tokenised document the harness's own
    RFC serialiser wrote for [r] (or an arbitrary malformed document when
    there is no [r]); observation: the recorded backend call or the status. *)
Definition server_agrees (path : string) (doc : xtree) (call : res backend_call) : bool :=
  sb (res_call_eq_dec (canon_call (handle_report href_parse path doc)) call).

Definition server_in_domain (r : request) (doc : xtree) : bool :=
  valid href_fmt href_parse r && fits_request r
  && (variant_b (rfc_write href_fmt r) doc
      || (is_whole (req_cr r) && variant_b (rfc_write_nc href_fmt r) doc)).

Definition server_spec_ok (path : string) (r : request) (doc : xtree) (call : res backend_call) : bool :=
  if server_in_domain r doc
  then sb (res_call_eq_dec call (Ok (backend_call_of path r)))
       && sb (opt_request_eq_dec (rfc_read href_parse doc) (Some r))
  else true.

End Verdicts.
