(** CalWireVariant.v — C08 proofs, part 5: the decidable variant test the
    oracle runs ([variant_b]) is sound for the relation the theorems use
    ([lexvar]), on the trees [rfc_write] produces. *)
From Coq Require Import Permutation.
From GW Require Import Base CalTime CalXml CalWire CalWireLex.

Section XInd.
  Variable P : xtree -> Prop.
  Hypothesis HE : forall n a k, Forall P k -> P (Elem n a k).
  Hypothesis HT : forall s, P (Text s).
  Hypothesis HC : forall s, P (Comment s).
  Fixpoint xtree_ind2 (t : xtree) : P t :=
    match t with
    | Elem n a k =>
      HE n a k ((fix go (l : list xtree) : Forall P l :=
                   match l with
                   | [] => Forall_nil _
                   | x :: r => Forall_cons x (xtree_ind2 x) (go r)
                   end) k)
    | Text s => HT s
    | Comment s => HC s
    end.
End XInd.

Definition forall2b {A B} (f : A -> B -> bool) : list A -> list B -> bool :=
  fix go (l : list A) (l' : list B) {struct l} : bool :=
    match l, l' with
    | [], [] => true
    | x :: r, y :: r' => f x y && go r r'
    | _, _ => false
    end.

Lemma variant_b_eq n a k n' a' k' :
  variant_b (Elem n a k) (Elem n' a' k') =
  name_eqb n n' && names_nodup_b a' && attrs_perm_b a (canon_attrs n a')
  && (if pcdata n then no_elems k' && String.eqb (text_of k) (text_of k')
      else content_ok k' && forall2b variant_b k (elems k')).
Proof. reflexivity. Qed.

(** canonical trees: character data only inside the two #PCDATA elements, as
    one non-empty piece; everything else has element children only *)
Fixpoint canon_b (t : xtree) : bool :=
  match t with
  | Elem n _ k =>
    if pcdata n then match k with [] => true | [Text s] => negb (str_empty s) | _ => false end
    else forallb (fun x => is_elem x && canon_b x) k
  | _ => true
  end.

Lemma sb_true {P Q : Prop} (d : {P} + {Q}) : sb d = true -> P.
Proof. destruct d; [auto | discriminate]. Qed.

Lemma nodup_fst_inj {A B} (l : list (A * B)) x y :
  NoDup (map fst l) -> In x l -> In y l -> fst x = fst y -> x = y.
Proof.
  induction l as [|z r IH]; cbn; [tauto |]. intros Hnd. apply NoDup_cons_iff in Hnd. destruct Hnd as [Hni Hnd].
  intros [->|Hx] [->|Hy] E; auto.
  - exfalso. apply Hni. rewrite E. now apply in_map.
  - exfalso. apply Hni. rewrite <- E. now apply in_map.
Qed.

Lemma nodup_of_fst {A B} (l : list (A * B)) : NoDup (map fst l) -> NoDup l.
Proof.
  induction l as [|z r IH]; cbn; [constructor |]. intros Hnd. apply NoDup_cons_iff in Hnd. destruct Hnd as [Hni Hnd].
  constructor; [|auto]. intros Hin. apply Hni. now apply in_map.
Qed.

Lemma perm_filter_split {A} (f : A -> bool) l : Permutation (filter f l ++ filter (fun x => negb (f x)) l) l.
Proof.
  induction l as [|x r IH]; cbn; [constructor |]. destruct (f x); cbn.
  - now constructor.
  - eapply perm_trans; [apply Permutation_sym, Permutation_middle |]. now constructor.
Qed.

Lemma attrs_sound n a a' :
  names_nodup_b a' = true -> attrs_perm_b a (canon_attrs n a') = true -> attrs_var n a a'.
Proof.
  intros Hnd Hp. unfold names_nodup_b in Hnd. apply sb_true in Hnd.
  unfold attrs_perm_b in Hp. apply andb_true_iff in Hp. destruct Hp as [Hp Hba].
  apply andb_true_iff in Hp. destruct Hp as [Hlen Hab]. apply Nat.eqb_eq in Hlen.
  set (keep := fun x => negb (foreign x) && negb (sb (in_dec xattr_eq_dec x (default_attrs n)))) in *.
  assert (Hc : canon_attrs n a' = filter keep a') by reflexivity. rewrite Hc in *.
  assert (Hperm : Permutation (filter keep a') a).
  { apply NoDup_Permutation_bis.
    - apply NoDup_filter. now apply nodup_of_fst.
    - rewrite Hlen. constructor.
    - intros x Hx. rewrite forallb_forall in Hba. apply (sb_true _ (Hba x Hx)). }
  exists (filter (fun x => negb (keep x)) a'). repeat split.
  - eapply perm_trans; [|apply (perm_filter_split keep)]. apply Permutation_app_tail. now apply Permutation_sym.
  - apply Forall_forall. intros x Hx. apply filter_In in Hx. destruct Hx as [Hin Hk].
    apply negb_true_iff in Hk. unfold keep in Hk. unfold extra_ok.
    destruct (foreign x) eqn:Ef; [now left |]. right. cbn in Hk.
    destruct (in_dec xattr_eq_dec x (default_attrs n)) as [Hd|Hd]; [|discriminate]. split; [exact Hd |].
    intros Hn. apply in_map_iff in Hn. destruct Hn as (y & Ey & Hy).
    apply (Permutation_in _ (Permutation_sym Hperm)) in Hy. apply filter_In in Hy. destruct Hy as [Hy Hky].
    assert (y = x) by (eapply nodup_fst_inj; eauto). subst y.
    unfold keep in Hky. rewrite Ef in Hky. cbn in Hky.
    destruct (in_dec xattr_eq_dec x (default_attrs n)); [discriminate | contradiction].
  - exact Hnd.
Qed.

(** children of a #PCDATA element *)
Lemma kv_text_nil k' : no_elems k' = true -> text_of k' = "" -> kids_var false [] k'.
Proof.
  induction k' as [|t r IH]; intros Hn Ht; [constructor |].
  unfold no_elems in *. cbn [forallb] in Hn. apply andb_true_iff in Hn. destruct Hn as [Hte Hr].
  destruct t as [| s | c]; [discriminate | |].
  - cbn [text_of] in Ht. destruct s; [|discriminate]. cbn in Ht. apply KV_empty. auto.
  - apply KV_comment. auto.
Qed.

Lemma kv_text k' : forall s, no_elems k' = true -> text_of k' = s -> s <> "" -> kids_var false [Text s] k'.
Proof.
  induction k' as [|t r IH]; intros s Hn Ht Hs.
  - cbn in Ht. congruence.
  - unfold no_elems in *. cbn [forallb] in Hn. apply andb_true_iff in Hn. destruct Hn as [Hte Hr].
    destruct t as [| s1 | c]; [discriminate | |].
    + cbn [text_of] in Ht. destruct (string_dec (text_of r) "") as [E|E].
      * rewrite E, app_nil_r_s in Ht. subst s1. constructor; [constructor |]. now apply kv_text_nil.
      * destruct s1 as [|c1 s1].
        -- cbn in Ht. apply KV_empty. now apply IH.
        -- subst s. apply KV_split. now apply IH.
    + apply KV_comment. now apply IH.
Qed.

(** children of an element with element content *)
Lemma kv_content k' : forall k,
  content_ok k' = true -> Forall2 lexvar k (elems k') -> kids_var true k k'.
Proof.
  induction k' as [|t r IH]; intros k Hc Hf.
  - cbn in Hf. inversion Hf. constructor.
  - unfold content_ok in *. cbn [forallb] in Hc. apply andb_true_iff in Hc. destruct Hc as [Ht Hr].
    destruct t as [n a kk | s | c].
    + unfold elems in Hf. cbn [filter is_elem] in Hf. inversion Hf; subst. constructor; auto.
    + apply KV_ws; auto.
    + apply KV_comment; auto.
Qed.

Lemma forall2b_sound (P : xtree -> Prop) k :
  Forall (fun t => canon_b t = true -> forall doc, variant_b t doc = true -> lexvar t doc) k ->
  forallb (fun x => is_elem x && canon_b x) k = true ->
  forall l', forall2b variant_b k l' = true -> Forall2 lexvar k l'.
Proof.
  induction 1 as [|t k Ht _ IH]; intros Hc l' Hv; destruct l' as [|y l']; try discriminate; [constructor |].
  cbn [forallb] in Hc. apply andb_true_iff in Hc. destruct Hc as [Hct Hck]. apply andb_true_iff in Hct.
  cbn [forall2b] in Hv. apply andb_true_iff in Hv. destruct Hv as [Hvt Hvk].
  constructor; [apply Ht; tauto | now apply IH].
Qed.

Theorem variant_sound t : canon_b t = true -> forall doc, variant_b t doc = true -> lexvar t doc.
Proof.
  induction t as [n a k IH | s | s] using xtree_ind2; intros Hc doc Hv.
  - destruct doc as [n' a' k' | |]; try discriminate.
    rewrite variant_b_eq in Hv.
    apply andb_true_iff in Hv. destruct Hv as [Hv Hk].
    apply andb_true_iff in Hv. destruct Hv as [Hv Hp].
    apply andb_true_iff in Hv. destruct Hv as [Hn Hnd].
    apply name_eqb_eq in Hn. subst n'.
    constructor; [now apply attrs_sound |].
    cbn [canon_b] in Hc. destruct (pcdata n) eqn:Epc; cbn [negb].
    + apply andb_true_iff in Hk. destruct Hk as [Hne Ht]. apply String.eqb_eq in Ht.
      destruct k as [|[| s |] [|]]; try discriminate.
      * apply kv_text_nil; [assumption | now rewrite <- Ht].
      * cbn [text_of] in Ht. rewrite app_nil_r_s in Ht. apply kv_text; [assumption | now rewrite <- Ht |].
        apply negb_true_iff in Hc. intros ->. discriminate.
    + apply andb_true_iff in Hk. destruct Hk as [Hco Hf]. apply kv_content; [assumption |].
      eapply forall2b_sound; eauto. exact (fun _ => True).
  - destruct doc; try discriminate. cbn in Hv. apply String.eqb_eq in Hv. subst. constructor.
  - discriminate.
Qed.

(** * What [rfc_write] writes is canonical *)
Lemma canon_text_elem n a s : pcdata n = true -> canon_b (Elem n a (text_kids s)) = true.
Proof. intros H. cbn [canon_b]. rewrite H. unfold text_kids. destruct s; reflexivity. Qed.

Lemma canon_kids_map {A} (f : A -> xtree) l :
  (forall x, In x l -> is_elem (f x) && canon_b (f x) = true) ->
  forallb (fun x => is_elem x && canon_b x) (map f l) = true.
Proof. intros H. apply forallb_forall. intros t Hin. apply in_map_iff in Hin. destruct Hin as (x & <- & Hx). now apply H. Qed.

Lemma canon_tm tm : canon_b (w_tm tm) = true.
Proof. now apply canon_text_elem. Qed.
Lemma canon_paf p : canon_b (w_paf p) = true.
Proof.
  unfold w_paf. cbn [canon_b]. change (pcdata (cn "param-filter")) with false. cbv iota.
  destruct (paf_ind p); [reflexivity |]. destruct (paf_tm p); [|reflexivity]. cbn [opt_list forallb]. now rewrite canon_tm.
Qed.
Lemma canon_pf p : canon_b (w_pf p) = true.
Proof.
  unfold w_pf. cbn [canon_b]. change (pcdata (cn "prop-filter")) with false. cbv iota.
  destruct (pf_ind p); [reflexivity |]. rewrite forallb_app. apply andb_true_iff. split.
  - destruct (has_tr _ _); [reflexivity |]. destruct (pf_tm p); [|reflexivity]. cbn [opt_list forallb]. now rewrite canon_tm.
  - apply canon_kids_map. intros x _. now rewrite canon_paf.
Qed.
Lemma canon_cf f : canon_b (w_cf f) = true.
Proof.
  induction f as [nm ind s e props comps IH] using comp_filter_ind2. cbn [w_cf canon_b].
  change (pcdata (cn "comp-filter")) with false. cbv iota.
  destruct ind; [reflexivity |]. rewrite !forallb_app. apply andb_true_iff. split; [now destruct (has_tr s e) |].
  apply andb_true_iff. split.
  - apply canon_kids_map. intros x _. now rewrite canon_pf.
  - apply canon_kids_map. intros x Hx. rewrite Forall_forall in IH. rewrite (IH _ Hx). now destruct x.
Qed.
Lemma canon_comp c : canon_b (w_comp_sel c) = true.
Proof.
  induction c as [nm ap ps ac comps ex IH] using comp_request_ind2. cbn [w_comp_sel canon_b].
  change (pcdata (cn "comp")) with false. cbv iota.
  rewrite forallb_app. apply andb_true_iff. split.
  - destruct ap; [reflexivity |]. apply canon_kids_map. reflexivity.
  - destruct ac; [reflexivity |]. apply canon_kids_map. intros x Hx. rewrite Forall_forall in IH.
    rewrite (IH _ Hx). now destruct x.
Qed.
Lemma canon_dprop c : canon_b (w_dprop c) = true.
Proof.
  unfold w_dprop, w_caldata. cbn [canon_b forallb is_elem andb].
  change (pcdata (dn "prop")) with false. change (pcdata (dn "getetag")) with false.
  change (pcdata (cn "calendar-data")) with false. cbv iota. cbn [forallb is_elem andb].
  rewrite canon_comp. replace (is_elem (w_comp_sel c)) with true by now destruct c.
  destruct (cr_expand c); reflexivity.
Qed.

Lemma canon_rfc_write hf r : canon_b (rfc_write hf r) = true.
Proof.
  destruct r as [q|m]; cbn [rfc_write]; unfold rfc_write_query, rfc_write_multiget.
  - cbn [canon_b]. change (pcdata (cn "calendar-query")) with false. cbv iota.
    cbn [forallb]. rewrite canon_dprop. cbn [is_elem andb canon_b].
    change (pcdata (cn "filter")) with false. cbv iota. cbn [forallb]. rewrite canon_cf.
    now destruct (q_cf q).
  - cbn [canon_b]. change (pcdata (cn "calendar-multiget")) with false. cbv iota.
    cbn [forallb]. rewrite canon_dprop. cbn [is_elem andb].
    apply canon_kids_map. intros x _. unfold w_href. now rewrite canon_text_elem.
Qed.

Theorem variant_b_lexvar hf r doc : variant_b (rfc_write hf r) doc = true -> lexvar (rfc_write hf r) doc.
Proof. apply variant_sound, canon_rfc_write. Qed.

(** the form without comp *)
Lemma canon_rfc_write_nc hf r : canon_b (rfc_write_nc hf r) = true.
Proof.
  unfold rfc_write_nc, rfc_write_x, w_dprop_x, w_caldata_nc.
  destruct r as [q|m]; cbn [canon_b req_cr].
  - change (pcdata (cn "calendar-query")) with false. cbv iota. cbn [forallb is_elem andb canon_b].
    change (pcdata (dn "prop")) with false. change (pcdata (dn "getetag")) with false.
    change (pcdata (cn "calendar-data")) with false. change (pcdata (cn "filter")) with false.
    cbv iota. cbn [forallb is_elem andb].
    rewrite canon_cf. replace (is_elem (w_cf (q_cf q))) with true by now destruct (q_cf q).
    destruct (cr_expand (q_cr q)) as [[s e]|]; reflexivity.
  - change (pcdata (cn "calendar-multiget")) with false. cbv iota. cbn [forallb is_elem andb canon_b].
    change (pcdata (dn "prop")) with false. change (pcdata (dn "getetag")) with false.
    change (pcdata (cn "calendar-data")) with false. cbv iota. cbn [forallb is_elem andb].
    assert (H : forallb (fun x => is_elem x && canon_b x) (map (w_href hf) (mg_paths m)) = true).
    { apply canon_kids_map. intros x _. unfold w_href. now rewrite canon_text_elem. }
    rewrite H. destruct (cr_expand (mg_cr m)) as [[s e]|]; reflexivity.
Qed.

Theorem variant_b_lexvar_nc hf r doc : variant_b (rfc_write_nc hf r) doc = true -> lexvar (rfc_write_nc hf r) doc.
Proof. apply variant_sound, canon_rfc_write_nc. Qed.
