(** Route.v — C12: how the CalDAV and CardDAV servers classify a request path
    under a mount prefix and which backend operation each verb reaches.

    Model, function by function, of
      path.Clean, strings.HasPrefix/TrimPrefix/TrimSuffix/Split          (Go runtime; cross-checked)
      caldav/server.go, carddav/server.go:
        Handler.ServeHTTP      (/.well-known redirect, prefix without its trailing slash, REPORT)
        backend.resourceTypeAtPath, samePath
        backend.Options / HeadGet / Put / Delete / Mkcol / PropFind (scope walk) / PropPatch / Copy / Move
        Handler.handleReport   (which backend operation a query / a multiget reaches)
      internal/server.go Handler.ServeHTTP (verb dispatch, success statuses)
    against a backend double whose behaviour is the record [backend] below.
    No proofs here: this file is extracted. *)
From GW Require Import Base.

(** * Go string functions *)

(** strings.HasPrefix s p *)
Fixpoint has_prefix (s p : string) {struct p} : bool :=
  match p with
  | EmptyString => true
  | String c p' =>
    match s with
    | EmptyString => false
    | String d s' => Ascii.eqb c d && has_prefix s' p'
    end
  end.

Fixpoint drop (n : nat) (s : string) : string :=
  match n, s with
  | O, _ => s
  | S n', String _ s' => drop n' s'
  | S _, EmptyString => EmptyString
  end.

(** strings.TrimPrefix s p *)
Definition trim_prefix (s p : string) : string :=
  if has_prefix s p then drop (String.length p) s else s.

Definition slash : ascii := "/"%char.

(** strings.TrimSuffix s "/" : at most one trailing slash is removed *)
Fixpoint trim_slash (s : string) : string :=
  match s with
  | EmptyString => EmptyString
  | String c r =>
    match r with
    | EmptyString => if Ascii.eqb c slash then EmptyString else s
    | _ => String c (trim_slash r)
    end
  end.

(** strings.Split s "/" : never empty, [""] for the empty string *)
Fixpoint split_slash (s : string) : list string :=
  match s with
  | EmptyString => [EmptyString]
  | String c r =>
    if Ascii.eqb c slash then EmptyString :: split_slash r
    else match split_slash r with
         | x :: xs => String c x :: xs
         | [] => [String c EmptyString]
         end
  end.

(** path.Clean, as a stack of segments.  Go's lazybuf algorithm keeps the
    output buffer and the index [dotdot] below which it may not backtrack; the
    stack below (top first) holds the same segments, and a ".." can only be on
    it in the unrooted case, where it is exactly the part that cannot be popped. *)
Definition clean_step (rooted : bool) (stack : list string) (seg : string) : list string :=
  if String.eqb seg "" || String.eqb seg "." then stack
  else if String.eqb seg ".." then
    match stack with
    | top :: rest => if String.eqb top ".." then seg :: stack else rest
    | [] => if rooted then [] else [seg]
    end
  else seg :: stack.

Definition clean (p : string) : string :=
  if String.eqb p "" then "."
  else
    let rooted := has_prefix p "/" in
    let st := rev (fold_left (clean_step rooted) (split_slash p) []) in
    if rooted then "/" ++ String.concat "/" st
    else match st with [] => "." | _ => String.concat "/" st end.

(** * Classification of a request path *)

(** resourceTypeAtPath (caldav/server.go, carddav/server.go — identical):
    0 root, 1 principal, 2 home set, 3 collection, 4 object, 5.. nothing. *)
Definition resource_type_at_path (prefix req_path : string) : nat :=
  let p := trim_prefix (clean req_path) prefix in
  let p := if has_prefix p "/" then p else "/" ++ p in
  if String.eqb p "/" then 0 else List.length (split_slash p) - 1.

(** samePath: a collection may be named with or without its trailing slash *)
Definition same_path (a b : string) : bool := String.eqb (trim_slash a) (trim_slash b).

(** * The servers against a recording backend double *)

Inductive server := CalDAV | CardDAV.

Inductive meth :=
  MOptions | MGet | MHead | MPut | MDelete | MPropfind | MProppatch | MMkcol | MCopy | MMove | MReport | MOther.

Inductive depth := D0 | D1 | DInf.

(** Backend operations, in the vocabulary of both Backend interfaces:
    CurrentUserPrincipal, Calendar/AddressBookHomeSetPath, ListCalendars/AddressBooks,
    GetCalendar/AddressBook, CreateCalendar/AddressBook, DeleteAddressBook (CardDAV only),
    Get/List/Query/Put/Delete…Object(s). *)
Inductive op :=
  OpPrincipal | OpHomeSet | OpListColls | OpGetColl | OpCreateColl | OpDeleteColl
| OpGetObj | OpListObjs | OpQueryObjs | OpPutObj | OpDeleteObj.

(** A recorded call: the operation and its path argument ("" when it has none). *)
Definition call := (op * string)%type.

(** What the double holds.  The boolean fields say which optional properties the
    object or collection has (they matter to C11 only). *)
Record obj := { o_path : string; o_len : bool; o_mod : bool; o_etag : bool }.
Record coll := { c_path : string; c_name : bool; c_desc : bool; c_max : bool; c_objs : list obj }.
Record backend := { principal : string; homeset : string; colls : list coll }.

(** The double: a collection is found by its path with or without the trailing
    slash, an object by its exact path; nothing else fails. *)
Definition find_coll (b : backend) (p : string) : option coll :=
  find (fun c => same_path (c_path c) p) (colls b).
Definition all_objs (b : backend) : list obj := flat_map c_objs (colls b).
Definition find_obj (b : backend) (p : string) : option obj :=
  find (fun o => String.eqb (o_path o) p) (all_objs b).
Definition list_objs (b : backend) (p : string) : list obj :=
  match find_coll b p with Some c => c_objs c | None => [] end.

(** The resources a PROPFIND answers for, in answer order. *)
Inductive answered :=
| ARoot (href : string)   (* the root answers under the request path *)
| APrincipal | AHome | AColl (c : coll) | AObj (o : obj).

Definition href_of (b : backend) (a : answered) : string :=
  match a with
  | ARoot h => h
  | APrincipal => principal b
  | AHome => homeset b
  | AColl c => c_path c
  | AObj o => o_path o
  end.

Definition cP : call := (OpPrincipal, "").
Definition cH : call := (OpHomeSet, "").

(** Backend calls made while building the principal's and the home set's
    response, for a request that names neither current-user-principal nor the
    home-set property (those are fetched lazily by CardDAV):
    caldav propFindUserPrincipal and propFindHomeSet ask for both paths,
    carddav propFindUserPrincipal asks for the principal, propFindHomeSet for the home set. *)
Definition eager_principal (s : server) : list call :=
  match s with CalDAV => [cP; cH] | CardDAV => [cP] end.
Definition eager_home (s : server) : list call :=
  match s with CalDAV => [cP; cH] | CardDAV => [cH] end.

(** propFindAllCalendars / propFindAllAddressBooks (with the nested
    propFindAll…Objects when [recurse]) *)
Definition colls_trace (b : backend) (recurse : bool) : list call :=
  (OpListColls, "") ::
  flat_map (fun c => if recurse then [(OpListObjs, c_path c)] else []) (colls b).
Definition colls_answered (b : backend) (recurse : bool) : list answered :=
  flat_map (fun c => AColl c :: (if recurse then map AObj (list_objs b (c_path c)) else [])) (colls b).

Definition is_d0 (d : depth) : bool := match d with D0 => true | _ => false end.
Definition is_inf (d : depth) : bool := match d with DInf => true | _ => false end.

(** backend.PropFind: the scope walk, for a path of resource type [level]. *)
Definition propfind_at (level : nat) (s : server) (b : backend) (path : string) (d : depth)
  : list call * res (list answered) :=
  match level with
  | 0 => ([cP], Ok [ARoot path])
  | 1 =>
    if same_path path (principal b) then
      match d with
      | D0 => (cP :: eager_principal s, Ok [APrincipal])
      | D1 => (cP :: eager_principal s ++ eager_home s, Ok [APrincipal; AHome])
      | DInf => (cP :: eager_principal s ++ eager_home s ++ colls_trace b true,
                 Ok (APrincipal :: AHome :: colls_answered b true))
      end
    else ([cP], Ok [])
  | 2 =>
    if same_path path (homeset b) then
      match d with
      | D0 => (cH :: eager_home s, Ok [AHome])
      | _ => (cH :: eager_home s ++ colls_trace b (is_inf d),
              Ok (AHome :: colls_answered b (is_inf d)))
      end
    else ([cH], Ok [])
  | 3 =>
    match find_coll b path with
    | None => ([(OpGetColl, path)], Err 404)
    | Some c =>
      if is_d0 d then ([(OpGetColl, path)], Ok [AColl c])
      else ([(OpGetColl, path); (OpListObjs, c_path c)],
            Ok (AColl c :: map AObj (list_objs b (c_path c))))
    end
  | 4 =>
    match find_obj b path with
    | None => ([(OpGetObj, path)], Err 404)
    | Some o => ([(OpGetObj, path)], Ok [AObj o])
    end
  | _ => ([], Ok [])
  end.

Definition propfind_walk (s : server) (b : backend) (prefix path : string) (d : depth)
  : list call * res (list answered) :=
  propfind_at (resource_type_at_path prefix path) s b path d.

(** Request variants the harness sends:
    PUT     VGood: right Content-Type and a parsable body; VBad: text/plain
    MKCOL   VGood: no body; VAlt: extended MKCOL body of the right resource type;
            VBad: extended MKCOL body lacking the calendar / addressbook type
    REPORT  VGood: a calendar-query / addressbook-query; VMultiget hs: a multiget
            naming hs; VBad: another root element
    others  VGood *)
Inductive variant := VGood | VAlt | VBad | VMultiget (hrefs : list string).

Record request := { q_meth : meth; q_path : string; q_depth : depth; q_var : variant }.

(** What is observed: the recorded calls, the status, the hrefs of a
    multi-status body, and the Location (308) or Allow (OPTIONS) header. *)
Record outcome := { o_trace : list call; o_status : N; o_hrefs : list string; o_extra : string }.

Definition out (t : list call) (st : N) : outcome :=
  {| o_trace := t; o_status := st; o_hrefs := []; o_extra := "" |}.

Definition well_known (s : server) : string :=
  match s with CalDAV => "/.well-known/caldav" | CardDAV => "/.well-known/carddav" end.

Definition allow_generic : string := "OPTIONS, PROPFIND, REPORT, DELETE, MKCOL".
Definition allow_missing : string := "OPTIONS, PUT".
Definition allow_object : string := "OPTIONS, HEAD, GET, PUT, DELETE, PROPFIND".

Definition is_bad (v : variant) : bool := match v with VBad => true | _ => false end.

(** internal.Handler.ServeHTTP over the caldav / carddav backend adapter (and
    handleReport), for a request path of resource type [level] (every backend
    method computes resourceTypeAtPath of the same path and prefix itself). *)
Definition dispatch (s : server) (b : backend) (level : nat) (q : request) : outcome :=
  let path := q_path q in
  match q_meth q with
  | MReport =>
    match q_var q with
    | VBad => out [] 400
    | VMultiget hs =>
      {| o_trace := map (fun h => (OpGetObj, h)) hs; o_status := 207; o_hrefs := hs; o_extra := "" |}
    | _ => out [(OpQueryObjs, path)] 207
    end
  | MOptions =>
    if Nat.eqb level 4 then
      {| o_trace := [(OpGetObj, path)]; o_status := 204; o_hrefs := [];
         o_extra := match find_obj b path with Some _ => allow_object | None => allow_missing end |}
    else {| o_trace := []; o_status := 204; o_hrefs := []; o_extra := allow_generic |}
  | MGet | MHead =>
    out [(OpGetObj, path)] (match find_obj b path with Some _ => 200 | None => 404 end)
  | MPut => if is_bad (q_var q) then out [] 400 else out [(OpPutObj, path)] 201
  | MDelete =>
    match s with
    | CalDAV => out [(OpDeleteObj, path)] 204
    | CardDAV =>
      if Nat.eqb level 3 then out [(OpDeleteColl, path)] 204
      else if Nat.eqb level 4 then out [(OpDeleteObj, path)] 204
      else out [] 403
    end
  | MMkcol =>
    if negb (Nat.eqb level 3) then out [] 403
    else if is_bad (q_var q) then out [] 400
    else out [(OpCreateColl, path)] 201
  | MPropfind =>
    match propfind_at level s b path (q_depth q) with
    | (t, Ok l) => {| o_trace := t; o_status := 207; o_hrefs := map (href_of b) l; o_extra := "" |}
    | (t, Err c) => out t c
    | (t, Panic) => out t 0
    end
  | MProppatch =>
    match s with
    | CalDAV => out [] 501
    | CardDAV => {| o_trace := [cH]; o_status := 207; o_hrefs := [path]; o_extra := "" |}
    end
  | MCopy | MMove => out [] 501
  | MOther => out [] 405
  end.

(** Handler.ServeHTTP of caldav / carddav with [Prefix = hprefix]. *)
Definition serve (s : server) (hprefix : string) (b : backend) (q : request) : outcome :=
  if String.eqb (q_path q) (well_known s) then
    {| o_trace := [cP]; o_status := 308; o_hrefs := []; o_extra := principal b |}
  else dispatch s b (resource_type_at_path (trim_slash hprefix) (q_path q)) q.

(** * Specification *)

(** A path segment a layout may use: non-empty, without '/', neither "." nor "..". *)
Fixpoint no_slash (s : string) : bool :=
  match s with
  | EmptyString => true
  | String c r => negb (Ascii.eqb c slash) && no_slash r
  end.
Definition seg_ok (s : string) : bool :=
  no_slash s && negb (String.eqb s "") && negb (String.eqb s ".") && negb (String.eqb s "..").
Definition segs_ok (l : list string) : bool := forallb seg_ok l.

(** "/s1/s2/…/sn"; the empty list is the empty string (the empty prefix). *)
Fixpoint join (l : list string) : string :=
  match l with
  | [] => ""
  | s :: r => "/" ++ s ++ join r
  end.

(** The mount prefix in its two spellings ("" or "/" for no segments). *)
Definition spell_prefix (ps : list string) (trailing : bool) : string :=
  join ps ++ (if trailing then "/" else "").

(** A request path [rs] below the prefix [ps], with or without a trailing slash;
    the path of the empty list is "/". *)
Definition req_path (ps rs : list string) (trailing : bool) : string :=
  match (ps ++ rs)%list with
  | [] => "/"
  | l => join l ++ (if trailing then "/" else "")
  end.

(** The routing table: which backend operation a verb reaches first at a level
    (with the request path as its argument or without argument), or the status
    it is answered with when no backend operation is invoked.

    Where the Backend interface has one operation per level for the verb, the
    level decides (PROPFIND everywhere; DELETE in CardDAV); collection creation
    exists at collection depth only; where the interface has a single operation
    for the verb (GET/HEAD, PUT, REPORT queries, DELETE in CalDAV) every level
    reaches it with the unchanged path and the backend decides. *)
Inductive routed := Reach (o : op) (with_path : bool) | NoCall (status : N).

Definition route (s : server) (m : meth) (level : nat) : routed :=
  match m with
  | MOptions => if Nat.eqb level 4 then Reach OpGetObj true else NoCall 204
  | MGet | MHead => Reach OpGetObj true
  | MPut => Reach OpPutObj true
  | MDelete =>
    match s with
    | CalDAV => Reach OpDeleteObj true
    | CardDAV =>
      match level with
      | 3 => Reach OpDeleteColl true
      | 4 => Reach OpDeleteObj true
      | _ => NoCall 403
      end
    end
  | MMkcol => match level with 3 => Reach OpCreateColl true | _ => NoCall 403 end
  | MPropfind =>
    match level with
    | 0 | 1 => Reach OpPrincipal false
    | 2 => Reach OpHomeSet false
    | 3 => Reach OpGetColl true
    | 4 => Reach OpGetObj true
    | _ => NoCall 207
    end
  | MProppatch => match s with CalDAV => NoCall 501 | CardDAV => Reach OpHomeSet false end
  | MCopy | MMove => NoCall 501
  | MReport => Reach OpQueryObjs true
  | MOther => NoCall 405
  end.

(** A request the table speaks about: well-formed, and not a multiget (whose
    backend calls carry the hrefs of its body, not the request path). *)
Definition plain (q : request) : bool :=
  match q_var q with VGood => true | VAlt => true | _ => false end.

Definition op_eqb (a b : op) : bool :=
  match a, b with
  | OpPrincipal, OpPrincipal | OpHomeSet, OpHomeSet | OpListColls, OpListColls
  | OpGetColl, OpGetColl | OpCreateColl, OpCreateColl | OpDeleteColl, OpDeleteColl
  | OpGetObj, OpGetObj | OpListObjs, OpListObjs | OpQueryObjs, OpQueryObjs
  | OpPutObj, OpPutObj | OpDeleteObj, OpDeleteObj => true
  | _, _ => false
  end.

Definition routed_ok (r : routed) (path : string) (o : outcome) : bool :=
  match r with
  | Reach p wp =>
    match o_trace o with
    | (p', a) :: _ =>
      op_eqb p p' && String.eqb a (if wp then path else "")
    | [] => false
    end
  | NoCall st => match o_trace o with [] => N.eqb (o_status o) st | _ => false end
  end.

(** ** What the specification tolerates beside the calls the statement is about

    The statement fixes which backend operation a request reaches and with which
    path, and where no operation is reached; it does not fix the exact sequence
    of read-only backend calls an implementation makes on the way (looking a
    resource up to fill in a header, say).  So the verdict on an observation
    tolerates additional calls that cannot change the backend — the Get…, List…,
    Query… and current-user lookups — PROVIDED their path argument is the request
    path unchanged (or they take none): a read-only call with any other path is
    a wrongly routed call and fails like any other. *)
Definition read_only (o : op) : bool :=
  match o with
  | OpPrincipal | OpHomeSet | OpListColls | OpGetColl | OpGetObj | OpListObjs | OpQueryObjs => true
  | OpCreateColl | OpDeleteColl | OpPutObj | OpDeleteObj => false
  end.

Definition tolerable (path : string) (c : call) : bool :=
  read_only (fst c) && (String.eqb (snd c) "" || String.eqb (snd c) path).

Definition mutating (t : list call) : list call := filter (fun c => negb (read_only (fst c))) t.

Definition expected_call (p : op) (wp : bool) (path : string) (c : call) : bool :=
  op_eqb p (fst c) && String.eqb (snd c) (if wp then path else "").

(** the calls in front of the expected one: tolerable ones only *)
Fixpoint reaches (p : op) (wp : bool) (path : string) (t : list call) : bool :=
  match t with
  | [] => false
  | c :: r => expected_call p wp path c || (tolerable path c && reaches p wp path r)
  end.

(** [routed_ok] up to tolerable calls: the table's operation is reached, with
    the request path, after tolerable calls only; where the table has none, only
    tolerable calls are made and the status is the table's. *)
Definition routed_tol (r : routed) (path : string) (o : outcome) : bool :=
  match r with
  | Reach p wp => reaches p wp path (o_trace o)
  | NoCall st => forallb (tolerable path) (o_trace o) && N.eqb (o_status o) st
  end.

(** * Correspondence verdicts (extracted) *)

Fixpoint list_eqb {A} (eqb : A -> A -> bool) (l1 l2 : list A) : bool :=
  match l1, l2 with
  | [], [] => true
  | x :: r1, y :: r2 => eqb x y && list_eqb eqb r1 r2
  | _, _ => false
  end.

Definition call_eqb (a b : call) : bool := op_eqb (fst a) (fst b) && String.eqb (snd a) (snd b).

Definition outcome_eqb (a b : outcome) : bool :=
  list_eqb call_eqb (o_trace a) (o_trace b) && N.eqb (o_status a) (o_status b)
  && list_eqb String.eqb (o_hrefs a) (o_hrefs b) && String.eqb (o_extra a) (o_extra b).

(** the implementation did what the model says *)
Definition model_agrees (s : server) (hprefix : string) (b : backend) (q : request) (o : outcome) : bool :=
  outcome_eqb (serve s hprefix b q) o.

(** A case of the harness: the prefix and the request path are given by their
    segments when they are of the form the property quantifies over. *)
Record layout := { l_ps : list string; l_ptrail : bool; l_rs : list string; l_rtrail : bool }.

Definition in_quantifier (s : server) (hprefix : string) (q : request) (l : layout) : bool :=
  segs_ok (l_ps l) && segs_ok (l_rs l)
  && String.eqb hprefix (spell_prefix (l_ps l) (l_ptrail l))
  && String.eqb (q_path q) (req_path (l_ps l) (l_rs l) (l_rtrail l))
  && negb (String.eqb (q_path q) (well_known s)).

(** The specification applied to an observation of the implementation:
    - the backend operation reached is the one the table gives for the depth of
      the path below the prefix, with the request path unchanged ([routed_tol]:
      up to additional read-only calls with that same path);
    - MKCOL: created (201, exactly one mutating call: CreateCalendar /
      CreateAddressBook with the request path) at depth 3; 403 without any
      mutating call elsewhere; every other call tolerable;
    - PROPFIND on a principal / home-set path that is not the current user's:
      no response at all. *)
Definition is_mkcol (m : meth) : bool := match m with MMkcol => true | _ => false end.
Definition is_propfind (m : meth) : bool := match m with MPropfind => true | _ => false end.

Definition spec_ok (s : server) (b : backend) (q : request) (l : layout) (o : outcome) : bool :=
  let level := List.length (l_rs l) in
  (if plain q then routed_tol (route s (q_meth q) level) (q_path q) o else true)
  && (if is_mkcol (q_meth q) && plain q then
        forallb (fun c => negb (read_only (fst c)) || tolerable (q_path q) c) (o_trace o)
        && (if Nat.eqb level 3
            then N.eqb (o_status o) 201 && list_eqb call_eqb (mutating (o_trace o)) [(OpCreateColl, q_path q)]
            else N.eqb (o_status o) 403 && list_eqb call_eqb (mutating (o_trace o)) [])
      else true)
  && (if is_propfind (q_meth q) then
        if (Nat.eqb level 1 && negb (same_path (q_path q) (principal b)))
           || (Nat.eqb level 2 && negb (same_path (q_path q) (homeset b)))
        then list_eqb String.eqb (o_hrefs o) [] else true
      else true).
