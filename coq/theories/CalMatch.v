(** CalMatch.v — model of caldav/match.go (Filter, Match, match, matchCompFilter,
    matchPropFilter, matchProp, matchCompTimeRange, matchEventTimeRange, matchPropTimeRange,
    matchParamFilter, matchTextMatch) and the RFC 4791 section 9.7-9.9
    specification it is proved against.
    No proofs here: this file is extracted and must build even when a proof breaks. *)
From GW Require Import Base.

(** * Byte-string helpers (models of strings.ToUpper on ASCII and strings.Contains) *)

Definition upper_ascii (c : ascii) : ascii :=
  let n := N_of_ascii c in
  if (97 <=? n)%N && (n <=? 122)%N then ascii_of_N (n - 32) else c.

Fixpoint upper (s : string) : string :=
  match s with
  | EmptyString => EmptyString
  | String c r => String (upper_ascii c) (upper r)
  end.

Fixpoint prefix_b (p s : string) : bool :=
  match p with
  | EmptyString => true
  | String a p' =>
    match s with
    | EmptyString => false
    | String b s' => Ascii.eqb a b && prefix_b p' s'
    end
  end.

(** [contains s t]: [t] occurs in [s] (strings.Contains(s, t)). *)
Fixpoint contains (s t : string) : bool :=
  prefix_b t s ||
  match s with
  | EmptyString => false
  | String _ s' => contains s' t
  end.

(** * Data *)

(** What go-ical's accessors yield for one property, computed by the harness with
    the real functions (location UTC):
    [p_time] = Prop.DateTime: an error ([TBad]) or an instant in Unix seconds,
    tagged [TDate] exactly when Prop.ValueType() is DATE;
    [p_dur] = Prop.Duration: an error or a number of seconds. *)
Inductive tval := TBad | TInstant (z : Z) | TDate (z : Z).
Inductive dval := DBad | DOk (secs : Z).

Record prop := mkProp {
  p_name : string;                          (* upper case, as the decoder stores it *)
  p_params : list (string * list string);   (* parameter name (upper case) -> values *)
  p_value : string;
  p_time : tval;
  p_dur : dval
}.

(** A time range: Go's (Start, End) pair of time.Time, [None] = the zero time. *)
Definition trange := (option Z * option Z)%type.

(** Component.RecurrenceSet: no RRULE ([NoRRule]), an error ([RRuleErr]), or a rule
    set.  The set is oracle data: [seq] is what the real rset.Iterator() yields, in
    the order it yields it (the model's input) — all of it when [horizon] is [None];
    for a rule that does not end, [horizon = Some h] and [seq] holds what the
    iterator yields up to and including [h], everything it yields later being after
    [h].  [instances] are the instance starts computed independently by the harness
    (the specification's input), cut at the same horizon. *)
Inductive recinfo :=
| NoRRule
| RRuleErr
| RSet (seq : list Z) (horizon : option Z) (instances : list Z).

Inductive comp := Comp (name : string) (props : list prop) (rec : recinfo) (children : list comp).

Definition c_name (c : comp) := let 'Comp n _ _ _ := c in n.
Definition c_props (c : comp) := let 'Comp _ p _ _ := c in p.
Definition c_rec (c : comp) := let 'Comp _ _ r _ := c in r.
Definition c_children (c : comp) := let 'Comp _ _ _ ch := c in ch.

Record text_match := mkTM { tm_text : string; tm_negate : bool }.
Record param_filter := mkPaF { paf_name : string; paf_nd : bool; paf_text : option text_match }.
Record prop_filter := mkPrF {
  prf_name : string; prf_nd : bool;
  prf_start : option Z; prf_end : option Z;
  prf_text : option text_match;
  prf_params : list param_filter
}.
Inductive comp_filter :=
  CF (name : string) (nd : bool) (start fin : option Z)
     (props : list prop_filter) (comps : list comp_filter).

Definition cf_name (f : comp_filter) := let 'CF n _ _ _ _ _ := f in n.
Definition cf_nd (f : comp_filter) := let 'CF _ d _ _ _ _ := f in d.
Definition cf_start (f : comp_filter) := let 'CF _ _ s _ _ _ := f in s.
Definition cf_end (f : comp_filter) := let 'CF _ _ _ e _ _ := f in e.
Definition cf_props (f : comp_filter) := let 'CF _ _ _ _ p _ := f in p.
Definition cf_comps (f : comp_filter) := let 'CF _ _ _ _ _ c := f in c.

(** A calendar object: [o_data = None] is a nil Data (or nil Data.Component). *)
Record cobj := mkObj { o_tag : N; o_data : option comp }.

(** * go-ical accessors used by match.go *)

(** Props.Values(name): the properties stored under the upper-cased name, in order. *)
Definition props_values (name : string) (c : comp) : list prop :=
  filter (fun p => String.eqb (p_name p) (upper name)) (c_props c).

(** Props.Get(name): the first of them. *)
Definition props_get (name : string) (c : comp) : option prop :=
  match props_values name c with [] => None | p :: _ => Some p end.

(** Params.Values(name). *)
Fixpoint assoc_values (k : string) (l : list (string * list string)) : list string :=
  match l with
  | [] => []
  | (n, vs) :: rest => if String.eqb n k then vs else assoc_values k rest
  end.
Definition params_values (name : string) (p : prop) : list string :=
  assoc_values (upper name) (p_params p).

(** Prop.DateTime *)
Definition prop_datetime (p : prop) : res Z :=
  match p_time p with TBad => Err 500 | TInstant z => Ok z | TDate z => Ok z end.
Definition prop_is_date (p : prop) : bool :=
  match p_time p with TDate _ => true | _ => false end.

(** Event.DateTimeEnd, for an event that has a DTSTART (match.go checks that first). *)
Definition date_time_end (c : comp) (startp : prop) : res Z :=
  match props_get "DTEND" c with
  | Some ep => prop_datetime ep
  | None =>
    do a <- prop_datetime startp;
    match props_get "DURATION" c with
    | Some dp => match p_dur dp with DBad => Err 500 | DOk d => Ok (a + d)%Z end
    | None => Ok (if prop_is_date startp then a + 86400 else a)%Z
    end
  end.

(** * The model of match.go *)

Definition match_text_match (txt : text_match) (value : string) : bool :=
  let m := contains value (tm_text txt) in
  if tm_negate txt then negb m else m.

Definition match_param_filter (f : param_filter) (field : prop) : bool :=
  match params_values (paf_name f) field with
  | [] => paf_nd f
  | values =>
    if paf_nd f then false
    else match paf_text f with
         | None => true
         | Some txt => existsb (match_text_match txt) values
         end
  end.

(** start <= t < end, an absent bound being unbounded *)
Definition not_before (t : Z) (s : option Z) : bool :=
  match s with None => true | Some s' => (s' <=? t)%Z end.
Definition before_end (t : Z) (e : option Z) : bool :=
  match e with None => true | Some e' => (t <? e')%Z end.
Definition start_before (s : option Z) (t : Z) : bool :=
  match s with None => true | Some s' => (s' <? t)%Z end.

Definition match_prop_time_range (s e : option Z) (field : prop) : res bool :=
  do t <- prop_datetime field;
  if negb (not_before t s) then Ok false
  else Ok (before_end t e).

Definition has_range (s e : option Z) : bool :=
  match s, e with None, None => false | _, _ => true end.

(** matchProp: one instance of the property against the filter. *)
Definition match_prop (f : prop_filter) (field : prop) : res bool :=
  if negb (forallb (fun pf => match_param_filter pf field) (prf_params f)) then Ok false
  else
    do t <- (if has_range (prf_start f) (prf_end f)
             then match_prop_time_range (prf_start f) (prf_end f) field else Ok true);
    if negb t then Ok false
    else match prf_text f with
         | Some txt => Ok (match_text_match txt (p_value field))
         | None => Ok true
         end.

(** loop "for i := range fields": first error or first match decides *)
Fixpoint any_res {A} (g : A -> res bool) (l : list A) : res bool :=
  match l with
  | [] => Ok false
  | x :: rest => do m <- g x; if m then Ok true else any_res g rest
  end.

(** loop "for _, f := range filters": first error or first failure decides *)
Definition all_res {A} (g : A -> res bool) : list A -> res bool :=
  fix go (l : list A) : res bool :=
    match l with
    | [] => Ok true
    | x :: rest => do m <- g x; if m then go rest else Ok false
    end.

Definition match_prop_filter (f : prop_filter) (c : comp) : res bool :=
  let fields := props_values (prf_name f) c in
  if prf_nd f then Ok (match fields with [] => true | _ => false end)
  else any_res (match_prop f) fields.

(** matchEventTimeRange: an event, or one instance of a recurring one, lasting from
    [a] to [b] against the range; [has_end]: the event states a DTEND. *)
Definition match_event_time_range (s e : option Z) (a b : Z) (has_end : bool) : bool :=
  if negb (before_end a e) then false
  else if (a <? b)%Z || has_end then start_before s b
  else not_before a s.

(** matchCompTimeRange's loop over rset.Iterator(): the instances in the order the
    iterator yields them, each lasting [d]; it ends when the iterator does, at the
    first instance that starts at or after the end of the range, or at the first
    that overlaps.  Past the horizon of a cut [seq] the iterator yields instances
    after [h]: the next one ends the loop if the range ends by [h]; otherwise the
    oracle data does not tell ([Err 0], never a Go outcome). *)
Fixpoint rec_loop (s e : option Z) (d : Z) (has_end : bool) (horizon : option Z) (seq : list Z) : res bool :=
  match seq with
  | [] =>
    match horizon with
    | None => Ok false
    | Some h =>
      match e with
      | Some e' => if (e' <=? h)%Z then Ok false else Err 0
      | None => Err 0
      end
    end
  | i :: rest =>
    if negb (before_end i e) then Ok false
    else if match_event_time_range s e i (i + d) has_end then Ok true
    else rec_loop s e d has_end horizon rest
  end.

Definition match_comp_time_range (s e : option Z) (c : comp) : res bool :=
  match c_rec c with
  | RRuleErr => Err 500
  | r =>
    if (match r with NoRRule => negb (String.eqb (c_name c) "VEVENT") | _ => false end) then Ok false
    else match props_get "DTSTART" c with
         | None => Ok false
         | Some sp =>
           do a <- prop_datetime sp;
           do b <- date_time_end c sp;
           let has_end := match props_get "DTEND" c with Some _ => true | None => false end in
           match r with
           | RSet seq horizon _ => rec_loop s e (b - a) has_end horizon seq
           | _ => Ok (match_event_time_range s e a b has_end)
           end
         end
  end.

(** matchCompFilter's loop over comp.Children with (defined, matched) as loop state;
    [m] is "match(filter, child)". *)
Fixpoint mcf_loop (m : comp -> res bool) (name : string) (chs : list comp)
         (defined matched : bool) : res (bool * bool) :=
  match chs with
  | [] => Ok (defined, matched)
  | ch :: rest =>
    if negb (String.eqb (c_name ch) name) then mcf_loop m name rest defined matched
    else do r <- m ch; mcf_loop m name rest true (matched || r)
  end.

Definition match_comp_filter_with (m : comp -> res bool) (name : string) (nd : bool) (c : comp) : res bool :=
  do dm <- mcf_loop m name (c_children c) false false;
  if nd then Ok (negb (fst dm)) else Ok (snd dm).

(** match(filter, comp) *)
Fixpoint match_ (f : comp_filter) (c : comp) {struct f} : res bool :=
  match f with
  | CF name nd s e props comps =>
    if negb (String.eqb (c_name c) name) then Ok nd
    else if nd then Ok false
    else
      do t <- (if has_range s e then match_comp_time_range s e c else Ok true);
      if negb t then Ok false
      else
        do a <- all_res (fun cf => match_comp_filter_with (match_ cf) (cf_name cf) (cf_nd cf) c) comps;
        if negb a then Ok false
        else all_res (fun pf => match_prop_filter pf c) props
  end.

Definition match_comp_filter (f : comp_filter) (c : comp) : res bool :=
  match_comp_filter_with (match_ f) (cf_name f) (cf_nd f) c.

(** Match(query, co) *)
Definition match_top (f : comp_filter) (o : cobj) : res bool :=
  match o_data o with
  | None => Panic
  | Some c => match_ f c
  end.

(** Filter(query, cos) *)
Fixpoint filter_loop (f : comp_filter) (os : list cobj) : res (list cobj) :=
  match os with
  | [] => Ok []
  | o :: rest =>
    do ok <- match_top f o;
    do r <- filter_loop f rest;
    Ok (if ok then o :: r else r)
  end.

Definition filter_objs (q : option comp_filter) (os : list cobj) : res (list cobj) :=
  match q with
  | None => Ok os
  | Some f => filter_loop f os
  end.

(** * Specification: RFC 4791 sections 9.7.1-9.7.5 and 9.9, as the property states them *)

(** 9.7.5 text-match: substring, inverted by negate-condition. *)
Definition rfc4791_text (txt : text_match) (value : string) : bool :=
  xorb (contains value (tm_text txt)) (tm_negate txt).

(** 9.7.3 param-filter on one property: the parameter exists (it has a value) —
    with is-not-defined: it does not — and some value passes the text-match. *)
Definition rfc4791_param (f : param_filter) (p : prop) : bool :=
  let values := params_values (paf_name f) p in
  if paf_nd f then match values with [] => true | _ => false end
  else match paf_text f with
       | None => match values with [] => false | _ => true end
       | Some txt => existsb (rfc4791_text txt) values
       end.

(** 9.9 on a property value: start <= value < end. *)
Definition prop_in_range (s e : option Z) (p : prop) : bool :=
  match p_time p with
  | TBad => false
  | TInstant v | TDate v => not_before v s && before_end v e
  end.

(** 9.7.2 prop-filter in a component: with is-not-defined, no property of that name
    exists; otherwise some property of that name passes the text-match, the time
    range and every param-filter. *)
Definition rfc4791_prop_inst (f : prop_filter) (p : prop) : bool :=
  match prf_text f with None => true | Some txt => rfc4791_text txt (p_value p) end
  && (if has_range (prf_start f) (prf_end f) then prop_in_range (prf_start f) (prf_end f) p else true)
  && forallb (fun pf => rfc4791_param pf p) (prf_params f).

Definition rfc4791_prop (f : prop_filter) (c : comp) : bool :=
  let named := filter (fun p => String.eqb (p_name p) (upper (prf_name f))) (c_props c) in
  if prf_nd f then match named with [] => true | _ => false end
  else existsb (rfc4791_prop_inst f) named.

(** 9.9, the VEVENT table.  The four ways an event states its extent: *)
Inductive evkind :=
| EvEnd (a b : Z)      (* DTSTART and DTEND *)
| EvDur (a d : Z)      (* DTSTART and DURATION, no DTEND *)
| EvInstant (a : Z)    (* DATE-TIME DTSTART only *)
| EvAllDay (a : Z).    (* DATE DTSTART only *)

Definition ev_start (k : evkind) : Z :=
  match k with EvEnd a _ | EvDur a _ | EvInstant a | EvAllDay a => a end.

(** [overlaps s e k]: the condition of the table row of [k], an absent start being
    -infinity and an absent end +infinity. *)
Definition overlaps (s e : option Z) (k : evkind) : bool :=
  match k with
  | EvEnd a b => start_before s b && before_end a e
  | EvDur a d => (if (0 <? d)%Z then start_before s (a + d) else not_before a s) && before_end a e
  | EvInstant a => not_before a s && before_end a e
  | EvAllDay a => start_before s (a + 86400) && before_end a e
  end.

(** The same table as a proposition over Z extended with infinities. *)
Definition lt_lo (s : option Z) (t : Z) : Prop := match s with None => True | Some s' => (s' < t)%Z end.
Definition le_lo (s : option Z) (t : Z) : Prop := match s with None => True | Some s' => (s' <= t)%Z end.
Definition gt_hi (e : option Z) (t : Z) : Prop := match e with None => True | Some e' => (e' > t)%Z end.

Definition overlaps_P (s e : option Z) (k : evkind) : Prop :=
  match k with
  | EvEnd a b => lt_lo s b /\ gt_hi e a
  | EvDur a d => ((d > 0)%Z -> lt_lo s (a + d)) /\ ((d <= 0)%Z -> le_lo s a) /\ gt_hi e a
  | EvInstant a => le_lo s a /\ gt_hi e a
  | EvAllDay a => lt_lo s (a + 86400) /\ gt_hi e a
  end.

Definition tv (t : tval) : option Z :=
  match t with TBad => None | TInstant z | TDate z => Some z end.

Definition first_named (n : string) (c : comp) : option prop :=
  find (fun p => String.eqb (p_name p) n) (c_props c).

(** Which row of the table an event is in (read off its properties, top row first);
    [None]: no DTSTART, or a value go-ical cannot read. *)
Definition event_kind (c : comp) : option evkind :=
  match first_named "DTSTART" c with
  | None => None
  | Some sp =>
    match tv (p_time sp) with
    | None => None
    | Some a =>
      match first_named "DTEND" c with
      | Some ep => match tv (p_time ep) with Some b => Some (EvEnd a b) | None => None end
      | None =>
        match first_named "DURATION" c with
        | Some dp => match p_dur dp with DOk d => Some (EvDur a d) | DBad => None end
        | None => match p_time sp with TDate _ => Some (EvAllDay a) | _ => Some (EvInstant a) end
        end
      end
    end
  end.

(** The extent of the instance that starts at [i]. *)
Definition shift_kind (k : evkind) (i : Z) : evkind :=
  match k with
  | EvEnd a b => EvEnd i (i + (b - a))
  | EvDur _ d => EvDur i d
  | EvInstant _ => EvInstant i
  | EvAllDay _ => EvAllDay i
  end.

(** A recurring component overlaps iff some instance does. *)
Definition rec_spec (s e : option Z) (c : comp) (insts : list Z) : bool :=
  match event_kind c with
  | Some k => existsb (fun i => overlaps s e (shift_kind k i)) insts
  | None => false
  end.

(** Time range on a component.  The statement speaks of events; for other
    non-recurring components the code answers false and the specification
    records that (see notes/C06.md, "Partial"). *)
Definition rfc4791_time_range (s e : option Z) (c : comp) : bool :=
  match c_rec c with
  | RSet _ _ insts => rec_spec s e c insts
  | _ =>
    if String.eqb (c_name c) "VEVENT"
    then match event_kind c with Some k => overlaps s e k | None => false end
    else false
  end.

(** 9.7.1.  [holds_with tr f c]: component [c] (already known to bear the filter's
    name) satisfies the filter's time range (decided by [tr]), all nested
    comp-filters (each in the scope of [c]'s children) and all prop-filters.
    [scope_with tr f l]: comp-filter [f] holds in a scope whose components are [l]:
    with is-not-defined iff none bears the name, otherwise iff one that bears the
    name satisfies the rest.
    The specification instantiates [tr] with the RFC's rule. *)
Definition named (n : string) (c : comp) : bool := String.eqb (c_name c) n.

Section Holds.
  Variable tr : option Z -> option Z -> comp -> bool.

  Fixpoint holds_with (f : comp_filter) (c : comp) {struct f} : bool :=
    match f with
    | CF _ _ s e props comps =>
      (if has_range s e then tr s e c else true)
      && forallb (fun cf =>
           if cf_nd cf
           then negb (existsb (named (cf_name cf)) (c_children c))
           else existsb (fun ch => named (cf_name cf) ch && holds_with cf ch) (c_children c))
         comps
      && forallb (fun pf => rfc4791_prop pf c) props
    end.

  Definition scope_with (f : comp_filter) (l : list comp) : bool :=
    if cf_nd f
    then negb (existsb (named (cf_name f)) l)
    else existsb (fun ch => named (cf_name f) ch && holds_with f ch) l.
End Holds.

Definition rfc4791_holds := holds_with rfc4791_time_range.
Definition rfc4791_scope := scope_with rfc4791_time_range.

(** The query's comp-filter against a calendar object: the scope is the object itself. *)
Definition rfc4791_comp (f : comp_filter) (c : comp) : bool := rfc4791_scope f [c].

(** * Where the evaluation looks at time values *)

(** The (time range, component) pairs at which a comp-filter time range is
    evaluated (ignoring short-circuits), *)
Fixpoint tr_pairs (f : comp_filter) (c : comp) {struct f} : list (trange * comp) :=
  match f with
  | CF name nd s e props comps =>
    if negb (String.eqb (c_name c) name) || nd then []
    else (if has_range s e then [((s, e), c)] else [])
         ++ flat_map (fun cf => flat_map (fun ch => tr_pairs cf ch) (c_children c)) comps
  end.

(** and the (prop-filter, property) pairs at which a property time range is. *)
Definition ptr_of (pf : prop_filter) (c : comp) : list prop :=
  if prf_nd pf || negb (has_range (prf_start pf) (prf_end pf)) then []
  else filter (fun p => String.eqb (p_name p) (upper (prf_name pf))) (c_props c).

Fixpoint ptr_pairs (f : comp_filter) (c : comp) {struct f} : list prop :=
  match f with
  | CF name nd s e props comps =>
    if negb (String.eqb (c_name c) name) || nd then []
    else flat_map (fun pf => ptr_of pf c) props
         ++ flat_map (fun cf => flat_map (fun ch => ptr_pairs cf ch) (c_children c)) comps
  end.

(** go-ical can produce every time value a comp time range needs on [c]. *)
Definition comp_time_ok (c : comp) : bool :=
  match c_rec c with
  | RRuleErr => false
  | r =>
    if (match r with NoRRule => String.eqb (c_name c) "VEVENT" | _ => true end)
    then match first_named "DTSTART" c with
         | None => true
         | Some _ => match event_kind c with Some _ => true | None => false end
         end
    else true
  end.

(** [times_ok f c]: no time range of the query is evaluated on a value go-ical
    cannot read (then Match returns no error). *)
Definition times_ok (f : comp_filter) (c : comp) : bool :=
  forallb (fun tc => comp_time_ok (snd tc)) (tr_pairs f c)
  && forallb (fun p => match p_time p with TBad => false | _ => true end) (ptr_pairs f c).

(** rrule-go kept its contract wherever the query consulted it (checked by the
    oracle on every case; the instance list is computed independently): the
    iterator yielded exactly the instances, in ascending order; and where the list
    is cut at a horizon, the cut cannot matter: the range ends by the horizon, or a
    listed instance already overlaps it, or the component states no readable
    extent and the instances are not looked at (see [rec_spec_later_instances] in
    CalMatchProofs.v). *)
Fixpoint lz_eqb (a b : list Z) : bool :=
  match a, b with
  | [], [] => true
  | x :: a', y :: b' => Z.eqb x y && lz_eqb a' b'
  | _, _ => false
  end.

Fixpoint ascending (l : list Z) : bool :=
  match l with
  | [] => true
  | x :: rest =>
    match rest with
    | [] => true
    | y :: _ => (x <=? y)%Z && ascending rest
    end
  end.

Definition horizon_covers (s e : option Z) (c : comp) (horizon : option Z) (insts : list Z) : bool :=
  match horizon with
  | None => true
  | Some h =>
    match e with
    | Some e' => (e' <=? h)%Z
    | None => match event_kind c with Some _ => rec_spec s e c insts | None => true end
    end
  end.

Definition rset_ok_at (tc : trange * comp) : bool :=
  let '((s, e), c) := tc in
  match c_rec c with
  | RSet seq horizon insts =>
    lz_eqb seq insts && ascending insts && horizon_covers s e c horizon insts
  | _ => true
  end.
Definition rset_ok (f : comp_filter) (c : comp) : bool := forallb rset_ok_at (tr_pairs f c).

(** Calendars without recurring components. *)
Fixpoint all_comps (c : comp) : list comp :=
  match c with Comp _ _ _ children => c :: flat_map all_comps children end.
Definition no_recurring (c : comp) : bool :=
  forallb (fun x => match c_rec x with RSet _ _ _ => false | _ => true end) (all_comps c).

(** * Correspondence verdicts *)

(** What the harness saw of Match: a verdict, an error, a panic. *)
Inductive mobs := MOk (b : bool) | MErr | MPanic.
(** ... and of Filter: the tags of the returned objects in order plus "every
    returned object is identical to the input object and no input was modified". *)
Inductive fobs := FOk (tags : list N) (unmodified : bool) | FErr | FPanic.

Definition match_agrees (f : comp_filter) (o : cobj) (ob : mobs) : bool :=
  match match_top f o, ob with
  | Ok b, MOk b' => Bool.eqb b b'
  | Err c, MErr => negb (N.eqb c 0)
  | Panic, MPanic => true
  | _, _ => false
  end.

(** The specification's verdict on an observation of Match, given that rrule kept
    its contract (otherwise nothing can be said and the model decides):
    a verdict must be the RFC's; an error is acceptable only where a time value
    under a time range cannot be read; a panic only on an object without data
    (which is what Match documents).
    This is the STRICT reading, which also fixes what the statement leaves open
    (a time range on a component that is not an event: the code's "false"); the
    oracle uses the relaxed [match_spec_ok] below, which the strict one implies. *)
Definition match_spec_strict (f : comp_filter) (o : cobj) (ob : mobs) : bool :=
  match o_data o with
  | None => match ob with MPanic => true | _ => false end
  | Some c =>
    if rset_ok f c
    then match ob with
         | MOk b => Bool.eqb b (rfc4791_comp f c)
         | MErr => negb (times_ok f c)
         | MPanic => false
         end
    else match_agrees f o ob
  end.

Fixpoint ln_eqb (a b : list N) : bool :=
  match a, b with
  | [], [] => true
  | x :: a', y :: b' => N.eqb x y && ln_eqb a' b'
  | _, _ => false
  end.

Definition filter_agrees (q : option comp_filter) (os : list cobj) (ob : fobs) : bool :=
  match filter_objs q os, ob with
  | Ok l, FOk tags unmod => ln_eqb (map o_tag l) tags && unmod
  | Err c, FErr => negb (N.eqb c 0)
  | Panic, FPanic => true
  | _, _ => false
  end.

Definition obj_rset_ok (f : comp_filter) (o : cobj) : bool :=
  match o_data o with Some c => rset_ok f c | None => true end.
Definition obj_matches (f : comp_filter) (o : cobj) : bool :=
  match o_data o with Some c => rfc4791_comp f c | None => false end.
Definition obj_unreadable (f : comp_filter) (o : cobj) : bool :=
  match o_data o with Some c => negb (times_ok f c) | None => false end.
Definition obj_nil (o : cobj) : bool :=
  match o_data o with None => true | Some _ => false end.

(** ... and of Filter: exactly the matching objects in input order, unmodified; all
    of them for a nil query; an error only if some object has an unreadable time
    value under a time range; a panic only if some object has no data.
    (The strict reading, see [match_spec_strict].) *)
Definition filter_spec_strict (q : option comp_filter) (os : list cobj) (ob : fobs) : bool :=
  match q with
  | None =>
    match ob with FOk tags unmod => ln_eqb (map o_tag os) tags && unmod | _ => false end
  | Some f =>
    if forallb (obj_rset_ok f) os
    then match ob with
         | FOk tags unmod => ln_eqb (map o_tag (filter (obj_matches f) os)) tags && unmod
         | FErr => existsb (obj_unreadable f) os
         | FPanic => existsb obj_nil os
         end
    else filter_agrees q os ob
  end.

(** * The specification as far as the statement goes: three-valued

    The statement says when a time range holds "for an event" and "for a recurring
    event".  About a time range on a component that is not a VEVENT (VTODO,
    VJOURNAL, VFREEBUSY, VALARM, X-...) it says nothing: neither the code's
    "false" nor RFC 4791's table for that component type contradicts it.  There the
    specification's value is [U3] (unconstrained); it is combined upwards by
    Kleene's strong conjunction and disjunction, so that the verdict on the object
    is [U3] exactly when it depends on an unconstrained part.  is-not-defined and
    property filters never depend on a component time range: they stay boolean. *)
Inductive tv3 := T3 | F3 | U3.

Definition tv_of_bool (b : bool) : tv3 := if b then T3 else F3.
Definition and3 (a b : tv3) : tv3 :=
  match a, b with
  | F3, _ | _, F3 => F3
  | T3, T3 => T3
  | _, _ => U3
  end.
Definition or3 (a b : tv3) : tv3 :=
  match a, b with
  | T3, _ | _, T3 => T3
  | F3, F3 => F3
  | _, _ => U3
  end.
Definition forall3 {A} (g : A -> tv3) : list A -> tv3 :=
  fix go (l : list A) : tv3 := match l with [] => T3 | x :: rest => and3 (g x) (go rest) end.
Definition exists3 {A} (g : A -> tv3) : list A -> tv3 :=
  fix go (l : list A) : tv3 := match l with [] => F3 | x :: rest => or3 (g x) (go rest) end.

(** [admits v b]: the boolean verdict [b] is one the three-valued specification allows *)
Definition admits (v : tv3) (b : bool) : bool :=
  match v with U3 => true | T3 => b | F3 => negb b end.

Definition is_event (c : comp) : bool := String.eqb (c_name c) "VEVENT".

Definition time_range3 (s e : option Z) (c : comp) : tv3 :=
  if is_event c then tv_of_bool (rfc4791_time_range s e c) else U3.

Fixpoint holds3 (f : comp_filter) (c : comp) {struct f} : tv3 :=
  match f with
  | CF _ _ s e props comps =>
    and3 (if has_range s e then time_range3 s e c else T3)
      (and3 (forall3 (fun cf =>
               if cf_nd cf
               then tv_of_bool (negb (existsb (named (cf_name cf)) (c_children c)))
               else exists3 (fun ch => if named (cf_name cf) ch then holds3 cf ch else F3) (c_children c))
             comps)
            (tv_of_bool (forallb (fun pf => rfc4791_prop pf c) props)))
  end.

Definition scope3 (f : comp_filter) (l : list comp) : tv3 :=
  if cf_nd f
  then tv_of_bool (negb (existsb (named (cf_name f)) l))
  else exists3 (fun ch => if named (cf_name f) ch then holds3 f ch else F3) l.

Definition rfc3_comp (f : comp_filter) (c : comp) : tv3 := scope3 f [c].

(** Errors.  As for events (an unreadable value under a time range, wherever the
    evaluation order puts it), an error is also acceptable where a time range meets
    a component that is not an event and one of the time values RFC 4791's tables
    for the other component types read cannot be read. *)
Definition other_time_unreadable (c : comp) : bool :=
  existsb (fun p =>
      (existsb (String.eqb (p_name p)) ["DTSTART"; "DTEND"; "DUE"; "COMPLETED"; "CREATED"]
       && match p_time p with TBad => true | _ => false end)
      || (String.eqb (p_name p) "DURATION" && match p_dur p with DBad => true | _ => false end))
    (c_props c).

Definition err_allowed (f : comp_filter) (c : comp) : bool :=
  negb (times_ok f c)
  || existsb (fun tc => negb (is_event (snd tc)) && other_time_unreadable (snd tc)) (tr_pairs f c).

(** The relaxed verdict on an observation of Match (what the oracle applies).
    An object without a component tree is outside the statement's domain ("every
    calendar object"): the panic of the present code and an error are both
    acceptable there, a verdict is not. *)
Definition match_spec_ok (f : comp_filter) (o : cobj) (ob : mobs) : bool :=
  match o_data o with
  | None => match ob with MPanic | MErr => true | MOk _ => false end
  | Some c =>
    if rset_ok f c
    then match ob with
         | MOk b => admits (rfc3_comp f c) b
         | MErr => err_allowed f c
         | MPanic => false
         end
    else match_agrees f o ob
  end.

Definition obj_verdict3 (f : comp_filter) (o : cobj) : tv3 :=
  match o_data o with Some c => rfc3_comp f c | None => F3 end.
Definition obj_err_allowed (f : comp_filter) (o : cobj) : bool :=
  match o_data o with Some c => err_allowed f c | None => false end.

(** [sel_ok f os tags]: [tags] is an order-preserving selection of [os] that holds every
    object the specification requires, none it excludes, and any of the unconstrained *)
Fixpoint sel_ok (f : comp_filter) (os : list cobj) (tags : list N) : bool :=
  match os with
  | [] => match tags with [] => true | _ => false end
  | o :: rest =>
    let v := obj_verdict3 f o in
    match tags with
    | t :: tags' =>
      (N.eqb t (o_tag o) && admits v true && sel_ok f rest tags')
      || (admits v false && sel_ok f rest tags)
    | [] => admits v false && sel_ok f rest []
    end
  end.

(** With a query, a list that holds an object without data is outside the statement's
    domain: a panic (the present code) or an error, but no silent answer. *)
Definition filter_spec_ok (q : option comp_filter) (os : list cobj) (ob : fobs) : bool :=
  match q with
  | None =>
    match ob with FOk tags unmod => ln_eqb (map o_tag os) tags && unmod | _ => false end
  | Some f =>
    if forallb (obj_rset_ok f) os
    then match ob with
         | FOk tags unmod => negb (existsb obj_nil os) && sel_ok f os tags && unmod
         | FErr => existsb (obj_err_allowed f) os || existsb obj_nil os
         | FPanic => existsb obj_nil os
         end
    else filter_agrees q os ob
  end.

(** What the model's result looks like as an observation. *)
Definition mobs_of_res (r : res bool) : mobs :=
  match r with Ok b => MOk b | Err _ => MErr | Panic => MPanic end.
Definition fobs_of_res (r : res (list cobj)) : fobs :=
  match r with Ok l => FOk (map o_tag l) true | Err _ => FErr | Panic => FPanic end.
