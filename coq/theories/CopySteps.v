(** CopySteps.v — the recursive copy of LocalFileSystem.Copy (fs_local.go), entry by
    entry: filepath.Walk over the source in lexical order, and for each entry
    [os.Mkdir] or [copyRegularFile] at [filepath.Join(dstPath, rel)] where [rel] is
    the entry's path relative to the source.  [DavServer.do_copy] maps the whole
    copied tree in one step; CopyStepsProofs.v shows that the walk computes it.
    No proofs here. *)
From GW Require Import Base GoPath Fs DavServer.
Local Open Scope list_scope.

(** The Walk callback for one entry: a directory becomes an empty directory, a file
    a file with the same bytes and a new modification time. *)
Definition copy_entry (s : option node) (dst : path) (stamp : N) (e : path * node) : option node :=
  seto s (dst ++ fst e) (copy_shallow stamp (snd e)).

(** The callback over the entries in Walk order; the first failure ends the walk. *)
Fixpoint copy_entries (s : option node) (dst : path) (stamp : N) (es : list (path * node)) : option node :=
  match es with
  | [] => s
  | e :: r =>
    match copy_entry s dst stamp e with
    | Some s' => copy_entries (Some s') dst stamp r
    | None => None
    end
  end.

(** Depth infinity walks everything; Depth 0 (NoRecursive) returns SkipDir at the
    source itself, so only that entry is visited. *)
Definition copy_walk (s : option node) (dst : path) (stamp : N) (n : node) (recursive : bool) : option node :=
  copy_entries s dst stamp (if recursive then walk n [] else [([], n)]).

(** Directory listings as the OS (and os.ReadDir, filepath.Walk) deliver them: names
    strictly increasing, byte-wise.  Executable: the oracle evaluates it on every
    tree the harness builds. *)
Fixpoint keys_sorted (l : list (string * node)) : bool :=
  match l with
  | [] => true
  | (k, _) :: r => forallb (fun kc => str_ltb k (fst kc)) r && keys_sorted r
  end.

Fixpoint sorted_tree (n : node) : bool :=
  match n with
  | File _ _ => true
  | Dir ch =>
    keys_sorted ch &&
    (fix go (l : list (string * node)) : bool :=
       match l with
       | [] => true
       | (_, c) :: r => sorted_tree c && go r
       end) ch
  end.

Definition sorted_otree (on : option node) : bool :=
  match on with Some n => sorted_tree n | None => true end.
