(** CopySteps.v — the recursive copy of LocalFileSystem.Copy (fs_local.go), entry by
    entry: filepath.Walk over the source in lexical order, and for each entry
    [os.Mkdir] or [copyRegularFile] at [filepath.Join(dstPath, rel)] where [rel] is
    the entry's path relative to the source.  [DavServer.do_copy] maps the whole
    copied tree in one step; CopyStepsProofs.v shows that the walk computes it.
    No proofs here. *)
From GW Require Import Base GoPath Fs DavServer.
Local Open Scope list_scope.

(** The Walk callback for one entry: a directory becomes an empty directory, a file
    a file with the same bytes and a new modification time. *)
Definition copy_entry (s : option node) (dst : path) (stamp : N) (e : path * node) : option node :=
  seto s (dst ++ fst e) (copy_shallow stamp (snd e)).

(** The callback over the entries in Walk order; the first failure ends the walk. *)
Fixpoint copy_entries (s : option node) (dst : path) (stamp : N) (es : list (path * node)) : option node :=
  match es with
  | [] => s
  | e :: r =>
    match copy_entry s dst stamp e with
    | Some s' => copy_entries (Some s') dst stamp r
    | None => None
    end
  end.

(** Depth infinity walks everything; Depth 0 (NoRecursive) returns SkipDir at the
    source itself, so only that entry is visited. *)
Definition copy_walk (s : option node) (dst : path) (stamp : N) (n : node) (recursive : bool) : option node :=
  copy_entries s dst stamp (if recursive then walk n [] else [([], n)]).

(** Directory listings as the OS (and os.ReadDir, filepath.Walk) deliver them: names
    strictly increasing, byte-wise.  Executable: the oracle evaluates it on every
    tree the harness builds. *)
Fixpoint keys_sorted (l : list (string * node)) : bool :=
  match l with
  | [] => true
  | (k, _) :: r => forallb (fun kc => str_ltb k (fst kc)) r && keys_sorted r
  end.

Fixpoint sorted_tree (n : node) : bool :=
  match n with
  | File _ _ => true
  | Dir ch =>
    keys_sorted ch &&
    (fix go (l : list (string * node)) : bool :=
       match l with
       | [] => true
       | (_, c) :: r => sorted_tree c && go r
       end) ch
  end.

Definition sorted_otree (on : option node) : bool :=
  match on with Some n => sorted_tree n | None => true end.

(** * The copy as LocalFileSystem.Copy performs it since repair dc21685: into a temporary
      name next to the destination, then [os.RemoveAll(dst)] and [os.Rename(tmp, dst)];
      when the creation of some entry fails (a write error: disk full, file size limit),
      [os.RemoveAll(tmp)] and nothing else. *)

(** the walk up to the first failing entry: entries before index [k] are created *)
Definition copy_entries_upto (s : option node) (dst : path) (stamp : N) (es : list (path * node)) (k : nat)
  : option node := copy_entries s dst stamp (firstn k es).

Definition walk_entries (n : node) (recursive : bool) : list (path * node) :=
  if recursive then walk n [] else [([], n)].

(** [fail_at = Some k]: creating entry number [k] of the walk fails.  Returns the state
    when Copy returns and whether it succeeded. *)
Definition copy_via_temp (s : option node) (dstp tmpp : path) (stamp : N) (n : node) (recursive : bool)
    (fail_at : option nat) : option node * bool :=
  let es := walk_entries n recursive in
  match fail_at with
  | Some k =>
    if Nat.ltb k (List.length es) then
      match copy_entries_upto s tmpp stamp es k with
      | Some s1 => (remo (Some s1) tmpp, false)         (* os.RemoveAll(tmpPath) *)
      | None => (s, false)
      end
    else (s, false)                                      (* no such entry: not a run of the code *)
  | None =>
    match copy_entries s tmpp stamp es with
    | None => (s, false)
    | Some s1 =>
      match geto (Some s1) tmpp with
      | None => (s, false)
      | Some t =>
        (* os.RemoveAll(dstPath); os.Rename(tmpPath, dstPath) *)
        match seto (remo (remo (Some s1) dstp) tmpp) dstp t with
        | Some s2 => (Some s2, true)
        | None => (s, false)
        end
      end
    end
  end.
