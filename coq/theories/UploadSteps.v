(** UploadSteps.v — the upload section of LocalFileSystem.Create (fs_local.go),
    OS call by OS call: createTemp (O_CREATE|O_EXCL next to the target), one write per
    piece of the body that io.Copy obtains from the request, then either
    os.Remove(tmp) when the body breaks off or os.Rename(tmp, target).
    [DavServer.do_put] treats all of this as one step; UploadStepsProofs.v shows that
    the step is what this sequence computes, whatever the pieces and the temporary
    name.  No proofs here (extracted: the oracle compares the states the real
    handler passes through with [upload]). *)
From GW Require Import Base GoPath Fs DavServer.
Local Open Scope list_scope.

Section UploadModel.
  Variables (sb : option node) (dir : path) (tmp name : string) (st : N).

  Definition u_tmp : path := dir ++ [tmp].
  Definition u_tgt : path := dir ++ [name].

  (** os.OpenFile(tmp, O_WRONLY|O_CREATE|O_EXCL): an empty file under a name that was
      not there (the hypothesis of the theorems, checked by the harness on every
      run).  On a name that *is* there the definition truncates, which is what
      O_TRUNC without O_EXCL would do: the model stays executable on such inputs and
      [upload_not_fresh_loses_data] shows the theorems fail there. *)
  Definition u_create : option node := seto sb u_tmp (File "" st).

  (** one Write: the temporary file now holds [written] *)
  Definition u_write (written : string) (s : option node) : option node :=
    match s with Some t => seto (Some t) u_tmp (File written st) | None => None end.

  (** os.Remove(tmp) *)
  Definition u_abort (s : option node) : option node := remo s u_tmp.

  (** os.Rename(tmp, target): the file leaves its old name and replaces whatever
      regular file the target was *)
  Definition u_rename (s : option node) : option node :=
    match geto s u_tmp with
    | Some f => seto (remo s u_tmp) u_tgt f
    | None => None
    end.

  (** States seen at each read of the body after the first, the last state, bytes written. *)
  Fixpoint u_writes (s : option node) (acc : string) (chunks : list string)
    : list (option node) * option node * string :=
    match chunks with
    | [] => ([], s, acc)
    | c :: r =>
      let acc' := (acc ++ c)%string in
      let s' := u_write acc' s in
      let '(l, e, a) := u_writes s' acc' r in
      (s' :: l, e, a)
    end.

  (** The whole upload: the state at every read of the body (first: just after
      createTemp), and the state when Create returns. *)
  Definition upload (chunks : list string) (fails : bool) : list (option node) * option node :=
    let s0 := u_create in
    let '(l, e, _) := u_writes s0 "" chunks in
    (s0 :: l, if fails then u_abort e else u_rename e).
End UploadModel.

Fixpoint concat_str (l : list string) : string :=
  match l with [] => ""%string | c :: r => (c ++ concat_str r)%string end.

(** Verdicts for the correspondence (modification times are not compared on the
    states in between: the temporary file is rewritten at each step). *)
Definition states_eqb (a b : list (option node)) : bool :=
  (fix go (x y : list (option node)) : bool :=
     match x, y with
     | [], [] => true
     | s1 :: r1, s2 :: r2 => onode_eqb s1 s2 && go r1 r2
     | _, _ => false
     end) a b.

(** did the implementation pass through the states of the model and end where it ends *)
Definition upload_agrees (sb : option node) (dir : path) (tmp name : string) (st : N)
    (chunks : list string) (fails : bool) (seen : list (option node)) (final : option node) : bool :=
  let '(l, e) := upload sb dir tmp name st chunks fails in
  states_eqb l seen && onode_eqb e final.

(** what C02 asks of an upload that fails (equal tree), and C01 of one that succeeds
    (exactly the target is replaced); in between, nothing but the temporary name differs *)
Definition without (s : option node) (p : path) : option node := remo s p.

Definition upload_spec_ok (sb : option node) (dir : path) (tmp name : string) (st : N)
    (body : string) (fails : bool) (seen : list (option node)) (final : option node) : bool :=
  forallb (fun s => onode_eqb (without s (u_tmp dir tmp)) (without sb (u_tmp dir tmp))) seen
  && (if fails then onode_eqb final sb
      else onode_eqb final (seto sb (u_tgt dir name) (File body st))).
