(** CivilSweep.v — proofs about the calendar arithmetic of Civil.v: the day count has
    the closed form of the specification and period 400 years; absDate and the day
    count are inverse on ALL days and dates (a sweep by vm_compute over one
    400-year era, lifted by the periodicity lemmas). *)
From GW Require Import Base Wire WireProofs Civil.
Local Open Scope Z_scope.

(** [lia] with division and modulo by constants *)
Ltac divlia := Z.div_mod_to_equations; lia.

(** * Leap years *)
Lemma is_leap_spec y : is_leap y = spec_leap y.
Proof.
  unfold is_leap, spec_leap.
  destruct (y mod 400 =? 0) eqn:E400; destruct (y mod 100 =? 0) eqn:E100; destruct (y mod 4 =? 0) eqn:E4;
    try reflexivity; rewrite ?Z.eqb_eq, ?Z.eqb_neq in *; exfalso; divlia.
Qed.

Lemma is_leap_period y k : is_leap (y + 400 * k) = is_leap y.
Proof.
  unfold is_leap.
  replace ((y + 400 * k) mod 4) with (y mod 4) by divlia.
  replace ((y + 400 * k) mod 100) with (y mod 100) by divlia.
  replace ((y + 400 * k) mod 400) with (y mod 400) by divlia.
  reflexivity.
Qed.

(** * The day count *)
Lemma days_since_epoch_closed y :
  days_since_epoch y = 365 * (y - 1) + (y - 1) / 4 - (y - 1) / 100 + (y - 1) / 400.
Proof. unfold days_since_epoch. cbv zeta. divlia. Qed.

Lemma days_since_epoch_period y k : days_since_epoch (y + 400 * k) = days_since_epoch y + 146097 * k.
Proof. rewrite !days_since_epoch_closed. divlia. Qed.

Lemma date_to_days_period y m d k : date_to_days (y + 400 * k) m d = date_to_days y m d + 146097 * k.
Proof. unfold date_to_days. rewrite days_since_epoch_period, is_leap_period. lia. Qed.

(** * absDate: periodicity, then a finite sweep over one 400-year era *)
Definition shift_year (k : Z) (x : Z * Z * Z) : Z * Z * Z :=
  let '(y, m, d) := x in (y + 400 * k, m, d).

(** everything after the first step of [abs_date], the era's years starting after [y0] *)
Definition abs_date_core (y0 d : Z) : Z * Z * Z :=
  let y := y0 in
  let n := d / 36524 in let n := n - n / 4 in
  let y := y + 100 * n in let d := d - 36524 * n in
  let n := d / 1461 in let y := y + 4 * n in let d := d - 1461 * n in
  let n := d / 365 in let n := n - n / 4 in
  let y := y + n in let d := d - 365 * n in
  let year := y + 1 in
  let yday := d in
  if is_leap year && (yday =? 59) then (year, 2, 29)
  else
    let day := if is_leap year && (59 <? yday) then yday - 1 else yday in
    let month := day / 31 in
    let endm := days_before (month + 1) in
    if endm <=? day then (year, month + 2, day - endm + 1)
    else (year, month + 1, day - days_before month + 1).

Lemma abs_date_core_eq d0 : abs_date d0 = abs_date_core (400 * (d0 / 146097)) (d0 - 146097 * (d0 / 146097)).
Proof. reflexivity. Qed.

Lemma abs_date_core_shift y0 d k : abs_date_core (y0 + 400 * k) d = shift_year k (abs_date_core y0 d).
Proof.
  unfold abs_date_core. cbv zeta.
  set (n1 := d / 36524 - d / 36524 / 4).
  set (d1 := d - 36524 * n1).
  set (n2 := d1 / 1461).
  set (d2 := d1 - 1461 * n2).
  set (n3 := d2 / 365 - d2 / 365 / 4).
  set (d3 := d2 - 365 * n3).
  replace (y0 + 400 * k + 100 * n1 + 4 * n2 + n3 + 1) with (y0 + 100 * n1 + 4 * n2 + n3 + 1 + 400 * k) by lia.
  rewrite is_leap_period.
  set (yy := y0 + 100 * n1 + 4 * n2 + n3 + 1).
  destruct (is_leap yy && (d3 =? 59)); [reflexivity|].
  set (day := if is_leap yy && (59 <? d3) then d3 - 1 else d3).
  destruct (days_before (day / 31 + 1) <=? day); reflexivity.
Qed.

Lemma abs_date_period d k : abs_date (d + 146097 * k) = shift_year k (abs_date d).
Proof.
  rewrite !abs_date_core_eq.
  replace ((d + 146097 * k) / 146097) with (d / 146097 + k) by divlia.
  replace (d + 146097 * k - 146097 * (d / 146097 + k)) with (d - 146097 * (d / 146097)) by lia.
  replace (400 * (d / 146097 + k)) with (400 * (d / 146097) + 400 * k) by lia.
  apply abs_date_core_shift.
Qed.

Definition date_valid (y m d : Z) : bool := (1 <=? m) && (m <=? 12) && (1 <=? d) && (d <=? days_in m y).

(** day -> date -> day, for every day of the era that starts on 0001-01-01 *)
Definition era_day_ok (n : N) : bool :=
  let d0 := Z.of_N n in
  let '(y, m, d) := abs_date d0 in
  (date_to_days y m d =? d0) && date_valid y m d && (1 <=? y) && (y <=? 400).

Lemma era_day_sweep : all_from (N.to_nat 146097) 0%N era_day_ok = true.
Proof. vm_cast_no_check (eq_refl true). Qed.

(** date -> day -> date, for every date of that era: index n encodes (year, month, day) *)
Definition era_date_ok (n : N) : bool :=
  let z := Z.of_N n in
  let y := z / 372 + 1 in let m := (z mod 372) / 31 + 1 in let d := z mod 31 + 1 in
  if date_valid y m d then
    let '(y', m', d') := abs_date (date_to_days y m d) in (y' =? y) && (m' =? m) && (d' =? d)
  else true.

Lemma era_date_sweep : all_from (N.to_nat 148800) 0%N era_date_ok = true.
Proof. vm_cast_no_check (eq_refl true). Qed.

Theorem abs_date_inverse : forall d0,
  let '(y, m, d) := abs_date d0 in date_to_days y m d = d0 /\ date_valid y m d = true.
Proof.
  intros d0.
  set (q := d0 / 146097). set (r := d0 mod 146097).
  assert (Hd : d0 = r + 146097 * q) by (unfold q, r; divlia).
  assert (Hr : 0 <= r < 146097) by (unfold r; divlia).
  rewrite Hd, abs_date_period.
  assert (Hs := all_from_spec _ _ _ era_day_sweep (Z.to_N r)).
  assert (Hrange : (0 <= Z.to_N r < 0 + N.of_nat (N.to_nat 146097))%N) by (rewrite N2Nat.id; lia).
  specialize (Hs Hrange). unfold era_day_ok in Hs. rewrite Z2N.id in Hs by lia.
  destruct (abs_date r) as [[y m] d]. cbn [shift_year].
  rewrite !andb_true_iff in Hs. destruct Hs as [[[H1 H2] _] _].
  apply Z.eqb_eq in H1. split.
  - rewrite date_to_days_period. lia.
  - unfold date_valid in *. unfold days_in in *. rewrite is_leap_period. exact H2.
Qed.

Theorem date_to_days_inverse : forall y m d, date_valid y m d = true ->
  abs_date (date_to_days y m d) = (y, m, d).
Proof.
  intros y m d Hv.
  set (k := (y - 1) / 400). set (y' := (y - 1) mod 400 + 1).
  assert (Hy : y = y' + 400 * k) by (unfold k, y'; divlia).
  assert (Hy' : 1 <= y' <= 400) by (unfold y'; divlia).
  assert (Hv' : date_valid y' m d = true).
  { unfold date_valid, days_in in *. rewrite Hy, is_leap_period in Hv. exact Hv. }
  rewrite Hy, date_to_days_period, abs_date_period.
  assert (Hm : 1 <= m <= 12 /\ 1 <= d <= 31).
  { unfold date_valid in Hv'. rewrite !andb_true_iff, !Z.leb_le in Hv'.
    destruct Hv' as [[[Hm1 Hm2] Hd1] Hd2]. split; [lia|]. split; [lia|].
    assert (days_in m y' <= 31).
    { unfold days_in. destruct ((m =? 2) && is_leap y'); [lia|].
      assert (m = 1 \/ m = 2 \/ m = 3 \/ m = 4 \/ m = 5 \/ m = 6 \/ m = 7 \/ m = 8 \/ m = 9 \/ m = 10 \/ m = 11 \/ m = 12) by lia.
      repeat (destruct H as [->|H]; [vm_compute; discriminate|]). rewrite H. vm_compute. discriminate. }
    lia. }
  set (n := (y' - 1) * 372 + (m - 1) * 31 + (d - 1)).
  assert (Hs := all_from_spec _ _ _ era_date_sweep (Z.to_N n)).
  assert (Hrange : (0 <= Z.to_N n < 0 + N.of_nat (N.to_nat 148800))%N) by (rewrite N2Nat.id; unfold n; lia).
  specialize (Hs Hrange). unfold era_date_ok in Hs. rewrite Z2N.id in Hs by (unfold n; lia).
  replace (n / 372 + 1) with y' in Hs by (unfold n; divlia).
  replace (n mod 372 / 31 + 1) with m in Hs by (unfold n; divlia).
  replace (n mod 31 + 1) with d in Hs by (unfold n; divlia).
  rewrite Hv' in Hs.
  destruct (abs_date (date_to_days y' m d)) as [[y2 m2] d2]. cbn [shift_year].
  rewrite !andb_true_iff, !Z.eqb_eq in Hs. destruct Hs as [[-> ->] ->]. reflexivity.
Qed.
