(** WireProofs.v — proofs about Wire.v (Depth, Overwrite, status line). *)
From GW Require Import Base Wire.
Local Open Scope Z_scope.

(** * Finite sweeps: a boolean check over an interval of N, lifted to a [forall] *)
Fixpoint all_from (fuel : nat) (i : N) (p : N -> bool) : bool :=
  match fuel with O => true | S f => p i && all_from f (N.succ i) p end.

Lemma all_from_spec fuel : forall i p, all_from fuel i p = true ->
  forall j, (i <= j < i + N.of_nat fuel)%N -> p j = true.
Proof.
  induction fuel as [|f IH]; intros i p H j Hj.
  - simpl in Hj. lia.
  - cbn [all_from] in H. apply andb_true_iff in H. destruct H as [H0 H1].
    destruct (N.eq_dec i j) as [->|Hne]; [exact H0|].
    apply (IH _ _ H1). lia.
Qed.

(** * Characters *)
Lemma byte_chr n : (n < 256)%N -> byte (chr n) = n.
Proof. intros. unfold byte, chr. apply N_ascii_embedding. exact H. Qed.

Lemma chr_byte c : chr (byte c) = c.
Proof. unfold byte, chr. apply ascii_N_embedding. Qed.

Lemma byte_lt c : (byte c < 256)%N.
Proof. unfold byte. apply N_ascii_bounded. Qed.

Lemma byte_inj a b : byte a = byte b -> a = b.
Proof. intros H. rewrite <- (chr_byte a), <- (chr_byte b), H. reflexivity. Qed.

Lemma is_digit_spec c : is_digit c = true <-> (48 <= byte c <= 57)%N.
Proof. unfold is_digit. rewrite andb_true_iff, !N.leb_le. tauto. Qed.

Lemma digit_chr_ok d : 0 <= d < 10 ->
  is_digit (digit_chr d) = true /\ digit_val (digit_chr d) = d.
Proof.
  intros H. unfold is_digit, digit_val, digit_chr.
  rewrite byte_chr by lia. split.
  - apply andb_true_iff. rewrite !N.leb_le. lia.
  - lia.
Qed.

Lemma digit_val_range c : is_digit c = true -> 0 <= digit_val c < 10.
Proof. rewrite is_digit_spec. unfold digit_val. lia. Qed.

Lemma digit_chr_val c : is_digit c = true -> digit_chr (digit_val c) = c.
Proof.
  intros H. apply is_digit_spec in H. unfold digit_chr, digit_val.
  replace (Z.to_N (48 + (Z.of_N (byte c) - 48))) with (byte c) by lia. apply chr_byte.
Qed.

Lemma is_digit_not_space c : is_digit c = true -> Ascii.eqb c " " = false.
Proof.
  intros H. apply is_digit_spec in H. apply Ascii.eqb_neq. intros ->.
  unfold byte in H. simpl N_of_ascii in H. lia.
Qed.

(** * Strings *)
Lemma strip_prefix_spec p : forall s r, strip_prefix p s = Some r <-> s = (p ++ r)%string.
Proof.
  induction p as [|a p IH]; intros s r; simpl.
  - split; [intros [= ->]; reflexivity | intros ->; reflexivity].
  - destruct s as [|b s]; [split; discriminate|].
    destruct (Ascii.eqb a b) eqn:E.
    + apply Ascii.eqb_eq in E. subst b. rewrite IH. split; [intros ->; reflexivity | intros [= ->]; reflexivity].
    + apply Ascii.eqb_neq in E. split; [discriminate | intros [= <- _]; congruence].
Qed.

Lemma all_digits_app a b : all_digits (a ++ b) = all_digits a && all_digits b.
Proof. induction a; simpl; [reflexivity | rewrite IHa, andb_assoc; reflexivity]. Qed.

Lemma cut_space_digits a : forall b, all_digits a = true ->
  cut_space (a ++ String " " b) = Some (a, b).
Proof.
  induction a as [|c a IH]; intros b H; simpl.
  - reflexivity.
  - simpl in H. apply andb_true_iff in H. destruct H as [Hc Ha].
    rewrite (is_digit_not_space _ Hc), (IH _ Ha). reflexivity.
Qed.

(** the pieces [cut_space] returns rebuild the input, and the first has no space *)
Fixpoint no_space (s : string) : bool :=
  match s with EmptyString => true | String c r => negb (Ascii.eqb c " ") && no_space r end.

Lemma cut_space_some s : forall a b, cut_space s = Some (a, b) ->
  s = (a ++ String " " b)%string /\ no_space a = true.
Proof.
  induction s as [|c s IH]; intros a b H; simpl in H; [discriminate|].
  destruct (Ascii.eqb c " ") eqn:E.
  - inversion H; subst. apply Ascii.eqb_eq in E. subst c. split; reflexivity.
  - destruct (cut_space s) as [[a' b']|]; [|discriminate]. inversion H; subst.
    destruct (IH _ _ eq_refl) as [-> Hn]. split; [reflexivity|]. simpl. rewrite E, Hn. reflexivity.
Qed.

Lemma cut_space_no_space a : forall b, no_space a = true -> cut_space (a ++ String " " b) = Some (a, b).
Proof.
  induction a as [|c a IH]; intros b H; simpl; [reflexivity|].
  simpl in H. apply andb_true_iff in H. destruct H as [Hc Ha].
  apply negb_true_iff in Hc. rewrite Hc, (IH _ Ha). reflexivity.
Qed.

(** * Depth *)
Lemma depth_roundtrip d : depth_valid d = true ->
  exists s, depth_string d = Ok s /\ parse_depth s = Ok d.
Proof.
  unfold depth_valid, depth_table. cbn [existsb snd]. rewrite !orb_true_iff, !Z.eqb_eq.
  intros [H|[H|[H|H]]]; try discriminate; subst d; eexists; split; reflexivity.
Qed.

Lemma parse_depth_ok_iff s d : parse_depth s = Ok d <-> depth_den s = Some d.
Proof.
  unfold parse_depth, depth_den, depth_table, plain_err. cbn [assoc_str].
  rewrite (String.eqb_sym s "0"), (String.eqb_sym s "1"), (String.eqb_sym s "infinity").
  destruct (String.eqb "0" s); [split; intros [= <-]; reflexivity|].
  destruct (String.eqb "1" s); [split; intros [= <-]; reflexivity|].
  destruct (String.eqb "infinity" s); [split; intros [= <-]; reflexivity|].
  split; discriminate.
Qed.

Lemma parse_depth_canonical s d : parse_depth s = Ok d -> depth_string d = Ok s.
Proof.
  unfold parse_depth, plain_err.
  destruct (String.eqb s "0") eqn:E0; [apply String.eqb_eq in E0; subst; intros [= <-]; reflexivity|].
  destruct (String.eqb s "1") eqn:E1; [apply String.eqb_eq in E1; subst; intros [= <-]; reflexivity|].
  destruct (String.eqb s "infinity") eqn:E2; [apply String.eqb_eq in E2; subst; intros [= <-]; reflexivity|].
  discriminate.
Qed.

Lemma parse_depth_total s : parse_depth s <> Panic /\ (depth_den s = None -> parse_depth s = Err 500%N).
Proof.
  split.
  - unfold parse_depth, plain_err. repeat (destruct (String.eqb _ _)); discriminate.
  - intros H. destruct (parse_depth s) eqn:E.
    + apply parse_depth_ok_iff in E. congruence.
    + revert E. unfold parse_depth, plain_err. repeat (destruct (String.eqb _ _)); congruence.
    + revert E. unfold parse_depth, plain_err. repeat (destruct (String.eqb _ _)); discriminate.
Qed.

Lemma depth_string_panic_iff d : depth_string d = Panic <-> depth_valid d = false.
Proof.
  unfold depth_string, depth_valid, depth_table. cbn [existsb snd].
  destruct (d =? 0) eqn:E0; [apply Z.eqb_eq in E0; subst; simpl; split; discriminate|].
  destruct (d =? 1) eqn:E1; [apply Z.eqb_eq in E1; subst; simpl; split; discriminate|].
  destruct (d =? -1) eqn:E2; [apply Z.eqb_eq in E2; subst; simpl; split; discriminate|].
  apply Z.eqb_neq in E0, E1, E2.
  replace (0 =? d) with false by (symmetry; apply Z.eqb_neq; congruence).
  replace (1 =? d) with false by (symmetry; apply Z.eqb_neq; congruence).
  replace (-1 =? d) with false by (symmetry; apply Z.eqb_neq; congruence).
  split; reflexivity.
Qed.

(** * Overwrite *)
Lemma overwrite_roundtrip b : parse_overwrite (format_overwrite b) = Ok b.
Proof. destruct b; reflexivity. Qed.

Lemma parse_overwrite_ok_iff s b : parse_overwrite s = Ok b <-> overwrite_den s = Some b.
Proof.
  unfold parse_overwrite, overwrite_den, overwrite_table, plain_err. cbn [assoc_str].
  rewrite (String.eqb_sym s "T"), (String.eqb_sym s "F").
  destruct (String.eqb "T" s); [split; intros [= <-]; reflexivity|].
  destruct (String.eqb "F" s); [split; intros [= <-]; reflexivity|].
  split; discriminate.
Qed.

Lemma parse_overwrite_canonical s b : parse_overwrite s = Ok b -> s = format_overwrite b.
Proof.
  unfold parse_overwrite, plain_err.
  destruct (String.eqb s "T") eqn:E0; [apply String.eqb_eq in E0; subst; intros [= <-]; reflexivity|].
  destruct (String.eqb s "F") eqn:E1; [apply String.eqb_eq in E1; subst; intros [= <-]; reflexivity|].
  discriminate.
Qed.

Lemma parse_overwrite_total s : parse_overwrite s <> Panic /\ (overwrite_den s = None -> parse_overwrite s = Err 500%N).
Proof.
  split.
  - unfold parse_overwrite, plain_err. repeat (destruct (String.eqb _ _)); discriminate.
  - intros H. destruct (parse_overwrite s) eqn:E.
    + apply parse_overwrite_ok_iff in E. congruence.
    + revert E. unfold parse_overwrite, plain_err. repeat (destruct (String.eqb _ _)); congruence.
    + revert E. unfold parse_overwrite, plain_err. repeat (destruct (String.eqb _ _)); discriminate.
Qed.

(** * Status line *)

(** every code 100..999 is written as exactly three digits that read back as the code *)
Definition code3_ok (n : N) : bool :=
  let c := Z.of_N n in
  match itoa c with
  | String x (String y (String z EmptyString)) =>
      is_digit x && is_digit y && is_digit z
      && (100 * digit_val x + 10 * digit_val y + digit_val z =? c)
      && match atoi (itoa c) with Some v => v =? c | None => false end
  | _ => false
  end.

Lemma code3_sweep : all_from 900 100%N code3_ok = true.
Proof. vm_compute. reflexivity. Qed.

Lemma itoa_code3 c : 100 <= c <= 999 ->
  exists x y z, itoa c = String x (String y (String z EmptyString))
    /\ is_digit x = true /\ is_digit y = true /\ is_digit z = true
    /\ 100 * digit_val x + 10 * digit_val y + digit_val z = c
    /\ atoi (itoa c) = Some c.
Proof.
  intros H.
  assert (Hs := all_from_spec _ _ _ code3_sweep (Z.to_N c)).
  assert (Hr : (100 <= Z.to_N c < 100 + N.of_nat 900)%N) by lia.
  specialize (Hs Hr). unfold code3_ok in Hs. rewrite Z2N.id in Hs by lia.
  destruct (itoa c) as [|x [|y [|z [|? ?]]]]; try discriminate.
  rewrite !andb_true_iff in Hs. destruct Hs as [[[[Hx Hy] Hz] Hv] Ha].
  exists x, y, z. repeat split; auto.
  - apply Z.eqb_eq. exact Hv.
  - destruct (atoi _); [|discriminate]. apply Z.eqb_eq in Ha. congruence.
Qed.

Lemma status_marshal_shape s :
  status_marshal s = ("HTTP/1.1 " ++ itoa (fst s) ++ " " ++ snd (status_norm s))%string.
Proof. reflexivity. Qed.

Theorem status_roundtrip : forall prev c text, 100 <= c <= 999 ->
  status_unmarshal prev (status_marshal (c, text)) = Ok (status_norm (c, text)).
Proof.
  intros prev c text Hc.
  destruct (itoa_code3 c Hc) as (x & y & z & Hi & Hx & Hy & Hz & Hv & Ha).
  rewrite status_marshal_shape. cbn [fst]. set (t := snd (status_norm (c, text))).
  unfold status_unmarshal. cbn [str_empty append].
  unfold splitn3. cbn [cut_space Ascii.eqb Bool.eqb].
  rewrite cut_space_digits by (rewrite Hi; simpl; rewrite Hx, Hy, Hz; reflexivity).
  cbv [parse_http_version_ok]. cbn [String.eqb Ascii.eqb Bool.eqb negb].
  rewrite Ha. rewrite Hi. cbn [String.length Nat.eqb all_digits]. rewrite Hx, Hy, Hz. cbn.
  unfold status_norm, t. reflexivity.
Qed.

Theorem status_marshal_in_grammar : forall c text, 100 <= c <= 999 ->
  status_den (status_marshal (c, text)) = Some (status_norm (c, text)).
Proof.
  intros c text Hc.
  destruct (itoa_code3 c Hc) as (x & y & z & Hi & Hx & Hy & Hz & Hv & Ha).
  rewrite status_marshal_shape. cbn [fst]. rewrite Hi.
  unfold status_den. cbn [strip_prefix append Ascii.eqb Bool.eqb].
  rewrite Hx, Hy, Hz. change (is_digit "1") with true. cbn [andb]. rewrite Hv. reflexivity.
Qed.

Lemma http_version_ok_iff v : parse_http_version_ok v = true <->
  exists a b, v = String "H" (String "T" (String "T" (String "P" (String "/" (String a (String "." (String b EmptyString)))))))
              /\ is_digit a = true /\ is_digit b = true.
Proof.
  unfold parse_http_version_ok. split.
  - destruct (String.eqb v "HTTP/1.1") eqn:E1.
    { apply String.eqb_eq in E1. subst. intros _. exists "1"%char, "1"%char. repeat split. }
    destruct (String.eqb v "HTTP/1.0") eqn:E0.
    { apply String.eqb_eq in E0. subst. intros _. exists "1"%char, "0"%char. repeat split. }
    destruct (strip_prefix "HTTP/" v) as [r|] eqn:Er; [|discriminate].
    apply strip_prefix_spec in Er. subst v.
    destruct r as [|a [|dot [|b [|? ?]]]]; try discriminate.
    rewrite !andb_true_iff. intros [[Hd Ha] Hb]. apply Ascii.eqb_eq in Hd. subst dot.
    exists a, b. repeat split; auto.
  - intros (a & b & -> & Ha & Hb).
    destruct (String.eqb _ "HTTP/1.1"); [reflexivity|].
    destruct (String.eqb _ "HTTP/1.0"); [reflexivity|].
    cbn [strip_prefix Ascii.eqb Bool.eqb]. rewrite Ha, Hb. reflexivity.
Qed.

Lemma atoi_3digits x y z : is_digit x = true -> is_digit y = true -> is_digit z = true ->
  atoi (String x (String y (String z EmptyString))) = Some (100 * digit_val x + 10 * digit_val y + digit_val z).
Proof.
  intros Hx Hy Hz.
  assert (Rx := digit_val_range _ Hx). assert (Ry := digit_val_range _ Hy). assert (Rz := digit_val_range _ Hz).
  assert (Hnp : Ascii.eqb x "+" = false).
  { apply Ascii.eqb_neq. intros ->. apply is_digit_spec in Hx. unfold byte in Hx. simpl N_of_ascii in Hx. lia. }
  assert (Hnm : Ascii.eqb x "-" = false).
  { apply Ascii.eqb_neq. intros ->. apply is_digit_spec in Hx. unfold byte in Hx. simpl N_of_ascii in Hx. lia. }
  assert (Hgen : atoi_digits false (String x (String y (String z EmptyString)))
                 = Some (100 * digit_val x + 10 * digit_val y + digit_val z)).
  { unfold atoi_digits. cbn [all_digits]. rewrite Hx, Hy, Hz. cbn [andb].
    unfold dec_value. cbn [dec_value_acc].
    replace ((0 * 10 + digit_val x) * 10 + digit_val y) with (10 * digit_val x + digit_val y) by lia.
    replace ((10 * digit_val x + digit_val y) * 10 + digit_val z)
      with (100 * digit_val x + 10 * digit_val y + digit_val z) by lia.
    unfold int64_max.
    destruct (Z.leb_spec (100 * digit_val x + 10 * digit_val y + digit_val z) 9223372036854775807); [reflexivity|lia]. }
  unfold atoi.
  destruct x as [b0 b1 b2 b3 b4 b5 b6 b7].
  destruct b0, b1, b2, b3, b4, b5, b6, b7; try exact Hgen; cbn in Hnp, Hnm; discriminate.
Qed.

(** the decoder accepts exactly the status lines of the grammar, with the value
    they denote; the only other accepted text is the empty one *)
Theorem status_unmarshal_iff : forall prev b v, b <> EmptyString ->
  (status_unmarshal prev b = Ok v <-> status_den b = Some v).
Proof.
  intros prev b v Hne. unfold status_unmarshal.
  destruct (str_empty b) eqn:Ee; [apply str_empty_spec in Ee; contradiction|].
  split.
  - unfold splitn3.
    destruct (cut_space b) as [[p0 r]|] eqn:E0; [|discriminate].
    destruct (cut_space r) as [[p1 p2]|] eqn:E1; [|discriminate].
    apply cut_space_some in E0. destruct E0 as [-> _].
    apply cut_space_some in E1. destruct E1 as [-> _].
    destruct (parse_http_version_ok p0) eqn:Ev; [|discriminate]. cbn [negb].
    apply http_version_ok_iff in Ev. destruct Ev as (a & c & -> & Ha & Hc).
    destruct ((String.length p1 =? 3)%nat && all_digits p1) eqn:Ed; [|discriminate]. cbn [negb].
    apply andb_true_iff in Ed. destruct Ed as [Hl Hd]. apply Nat.eqb_eq in Hl.
    destruct p1 as [|x [|y [|z [|? ?]]]]; try discriminate.
    cbn [all_digits] in Hd. rewrite !andb_true_iff in Hd. destruct Hd as (Hx & Hy & Hz & _).
    rewrite atoi_3digits by assumption. intros [= <-].
    unfold status_den. cbn [strip_prefix append Ascii.eqb Bool.eqb].
    rewrite Ha, Hc, Hx, Hy, Hz. reflexivity.
  - unfold status_den.
    destruct (strip_prefix "HTTP/" b) as [r|] eqn:Er; [|discriminate].
    apply strip_prefix_spec in Er. subst b.
    destruct r as [|a [|dot [|c [|sp1 [|x [|y [|z [|sp2 phrase]]]]]]]]; try discriminate.
    destruct (is_digit a && Ascii.eqb dot "." && is_digit c && Ascii.eqb sp1 " " && is_digit x
              && is_digit y && is_digit z && Ascii.eqb sp2 " ") eqn:E; [|discriminate].
    rewrite !andb_true_iff in E. destruct E as [[[[[[[Ha Hdot] Hc] Hs1] Hx] Hy] Hz] Hs2].
    apply Ascii.eqb_eq in Hdot, Hs1, Hs2. subst dot sp1 sp2. intros [= <-].
    unfold splitn3. cbn [append cut_space Ascii.eqb Bool.eqb].
    rewrite (is_digit_not_space _ Ha), (is_digit_not_space _ Hc).
    cbn [cut_space Ascii.eqb Bool.eqb].
    rewrite (is_digit_not_space _ Hx), (is_digit_not_space _ Hy), (is_digit_not_space _ Hz).
    cbn [cut_space Ascii.eqb Bool.eqb].
    replace (parse_http_version_ok _) with true
      by (symmetry; apply http_version_ok_iff; exists a, c; repeat split; auto).
    cbn [negb String.length Nat.eqb all_digits]. rewrite Hx, Hy, Hz. cbn [andb negb].
    rewrite atoi_3digits by assumption. reflexivity.
Qed.

Theorem status_unmarshal_never_panics : forall prev b, status_unmarshal prev b <> Panic.
Proof.
  intros prev b. unfold status_unmarshal, plain_err.
  destruct (str_empty b); [discriminate|].
  destruct (splitn3 b) as [|p0 [|p1 [|p2 [|? ?]]]]; try discriminate.
  destruct (negb _); [discriminate|]. destruct (negb _); [discriminate|].
  destruct (atoi p1); discriminate.
Qed.

(** rejection side with the listed finding as a visible hypothesis *)
Theorem status_rejects_except_empty : forall prev b v,
  kf_status_empty b (obs_of (status_unmarshal prev b)) = false ->
  status_unmarshal prev b = Ok v -> status_den b = Some v.
Proof.
  intros prev b v Hk H.
  destruct (str_empty b) eqn:Ee.
  - unfold kf_status_empty in Hk. rewrite Ee, H in Hk. discriminate.
  - apply (status_unmarshal_iff prev); [|exact H]. intros ->. discriminate.
Qed.

Theorem status_rejects_refuted : exists b,
  kf_status_empty b (obs_of (status_unmarshal status_zero b)) = true
  /\ status_unmarshal status_zero b = Ok status_zero /\ status_den b = None.
Proof. exists EmptyString. vm_compute. repeat split. Qed.

(** the decoder's value is what the grammar denotes, also on encoder output *)
Corollary status_dec_spec_ok_of_model : forall b, b <> EmptyString ->
  status_dec_spec_ok b (obs_of (status_unmarshal status_zero b)) = true.
Proof.
  intros b Hne. unfold status_dec_spec_ok, dec_spec_ok, dec_spec_sound.
  destruct (status_unmarshal status_zero b) as [v| |] eqn:E; cbn [obs_of].
  - apply (status_unmarshal_iff _ _ _ Hne) in E. rewrite E.
    unfold status_eqb. rewrite Z.eqb_refl, String.eqb_refl. destruct (status_in_domain v); reflexivity.
  - destruct (status_den b) as [v|] eqn:D; [|reflexivity].
    apply (status_unmarshal_iff status_zero _ _ Hne) in D. congruence.
  - exfalso. exact (status_unmarshal_never_panics _ _ E).
Qed.

Lemma status_eqb_eq a b : status_eqb a b = true <-> a = b.
Proof.
  unfold status_eqb. destruct a as [c t], b as [c' t']. cbn [fst snd].
  rewrite andb_true_iff, Z.eqb_eq, String.eqb_eq. split; [intros [-> ->]; reflexivity|intros [= -> ->]; auto].
Qed.

(** what the specification verdict of a decoded status text means: a text outside the
    grammar is refused; a status-line with a code 100..999 is read with the value it
    denotes; one with a code 000..099 is read with that value or refused; never a panic,
    never another value *)
Ltac solve_dir :=
  first [ discriminate | tauto
        | let H := fresh in intros H; apply status_eqb_eq in H; left; congruence
        | let H := fresh in let H' := fresh in
          intros [H|[H H']]; first [ injection H as ->; apply status_eqb_eq; reflexivity | discriminate | reflexivity | lia ]
        | intros _; right; split; [reflexivity|lia]
        | intros _; reflexivity ].

Local Opaque Z.mul.
Theorem status_dec_spec_ok_meaning : forall b o,
  status_dec_spec_ok b o = true <->
  match status_den b with
  | None => o = ObsErr
  | Some v => o = ObsOk v \/ (o = ObsErr /\ fst v < 100)
  end.
Proof.
  intros b o. unfold status_dec_spec_ok.
  destruct (status_den b) as [v|] eqn:D.
  - assert (Hc : 0 <= fst v <= 999).
    { unfold status_den in D. destruct (strip_prefix "HTTP/" b) as [r|]; [|discriminate].
      do 8 (destruct r as [|? r]; [discriminate|]).
      match type of D with (if ?c then _ else _) = _ => destruct c eqn:C; [|discriminate] end.
      injection D as Hv. subst v. cbv beta iota delta [fst]. rewrite !andb_true_iff in C.
      destruct C as [[[[[[[_ _] _] _] Hx] Hy] Hz] _].
      apply digit_val_range in Hx, Hy, Hz. lia. }
    unfold status_in_domain. destruct (Z.leb_spec 100 (fst v)) as [Hlo|Hlo]; destruct (Z.leb_spec (fst v) 999) as [Hhi|Hhi]; try lia; cbn [andb].
    + unfold dec_spec_ok. destruct o as [a| | |]; split; solve_dir.
    + unfold dec_spec_sound. destruct o as [a| | |]; split; solve_dir.
  - unfold dec_spec_ok. destruct o; split; congruence.
Qed.
Local Transparent Z.mul.

(** * Depth and Overwrite: the specification verdicts of the decoders *)

(** what the verdict means: the canonical spellings are read with their value; an ASCII-case
    variant of one is read with that value or refused; every other text is refused; never a
    panic, never another value *)
Lemma dec_spec_ci_meaning {A} (eqb : A -> A -> bool) (Heq : forall a b, eqb a b = true <-> a = b)
  (den den_ci : option A) (o : obs A) :
  dec_spec_ci eqb den den_ci o = true <->
  match den, den_ci with
  | Some v, _ => o = ObsOk v
  | None, Some v => o = ObsOk v \/ o = ObsErr
  | None, None => o = ObsErr
  end.
Proof.
  unfold dec_spec_ci, dec_spec_ok, dec_spec_sound.
  destruct den as [v|]; [|destruct den_ci as [v|]]; destruct o as [a| | |]; split;
    try discriminate; try tauto; try congruence;
    try (intros H; apply Heq in H; subst; auto; fail);
    try (intros [H|H]; try discriminate; injection H as ->; apply Heq; reflexivity);
    try (intros H; injection H as ->; apply Heq; reflexivity).
Qed.

Lemma bool_eqb_eq (a b : bool) : Bool.eqb a b = true <-> a = b.
Proof. destruct a, b; cbn; split; congruence. Qed.

Theorem depth_dec_spec_ok_meaning : forall s o,
  depth_dec_spec_ok s o = true <->
  match depth_den s, depth_den_ci s with
  | Some v, _ => o = ObsOk v
  | None, Some v => o = ObsOk v \/ o = ObsErr
  | None, None => o = ObsErr
  end.
Proof. intros s o. apply dec_spec_ci_meaning. apply Z.eqb_eq. Qed.

Theorem overwrite_dec_spec_ok_meaning : forall s o,
  overwrite_dec_spec_ok s o = true <->
  match overwrite_den s, overwrite_den_ci s with
  | Some v, _ => o = ObsOk v
  | None, Some v => o = ObsOk v \/ o = ObsErr
  | None, None => o = ObsErr
  end.
Proof. intros s o. apply dec_spec_ci_meaning. apply bool_eqb_eq. Qed.

(** the case-insensitive reading extends the exact one: a canonical spelling denotes the same value *)
Lemma assoc_str_ci_of_exact {A} (l : list (string * A)) s v :
  assoc_str l s = Some v -> exists v', assoc_str_ci l s = Some v'.
Proof.
  induction l as [|[k w] r IH]; [discriminate|]. cbn [assoc_str assoc_str_ci].
  destruct (String.eqb_spec k s) as [->|_].
  - intros _. rewrite String.eqb_refl. eauto.
  - intros H. destruct (String.eqb _ _); eauto.
Qed.

(** the model of the present (case-sensitive) decoders meets the verdicts on every text *)
Theorem depth_dec_model_meets_spec : forall s, depth_dec_spec_ok s (obs_of (parse_depth s)) = true.
Proof.
  intros s. apply depth_dec_spec_ok_meaning.
  destruct (depth_den s) as [v|] eqn:D.
  - apply parse_depth_ok_iff in D. rewrite D. reflexivity.
  - destruct (parse_depth_total s) as [_ H]. rewrite (H D). destruct (depth_den_ci s); auto.
Qed.

Theorem overwrite_dec_model_meets_spec : forall s, overwrite_dec_spec_ok s (obs_of (parse_overwrite s)) = true.
Proof.
  intros s. apply overwrite_dec_spec_ok_meaning.
  destruct (overwrite_den s) as [v|] eqn:D.
  - apply parse_overwrite_ok_iff in D. rewrite D. reflexivity.
  - destruct (parse_overwrite_total s) as [_ H]. rewrite (H D). destruct (overwrite_den_ci s); auto.
Qed.

(** the case-insensitive reading is the exact reading of the lower-cased text (Depth), and of
    the text with its one letter in either case (Overwrite) *)
Theorem depth_den_ci_spec : forall s, depth_den_ci s = depth_den (lower_ascii s).
Proof.
  intros s. unfold depth_den_ci, depth_den, depth_table. cbn [assoc_str_ci assoc_str lower_ascii ascii_lower].
  reflexivity.
Qed.

Theorem overwrite_den_ci_spec : forall s b, overwrite_den_ci s = Some b <->
  (s = format_overwrite b \/ s = lower_ascii (format_overwrite b)).
Proof.
  intros s b. unfold overwrite_den_ci, overwrite_table. cbn [assoc_str_ci].
  change (lower_ascii "T") with "t"%string. change (lower_ascii "F") with "f"%string.
  assert (L : forall x, lower_ascii s = String x EmptyString -> exists c, s = String c EmptyString /\ ascii_lower c = x).
  { intros x H. destruct s as [|c [|d r]]; try discriminate. injection H as H. eauto. }
  assert (Lc : forall c x, ascii_lower c = x -> (byte x = 116 \/ byte x = 102)%N -> c = x \/ byte c = (byte x - 32)%N).
  { intros c x H Hx. unfold ascii_lower in H.
    destruct ((65 <=? byte c) && (byte c <=? 90))%N eqn:U; [|left; exact H].
    right. apply andb_true_iff in U. rewrite !N.leb_le in U. subst x. rewrite byte_chr by lia. lia. }
  split.
  - destruct (String.eqb_spec "t" (lower_ascii s)) as [E|_].
    + intros [= <-]. symmetry in E. destruct (L _ E) as (c & -> & Hc).
      destruct (Lc _ _ Hc) as [->|Hb]; [left; reflexivity|right; reflexivity|].
      left. cbn. f_equal. apply byte_inj. rewrite Hb. reflexivity.
    + destruct (String.eqb_spec "f" (lower_ascii s)) as [E|_]; [|discriminate].
      intros [= <-]. symmetry in E. destruct (L _ E) as (c & -> & Hc).
      destruct (Lc _ _ Hc) as [->|Hb]; [right; reflexivity|right; reflexivity|].
      left. cbn. f_equal. apply byte_inj. rewrite Hb. reflexivity.
  - destruct b; intros [->| ->]; reflexivity.
Qed.
