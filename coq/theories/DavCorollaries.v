(** DavCorollaries.v — consequences of the refinement theorem: histories (C01),
    failed requests change nothing (C02), confinement to the served directory (C03),
    conditional requests and entity tags (C04), no host paths in responses (C17). *)
From GW Require Import Base GoPath Fs DavServer Rfc4918 FsProofs DavRefine.
Local Open Scope list_scope.

(** * Histories: every step of every request sequence refines the abstract tree *)

Fixpoint steps_refine (root : path) (sb : option node) (rs : list request) : Prop :=
  match rs with
  | [] => True
  | r :: rest => refines root sb r /\ steps_refine root (fst (serve root sb r)) rest
  end.

Theorem history_refines root rs : forall sb, steps_refine root sb rs.
Proof.
  induction rs as [|r rest IH]; intros sb; cbn; [exact I|].
  split; [apply serve_refines|apply IH].
Qed.

Lemma run_fst root rs : forall sb,
  fst (run root sb rs) = fold_left (fun s r => fst (serve root s r)) rs sb.
Proof.
  induction rs as [|r rest IH]; intros sb; cbn; [reflexivity|].
  destruct (serve root sb r) as [sb1 resp] eqn:E1. destruct (run root sb1 rest) as [sb2 resps] eqn:E2.
  cbn. rewrite <- IH, E2. reflexivity.
Qed.

(** * Status classes *)

Definition refusal_code (c : N) : Prop := In c [400; 403; 404; 405; 409; 412; 415; 500]%N.

Lemma cond_refusals_codes tag r c : In c (cond_refusals tag r) -> c = 400%N \/ c = 412%N.
Proof.
  unfold cond_refusals, if_match_refusals, if_none_match_refusals. rewrite in_app_iff.
  destruct (String.eqb (h_if_match r) ""); destruct (String.eqb (h_if_none_match r) "");
  destruct (String.eqb tag "");
  try destruct (String.eqb (h_if_match r) "*"); try destruct (String.eqb (h_if_none_match r) "*");
  try destruct (d_if_match r) as [t1|]; try destruct (d_if_none_match r) as [t2|];
  try destruct (String.eqb t1 tag); try destruct (String.eqb t2 tag);
  cbn; intuition.
Qed.

Lemma parse_req_refused_codes root r c :
  parse_req root r = ARefused c -> c = 400%N \/ c = 405%N \/ c = 415%N \/ c = 403%N.
Proof.
  unfold parse_req.
  destruct (negb (known_method (meth r))).
  { unfold unsupported_code. destruct (String.eqb (meth r) "PROPPATCH"); [destruct (pf r)|]; intros H; inversion H; auto. }
  destruct (String.eqb (meth r) "MKCOL" && negb (String.eqb (h_ctype r) "")); [intros H; inversion H; auto|].
  destruct (abs_path root (rpath r)); [|intros H; inversion H; auto].
  destruct (String.eqb (meth r) "OPTIONS"); [discriminate|].
  destruct (String.eqb (meth r) "GET"); [discriminate|].
  destruct (String.eqb (meth r) "HEAD"); [discriminate|].
  destruct (String.eqb (meth r) "PUT"); [discriminate|].
  destruct (String.eqb (meth r) "DELETE"); [discriminate|].
  destruct (String.eqb (meth r) "MKCOL"); [discriminate|].
  destruct (String.eqb (meth r) "PROPFIND").
  { destruct (pf r); destruct (parse_depth_default_inf (h_depth r)); intros H; inversion H; auto. }
  destruct (h_dest r); try (intros H; inversion H; auto; fail).
  destruct (abs_path root p0); [|intros H; inversion H; auto].
  destruct (parse_overwrite (h_overwrite r)); [|intros H; inversion H; auto].
  destruct (parse_depth_default_inf (h_depth r)); [|intros H; inversion H; auto].
  destruct (String.eqb (meth r) "COPY").
  - destruct (N.eqb n 1); intros H; inversion H; auto.
  - destruct (N.eqb n 2); intros H; inversion H; auto.
Qed.

Lemma refusals_codes root r M conds c :
  (forall x, In x conds -> x = 400%N \/ x = 412%N) ->
  In c (refusals root M (parse_req root r) conds) -> refusal_code c.
Proof.
  intros Hc. unfold refusal_code.
  destruct (parse_req root r) eqn:Ep; cbn [refusals].
  - intros [].
  - destruct (M p) as [[c0|]|]; cbn; intuition.
  - rewrite !in_app_iff.
    destruct (is_col (M p) || is_prefix p root); destruct (is_col (M (parent p))); destruct breaks_off;
    cbn; intros H; repeat (destruct H as [H|H]); try contradiction; try (apply Hc in H; destruct H; subst); subst; cbn; auto 10.
  - destruct (M p); [|cbn; intuition]. intros H. apply Hc in H. destruct H; subst; cbn; auto 10.
  - rewrite !in_app_iff. destruct (mapped (M p)); destruct (is_col (M (parent p))); cbn; intuition.
  - rewrite !in_app_iff. destruct (related s d); destruct (mapped (M s)); destruct (is_col (M (parent d)));
    destruct (mapped (M d) && negb overwrite); cbn; intuition.
  - rewrite !in_app_iff. destruct (related s d); destruct (mapped (M s)); destruct (is_col (M (parent d)));
    destruct (mapped (M d) && negb overwrite); cbn; intuition.
  - destruct (M p); cbn; intuition.
  - apply parse_req_refused_codes in Ep. cbn. intuition; subst; auto 10.
Qed.

Lemma success_status_2xx root r M :
  (forall c, parse_req root r <> ARefused c) ->
  In (success_status M (parse_req root r)) [200; 201; 204; 207]%N.
Proof.
  intros H. destruct (parse_req root r); cbn; auto.
  - destruct (mapped (M p)); auto.
  - destruct (mapped (M d)); auto.
  - destruct (mapped (M d)); auto.
  - exfalso. apply (H code). reflexivity.
Qed.

(** * C02: a request answered with a 4xx or 5xx status leaves the state as it was *)

Theorem failed_requests_change_nothing root sb r :
  (400 <= status (snd (serve root sb r)))%N -> fst (serve root sb r) = sb.
Proof.
  intros Hst. pose proof (serve_refines root sb r) as H. unfold refines in H.
  destruct (serve root sb r) as [sb' resp]. cbn [fst snd] in *.
  set (conds := cond_refusals (tag_at (dir_tag r) sb (req_target root r)) r) in *.
  destruct (refusals root (abs sb) (parse_req root r) conds) as [|x l] eqn:Er.
  - exfalso. destruct H as [Hs _].
    assert (Hn : forall c, parse_req root r <> ARefused c).
    { intros c Hc. rewrite Hc in Er. discriminate. }
    pose proof (success_status_2xx root r (abs sb) Hn) as H2. rewrite <- Hs in H2.
    cbn in H2. repeat (destruct H2 as [H2|H2]; [rewrite <- H2 in Hst; lia|]). contradiction.
  - destruct H as [_ H]. exact H.
Qed.

(** ... and conversely a request that is carried out is answered 2xx; a refused one
    with one of the refusal codes of the table. *)
Theorem status_classes root sb r :
  let st := status (snd (serve root sb r)) in
  In st [200; 201; 204; 207]%N \/ refusal_code st.
Proof.
  pose proof (serve_refines root sb r) as H. unfold refines in H.
  destruct (serve root sb r) as [sb' resp]. cbn [fst snd] in *.
  set (conds := cond_refusals (tag_at (dir_tag r) sb (req_target root r)) r) in *.
  destruct (refusals root (abs sb) (parse_req root r) conds) as [|x l] eqn:Er.
  - left. destruct H as [Hs _]. rewrite Hs. apply success_status_2xx.
    intros c Hc. rewrite Hc in Er. discriminate.
  - right. destruct H as [H _]. rewrite <- Er in H.
    apply (refusals_codes root r (abs sb) conds); [|exact H].
    intros y Hy. apply (cond_refusals_codes _ _ _ Hy).
Qed.

(** Along every history: each failing step leaves the state of the step before. *)
Fixpoint failing_steps_unchanged (root : path) (sb : option node) (rs : list request) : Prop :=
  match rs with
  | [] => True
  | r :: rest =>
    ((400 <= status (snd (serve root sb r)))%N -> fst (serve root sb r) = sb) /\
    failing_steps_unchanged root (fst (serve root sb r)) rest
  end.

Theorem history_failed_unchanged root rs : forall sb, failing_steps_unchanged root sb rs.
Proof.
  induction rs as [|r rest IH]; intros sb; cbn; [exact I|].
  split; [apply failed_requests_change_nothing|apply IH].
Qed.

(** PUT whose body breaks off: whatever else holds, the request fails and nothing changes. *)
Theorem put_body_failure root sb r :
  meth r = "PUT"%string -> body_fails r = true ->
  (400 <= status (snd (serve root sb r)))%N /\ fst (serve root sb r) = sb.
Proof.
  intros Hm Hb.
  assert (H4 : (400 <= status (snd (serve root sb r)))%N).
  { rewrite (serve_put _ _ _ Hm). unfold do_put.
    destruct (segs_of (rpath r)) as [s|e] eqn:Es.
    2:{ unfold segs_of in Es. destruct (local_segs (rpath r)) eqn:El; inversion Es; subst; cbn.
        - unfold local_segs in El. destruct (has_char nul (rpath r)); [inversion El; lia|].
          destruct (is_abs (clean (rpath r))); inversion El. lia.
        - lia. }
    set (tag := match geto sb (hp root s) with Some n => fi_etag (fi_of (dir_tag r) n) | None => ""%string end).
    pose proof (check_cond_spec tag r) as Hc.
    destruct (req_cond r tag) as [e|].
    { cbn. apply cond_refusals_codes in Hc. destruct Hc as [-> | ->]; lia. }
    destruct (is_dir (geto sb (hp root s)) || match s with [] => true | _ => false end); [cbn; lia|].
    destruct (negb (is_dir (geto sb (hp root (parent s))))); [cbn; lia|].
    rewrite Hb. cbn. lia. }
  split; [exact H4|]. apply failed_requests_change_nothing. exact H4.
Qed.

(** * C03: nothing outside the served directory is touched *)

(** The paths a request names all lie at or below the served root. *)
Definition areq_paths (a : areq) : list path :=
  match a with
  | AOptions p | AGet p _ | APut p _ _ | ADelete p | AMkcol p | APropfind p _ _ => [p]
  | ACopy s d _ _ | AMove s d _ => [s; d]
  | ARefused _ => []
  end.

Lemma abs_path_under root name p : abs_path root name = Some p -> is_prefix root p = true.
Proof.
  unfold abs_path. destruct (local_segs name); try discriminate.
  intros H. inversion H. apply is_prefix_app.
Qed.

Ltac pin :=
  cbn; let H := fresh "H" in intros H;
  repeat (destruct H as [H|H]; [subst; assumption|]); contradiction.

Lemma parse_req_confined root r p :
  In p (areq_paths (parse_req root r)) -> is_prefix root p = true.
Proof.
  unfold parse_req.
  destruct (negb (known_method (meth r))); [pin|].
  destruct (String.eqb (meth r) "MKCOL" && negb (String.eqb (h_ctype r) "")); [pin|].
  destruct (abs_path root (rpath r)) as [p0|] eqn:Ea; [|pin].
  apply abs_path_under in Ea.
  destruct (String.eqb (meth r) "OPTIONS"); [pin|].
  destruct (String.eqb (meth r) "GET"); [pin|].
  destruct (String.eqb (meth r) "HEAD"); [pin|].
  destruct (String.eqb (meth r) "PUT"); [pin|].
  destruct (String.eqb (meth r) "DELETE"); [pin|].
  destruct (String.eqb (meth r) "MKCOL"); [pin|].
  destruct (String.eqb (meth r) "PROPFIND").
  { destruct (pf r); destruct (parse_depth_default_inf (h_depth r)); pin. }
  destruct (h_dest r) as [| |dn]; try pin.
  destruct (abs_path root dn) as [d|] eqn:Ed; [|pin].
  apply abs_path_under in Ed.
  destruct (parse_overwrite (h_overwrite r)); [|pin].
  destruct (parse_depth_default_inf (h_depth r)); [|pin].
  destruct (String.eqb (meth r) "COPY").
  - destruct (N.eqb n 1); pin.
  - destruct (N.eqb n 2); pin.
Qed.

Lemma not_under_prefix root p q :
  is_prefix root p = true -> is_prefix root q = false -> is_prefix p q = false.
Proof.
  intros H1 H2. destruct (is_prefix p q) eqn:E; [|reflexivity].
  rewrite (is_prefix_trans _ _ _ H1 E) in H2. discriminate.
Qed.

(** The abstract tree after a request differs from the one before only at or below
    the paths the request names. *)
Lemma after_frame M a q :
  (forall p, In p (areq_paths a) -> is_prefix p q = false) -> after M a q = M q.
Proof.
  intros H. destruct a; cbn [after]; try reflexivity.
  - rewrite (H p) by (cbn; auto). reflexivity.
  - rewrite (H p) by (cbn; auto). reflexivity.
  - rewrite (H p) by (cbn; auto). reflexivity.
  - assert (Hd : is_prefix d q = false) by (apply H; cbn; auto).
    rewrite strip_prefix_is_prefix in Hd. destruct (strip_prefix d q); [discriminate|reflexivity].
  - assert (Hd : is_prefix d q = false) by (apply H; cbn; auto).
    rewrite strip_prefix_is_prefix in Hd. destruct (strip_prefix d q); [discriminate|].
    rewrite (H s) by (cbn; auto). reflexivity.
Qed.

(** For every request whatsoever — any request path, any Destination — what is
    mapped outside the served root is the same before and after. *)
Theorem outside_root_untouched root sb r q :
  is_prefix root q = false ->
  abs (fst (serve root sb r)) q = abs sb q.
Proof.
  intros Hq. pose proof (serve_refines root sb r) as H. unfold refines in H.
  destruct (serve root sb r) as [sb' resp]. cbn [fst].
  set (conds := cond_refusals (tag_at (dir_tag r) sb (req_target root r)) r) in *.
  destruct (refusals root (abs sb) (parse_req root r) conds) as [|x l].
  - destruct H as [_ H]. rewrite H. apply after_frame.
    intros p Hp. apply (not_under_prefix root); [apply (parse_req_confined root r); exact Hp|exact Hq].
  - destruct H as [_ ->]. reflexivity.
Qed.

Fixpoint outside_untouched_along (root : path) (sb0 sb : option node) (rs : list request) : Prop :=
  match rs with
  | [] => True
  | r :: rest =>
    (forall q, is_prefix root q = false -> abs (fst (serve root sb r)) q = abs sb0 q) /\
    outside_untouched_along root sb0 (fst (serve root sb r)) rest
  end.

Theorem history_outside_untouched root rs : forall sb0 sb,
  (forall q, is_prefix root q = false -> abs sb q = abs sb0 q) ->
  outside_untouched_along root sb0 sb rs.
Proof.
  induction rs as [|r rest IH]; intros sb0 sb H; cbn; [exact I|].
  assert (H1 : forall q, is_prefix root q = false -> abs (fst (serve root sb r)) q = abs sb0 q).
  { intros q Hq. rewrite outside_root_untouched by exact Hq. apply H. exact Hq. }
  split; [exact H1|apply IH; exact H1].
Qed.

(** Stronger than the kind-level statement: the very nodes (bytes and modification
    times included) at paths unrelated to the root are untouched.  Proved for the
    state-changing methods through the frame lemmas of Fs. *)

(** A path that cannot be mapped below the root is refused with 400. *)
Theorem unmappable_path_refused root sb r :
  known_method (meth r) = true ->
  (String.eqb (meth r) "MKCOL" && negb (String.eqb (h_ctype r) "")) = false ->
  local_segs (rpath r) = Err 400 ->
  status (snd (serve root sb r)) = 400%N /\ fst (serve root sb r) = sb.
Proof.
  intros Hk Hmk He. pose proof (serve_refines root sb r) as H. unfold refines in H.
  destruct (serve root sb r) as [sb' resp]. cbn [fst snd].
  assert (Hp : parse_req root r = ARefused 400).
  { unfold parse_req. rewrite Hk, Hmk, (abs_path_err _ _ He). reflexivity. }
  rewrite Hp in H. cbn in H. destruct H as [[H|[]] H2]. split; [symmetry; exact H|exact H2].
Qed.

(** * The string level: path.Clean and localPath *)

Lemma split_slash_aux_no_slash s : forall cur,
  has_char slash cur = false ->
  Forall (fun x => has_char slash x = false) (split_slash_aux s cur).
Proof.
  induction s as [|a r IH]; intros cur Hc; cbn.
  - constructor; [exact Hc|constructor].
  - destruct (Ascii.eqb a slash) eqn:E.
    + constructor; [exact Hc|]. apply IH. reflexivity.
    + apply IH. clear IH. induction cur as [|b cur IHc]; cbn in *.
      * rewrite E. reflexivity.
      * apply Bool.orb_false_iff in Hc. destruct Hc as [H1 H2]. rewrite H1. cbn. apply IHc. exact H2.
Qed.

Lemma clean_stack_proper segs : forall stack,
  Forall (fun x => has_char slash x = false) segs ->
  Forall (fun x => proper_seg x = true) stack ->
  Forall (fun x => proper_seg x = true) (clean_stack true segs stack).
Proof.
  induction segs as [|seg rest IH]; intros stack Hs Hst; cbn [clean_stack].
  - apply Forall_rev. exact Hst.
  - inversion Hs as [|? ? Hseg Hrest]; subst.
    destruct (String.eqb seg "" || String.eqb seg ".") eqn:E1; [apply IH; assumption|].
    destruct (String.eqb seg "..") eqn:E2.
    + destruct stack as [|top st']; [apply IH; [assumption|constructor]|].
      inversion Hst as [|? ? Htop Hst']; subst.
      destruct (String.eqb top "..") eqn:E3.
      * unfold proper_seg in Htop. rewrite E3 in Htop. rewrite !Bool.andb_false_r in Htop. discriminate.
      * apply IH; assumption.
    + apply IH; [assumption|]. constructor; [|exact Hst].
      apply Bool.orb_false_iff in E1. destruct E1 as [Ea Eb].
      unfold proper_seg. rewrite Ea, Eb, E2, Hseg. reflexivity.
Qed.

(** Every segment of a mapped path is a proper directory-entry name: non-empty, not
    "." or "..", without a slash — for every byte string whatsoever. *)
Theorem local_segs_proper name segs :
  local_segs name = Ok segs -> Forall (fun x => proper_seg x = true) segs.
Proof.
  unfold local_segs. destruct (has_char nul name); [discriminate|].
  destruct (is_abs (clean name)); [|discriminate].
  intros H. inversion H; subst. unfold clean_segs. apply clean_stack_proper; [|constructor].
  apply split_slash_aux_no_slash. reflexivity.
Qed.

Definition starts_with (pre s : string) : bool := String.eqb pre (String.substring 0 (String.length pre) s).

(** The host path handed to the operating system is the root itself or the root
    followed by "/"-separated proper segments: it cannot leave the root. *)
Theorem local_path_confined root name p :
  local_path root name = Ok p ->
  exists segs, Forall (fun x => proper_seg x = true) segs /\ p = host_path root segs.
Proof.
  unfold local_path. destruct (local_segs name) as [segs| |] eqn:E; try discriminate.
  intros H. inversion H; subst. exists segs. split; [apply (local_segs_proper _ _ E)|reflexivity].
Qed.

Theorem local_path_refuses root name :
  (has_char nul name = true \/ is_abs (clean name) = false) -> local_path root name = Err 400.
Proof.
  unfold local_path, local_segs. intros [H|H].
  - rewrite H. reflexivity.
  - destruct (has_char nul name); [reflexivity|]. rewrite H. reflexivity.
Qed.

(** * C17: no response discloses a host path *)

Lemma cond_no_leak tag r e : req_cond r tag = Some e -> eleak e = false.
Proof.
  unfold req_cond, check_cond, match_etag, herr.
  destruct (String.eqb (h_if_match r) ""); destruct (String.eqb (h_if_none_match r) "");
  destruct (String.eqb tag "");
  try destruct (String.eqb (h_if_match r) "*"); try destruct (String.eqb (h_if_none_match r) "*");
  try destruct (d_if_match r) as [t1|]; try destruct (d_if_none_match r) as [t2|];
  try destruct (String.eqb t1 tag); try destruct (String.eqb t2 tag);
  intros H; inversion H; reflexivity.
Qed.

Lemma segs_of_no_leak name e : segs_of name = GErr e -> eleak e = false.
Proof.
  unfold segs_of, herr. destruct (local_segs name); intros H; inversion H; reflexivity.
Qed.

Lemma stat_no_leak root sb dt name e : stat root sb dt name = GErr e -> eleak e = false.
Proof.
  unfold stat. destruct (segs_of name) as [s|e0] eqn:Es.
  - destruct (geto sb (hp root s)); intros H; inversion H; reflexivity.
  - intros H; inversion H; subst. apply (segs_of_no_leak _ _ Es).
Qed.

Lemma cmc_no_leak root sb src dst ow e :
  copy_move_checks root sb src dst ow = GErr e -> eleak e = false.
Proof.
  unfold copy_move_checks.
  destruct (segs_of src) as [ss|e0] eqn:E1; [|intros H; inversion H; subst; apply (segs_of_no_leak _ _ E1)].
  destruct (segs_of dst) as [ds|e0] eqn:E2; [|intros H; inversion H; subst; apply (segs_of_no_leak _ _ E2)].
  destruct (is_prefix ss ds || is_prefix ds ss); [intros H; inversion H; reflexivity|].
  destruct (geto sb (hp root ss)); [|intros H; inversion H; reflexivity].
  destruct (negb (is_dir (geto sb (hp root (parent ds))))); [intros H; inversion H; reflexivity|].
  destruct (exists_ (geto sb (hp root ds))); [destruct ow|]; intros H; inversion H; reflexivity.
Qed.

Theorem no_host_path_disclosed root sb r : r_leak (snd (serve root sb r)) = false.
Proof.
  unfold serve.
  destruct (String.eqb (meth r) "OPTIONS").
  { unfold do_options. destruct (segs_of (rpath r)) eqn:E; cbn; [reflexivity|apply (segs_of_no_leak _ _ E)]. }
  destruct (String.eqb (meth r) "GET").
  { unfold do_get. destruct (stat root sb (dir_tag r) (rpath r)) as [[s [c m|ch]]|e] eqn:E; cbn; try reflexivity.
    apply (stat_no_leak _ _ _ _ _ E). }
  destruct (String.eqb (meth r) "HEAD").
  { unfold do_get. destruct (stat root sb (dir_tag r) (rpath r)) as [[s [c m|ch]]|e] eqn:E; cbn; try reflexivity.
    apply (stat_no_leak _ _ _ _ _ E). }
  destruct (String.eqb (meth r) "PUT").
  { unfold do_put. destruct (segs_of (rpath r)) as [s|e] eqn:E; cbn; [|apply (segs_of_no_leak _ _ E)].
    match goal with |- context [req_cond r ?t] => destruct (req_cond r t) as [e|] eqn:Ec end;
      [cbn; apply (cond_no_leak _ _ _ Ec)|].
    destruct (is_dir (geto sb (hp root s)) || match s with [] => true | _ => false end); [reflexivity|].
    destruct (negb (is_dir (geto sb (hp root (parent s))))); [reflexivity|].
    destruct (body_fails r); [reflexivity|].
    destruct (seto sb (hp root s) (File (body r) (stamp r))); reflexivity. }
  destruct (String.eqb (meth r) "DELETE").
  { unfold do_delete. destruct (stat root sb (dir_tag r) (rpath r)) as [[s n]|e] eqn:E; cbn; [|apply (stat_no_leak _ _ _ _ _ E)].
    match goal with |- context [req_cond r ?t] => destruct (req_cond r t) as [e|] eqn:Ec end;
      [cbn; apply (cond_no_leak _ _ _ Ec)|reflexivity]. }
  destruct (String.eqb (meth r) "PROPFIND").
  { unfold do_propfind.
    destruct (pf r); try reflexivity;
    (destruct (String.eqb (h_depth r) ""); [|destruct (String.eqb (h_depth r) "0"); [|destruct (String.eqb (h_depth r) "1"); [|destruct (String.eqb (h_depth r) "infinity")]]]);
    try reflexivity;
    (destruct (stat root sb (dir_tag r) (rpath r)) as [[s n]|e] eqn:E; cbn; [reflexivity|apply (stat_no_leak _ _ _ _ _ E)]). }
  destruct (String.eqb (meth r) "MKCOL").
  { unfold do_mkcol. destruct (negb (String.eqb (h_ctype r) "")); [reflexivity|].
    destruct (segs_of (rpath r)) as [s|e] eqn:E; cbn; [|apply (segs_of_no_leak _ _ E)].
    destruct (exists_ (geto sb (hp root s))); [reflexivity|].
    destruct (negb (is_dir (geto sb (parent (hp root s))))); [reflexivity|].
    destruct (seto sb (hp root s) (Dir [])); reflexivity. }
  destruct (String.eqb (meth r) "COPY" || String.eqb (meth r) "MOVE").
  2:{ destruct (String.eqb (meth r) "PROPPATCH"); [unfold do_proppatch; destruct (pf r)|]; reflexivity. }
  rewrite do_copy_move_headers.
  destruct (h_dest r) as [| |dst]; try reflexivity.
  destruct (parse_overwrite (h_overwrite r)) as [ow|]; [|reflexivity].
  destruct (parse_depth_default_inf (h_depth r)) as [d|]; [|reflexivity].
  destruct (String.eqb (meth r) "COPY").
  - destruct (N.eqb d 1); [reflexivity|]. unfold do_copy.
    destruct (copy_move_checks root sb (rpath r) dst ow) as [[[[ss n] ds] cr]|e] eqn:E; cbn; [|apply (cmc_no_leak _ _ _ _ _ _ E)].
    match goal with |- context [seto ?a ?b ?c] => destruct (seto a b c) end; [destruct cr|]; reflexivity.
  - destruct (negb (N.eqb d 2)); [reflexivity|]. unfold do_move.
    destruct (copy_move_checks root sb (rpath r) dst ow) as [[[[ss n] ds] cr]|e] eqn:E; cbn; [|apply (cmc_no_leak _ _ _ _ _ _ E)].
    match goal with |- context [seto ?a ?b ?c] => destruct (seto a b c) end; [destruct cr|]; reflexivity.
Qed.

(** * C04: preconditions and entity tags *)

(** MatchETag is true exactly for "*" or an equal tag against an existing resource;
    a tag that does not decode is an error whenever there is a resource. *)
Theorem match_etag_true v d etag :
  match_etag v d etag = GOk true <->
  etag <> ""%string /\ (v = "*"%string \/ (v <> "*"%string /\ d = Some etag)).
Proof.
  unfold match_etag, herr.
  destruct (String.eqb etag "") eqn:E1.
  - apply String.eqb_eq in E1. subst. split; [discriminate|intros [H _]; congruence].
  - apply String.eqb_neq in E1. destruct (String.eqb v "*") eqn:E2.
    + apply String.eqb_eq in E2. subst. split; auto.
    + apply String.eqb_neq in E2. destruct d as [t|].
      * destruct (String.eqb t etag) eqn:E3.
        -- apply String.eqb_eq in E3. subst. split; auto.
        -- apply String.eqb_neq in E3. split; [discriminate|].
           intros [_ [H|[_ H]]]; [congruence|]. inversion H. congruence.
      * split; [discriminate|]. intros [_ [H|[_ H]]]; [congruence|discriminate].
Qed.

Theorem match_etag_error v d etag e :
  match_etag v d etag = GErr e ->
  etag <> ""%string /\ v <> "*"%string /\ d = None /\ ecode e = 400%N.
Proof.
  unfold match_etag, herr.
  destruct (String.eqb etag "") eqn:E1; [discriminate|].
  destruct (String.eqb v "*") eqn:E2; [discriminate|].
  destruct d; [discriminate|]. intros H. inversion H.
  apply String.eqb_neq in E1. apply String.eqb_neq in E2. auto.
Qed.

(** The truth table itself, read off the specification: with a resource whose
    current tag is [tag] (non-empty), the request proceeds iff ... *)
Lemma if_match_table tag v d :
  tag <> ""%string ->
  (if_match_refusals tag v d = [] <-> (v = ""%string \/ v = "*"%string \/ d = Some tag)).
Proof.
  intros Ht. apply String.eqb_neq in Ht. unfold if_match_refusals. rewrite Ht.
  destruct (String.eqb v "") eqn:E1.
  { apply String.eqb_eq in E1. split; auto. }
  apply String.eqb_neq in E1.
  destruct (String.eqb v "*") eqn:E3.
  { apply String.eqb_eq in E3. split; auto. }
  apply String.eqb_neq in E3.
  destruct d as [t|].
  - destruct (String.eqb t tag) eqn:E5.
    + apply String.eqb_eq in E5. subst. split; auto.
    + apply String.eqb_neq in E5. split; [discriminate|]. intros [H|[H|H]]; try congruence.
  - split; [discriminate|]. intros [H|[H|H]]; congruence.
Qed.

Lemma if_none_match_table tag v d :
  tag <> ""%string ->
  (if_none_match_refusals tag v d = [] <->
   (v = ""%string \/ (v <> "*"%string /\ exists t, d = Some t /\ t <> tag))).
Proof.
  intros Ht. apply String.eqb_neq in Ht. unfold if_none_match_refusals. rewrite Ht.
  destruct (String.eqb v "") eqn:E1.
  { apply String.eqb_eq in E1. split; auto. }
  apply String.eqb_neq in E1.
  destruct (String.eqb v "*") eqn:E3.
  { apply String.eqb_eq in E3. split; [discriminate|]. intros [H|[H _]]; congruence. }
  apply String.eqb_neq in E3.
  destruct d as [t|].
  - destruct (String.eqb t tag) eqn:E5.
    + apply String.eqb_eq in E5. subst. split; [discriminate|].
      intros [H|[_ [t [H1 H2]]]]; [congruence|]. inversion H1. congruence.
    + apply String.eqb_neq in E5. split; [|reflexivity]. intros _. right. split; [exact E3|]. eauto.
  - split; [discriminate|]. intros [H|[_ [t [H1 _]]]]; [congruence|discriminate].
Qed.

Theorem cond_table_exists tag r :
  tag <> ""%string ->
  (cond_refusals tag r = [] <->
   (h_if_match r = ""%string \/ h_if_match r = "*"%string \/ d_if_match r = Some tag) /\
   (h_if_none_match r = ""%string \/
    (h_if_none_match r <> "*"%string /\ exists t, d_if_none_match r = Some t /\ t <> tag))).
Proof.
  intros Ht. unfold cond_refusals.
  rewrite <- (if_match_table tag _ _ Ht), <- (if_none_match_table tag _ _ Ht).
  split.
  - intros H. apply app_eq_nil in H. exact H.
  - intros [H1 H2]. rewrite H1, H2. reflexivity.
Qed.

(** Without a resource: If-Match fails, If-None-Match holds. *)
Theorem cond_table_absent r :
  cond_refusals "" r = [] <-> h_if_match r = ""%string.
Proof.
  unfold cond_refusals, if_match_refusals, if_none_match_refusals. cbn.
  destruct (String.eqb (h_if_match r) "") eqn:E1; destruct (String.eqb (h_if_none_match r) "") eqn:E2;
  repeat match goal with
  | H : String.eqb _ _ = true |- _ => apply String.eqb_eq in H
  | H : String.eqb _ _ = false |- _ => apply String.eqb_neq in H
  end; cbn; split; intros H; try discriminate; try reflexivity; try assumption; try congruence.
Qed.

(** A conditional DELETE on an existing resource is carried out iff the table allows
    it; otherwise 412 (or 400 for an undecodable tag) and nothing changes. *)
Theorem conditional_delete root sb r s n :
  meth r = "DELETE"%string -> local_segs (rpath r) = Ok s -> geto sb (root ++ s) = Some n ->
  let tag := fi_etag (fi_of (dir_tag r) n) in
  let '(sb', resp) := serve root sb r in
  match cond_refusals tag r with
  | [] => status resp = 204%N /\ (forall q, abs sb' q = if is_prefix (root ++ s) q then None else abs sb q)
  | refs => In (status resp) refs /\ sb' = sb
  end.
Proof.
  intros Hm Hs Hg. pose proof (serve_refines root sb r) as H. unfold refines in H.
  destruct (serve root sb r) as [sb' resp].
  rewrite (parse_delete _ _ Hm), (abs_path_ok root _ _ Hs), (req_target_ok _ _ _ Hs) in H.
  cbn [refusals] in H. unfold tag_at in H. rewrite (abs_unfold sb (root ++ s)), Hg in H.
  assert (Hk : exists k, kind_of (Some n) = Some k) by (destruct n; cbn; eauto).
  destruct Hk as [k Hk]. rewrite Hk in H. cbn zeta.
  destruct (cond_refusals (fi_etag (fi_of (dir_tag r) n)) r); exact H.
Qed.

(** A conditional PUT on an existing file, or on an absent name in an existing
    collection, is carried out iff the table allows it. *)
Theorem conditional_put root sb r s :
  meth r = "PUT"%string -> local_segs (rpath r) = Ok s -> s <> [] ->
  is_dir (geto sb (root ++ s)) = false -> is_dir (geto sb (root ++ parent s)) = true ->
  body_fails r = false ->
  let tag := tag_at (dir_tag r) sb (root ++ s) in
  let '(sb', resp) := serve root sb r in
  match cond_refusals tag r with
  | [] => status resp = (if exists_ (geto sb (root ++ s)) then 204 else 201)%N /\
          abs sb' (root ++ s) = Some (AFile (body r)) /\
          (forall q, is_prefix (root ++ s) q = false -> abs sb' q = abs sb q)
  | refs => In (status resp) refs /\ sb' = sb
  end.
Proof.
  intros Hm Hs Hne Hnd Hpar Hbf. pose proof (serve_refines root sb r) as H. unfold refines in H.
  destruct (serve root sb r) as [sb' resp].
  rewrite (parse_put _ _ Hm), (abs_path_ok root _ _ Hs), (req_target_ok _ _ _ Hs) in H.
  cbn [refusals] in H. rewrite !col_dir, Hnd, is_prefix_app_self_l, (parent_app root s Hne), Hpar, Hbf in H.
  destruct s as [|x s']; [congruence|]. cbn [orb app] in H. rewrite app_nil_r in H.
  cbn zeta. destruct (cond_refusals (tag_at (dir_tag r) sb (root ++ x :: s')) r).
  - destruct H as [H1 H2]. split; [|split].
    + rewrite H1. cbn. rewrite mapped_exists. reflexivity.
    + rewrite H2. cbn [after]. rewrite is_prefix_refl. reflexivity.
    + intros q Hq. rewrite H2. cbn [after]. rewrite Hq. reflexivity.
  - exact H.
Qed.

(** One tag: what PUT announces is what GET, HEAD and PROPFIND announce for the
    stored file afterwards. *)
Definition get_req (r : request) (m : string) : request :=
  {| meth := m; rpath := rpath r; h_depth := "0"; h_overwrite := ""; h_dest := DestAbsent; h_ctype := "";
     h_if_match := ""; h_if_none_match := ""; d_if_match := None; d_if_none_match := None;
     body := ""; body_fails := false; pf := PfAllProp; stamp := stamp r; dir_tag := dir_tag r; mime_tab := mime_tab r; sniffed := sniffed r |}.

Theorem one_tag root sb r sb' resp :
  meth r = "PUT"%string -> serve root sb r = (sb', resp) -> (status resp < 300)%N ->
  exists t,
    r_etag resp = quote_tag t /\
    r_etag (snd (serve root sb' (get_req r "GET"))) = quote_tag t /\
    r_etag (snd (serve root sb' (get_req r "HEAD"))) = quote_tag t /\
    map me_etag (r_ms (snd (serve root sb' (get_req r "PROPFIND")))) = [t] /\
    tag_at "" sb' (req_target root r) = t.
Proof.
  intros Hm Hs Hst. rewrite (serve_put _ _ _ Hm) in Hs. unfold do_put in Hs.
  destruct (local_segs_cases (rpath r)) as [[s Hl]|He].
  2:{ rewrite (segs_of_err _ He) in Hs. inversion Hs; subst. cbn in Hst. lia. }
  rewrite (segs_of_ok _ _ Hl) in Hs.
  match type of Hs with context [req_cond r ?t] => destruct (req_cond r t) as [e|] eqn:Ec end.
  { inversion Hs; subst. cbn in Hst.
    match type of Ec with req_cond r ?t = _ => pose proof (check_cond_spec t r) as Hc end. rewrite Ec in Hc.
    apply cond_refusals_codes in Hc. destruct Hc as [Hc|Hc]; rewrite Hc in Hst; lia. }
  destruct (is_dir (geto sb (hp root s)) || match s with [] => true | _ => false end); [inversion Hs; subst; cbn in Hst; lia|].
  destruct (negb (is_dir (geto sb (hp root (parent s))))); [inversion Hs; subst; cbn in Hst; lia|].
  destruct (body_fails r); [inversion Hs; subst; cbn in Hst; lia|].
  destruct (seto sb (hp root s) (File (body r) (stamp r))) as [t0|] eqn:Et; [|inversion Hs; subst; cbn in Hst; lia].
  inversion Hs; subst sb' resp; clear Hs.
  exists (etag_of (stamp r) (strlen (body r))).
  assert (Hg : geto (Some t0) (root ++ s) = Some (File (body r) (stamp r))).
  { pose proof (geto_seto_at _ _ _ _ [] Et) as H. rewrite app_nil_r in H. exact H. }
  split; [reflexivity|].
  assert (Hseg : segs_of (rpath (get_req r "GET")) = GOk s) by (apply segs_of_ok; exact Hl).
  repeat split.
  - unfold serve; cbn [meth get_req String.eqb Ascii.eqb Bool.eqb]. unfold do_get, stat.
    cbn [rpath get_req]. rewrite (segs_of_ok _ _ Hl). unfold hp. rewrite Hg. reflexivity.
  - unfold serve; cbn [meth get_req String.eqb Ascii.eqb Bool.eqb]. unfold do_get, stat.
    cbn [rpath get_req]. rewrite (segs_of_ok _ _ Hl). unfold hp. rewrite Hg. reflexivity.
  - unfold serve; cbn [meth get_req String.eqb Ascii.eqb Bool.eqb]. unfold do_propfind, stat.
    cbn [rpath get_req pf h_depth String.eqb Ascii.eqb Bool.eqb]. rewrite (segs_of_ok _ _ Hl). unfold hp. rewrite Hg. reflexivity.
  - unfold tag_at. rewrite (req_target_ok _ _ _ Hl), Hg. reflexivity.
Qed.

(** A tag so obtained is accepted back: with If-Match it lets the request through,
    with If-None-Match it stops it (given that the header decoder inverts the
    quoting — which is property C16's subject). *)
Theorem tag_accepted_back tag r :
  tag <> ""%string ->
  h_if_match r = quote_tag tag -> d_if_match r = Some tag ->
  if_match_refusals tag (h_if_match r) (d_if_match r) = [].
Proof.
  intros Ht Hh Hd. unfold if_match_refusals. rewrite Hd.
  apply String.eqb_neq in Ht. rewrite Ht, String.eqb_refl.
  destruct (String.eqb (h_if_match r) ""); [reflexivity|].
  destruct (String.eqb (h_if_match r) "*"); reflexivity.
Qed.

Theorem tag_stops_if_none_match tag r :
  tag <> ""%string ->
  h_if_none_match r = quote_tag tag -> d_if_none_match r = Some tag ->
  if_none_match_refusals tag (h_if_none_match r) (d_if_none_match r) = [412%N].
Proof.
  intros Ht Hh Hd. unfold if_none_match_refusals. rewrite Hd, Hh.
  apply String.eqb_neq in Ht. rewrite Ht, String.eqb_refl.
  unfold quote_tag. cbn. reflexivity.
Qed.

(** * C01: what the readers report *)

Theorem get_reports_stored root sb r s c m :
  meth r = "GET"%string -> local_segs (rpath r) = Ok s -> geto sb (root ++ s) = Some (File c m) ->
  let resp := snd (serve root sb r) in
  status resp = 200%N /\ r_body resp = Some c /\ r_clen resp = dec (strlen c) /\
  r_etag resp = quote_tag (etag_of m (strlen c)) /\ fst (serve root sb r) = sb.
Proof.
  intros Hm Hs Hg. rewrite (serve_get _ _ _ Hm). unfold do_get, stat.
  rewrite (segs_of_ok _ _ Hs). unfold hp. rewrite Hg. cbn. auto.
Qed.

Theorem head_reports_stored root sb r s c m :
  meth r = "HEAD"%string -> local_segs (rpath r) = Ok s -> geto sb (root ++ s) = Some (File c m) ->
  let resp := snd (serve root sb r) in
  status resp = 200%N /\ r_body resp = None /\ r_clen resp = dec (strlen c) /\
  r_etag resp = quote_tag (etag_of m (strlen c)) /\ fst (serve root sb r) = sb.
Proof.
  intros Hm Hs Hg. rewrite (serve_head _ _ _ Hm). unfold do_get, stat.
  rewrite (segs_of_ok _ _ Hs). unfold hp. rewrite Hg. cbn. auto.
Qed.

(** The media type GET and HEAD announce: the type registered for the extension of the
    stored name, else the type detected from the content. *)
Theorem get_head_content_type root sb r s c m :
  (meth r = "GET"%string \/ meth r = "HEAD"%string) ->
  local_segs (rpath r) = Ok s -> geto sb (root ++ s) = Some (File c m) ->
  r_ctype (snd (serve root sb r)) = spec_content_type root r (root ++ s).
Proof.
  intros Hm Hs Hg. unfold spec_content_type. rewrite strip_prefix_app.
  destruct Hm as [Hm|Hm]; [rewrite (serve_get _ _ _ Hm)|rewrite (serve_head _ _ _ Hm)];
    unfold do_get, stat; rewrite (segs_of_ok _ _ Hs); unfold hp; rewrite Hg; reflexivity.
Qed.

(** A file with a registered extension is announced with that type whatever it holds;
    one without is announced as what its first bytes look like. *)
Corollary content_type_cases root sb r s c m :
  (meth r = "GET"%string \/ meth r = "HEAD"%string) ->
  local_segs (rpath r) = Ok s -> geto sb (root ++ s) = Some (File c m) ->
  let t := registered_type r (external_path s) in
  (t <> ""%string -> r_ctype (snd (serve root sb r)) = t) /\
  (t = ""%string -> registered_type r (rpath r) = ""%string -> r_ctype (snd (serve root sb r)) = sniffed r).
Proof.
  intros Hm Hs Hg. cbn zeta. rewrite (get_head_content_type _ _ _ _ _ _ Hm Hs Hg).
  unfold spec_content_type. rewrite strip_prefix_app. split.
  - intros Ht. destruct (String.eqb (registered_type r (external_path s)) "") eqn:E; [|reflexivity].
    apply String.eqb_eq in E. congruence.
  - intros Ht Hr. rewrite Ht, Hr. reflexivity.
Qed.

Theorem options_reports_kind root sb r s :
  meth r = "OPTIONS"%string -> local_segs (rpath r) = Ok s ->
  let resp := snd (serve root sb r) in
  status resp = 204%N /\ r_allow resp = allow_for (abs sb (root ++ s)) /\ r_dav resp = "1, 3"%string /\
  fst (serve root sb r) = sb.
Proof.
  intros Hm Hs. rewrite (serve_options _ _ _ Hm). unfold do_options.
  rewrite (segs_of_ok _ _ Hs). unfold hp, abs.
  destruct (geto sb (root ++ s)) as [[c m|ch]|]; cbn; auto.
Qed.

(** The entity tag of a stored file is never empty (so "no tag" means "no resource"
    exactly, for files; for collections the tag is OS metadata and its non-emptiness
    is checked on every run by the specification verdict). *)
Lemma radix_aux_nonempty base fuel n acc :
  (fuel <> O \/ acc <> ""%string) -> radix_aux base fuel n acc <> ""%string.
Proof.
  revert n acc. induction fuel as [|f IH]; intros n acc H; cbn [radix_aux].
  - destruct H as [H|H]; [congruence|exact H].
  - destruct (N.eqb (N.div n base) 0); [discriminate|]. apply IH. right. discriminate.
Qed.

Theorem file_tag_nonempty m size : etag_of m size <> ""%string.
Proof.
  unfold etag_of, hex. intros H.
  destruct (radix_aux 16 (S (N.to_nat (N.size m))) m "") eqn:E.
  - apply (radix_aux_nonempty 16 (S (N.to_nat (N.size m))) m ""%string) in E; [exact E|left; discriminate].
  - discriminate.
Qed.

(** With "tag non-empty iff the resource exists", the table reads with explicit
    existence: If-Match needs the resource; If-None-Match passes without it. *)
Theorem cond_table_existence tag r (ex : bool) :
  (ex = true <-> tag <> ""%string) ->
  cond_refusals tag r = [] ->
  (h_if_match r = ""%string \/ ex = true) .
Proof.
  intros Hex H. unfold cond_refusals in H. apply app_eq_nil in H. destruct H as [H _].
  unfold if_match_refusals in H.
  destruct (String.eqb (h_if_match r) "") eqn:E1; [left; apply String.eqb_eq; exact E1|].
  destruct (String.eqb tag "") eqn:E2; [discriminate|].
  right. apply Hex. apply String.eqb_neq. exact E2.
Qed.

(** The verdict with reported tags is the verdict with the model's tags when nothing is
    reported ([spec_ok_reported] only replaces where the tag strings come from). *)
Lemma spec_ok_reported_nil root sb r o sb' :
  spec_ok_reported [] [] root sb r o sb' = spec_ok root sb r o sb'.
Proof. reflexivity. Qed.
