(** XmlProofs.v — proofs about the model of internal.RawXMLValue in Xml.v. *)
From GW Require Import Base Xml.
Local Open Scope list_scope.

(** * Induction principles for the nested inductive types *)

Section XtreeInd.
  Variable P : xtree -> Prop.
  Hypothesis H_elem : forall n a cs, Forall P cs -> P (Elem n a cs).
  Hypothesis H_text : forall s, P (Text s).
  Hypothesis H_comment : forall s, P (Comment s).
  Hypothesis H_pi : forall tg s, P (ProcInst tg s).
  Hypothesis H_dir : forall s, P (Directive s).

  Fixpoint xtree_ind2 (t : xtree) : P t :=
    match t with
    | Elem n a cs =>
        H_elem n a cs
          ((fix go (l : list xtree) : Forall P l :=
              match l with
              | [] => Forall_nil P
              | c :: r => Forall_cons c (xtree_ind2 c) (go r)
              end) cs)
    | Text s => H_text s
    | Comment s => H_comment s
    | ProcInst tg s => H_pi tg s
    | Directive s => H_dir s
    end.
End XtreeInd.

Section RawInd.
  Variable P : raw -> Prop.
  Hypothesis H_raw : forall t cs o, Forall P cs -> P (Raw t cs o).

  Fixpoint raw_ind2 (v : raw) : P v :=
    match v with
    | Raw t cs o =>
        H_raw t cs o
          ((fix go (l : list raw) : Forall P l :=
              match l with
              | [] => Forall_nil P
              | c :: r => Forall_cons c (raw_ind2 c) (go r)
              end) cs)
    end.
End RawInd.

Section ReaderInd.
  Variable P : reader -> Prop.
  Hypothesis H_leaf : forall v st en ch, P (Reader v st en ch None).
  Hypothesis H_node : forall v st en ch c, P c -> P (Reader v st en ch (Some c)).

  Fixpoint reader_ind2 (r : reader) : P r :=
    match r with
    | Reader v st en ch None => H_leaf v st en ch
    | Reader v st en ch (Some c) => H_node v st en ch c (reader_ind2 c)
    end.
End ReaderInd.

(** * Boolean equalities *)

Lemma name_eqb_refl n : name_eqb n n = true.
Proof. unfold name_eqb. now rewrite !String.eqb_refl. Qed.

Lemma name_eqb_eq a b : name_eqb a b = true <-> a = b.
Proof.
  destruct a as [a1 a2], b as [b1 b2]; unfold name_eqb; cbn [fst snd].
  rewrite Bool.andb_true_iff, !String.eqb_eq. split; [intros [-> ->]; reflexivity | intros H; inversion H; auto].
Qed.

Lemma attr_eqb_eq a b : attr_eqb a b = true <-> a = b.
Proof.
  destruct a as [a1 a2], b as [b1 b2]; unfold attr_eqb; cbn [fst snd].
  rewrite Bool.andb_true_iff, name_eqb_eq, String.eqb_eq.
  split; [intros [-> ->]; reflexivity | intros H; inversion H; auto].
Qed.

Lemma list_eqb_eq {A} (eq : A -> A -> bool) :
  (forall x y, eq x y = true <-> x = y) ->
  forall l1 l2, list_eqb eq l1 l2 = true <-> l1 = l2.
Proof.
  intros H l1. induction l1 as [|x r IH]; intros [|y r2]; cbn [list_eqb]; try (split; congruence).
  rewrite Bool.andb_true_iff, H, IH. split; [intros [-> ->]; reflexivity | intros E; inversion E; auto].
Qed.

Lemma token_eqb_eq a b : token_eqb a b = true <-> a = b.
Proof.
  destruct a, b; cbn [token_eqb]; try (split; congruence);
    rewrite ?Bool.andb_true_iff, ?name_eqb_eq, ?String.eqb_eq, ?(list_eqb_eq attr_eqb attr_eqb_eq);
    split; try (intros [-> ->]; reflexivity); try (intros ->; reflexivity);
    intros E; inversion E; auto.
Qed.

Lemma tokens_eqb_eq l1 l2 : list_eqb token_eqb l1 l2 = true <-> l1 = l2.
Proof. apply list_eqb_eq, token_eqb_eq. Qed.

Lemma otoken_eqb_eq a b : otoken_eqb a b = true <-> a = b.
Proof.
  destruct a, b; cbn; try (split; congruence).
  rewrite token_eqb_eq. split; congruence.
Qed.

(** * Traces *)

Lemma tr_app_nil_l a : tr_app tr_nil a = a.
Proof. destruct a; reflexivity. Qed.

Lemma tr_app_nil_r a : tr_app a tr_nil = a.
Proof. destruct a as [l [|]]; unfold tr_app; cbn; [reflexivity | now rewrite app_nil_r]. Qed.

Lemma tr_app_panic_l a : tr_app tr_panic a = tr_panic.
Proof. reflexivity. Qed.

Lemma tr_app_assoc a b c : tr_app (tr_app a b) c = tr_app a (tr_app b c).
Proof.
  destruct a as [la [|]], b as [lb [|]], c as [lc pc]; unfold tr_app; cbn; try reflexivity.
  now rewrite app_assoc.
Qed.

Lemma tr_app_one t a : tr_app (tr_one t) a = (t :: fst a, snd a).
Proof. reflexivity. Qed.

Lemma stream_elem n a cs :
  stream (Raw (Some (TStart n a)) cs None) =
  tr_app (tr_one (Some (TStart n a))) (tr_app (streams cs) (tr_one (Some (TEnd n)))).
Proof. reflexivity. Qed.

Lemma stream_out t cs e : stream (Raw t cs (Some e)) = tr_panic.
Proof. destruct t as [[]|]; reflexivity. Qed.

Lemma streams_cons c cs : streams (c :: cs) = tr_app (stream c) (streams cs).
Proof. reflexivity. Qed.

Lemma streams_app l1 l2 : streams (l1 ++ l2) = tr_app (streams l1) (streams l2).
Proof.
  induction l1 as [|c r IH]; cbn [app].
  - now rewrite tr_app_nil_l.
  - now rewrite !streams_cons, IH, tr_app_assoc.
Qed.

(** * The reader *)

(** [first_token] is TokenReader() followed by Token(). *)
Lemma first_token_next c :
  match token_reader c with
  | Ok r => match next r with
            | STok t r' => first_token c = FTok t r'
            | _ => False
            end
  | Panic => first_token c = FPanic
  | Err _ => False
  end.
Proof.
  unfold token_reader, first_token. destruct (r_out c); [reflexivity|].
  cbn [next]. destruct (r_tok c) as [[]|]; reflexivity.
Qed.

Lemma skipn_nth_error {A} (l : list A) k x :
  nth_error l k = Some x -> skipn k l = x :: skipn (S k) l.
Proof.
  revert k; induction l as [|y r IH]; intros [|k] H; cbn in *; try discriminate.
  - now inversion H.
  - now apply IH.
Qed.

Lemma skipn_nth_error_none {A} (l : list A) k :
  nth_error l k = None -> skipn k l = [].
Proof.
  intros H. apply nth_error_None in H. now apply skipn_all2.
Qed.

(** The loop entered without a child reader does what [remaining] says. *)
Lemma loop_fresh_remaining v n a ch :
  r_tok v = Some (TStart n a) ->
  let rem := tr_app (streams (skipn ch (r_children v))) (tr_one (Some (TEnd n))) in
  match loop_fresh v n true ch with
  | STok t r' => rem = tr_app (tr_one t) (remaining r')
  | SEof _ => False
  | SPanic => rem = tr_panic
  end.
Proof.
  intros Hv rem. subst rem. unfold loop_fresh.
  destruct (nth_error (r_children v) ch) as [c|] eqn:E.
  - assert (Hlt : Nat.ltb ch (List.length (r_children v)) = true).
    { apply Nat.ltb_lt. apply nth_error_Some. congruence. }
    rewrite (skipn_nth_error _ _ _ E), streams_cons.
    unfold first_token. destruct c as [t cs o]; cbn [r_out r_tok].
    destruct o as [enc|]; [now rewrite stream_out|].
    destruct t as [[n' a'|m|s|s|tg s|s]|];
      cbn [remaining r_tok r_children skipn]; rewrite Hv, Hlt;
      cbn [stream]; fold (streams cs);
      rewrite ?tr_app_assoc, ?tr_app_nil_l; reflexivity.
  - rewrite (skipn_nth_error_none _ _ E). cbn [remaining].
    change (streams []) with tr_nil. now rewrite tr_app_nil_l, tr_app_nil_r.
Qed.

(** One call of Token() delivers the head of what [remaining] announces. *)
Lemma next_remaining r :
  match next r with
  | STok t r' => remaining r = tr_app (tr_one t) (remaining r')
  | SEof r' => remaining r = tr_nil /\ r' = r
  | SPanic => remaining r = tr_panic
  end.
Proof.
  induction r as [v st en ch | v st en ch c IH] using reader_ind2.
  - cbn [next remaining]. destruct en; [split; reflexivity|].
    destruct (r_tok v) as [[n a|m|s|s|tg s|s]|] eqn:Hv;
      try (cbn [remaining]; now rewrite tr_app_nil_r).
    destruct st; cbn [negb].
    + pose proof (loop_fresh_remaining v n a ch Hv) as L. cbn zeta in L.
      destruct (loop_fresh v n true ch); first [assumption | contradiction].
    + cbn [remaining]. now rewrite Hv.
  - cbn [next remaining]. destruct en; [split; reflexivity|].
    destruct (r_tok v) as [[n a|m|s|s|tg s|s]|] eqn:Hv;
      try (cbn [remaining]; now rewrite tr_app_nil_r).
    destruct st; cbn [negb].
    + destruct (Nat.ltb ch (List.length (r_children v))) eqn:Hlt.
      * destruct (next c) as [t c'|c'|].
        -- cbn [remaining]. rewrite Hv, Hlt, IH. now rewrite !tr_app_assoc.
        -- destruct IH as [IH _]. rewrite IH, tr_app_nil_l.
           pose proof (loop_fresh_remaining v n a (S ch) Hv) as L. cbn zeta in L.
           destruct (loop_fresh v n true (S ch)); first [assumption | contradiction].
        -- now rewrite IH.
      * cbn [remaining]. now rewrite tr_app_nil_r.
    + cbn [remaining]. now rewrite Hv.
Qed.

(** * Draining the reader *)

Lemma drain_f_remaining fuel : forall r,
  List.length (fst (remaining r)) < fuel ->
  exists rf,
    drain_f fuel r = (fst (remaining r), if snd (remaining r) then DPanic else DEof, rf) /\
    (snd (remaining r) = false -> next rf = SEof rf).
Proof.
  induction fuel as [|f IH]; intros r Hlen; [lia|].
  cbn [drain_f]. pose proof (next_remaining r) as Hn.
  destruct (next r) as [t r'|r'|] eqn:En.
  - rewrite Hn, tr_app_one in *. cbn [fst snd List.length] in *.
    destruct (IH r') as [rf [Hd Hf]]; [lia|].
    exists rf. rewrite Hd. split; [reflexivity|exact Hf].
  - destruct Hn as [Hn ->]. rewrite Hn. exists r. split; [reflexivity|]. intros _. exact En.
  - rewrite Hn. exists r. split; [reflexivity|]. cbn. discriminate.
Qed.

Lemma tr_app_len a b : List.length (fst (tr_app a b)) <= List.length (fst a) + List.length (fst b).
Proof.
  destruct a as [la [|]], b as [lb pb]; unfold tr_app; cbn [fst snd]; [lia|].
  rewrite app_length. lia.
Qed.

Lemma stream_len v : List.length (fst (stream v)) <= 2 * rsize v.
Proof.
  induction v as [t cs o IH] using raw_ind2.
  destruct o as [e|]; [rewrite stream_out; cbn; lia|].
  assert (Hcs : List.length (fst (streams cs)) <= 2 * fold_right (fun c acc => rsize c + acc) 0 cs).
  { induction IH as [|c r Hc _ IHr]; [cbn; lia|].
    rewrite streams_cons. pose proof (tr_app_len (stream c) (streams r)). cbn [fold_right]. lia. }
  destruct t as [[n a|m|s|s|tg s|s]|]; cbn [rsize]; try (cbn; lia).
  rewrite stream_elem, tr_app_one. cbn [fst List.length].
  pose proof (tr_app_len (streams cs) (tr_one (Some (TEnd n)))). cbn [tr_one fst List.length] in *. lia.
Qed.

Lemma remaining_fresh v : r_out v = None -> remaining (Reader v false false 0 None) = stream v.
Proof.
  destruct v as [t cs o]; cbn [r_out]; intros ->.
  destruct t as [[n a|m|s|s|tg s|s]|]; reflexivity.
Qed.

(** The reader of a raw value delivers [stream v], within the fuel, and then
    io.EOF on every further call. *)
Lemma drain_f_stream v fuel :
  r_out v = None -> List.length (fst (stream v)) < fuel ->
  exists rf,
    drain_f fuel (Reader v false false 0 None)
      = (fst (stream v), if snd (stream v) then DPanic else DEof, rf) /\
    (snd (stream v) = false -> forall k, eof_forever k rf = true).
Proof.
  intros Ho Hlen. rewrite <- (remaining_fresh v Ho) in *.
  destruct (drain_f_remaining fuel _ Hlen) as [rf [Hd Hf]].
  exists rf. split; [exact Hd|]. intros Hs k. specialize (Hf Hs).
  induction k as [|k IHk]; [reflexivity|]. cbn [eof_forever]. now rewrite Hf.
Qed.

Lemma drain_stream v :
  drain v = (fst (stream v), if snd (stream v) then DPanic else DEof).
Proof.
  unfold drain, token_reader. destruct (r_out v) as [e|] eqn:Ho.
  - destruct v as [t cs o]; cbn [r_out] in Ho; subst o. now rewrite stream_out.
  - destruct (drain_f_stream v (drain_fuel v) Ho) as [rf [Hd _]].
    { pose proof (stream_len v). unfold drain_fuel. lia. }
    now rewrite Hd.
Qed.

(** More fuel changes nothing. *)
Lemma drain_f_fuel_irrelevant v fuel :
  r_out v = None -> drain_fuel v <= fuel ->
  fst (drain_f fuel (Reader v false false 0 None)) = drain v.
Proof.
  intros Ho Hf. destruct (drain_f_stream v fuel Ho) as [rf [Hd _]].
  { pose proof (stream_len v). unfold drain_fuel in Hf. lia. }
  now rewrite Hd, drain_stream.
Qed.

Lemma drain_finite v : snd (drain v) <> DFuel.
Proof. rewrite drain_stream. cbn [snd]. destruct (snd (stream v)); discriminate. Qed.

Lemma trace_f_drain_f fuel : forall r,
  drain_f fuel r = let '(l, o, rf) := trace_f fuel r in (map fst l, o, rf).
Proof.
  induction fuel as [|f IH]; intros r; [reflexivity|].
  cbn [drain_f trace_f]. destruct (next r) as [t r'|r'|]; try reflexivity.
  rewrite IH. destruct (trace_f f r') as [[l o] rf]. reflexivity.
Qed.

(** * Trees *)

Lemma tr_app_ok l1 l2 b : tr_app (l1, false) (l2, b) = (l1 ++ l2, b).
Proof. reflexivity. Qed.

Lemma streams_raw_of cs :
  Forall (fun t => stream (raw_of t) = (map Some (tokens t), false)) cs ->
  streams (map raw_of cs) = (map Some (forest_tokens cs), false).
Proof.
  induction 1 as [|c r Hc _ IH]; [reflexivity|].
  cbn [map]. rewrite streams_cons, Hc, IH, tr_app_ok. unfold forest_tokens. cbn [flat_map].
  now rewrite map_app.
Qed.

Lemma stream_raw_of t : stream (raw_of t) = (map Some (tokens t), false).
Proof.
  induction t as [n a cs IH| | | |] using xtree_ind2; try reflexivity.
  cbn [raw_of]. rewrite stream_elem, (streams_raw_of cs IH).
  unfold tr_one. rewrite !tr_app_ok. cbn [tokens app map]. now rewrite map_app.
Qed.

Lemma somes_map_Some l : somes (map Some l) = l.
Proof. unfold somes. induction l as [|x r IH]; [reflexivity|]. cbn. now rewrite IH. Qed.

Lemma somes_app l1 l2 : somes (l1 ++ l2) = somes l1 ++ somes l2.
Proof. unfold somes. apply flat_map_app. Qed.

(** [tree_of] *)
Fixpoint trees_of (l : list raw) : option (list xtree) :=
  match l with
  | [] => Some []
  | c :: r => match tree_of c, trees_of r with
              | Some t, Some ts => Some (t :: ts)
              | _, _ => None
              end
  end.

Lemma tree_of_elem n a cs :
  tree_of (Raw (Some (TStart n a)) cs None) =
  match trees_of cs with Some ts => Some (Elem n a ts) | None => None end.
Proof. reflexivity. Qed.

Lemma tree_of_raw_of t : tree_of (raw_of t) = Some t.
Proof.
  induction t as [n a cs IH| | | |] using xtree_ind2; try reflexivity.
  cbn [raw_of]. rewrite tree_of_elem.
  assert (H : trees_of (map raw_of cs) = Some cs).
  { induction IH as [|c r Hc _ IHr]; [reflexivity|]. cbn [map trees_of]. now rewrite Hc, IHr. }
  now rewrite H.
Qed.

Lemma tree_of_stream v : forall t, tree_of v = Some t -> stream v = (map Some (tokens t), false).
Proof.
  induction v as [tk cs o IH] using raw_ind2. intros t H.
  destruct o as [e|]; [destruct tk as [[]|]; discriminate|].
  destruct tk as [[n a|m|s|s|tg s|s]|]; try discriminate;
    try (cbn in H; inversion H; subst; reflexivity).
  rewrite tree_of_elem in H. destruct (trees_of cs) as [ts|] eqn:E; [|discriminate].
  inversion H; subst t; clear H.
  assert (Hs : streams cs = (map Some (forest_tokens ts), false)).
  { revert ts E. induction IH as [|c r Hc _ IHr]; intros ts E.
    - cbn in E. inversion E. reflexivity.
    - cbn [trees_of] in E. destruct (tree_of c) as [t|] eqn:Et; [|discriminate].
      destruct (trees_of r) as [ts'|] eqn:Er; [|discriminate]. inversion E; subst ts.
      rewrite streams_cons, (Hc t eq_refl), (IHr ts' eq_refl), tr_app_ok.
      unfold forest_tokens. cbn [flat_map]. now rewrite map_app. }
  rewrite stream_elem, Hs. unfold tr_one. rewrite !tr_app_ok. cbn [tokens app map].
  unfold forest_tokens. now rewrite map_app.
Qed.

(** * Capture *)

Lemma capture_f_mono f : forall n a acc ts x,
  capture_f f n a acc ts = Some x -> forall f', f <= f' -> capture_f f' n a acc ts = Some x.
Proof.
  induction f as [|f IH]; intros n a acc ts x H f' Hle; [discriminate|].
  destruct f' as [|f']; [lia|]. assert (Hle' : f <= f') by lia.
  cbn [capture_f] in *.
  destruct ts as [|[cn ca|m|s|s|tg s|s] rest]; try exact H; try (eapply IH; eassumption).
  destruct (capture_f f cn (strip_decls ca) [] rest) as [r1|] eqn:E1; [|discriminate].
  rewrite (IH _ _ _ _ _ E1 f' Hle').
  destruct r1 as [[c rest']|e|]; try exact H. eapply IH; eassumption.
Qed.

(** Fuel above the length of the stream is never exhausted, and a successful
    capture consumes at least one token. *)
Lemma capture_f_total f : forall n a acc ts,
  List.length ts < f ->
  exists x, capture_f f n a acc ts = Some x /\
            (forall r rest, x = Ok (r, rest) -> List.length rest < List.length ts).
Proof.
  induction f as [|f IH]; intros n a acc ts Hlen; [lia|].
  cbn [capture_f].
  destruct ts as [|[cn ca|m|s|s|tg s|s] rest]; cbn [List.length] in *.
  - eexists; split; [reflexivity|]. discriminate.
  - destruct (IH cn (strip_decls ca) [] rest) as [x1 [E1 L1]]; [lia|]. rewrite E1.
    destruct x1 as [[c rest']|e|].
    + specialize (L1 c rest' eq_refl).
      destruct (IH n a (acc ++ [c]) rest') as [x2 [E2 L2]]; [lia|].
      exists x2. split; [exact E2|]. intros r rest'' ->. specialize (L2 r rest'' eq_refl). lia.
    + eexists; split; [reflexivity|]. discriminate.
    + eexists; split; [reflexivity|]. discriminate.
  - eexists; split; [reflexivity|]. intros r rest' H. inversion H; subst. lia.
  - destruct (IH n a (acc ++ [Raw (Some (TText s)) [] None]) rest) as [x [E L]]; [lia|].
    exists x; split; [exact E|]. intros r rest' ->. specialize (L r rest' eq_refl). lia.
  - destruct (IH n a (acc ++ [Raw (Some (TComment s)) [] None]) rest) as [x [E L]]; [lia|].
    exists x; split; [exact E|]. intros r rest' ->. specialize (L r rest' eq_refl). lia.
  - destruct (IH n a (acc ++ [Raw (Some (TProcInst tg s)) [] None]) rest) as [x [E L]]; [lia|].
    exists x; split; [exact E|]. intros r rest' ->. specialize (L r rest' eq_refl). lia.
  - destruct (IH n a (acc ++ [Raw (Some (TDirective s)) [] None]) rest) as [x [E L]]; [lia|].
    exists x; split; [exact E|]. intros r rest' ->. specialize (L r rest' eq_refl). lia.
Qed.

Definition capture_node (t : xtree) : Prop :=
  forall n a acc more x f,
    capture_f f n a (acc ++ [raw_of (strip t)]) more = Some x ->
    exists f', capture_f f' n a acc (tokens t ++ more) = Some x.

Lemma capture_forest cs :
  Forall capture_node cs ->
  forall n a acc more x f,
    capture_f f n a (acc ++ map raw_of (map strip cs)) more = Some x ->
    exists f', capture_f f' n a acc (forest_tokens cs ++ more) = Some x.
Proof.
  induction 1 as [|c r Hc _ IH]; intros n a acc more x f H.
  - cbn [map] in H. rewrite app_nil_r in H. exists f. exact H.
  - cbn [map] in H. change (?l ++ ?y :: ?z) with (l ++ [y] ++ z) in H. rewrite app_assoc in H.
    destruct (IH _ _ _ _ _ _ H) as [f1 H1].
    destruct (Hc _ _ _ _ _ _ H1) as [f2 H2].
    exists f2. unfold forest_tokens in *. cbn [flat_map]. now rewrite <- app_assoc.
Qed.

Lemma capture_node_all t : capture_node t.
Proof.
  induction t as [cn ca cs IH| | | |] using xtree_ind2; unfold capture_node;
    intros n a acc more x f H;
    try (exists (S f); exact H).
  pose (c := Raw (Some (TStart cn (strip_decls ca))) (map raw_of (map strip cs)) None).
  destruct (capture_forest cs IH cn (strip_decls ca) [] (TEnd cn :: more) (Ok (c, more)) 1)
    as [f1 H1]; [reflexivity|].
  exists (S (Nat.max f1 f)). cbn [tokens capture_f app].
  rewrite <- app_assoc. cbn [app]. unfold forest_tokens in H1.
  rewrite (capture_f_mono _ _ _ _ _ _ H1 (Nat.max f1 f)) by lia.
  apply (capture_f_mono _ _ _ _ _ _ H). lia.
Qed.

(** Capturing an element from the token stream of a document yields the raw
    value of the tree without its namespace declarations, and leaves the rest
    of the stream. *)
Lemma capture_replay n a cs rest :
  capture n a (forest_tokens cs ++ TEnd n :: rest)
  = Some (Ok (raw_of (strip (Elem n a cs)), rest)).
Proof.
  unfold capture.
  set (ts := forest_tokens cs ++ TEnd n :: rest).
  destruct (capture_f_total (S (List.length ts)) n (strip_decls a) [] ts) as [y [Hy _]]; [lia|].
  assert (Hall : Forall capture_node cs) by (apply Forall_forall; intros; apply capture_node_all).
  destruct (capture_forest cs Hall n (strip_decls a) [] (TEnd n :: rest)
              (Ok (raw_of (strip (Elem n a cs)), rest)) 1) as [f1 H1]; [reflexivity|].
  fold ts in H1.
  pose proof (capture_f_mono _ _ _ _ _ _ Hy (Nat.max f1 (S (List.length ts)))) as A.
  pose proof (capture_f_mono _ _ _ _ _ _ H1 (Nat.max f1 (S (List.length ts)))) as B.
  rewrite A in B by lia. rewrite Hy. apply B. lia.
Qed.

Lemma capture_replay_tl n a cs rest :
  capture n a (tl (tokens (Elem n a cs)) ++ rest)
  = Some (Ok (raw_of (strip (Elem n a cs)), rest)).
Proof.
  cbn [tokens tl]. rewrite <- app_assoc. apply capture_replay.
Qed.

(** The fuel [capture] takes is never exhausted. *)
Lemma capture_total n a ts : capture n a ts <> None.
Proof.
  unfold capture.
  destruct (capture_f_total (S (List.length ts)) n (strip_decls a) [] ts) as [y [Hy _]]; [lia|].
  congruence.
Qed.

(** Capture fails exactly when the stream ends before the element is closed. *)
Lemma ends_early_mono ts : forall d, ends_early d ts = true -> ends_early (S d) ts = true.
Proof.
  induction ts as [|[cn ca|m|s|s|tg s|s] r IH]; intros d H; cbn [ends_early] in *; auto.
  destruct d; [discriminate|]. auto.
Qed.

Lemma capture_f_ends f : forall n a acc ts,
  List.length ts < f ->
  (ends_early 0 ts = true -> capture_f f n a acc ts = Some (Err 400)) /\
  (ends_early 0 ts = false ->
     exists r rest, capture_f f n a acc ts = Some (Ok (r, rest)) /\
                    List.length rest < List.length ts /\
                    forall d, ends_early (S d) ts = ends_early d rest).
Proof.
  induction f as [|f IH]; intros n a acc ts Hlen; [lia|].
  cbn [capture_f].
  destruct ts as [|[cn ca|m|s|s|tg s|s] rest]; cbn [List.length ends_early] in *;
    try (destruct (IH n a (acc ++ [Raw (Some (TText s)) [] None]) rest) as [A B]; [lia|];
         split; [exact A|]; intros H; destruct (B H) as [r [rest' [E [L D]]]];
         exists r, rest'; repeat split; [exact E|lia|exact D]);
    try (destruct (IH n a (acc ++ [Raw (Some (TComment s)) [] None]) rest) as [A B]; [lia|];
         split; [exact A|]; intros H; destruct (B H) as [r [rest' [E [L D]]]];
         exists r, rest'; repeat split; [exact E|lia|exact D]);
    try (destruct (IH n a (acc ++ [Raw (Some (TProcInst tg s)) [] None]) rest) as [A B]; [lia|];
         split; [exact A|]; intros H; destruct (B H) as [r [rest' [E [L D]]]];
         exists r, rest'; repeat split; [exact E|lia|exact D]);
    try (destruct (IH n a (acc ++ [Raw (Some (TDirective s)) [] None]) rest) as [A B]; [lia|];
         split; [exact A|]; intros H; destruct (B H) as [r [rest' [E [L D]]]];
         exists r, rest'; repeat split; [exact E|lia|exact D]).
  - split; [reflexivity|discriminate].
  - destruct (IH cn (strip_decls ca) [] rest) as [A B]; [lia|].
    destruct (ends_early 0 rest) eqn:E0.
    + rewrite (A eq_refl). split; [reflexivity|].
      intros H. rewrite (ends_early_mono _ _ E0) in H. discriminate.
    + destruct (B eq_refl) as [c [rest' [E [L D]]]]. rewrite E.
      destruct (IH n a (acc ++ [c]) rest') as [A2 B2]; [lia|].
      rewrite (D 0). split; [exact A2|].
      intros H. destruct (B2 H) as [r [rest'' [E2 [L2 D2]]]].
      exists r, rest''. repeat split; [exact E2|lia|].
      intros d. now rewrite (D (S d)), (D2 d).
  - split; [discriminate|]. intros _. eexists _, rest. repeat split. lia.
Qed.

Lemma capture_err_iff n a ts :
  capture n a ts = Some (Err 400) <-> ends_early 0 ts = true.
Proof.
  unfold capture.
  destruct (capture_f_ends (S (List.length ts)) n (strip_decls a) [] ts) as [A B]; [lia|].
  destruct (ends_early 0 ts); split; auto; try discriminate.
  destruct (B eq_refl) as [r [rest [E _]]]. rewrite E. discriminate.
Qed.

Lemma capture_ok_or_err n a ts :
  (exists r rest, capture n a ts = Some (Ok (r, rest))) \/ capture n a ts = Some (Err 400).
Proof.
  unfold capture.
  destruct (capture_f_ends (S (List.length ts)) n (strip_decls a) [] ts) as [A B]; [lia|].
  destruct (ends_early 0 ts); [right; auto|left].
  destruct (B eq_refl) as [r [rest [E _]]]. eauto.
Qed.

(** * Well-nestedness *)

Definition bal (x : tr) : Prop :=
  (snd x = false -> forall stk rest,
      wn stk (somes (fst x) ++ rest) = wn stk rest /\
      wn_prefix stk (somes (fst x) ++ rest) = wn_prefix stk rest) /\
  (forall stk, wn_prefix stk (somes (fst x)) = true).

Lemma bal_nil : bal tr_nil.
Proof. split; [intros _ stk rest; split; reflexivity|]. intros []; reflexivity. Qed.

Lemma bal_panic : bal tr_panic.
Proof. split; [discriminate|]. intros []; reflexivity. Qed.

Lemma bal_app a b : bal a -> bal b -> bal (tr_app a b).
Proof.
  intros [A1 A2] [B1 B2]. destruct a as [la [|]]; unfold tr_app; cbn [fst snd] in *.
  - split; [discriminate|exact A2].
  - specialize (A1 eq_refl). split.
    + intros Hb stk rest. cbn [fst snd] in *. rewrite somes_app, <- app_assoc.
      destruct (A1 stk (somes (fst b) ++ rest)) as [-> ->]. now apply B1.
    + intros stk. cbn [fst snd]. rewrite somes_app. destruct (A1 stk (somes (fst b))) as [_ ->]. apply B2.
Qed.

Lemma bal_leaf t :
  match t with Some (TStart _ _) | Some (TEnd _) => False | _ => True end -> bal (tr_one t).
Proof.
  intros H. destruct t as [[n a|m|s|s|tg s|s]|]; try contradiction;
    (split; [intros _ stk rest; split; reflexivity|intros []; reflexivity]).
Qed.

Lemma somes_one t : somes [Some t] = [t].
Proof. reflexivity. Qed.

Lemma bal_elem n a x :
  bal x -> bal (tr_app (tr_one (Some (TStart n a))) (tr_app x (tr_one (Some (TEnd n))))).
Proof.
  intros [X1 X2]. destruct x as [l [|]]; unfold tr_app, tr_one; cbn [fst snd] in *.
  - split; [discriminate|]. intros stk. cbn [fst]. rewrite somes_app, somes_one.
    cbn [app wn_prefix]. apply X2.
  - specialize (X1 eq_refl). split.
    + intros _ stk rest. cbn [fst]. rewrite !somes_app, !somes_one. cbn [app wn wn_prefix].
      rewrite <- !app_assoc. destruct (X1 (n :: stk) ([TEnd n] ++ rest)) as [-> ->].
      cbn [app wn wn_prefix]. now rewrite name_eqb_refl.
    + intros stk. cbn [fst]. rewrite !somes_app, !somes_one. cbn [app wn_prefix].
      destruct (X1 (n :: stk) [TEnd n]) as [_ ->]. cbn. now rewrite name_eqb_refl.
Qed.

Lemma bal_stream v : no_end_tok v = true -> bal (stream v).
Proof.
  induction v as [t cs o IH] using raw_ind2. intros Hne.
  destruct o as [e|]; [rewrite stream_out; apply bal_panic|].
  assert (Hcs : forallb no_end_tok cs = true -> bal (streams cs)).
  { clear Hne. induction IH as [|c r Hc _ IHr]; intros H; [apply bal_nil|].
    cbn [forallb] in H. apply Bool.andb_true_iff in H as [H1 H2].
    rewrite streams_cons. apply bal_app; auto. }
  destruct t as [[n a|m|s|s|tg s|s]|]; cbn [no_end_tok] in Hne; try discriminate;
    try (apply bal_leaf; exact I).
  rewrite stream_elem. apply bal_elem. auto.
Qed.

(** A raw value that obeys the documented invariant and holds no marshal-only
    value delivers a well-nested stream. *)
Lemma stream_well_nested v :
  no_end_tok v = true -> snd (stream v) = false -> well_nested (somes (fst (stream v))) = true.
Proof.
  intros Hne Hs. destruct (bal_stream v Hne) as [B _].
  destruct (B Hs [] []) as [H _]. rewrite app_nil_r in H. exact H.
Qed.

Lemma stream_prefix_nested v :
  no_end_tok v = true -> wn_prefix [] (somes (fst (stream v))) = true.
Proof. intros Hne. destruct (bal_stream v Hne) as [_ B]. apply B. Qed.

(** What [wn] says about depths. *)
Lemma wn_depth ts : forall stk,
  wn stk ts = true ->
  (forall k, (0 <= Z.of_nat (List.length stk) + depth (firstn k ts))%Z) /\
  (Z.of_nat (List.length stk) + depth ts = 0)%Z.
Proof.
  induction ts as [|t r IH]; intros stk H.
  - destruct stk; [|discriminate]. split; [intros k; rewrite firstn_nil; cbn; lia|reflexivity].
  - destruct t as [n a|m|s|s|tg s|s]; cbn [wn] in H;
      try (destruct (IH stk H) as [A B]; split;
           [intros [|k]; cbn [firstn depth]; [lia|apply A]|cbn [depth]; exact B]).
    + destruct (IH (n :: stk) H) as [A B]. cbn [List.length] in *. split.
      * intros [|k]; cbn [firstn depth]; [lia|]. specialize (A k). lia.
      * cbn [depth]. lia.
    + destruct stk as [|m' s']; [discriminate|]. apply Bool.andb_true_iff in H as [_ H].
      destruct (IH s' H) as [A B]. cbn [List.length] in *. split.
      * intros [|k]; cbn [firstn depth]; [lia|]. specialize (A k). lia.
      * cbn [depth]. lia.
Qed.

Lemma well_nested_depth ts :
  well_nested ts = true -> (forall k, (0 <= depth (firstn k ts))%Z) /\ depth ts = 0%Z.
Proof. intros H. destruct (wn_depth ts [] H) as [A B]. cbn in *. split; [intros k; specialize (A k); lia|lia]. Qed.

(** * MarshalXML *)

Definition marshal_list (dflt : string) : list raw -> res (list token) :=
  fix go (l : list raw) : res (list token) :=
    match l with
    | [] => Ok []
    | c :: r => do x <- marshal_tokens dflt c; do y <- go r; Ok (x ++ y)
    end.

Lemma marshal_list_cons dflt c r :
  marshal_list dflt (c :: r) = do x <- marshal_tokens dflt c; do y <- marshal_list dflt r; Ok (x ++ y).
Proof. reflexivity. Qed.

Lemma marshal_elem dflt n a cs :
  marshal_tokens dflt (Raw (Some (TStart n a)) cs None) =
  do l <- marshal_list (fst n) cs;
  Ok (TStart n (if str_empty (fst n) && negb (str_empty dflt) then a ++ [xmlns_undecl] else a)
        :: l ++ [TEnd n]).
Proof. reflexivity. Qed.

Lemma marshal_raw_of t : forall dflt,
  marshal_tokens dflt (raw_of t) = Ok (tokens (undeclare dflt t)).
Proof.
  induction t as [n a cs IH| | | |] using xtree_ind2; intros dflt; try reflexivity.
  cbn [raw_of]. rewrite marshal_elem.
  assert (H : marshal_list (fst n) (map raw_of cs) = Ok (forest_tokens (map (undeclare (fst n)) cs))).
  { induction IH as [|c r Hc _ IHr]; [reflexivity|].
    cbn [map]. rewrite marshal_list_cons, Hc, IHr. reflexivity. }
  rewrite H. reflexivity.
Qed.

Lemma marshal_tree_of v : forall t dflt,
  tree_of v = Some t -> marshal_tokens dflt v = Ok (tokens (undeclare dflt t)).
Proof.
  induction v as [tk cs o IH] using raw_ind2. intros t dflt H.
  destruct o as [e|]; [destruct tk as [[]|]; discriminate|].
  destruct tk as [[n a|m|s|s|tg s|s]|]; try discriminate;
    try (cbn in H; inversion H; subst; reflexivity).
  rewrite tree_of_elem in H. destruct (trees_of cs) as [ts|] eqn:E; [|discriminate].
  inversion H; subst t; clear H. rewrite marshal_elem.
  assert (Hs : marshal_list (fst n) cs = Ok (forest_tokens (map (undeclare (fst n)) ts))).
  { revert ts E. induction IH as [|c r Hc _ IHr]; intros ts E.
    - cbn in E. inversion E. reflexivity.
    - cbn [trees_of] in E. destruct (tree_of c) as [t|] eqn:Et; [|discriminate].
      destruct (trees_of r) as [ts'|] eqn:Er; [|discriminate]. inversion E; subst ts.
      cbn [map]. rewrite marshal_list_cons, (Hc t (fst n) eq_refl), (IHr ts' eq_refl). reflexivity. }
  rewrite Hs. reflexivity.
Qed.

(** MarshalXML panics only on an end element token. *)
Lemma marshal_no_panic v : forall dflt,
  no_end_tok v = true -> no_out v = true -> marshal_tokens dflt v <> Panic.
Proof.
  induction v as [tk cs o IH] using raw_ind2. intros dflt Hne Hno.
  destruct o as [e|]; [destruct tk as [[]|]; discriminate|].
  destruct tk as [[n a|m|s|s|tg s|s]|]; try discriminate.
  rewrite marshal_elem. cbn [no_end_tok no_out] in *.
  assert (Hs : marshal_list (fst n) cs <> Panic).
  { induction IH as [|c r Hc _ IHr]; [discriminate|].
    cbn [forallb] in *. apply Bool.andb_true_iff in Hne as [N1 N2]. apply Bool.andb_true_iff in Hno as [O1 O2].
    rewrite marshal_list_cons. specialize (Hc (fst n) N1 O1). specialize (IHr N2 O2).
    destruct (marshal_tokens (fst n) c); cbn [bind]; try congruence.
    destruct (marshal_list (fst n) r); cbn [bind]; congruence. }
  destruct (marshal_list (fst n) cs); cbn [bind]; congruence.
Qed.

(** ** Declarations *)

Lemma strip_decls_app a b : strip_decls (a ++ b) = strip_decls a ++ strip_decls b.
Proof. apply filter_app. Qed.

Lemma strip_decls_idem a : strip_decls (strip_decls a) = strip_decls a.
Proof.
  unfold strip_decls. induction a as [|x r IH]; [reflexivity|]. cbn [filter].
  destruct (negb (is_decl x)) eqn:E; [cbn [filter]; now rewrite E, IH|exact IH].
Qed.

Lemma strip_decls_nodecl a :
  forallb (fun x => negb (is_decl x)) a = true -> strip_decls a = a.
Proof.
  unfold strip_decls. induction a as [|x r IH]; [reflexivity|]. cbn [forallb filter].
  intros H. apply Bool.andb_true_iff in H as [-> H]. now rewrite IH.
Qed.

Lemma nodecl_strip_decls a : forallb (fun x => negb (is_decl x)) (strip_decls a) = true.
Proof.
  unfold strip_decls. induction a as [|x r IH]; [reflexivity|]. cbn [filter].
  destruct (negb (is_decl x)) eqn:E; [cbn [forallb]; now rewrite E, IH|exact IH].
Qed.

Lemma map_ext_Forall {A B} (f g : A -> B) l : Forall (fun x => f x = g x) l -> map f l = map g l.
Proof. induction 1 as [|x r H _ IH]; [reflexivity|]. cbn. now rewrite H, IH. Qed.

Lemma strip_idem t : strip (strip t) = strip t.
Proof.
  induction t as [n a cs IH| | | |] using xtree_ind2; try reflexivity.
  cbn [strip]. rewrite strip_decls_idem, map_map. f_equal. now apply map_ext_Forall.
Qed.

Lemma nodecl_strip t : nodecl (strip t) = true.
Proof.
  induction t as [n a cs IH| | | |] using xtree_ind2; try reflexivity.
  cbn [strip nodecl]. rewrite nodecl_strip_decls. cbn [andb].
  rewrite forallb_forall. intros x Hx. apply in_map_iff in Hx as [y [<- Hy]].
  rewrite Forall_forall in IH. now apply IH.
Qed.

Lemma strip_nodecl t : nodecl t = true -> strip t = t.
Proof.
  induction t as [n a cs IH| | | |] using xtree_ind2; try reflexivity.
  cbn [nodecl strip]. intros H. apply Bool.andb_true_iff in H as [Ha Hc].
  rewrite (strip_decls_nodecl a Ha). f_equal.
  rewrite <- (map_id cs) at 2. apply map_ext_Forall.
  rewrite Forall_forall in *. rewrite forallb_forall in Hc. intros x Hx. apply IH; auto.
Qed.

Lemma strip_undeclare t : forall d, strip (undeclare d t) = strip t.
Proof.
  induction t as [n a cs IH| | | |] using xtree_ind2; intros d; try reflexivity.
  cbn [undeclare strip]. f_equal.
  - destruct (str_empty (fst n) && negb (str_empty d)); [|reflexivity].
    rewrite strip_decls_app. cbn. now rewrite app_nil_r.
  - rewrite map_map. apply map_ext_Forall. rewrite Forall_forall in *. intros x Hx. now apply IH.
Qed.

Lemma strip_stream_tokens t : strip_stream (tokens t) = tokens (strip t).
Proof.
  induction t as [n a cs IH| | | |] using xtree_ind2; try reflexivity.
  cbn [tokens strip strip_stream map strip_token]. f_equal. unfold strip_stream in *.
  rewrite map_app. cbn [map strip_token]. f_equal.
  induction IH as [|c r Hc _ IHr]; [reflexivity|]. cbn [flat_map map]. now rewrite map_app, Hc, IHr.
Qed.

(** The EncodeToken calls of MarshalXML are the tokens of the tree, up to
    namespace declarations. *)
Lemma marshal_strip t dflt :
  exists l, marshal_tokens dflt (raw_of t) = Ok l /\ strip_stream l = strip_stream (tokens t).
Proof.
  exists (tokens (undeclare dflt t)). split; [apply marshal_raw_of|].
  now rewrite !strip_stream_tokens, strip_undeclare.
Qed.

(** ** Encoder then Decoder: element names survive *)

Lemma fold_default_nodecl a d :
  forallb (fun x => negb (is_decl x)) a = true ->
  fold_left (fun d x => let '((asp, alo), v) := x in
                        if str_empty asp && String.eqb alo "xmlns" then v else d) a d = d.
Proof.
  revert d. induction a as [|[[asp alo] v] r IH]; intros d H; [reflexivity|].
  cbn [forallb] in H. apply Bool.andb_true_iff in H as [H1 H2]. cbn [fold_left].
  unfold is_decl in H1. apply Bool.negb_true_iff, Bool.orb_false_iff in H1 as [_ H1].
  rewrite H1. now apply IH.
Qed.

Lemma reread_undeclare t : forall stk rest,
  nodecl t = true ->
  reread_from stk (tokens (undeclare (hd "" stk) t) ++ rest)
  = tokens (undeclare (hd "" stk) t) ++ reread_from stk rest.
Proof.
  induction t as [[sp lo] a cs IH| | | |] using xtree_ind2; intros stk rest Hnd; try reflexivity.
  cbn [nodecl] in Hnd. apply Bool.andb_true_iff in Hnd as [Ha Hc].
  cbn [undeclare tokens fst app reread_from].
  set (a' := if str_empty sp && negb (str_empty (hd "" stk)) then a ++ [xmlns_undecl] else a).
  assert (Hd : fold_left (fun d x => let '((asp, alo), v) := x in
                 if str_empty asp && String.eqb alo "xmlns" then v else d) a'
                 (if str_empty sp then hd "" stk else sp) = sp).
  { subst a'. destruct (str_empty sp) eqn:Es.
    - apply str_empty_spec in Es. subst sp. destruct (str_empty (hd "" stk)) eqn:Eh; cbn [andb negb].
      + rewrite fold_default_nodecl by exact Ha. now apply str_empty_spec in Eh.
      + rewrite fold_left_app, (fold_default_nodecl a _ Ha). reflexivity.
    - cbn [andb]. now rewrite fold_default_nodecl by exact Ha. }
  rewrite Hd. f_equal. rewrite <- !app_assoc. 
  assert (Hf : forall more,
    reread_from (sp :: stk) (flat_map tokens (map (undeclare sp) cs) ++ more)
    = flat_map tokens (map (undeclare sp) cs) ++ reread_from (sp :: stk) more).
  { induction IH as [|c r Hc0 _ IHr]; intros more; [reflexivity|].
    cbn [forallb] in Hc. apply Bool.andb_true_iff in Hc as [Hc1 Hc2].
    cbn [map flat_map]. rewrite <- !app_assoc.
    rewrite (Hc0 (sp :: stk) _ Hc1). cbn [hd]. now rewrite IHr. }
  rewrite Hf. reflexivity.
Qed.

Lemma reread_top t : reread (tokens (undeclare "" (strip t))) = tokens (undeclare "" (strip t)).
Proof.
  unfold reread.
  pose proof (reread_undeclare (strip t) [] [] (nodecl_strip t)) as H.
  cbn [hd] in H. now rewrite !app_nil_r in H.
Qed.

(** What xml.Marshal writes for a captured tree comes back, read by
    encoding/xml, as the tokens MarshalXML sent ([reread] is the identity on
    them): every element keeps its namespace. *)
Lemma reread_marshal t :
  exists l, marshal (raw_of (strip t)) = Ok l /\
            reread l = l /\ strip_stream l = tokens (strip t).
Proof.
  exists (tokens (undeclare "" (strip t))). unfold marshal. split; [apply marshal_raw_of|]. split.
  - unfold reread.
    pose proof (reread_undeclare (strip t) [] [] (nodecl_strip t)) as H.
    cbn [hd] in H. rewrite !app_nil_r in H. exact H.
  - now rewrite strip_stream_tokens, strip_undeclare, strip_idem.
Qed.

(** Inside a container: MarshalXML is not told the container's default
    namespace, but an element that has a namespace of its own does not need it. *)
Lemma undeclare_root d n a cs :
  str_empty (fst n) = false -> undeclare d (Elem n a cs) = undeclare "" (Elem n a cs).
Proof. intros H. cbn [undeclare]. rewrite H. reflexivity. Qed.

Lemma reread_in_top ns n a cs :
  str_empty (fst n) = false ->
  reread_in ns (tokens (undeclare "" (strip (Elem n a cs)))) = tokens (undeclare "" (strip (Elem n a cs))).
Proof.
  intros Hn. unfold reread_in.
  pose proof (reread_undeclare (strip (Elem n a cs)) [ns] [] (nodecl_strip (Elem n a cs))) as H.
  cbn [hd] in H. rewrite !app_nil_r in H.
  cbn [strip] in *. rewrite (undeclare_root ns n _ _ Hn) in H. exact H.
Qed.

(** * The token decoder on the stream of a captured value *)

Lemma declare_nodecl a e :
  forallb (fun x => negb (is_decl x)) a = true -> declare e a = e.
Proof.
  unfold declare. revert e. induction a as [|[[sp lo] v] r IH]; intros e H; [reflexivity|].
  cbn [forallb] in H. apply Bool.andb_true_iff in H as [H1 H2]. cbn [fold_left].
  unfold is_decl in H1. apply Bool.negb_true_iff, Bool.orb_false_iff in H1 as [-> ->].
  now apply IH.
Qed.

Lemma translate_nil is_elem n : String.eqb (fst n) "xml" = false -> translate [] is_elem n = n.
Proof.
  destruct n as [sp lo]. cbn [fst]. intros H. unfold translate.
  destruct (String.eqb sp "xmlns"); [reflexivity|].
  destruct (str_empty sp && negb is_elem); [reflexivity|].
  destruct (str_empty sp && String.eqb lo "xmlns"); [reflexivity|].
  rewrite H. reflexivity.
Qed.

Lemma bind_bind {A B C} (r : res A) (f : A -> res B) (g : B -> res C) :
  bind (bind r f) g = bind r (fun x => bind (f x) g).
Proof. destruct r; reflexivity. Qed.

Lemma existsb_false_not {A} (f : A -> bool) l : existsb f l = false -> ~ exists x, In x l /\ f x = true.
Proof. intros H [x [Hin Hf]]. assert (existsb f l = true) by (apply existsb_exists; eauto). congruence. Qed.

Lemma attrs_translate_id a :
  existsb (fun x : attr => negb (is_decl x) && String.eqb (fst (fst x)) "xml") a = false ->
  map (fun x : name * string => (translate [] false (fst x), snd x)) (strip_decls a) = strip_decls a.
Proof.
  intros Ha. rewrite <- (map_id (strip_decls a)) at 2. apply map_ext_in. intros [an av] Hin.
  cbn [fst snd]. unfold strip_decls in Hin. apply filter_In in Hin as [Hin Hnd].
  rewrite translate_nil; [reflexivity|].
  destruct (String.eqb (fst an) "xml") eqn:E; [|reflexivity].
  exfalso. apply (existsb_false_not _ _ Ha). exists (an, av). split; [exact Hin|].
  cbn [fst]. now rewrite Hnd, E.
Qed.

(** Outside the finding the decoder's in-place translation changes nothing. *)
Lemma decoded_in_place_id t :
  uses_xml_space t = false -> decoded_in_place (raw_of (strip t)) = raw_of (strip t).
Proof.
  induction t as [n a cs IH| | | |] using xtree_ind2; intros Hx; try reflexivity.
  cbn [uses_xml_space] in Hx. apply Bool.orb_false_iff in Hx as [Hx Hcs].
  apply Bool.orb_false_iff in Hx as [Hn Ha].
  cbn [strip raw_of decoded_in_place]. rewrite (attrs_translate_id a Ha). f_equal.
  rewrite !map_map. apply map_ext_Forall. rewrite Forall_forall in *.
  intros x Hx. apply IH; [exact Hx|].
  destruct (uses_xml_space x) eqn:E; [|reflexivity].
  exfalso. apply (existsb_false_not _ _ Hcs). eauto.
Qed.

Lemma retrans_tree t : forall stk rest,
  uses_xml_space t = false ->
  retrans_from [] stk (map Some (tokens (strip t)) ++ rest)
  = bind (retrans_from [] stk rest) (fun l => Ok (map Some (tokens (strip t)) ++ l)).
Proof.
  induction t as [n a cs IH| | | |] using xtree_ind2; intros stk rest Hx;
    try (cbn [strip tokens map app retrans_from]; destruct (retrans_from [] stk rest); reflexivity).
  cbn [uses_xml_space] in Hx. apply Bool.orb_false_iff in Hx as [Hx Hcs].
  apply Bool.orb_false_iff in Hx as [Hn Ha].
  cbn [strip tokens map app retrans_from].
  rewrite (declare_nodecl _ _ (nodecl_strip_decls a)), (translate_nil true n Hn).
  pose proof (attrs_translate_id a Ha) as Hattrs.
  rewrite Hattrs. rewrite map_app, <- app_assoc. cbn [map app].
  assert (Hf : forall more,
    retrans_from [] ((n, []) :: stk) (map Some (flat_map tokens (map strip cs)) ++ more)
    = bind (retrans_from [] ((n, []) :: stk) more)
           (fun l => Ok (map Some (flat_map tokens (map strip cs)) ++ l))).
  { induction IH as [|c r Hc _ IHr]; intros more.
    - cbn [map flat_map app]. destruct (retrans_from [] ((n, []) :: stk) more); reflexivity.
    - cbn [existsb] in Hcs. apply Bool.orb_false_iff in Hcs as [Hc1 Hc2].
      cbn [map flat_map]. rewrite map_app, <- app_assoc, (Hc _ _ Hc1), (IHr Hc2), bind_bind.
      destruct (retrans_from [] ((n, []) :: stk) more); cbn [bind]; [|reflexivity|reflexivity].
      now rewrite <- app_assoc. }
  rewrite Hf. cbn [retrans_from]. rewrite name_eqb_refl, (translate_nil true n Hn), !bind_bind.
  destruct (retrans_from [] stk rest); cbn [bind]; try reflexivity.
  now rewrite <- app_assoc.
Qed.


Lemma retrans_captured t :
  uses_xml_space t = false ->
  retrans (map Some (tokens (strip t))) = Ok (map Some (tokens (strip t))).
Proof.
  intros H. unfold retrans.
  pose proof (retrans_tree t [] [] H) as R. rewrite app_nil_r in R. rewrite R.
  cbn. now rewrite app_nil_r.
Qed.

(** * Parsing token streams back into trees *)

Lemma parse_node t : forall stk cur rest,
  parse_stk stk cur (tokens t ++ rest) = parse_stk stk (t :: cur) rest.
Proof.
  induction t as [n a cs IH| | | |] using xtree_ind2; intros stk cur rest; try reflexivity.
  cbn [tokens app parse_stk]. rewrite <- app_assoc. cbn [app].
  assert (Hf : forall cur' more,
    parse_stk ((n, a, cur) :: stk) cur' (flat_map tokens cs ++ more)
    = parse_stk ((n, a, cur) :: stk) (rev cs ++ cur') more).
  { induction IH as [|c r Hc _ IHr]; intros cur' more; [reflexivity|].
    cbn [flat_map rev]. rewrite <- !app_assoc, Hc, IHr. reflexivity. }
  rewrite Hf. cbn [parse_stk]. rewrite name_eqb_refl, app_nil_r, rev_involutive. reflexivity.
Qed.

Lemma parse_forest_tokens f : parse_forest (forest_tokens f) = Some f.
Proof.
  unfold parse_forest.
  assert (H : forall cur rest, parse_stk [] cur (forest_tokens f ++ rest) = parse_stk [] (rev f ++ cur) rest).
  { induction f as [|c r IH]; intros cur rest; [reflexivity|].
    unfold forest_tokens in *. cbn [flat_map rev]. rewrite <- !app_assoc, parse_node, IH. reflexivity. }
  specialize (H [] []). rewrite !app_nil_r in H. rewrite H. cbn. now rewrite rev_involutive.
Qed.

Lemma parse_forest_tree t : parse_forest (tokens t) = Some [t].
Proof.
  pose proof (parse_forest_tokens [t]) as H. unfold forest_tokens in H. cbn [flat_map] in H.
  now rewrite app_nil_r in H.
Qed.

Lemma parse_tree_tokens n a cs : parse_tree (tokens (Elem n a cs)) = Some (Elem n a cs).
Proof. unfold parse_tree. now rewrite parse_forest_tree. Qed.

Lemma input_wf_tokens ts :
  input_wf ts = true -> exists n a cs, ts = tokens (Elem n a cs) /\ parse_tree ts = Some (Elem n a cs).
Proof.
  unfold input_wf. destruct (parse_tree ts) as [t|] eqn:E; [|discriminate].
  intros H. apply tokens_eqb_eq in H.
  unfold parse_tree in E. destruct (parse_forest ts) as [[|[n a cs| | | |] [|]]|]; try discriminate.
  inversion E; subst t. exists n, a, cs. split; [now symmetry|reflexivity].
Qed.

Lemma input_wf_elem n a cs : input_wf (tokens (Elem n a cs)) = true.
Proof. unfold input_wf. rewrite parse_tree_tokens. now apply tokens_eqb_eq. Qed.

(** * "Same element tree" *)

Lemma norm_strip t : norm (strip t) = norm t.
Proof.
  induction t as [n a cs IH| | | |] using xtree_ind2; try reflexivity.
  cbn [strip norm]. rewrite strip_decls_idem, map_map. do 2 f_equal. now apply map_ext_Forall.
Qed.

Lemma same_forest_refl f : same_forest f f = true.
Proof. unfold same_forest. now apply tokens_eqb_eq. Qed.

Lemma same_forest_sym f g : same_forest f g = true -> same_forest g f = true.
Proof. unfold same_forest. rewrite !tokens_eqb_eq. congruence. Qed.

Lemma same_forest_trans f g h :
  same_forest f g = true -> same_forest g h = true -> same_forest f h = true.
Proof. unfold same_forest. rewrite !tokens_eqb_eq. congruence. Qed.

Lemma same_tree_strip t : same_tree (strip t) t = true.
Proof.
  unfold same_tree, same_forest, norm_forest. cbn [map]. rewrite norm_strip. now apply tokens_eqb_eq.
Qed.

Lemma same_tree_undeclare t d : same_tree (undeclare d (strip t)) t = true.
Proof.
  unfold same_tree, same_forest, norm_forest. cbn [map].
  rewrite <- (norm_strip (undeclare d (strip t))), strip_undeclare, strip_idem, norm_strip.
  now apply tokens_eqb_eq.
Qed.

(** * The raw value as a property container *)

Lemma prop_get_raw_of f n :
  prop_get (map raw_of f) n = option_map raw_of (first_elem f n).
Proof.
  induction f as [|t r IH]; [reflexivity|].
  destruct t as [m a cs| | | |]; cbn [map prop_get raw_of raw_name r_tok first_elem]; try exact IH.
  destruct (name_eqb n m); [reflexivity|exact IH].
Qed.

(** Prop.Get returns an element of the requested name, and skips only values
    that are not elements of that name. *)
Lemma prop_get_some l n v :
  prop_get l n = Some v -> In v l /\ raw_name v = Some n.
Proof.
  induction l as [|x r IH]; [discriminate|]. cbn [prop_get].
  destruct (raw_name x) as [m|] eqn:E.
  - destruct (name_eqb n m) eqn:En.
    + intros H; inversion H; subst. apply name_eqb_eq in En. subst. split; [now left|exact E].
    + intros H. destruct (IH H). split; [now right|assumption].
  - intros H. destruct (IH H). split; [now right|assumption].
Qed.

Lemma prop_get_none l n :
  prop_get l n = None <-> forall v, In v l -> raw_name v <> Some n.
Proof.
  induction l as [|x r IH]; cbn [prop_get]; [split; [intros _ v []|reflexivity]|].
  destruct (raw_name x) as [m|] eqn:E.
  - destruct (name_eqb n m) eqn:En.
    + apply name_eqb_eq in En. subst m. split; [discriminate|]. intros H. exfalso. apply (H x); [now left|exact E].
    + rewrite IH. split.
      * intros H v [<-|Hv]; [|now apply H]. rewrite E. intros X. inversion X. subst.
        rewrite name_eqb_refl in En. discriminate.
      * intros H v Hv. apply H. now right.
  - rewrite IH. split.
    + intros H v [<-|Hv]; [|now apply H]. rewrite E. discriminate.
    + intros H v Hv. apply H. now right.
Qed.

(** ** valueXMLName *)

Fixpoint has_char (c : ascii) (s : string) : bool :=
  match s with
  | EmptyString => false
  | String x r => Ascii.eqb x c || has_char c r
  end.

Lemma split_on_none c s : has_char c s = false -> split_on c s = [s].
Proof.
  induction s as [|x r IH]; [reflexivity|]. cbn [has_char split_on].
  intros H. apply Bool.orb_false_iff in H as [-> H]. now rewrite (IH H).
Qed.

Lemma split_on_app c s1 s2 :
  has_char c s1 = false -> split_on c (s1 ++ String c s2) = s1 :: split_on c s2.
Proof.
  induction s1 as [|x r IH]; cbn [has_char append split_on].
  - intros _. now rewrite Ascii.eqb_refl.
  - intros H. apply Bool.orb_false_iff in H as [-> H]. now rewrite (IH H).
Qed.

Lemma has_char_app c s1 s2 : has_char c (s1 ++ s2) = has_char c s1 || has_char c s2.
Proof. induction s1 as [|x r IH]; [reflexivity|]. cbn [append has_char]. now rewrite IH, Bool.orb_assoc. Qed.

Lemma str_app_nil_r (s : string) : (s ++ "")%string = s.
Proof. induction s as [|x r IH]; [reflexivity|]. cbn [append]. now rewrite IH. Qed.

Lemma str_app_assoc (a b c : string) : ((a ++ b) ++ c)%string = (a ++ (b ++ c))%string.
Proof. induction a as [|x r IH]; [reflexivity|]. cbn [append]. now rewrite IH. Qed.

(** A tag "space local" or "space local,options" yields (space, local). *)
Lemma value_xml_name_ok sp lo opts :
  has_char " " sp = false -> has_char "," sp = false ->
  has_char " " lo = false -> has_char "," lo = false ->
  (opts = "" \/ exists o, opts = String "," o) ->
  value_xml_name (Some ((sp ++ String " " lo) ++ opts)%string) = Ok (sp, lo).
Proof.
  intros S1 S2 L1 L2 Ho. unfold value_xml_name.
  assert (Hne : str_empty ((sp ++ String " " lo) ++ opts)%string = false) by (destruct sp; reflexivity).
  rewrite Hne.
  assert (Hc : has_char "," (sp ++ String " " lo)%string = false).
  { rewrite has_char_app, S2. cbn [has_char orb]. rewrite L2. reflexivity. }
  assert (Hhd : hd "" (split_on "," ((sp ++ String " " lo) ++ opts)%string) = (sp ++ String " " lo)%string).
  { destruct Ho as [->|[o ->]].
    - rewrite str_app_nil_r, (split_on_none _ _ Hc). reflexivity.
    - rewrite (split_on_app _ _ _ Hc). reflexivity. }
  rewrite Hhd, (split_on_app _ _ _ S1), (split_on_none _ _ L1). reflexivity.
Qed.

(** Without the separating blank, or with more than one, valueXMLName fails. *)
Lemma value_xml_name_no_blank tg :
  has_char " " tg = false -> has_char "," tg = false -> value_xml_name (Some tg) = Err 500.
Proof.
  intros H1 H2. unfold value_xml_name. destruct (str_empty tg); [reflexivity|].
  rewrite (split_on_none _ _ H2). cbn [hd]. rewrite (split_on_none _ _ H1). reflexivity.
Qed.

(** DecodeProp over several values: all succeed, in order, or the first failure
    is the result. *)
Lemma decode_prop_all_ok tags rc ps ids :
  decode_prop_all tags rc ps = Ok ids <->
  Forall2 (fun t s => decode_prop t rc ps = Ok s) tags ids.
Proof.
  revert ids. induction tags as [|t r IH]; intros ids; cbn [decode_prop_all].
  - split.
    + intros H. injection H as <-. constructor.
    + intros H. inversion H. reflexivity.
  - destruct (decode_prop t rc ps) as [s|c|] eqn:E; cbn [bind].
    + destruct (decode_prop_all r rc ps) as [l|c|] eqn:E2; cbn [bind].
      * split.
        -- intros H. injection H as <-. constructor; [exact E|]. apply IH. reflexivity.
        -- intros H. inversion H as [|t0 s0 r0 l0 H1 H2]; subst.
           rewrite E in H1. injection H1 as <-.
           apply IH in H2. injection H2 as <-. reflexivity.
      * split; [discriminate|].
        intros H. inversion H as [|t0 s0 r0 l0 H1 H2]; subst. apply IH in H2. discriminate.
      * split; [discriminate|].
        intros H. inversion H as [|t0 s0 r0 l0 H1 H2]; subst. apply IH in H2. discriminate.
    + split; [discriminate|]. intros H. inversion H as [|t0 s0 r0 l0 H1 H2]; subst.
      rewrite E in H1. discriminate.
    + split; [discriminate|]. intros H. inversion H as [|t0 s0 r0 l0 H1 H2]; subst.
      rewrite E in H1. discriminate.
Qed.

Lemma decode_prop_all_first_failure pre t post rc ps ids :
  Forall2 (fun t s => decode_prop t rc ps = Ok s) pre ids ->
  (forall c, decode_prop t rc ps = Err c -> decode_prop_all (pre ++ t :: post) rc ps = Err c) /\
  (decode_prop t rc ps = Panic -> decode_prop_all (pre ++ t :: post) rc ps = Panic).
Proof.
  intros H. induction H as [|t0 s0 r0 l0 H1 H2 IH]; cbn [app decode_prop_all].
  - split; intros; rewrite H; reflexivity.
  - rewrite H1. cbn [bind]. destruct IH as [IH1 IH2]. split.
    + intros c Hc. rewrite (IH1 c Hc). reflexivity.
    + intros Hp. rewrite (IH2 Hp). reflexivity.
Qed.

(** First candidate overall: the specification of the selection in DecodeProp. *)
Definition spec_select (ps : list (N * list raw)) (n : name) : res raw :=
  match filter (fun p => option_eqb name_eqb (raw_name (snd p)) (Some n))
               (flat_map (fun p => map (pair (fst p)) (snd p)) ps) with
  | [] => Err 404
  | (code, v) :: _ => if status_err_nil code then Ok v else Err code
  end.

Lemma select_propstat_spec ps n : select_propstat ps n = spec_select ps n.
Proof.
  unfold spec_select. induction ps as [|[ok l] r IH]; [reflexivity|].
  cbn [select_propstat flat_map fst snd]. rewrite filter_app.
  induction l as [|v l' IHl].
  - cbn [prop_get map filter app]. exact IH.
  - cbn [prop_get map filter snd]. destruct (raw_name v) as [m|] eqn:E; cbn [option_eqb].
    + rewrite (Bool.eq_true_iff_eq (name_eqb m n) (name_eqb n m)).
      2:{ rewrite !name_eqb_eq. split; congruence. }
      destruct (name_eqb n m); [reflexivity|exact IHl].
    + exact IHl.
Qed.

(** * Agreement with the model entails the specification *)

Lemma rsteps_eqb_fst a : forall b, list_eqb rstep_eqb a b = true -> map fst a = map fst b.
Proof.
  induction a as [|x r IH]; intros [|y r2] H; cbn [list_eqb] in H; try discriminate; [reflexivity|].
  apply Bool.andb_true_iff in H as [H1 H2]. unfold rstep_eqb in H1.
  apply Bool.andb_true_iff in H1 as [H1 _]. apply otoken_eqb_eq in H1.
  cbn [map]. now rewrite H1, (IH _ H2).
Qed.

Lemma otokens_eqb_eq l1 l2 : list_eqb otoken_eqb l1 l2 = true <-> l1 = l2.
Proof. apply list_eqb_eq, otoken_eqb_eq. Qed.

Lemma status_eqb_eq a b : status_eqb a b = true <-> a = b.
Proof. destruct a, b; cbn; split; congruence. Qed.

Lemma outcome_eqb_eq a b : outcome_eqb a b = true <-> a = b.
Proof. destruct a, b; cbn; split; congruence. Qed.

Lemma no_end_tok_raw_of t : no_end_tok (raw_of t) = true.
Proof.
  induction t as [n a cs IH| | | |] using xtree_ind2; try reflexivity.
  cbn [raw_of no_end_tok]. rewrite forallb_forall. intros x Hx.
  apply in_map_iff in Hx as [y [<- Hy]]. rewrite Forall_forall in IH. now apply IH.
Qed.

Lemma r_out_raw_of t : r_out (raw_of t) = None.
Proof. destruct t; reflexivity. Qed.

(** What [read_agrees] pins down. *)
Lemma read_agrees_stream v o :
  read_agrees v o = true ->
  drained o = fst (stream v) /\
  ro_outcome o = (if snd (stream v) then DPanic else DEof) /\
  (snd (stream v) = false -> ro_eof_again o = true).
Proof.
  unfold read_agrees, token_reader. destruct (r_out v) as [e|] eqn:Ho.
  - destruct v as [t cs ov]; cbn [r_out] in Ho; subst ov. rewrite stream_out.
    unfold drained. destruct (ro_steps o); [|discriminate]. intros H. apply outcome_eqb_eq in H.
    repeat split; [exact H|discriminate].
  - destruct (drain_f_stream v (drain_fuel v) Ho) as [rf [Hd Hf]].
    { pose proof (stream_len v). unfold drain_fuel. lia. }
    rewrite trace_f_drain_f in Hd.
    destruct (trace_f (drain_fuel v) (Reader v false false 0 None)) as [[l oc] rf'] eqn:Et.
    inversion Hd; subst. intros H.
    apply Bool.andb_true_iff in H as [H H3]. apply Bool.andb_true_iff in H as [H1 H2].
    apply rsteps_eqb_fst in H1. apply outcome_eqb_eq in H2.
    unfold drained. repeat split; [congruence|exact H2|].
    intros Hs. rewrite Hs in H3. rewrite (Hf Hs 3) in H3. now apply Bool.eqb_prop in H3.
Qed.

(** For every raw value: an implementation that reads as the model says meets
    the stream clause of the property. *)
Lemma raw_agree_implies_spec_ok v o : raw_agrees v o = true -> raw_spec_ok v o = true.
Proof.
  unfold raw_agrees, raw_spec_ok. intros H.
  apply Bool.andb_true_iff in H as [H _]. apply Bool.andb_true_iff in H as [H _].
  destruct (read_agrees_stream v _ H) as [Hd [Ho He]].
  rewrite Ho, Hd.
  assert (Hnf : negb (outcome_eqb (if snd (stream v) then DPanic else DEof) DFuel) = true)
    by (destruct (snd (stream v)); reflexivity).
  rewrite Hnf. cbn [andb].
  assert (Hrefl : list_eqb token_eqb (norm_otokens (fst (stream v))) (norm_otokens (fst (stream v))) = true)
    by now apply tokens_eqb_eq.
  rewrite Hrefl, Bool.andb_true_r.
  assert (Hmid : negb (snd (stream v))
                 || (outcome_eqb (if snd (stream v) then DPanic else DEof) DPanic
                     || outcome_eqb (if snd (stream v) then DPanic else DEof) DError) = true)
    by (destruct (snd (stream v)); reflexivity).
  rewrite Hmid. cbn [andb].
  destruct (no_end_tok v) eqn:Hne; [cbn [negb orb]|reflexivity].
  rewrite (stream_prefix_nested v Hne). cbn [andb].
  destruct (snd (stream v)) eqn:Hs; [reflexivity|].
  now rewrite (He eq_refl), (stream_well_nested v Hne Hs).
Qed.

Lemma same_stream_trans_l l m ts :
  same_stream l m = true -> same_stream l ts = true -> same_stream m ts = true.
Proof.
  unfold same_stream. destruct (parse_forest l), (parse_forest m), (parse_forest ts); try discriminate.
  intros A B. eapply same_forest_trans; [apply same_forest_sym; exact A|exact B].
Qed.

Lemma res_otokens_eqb_ok x l :
  res_eqb (list_eqb otoken_eqb) x (Ok l) = true -> x = Ok l.
Proof. destruct x; cbn; try discriminate. intros H. apply otokens_eqb_eq in H. now subst. Qed.

(** For every well-formed element outside the known finding: an
    implementation that behaves as the model says meets the property. *)
Lemma doc_agree_implies_spec_ok ts o :
  input_wf ts = true -> doc_kf ts = false -> doc_kf_in ts = false ->
  doc_agrees ts o = true -> doc_spec_ok ts o = true.
Proof.
  intros Hwf Hkf Hkin H. destruct (input_wf_tokens ts Hwf) as [n [a [cs [-> Hp]]]].
  cbn [tokens doc_kf_in] in Hkin.
  unfold doc_kf in Hkf. rewrite Hp in Hkf. set (t := Elem n a cs) in *.
  unfold doc_agrees in H. cbn [tokens t] in H.
  pose proof (capture_replay n a cs []) as Hc. unfold forest_tokens in Hc. rewrite Hc in H. fold t in H.
  set (v := raw_of (strip t)) in *.
  assert (Hs : stream v = (map Some (tokens (strip t)), false)) by apply stream_raw_of.
  assert (Hdr : drain v = (map Some (tokens (strip t)), DEof)) by (rewrite drain_stream, Hs; reflexivity).
  unfold v in H at 4 5 6 7. rewrite (decoded_in_place_id t Hkf) in H. fold v in H.
  rewrite Hdr in H. cbn [fst snd] in H.
  repeat (apply Bool.andb_true_iff in H as [H ?]).
  match goal with X : marshal_agrees _ _ = true |- _ => rename X into Hmar end.
  match goal with X : marshal_in_agrees _ _ _ = true |- _ => rename X into Hmin end.
  match goal with X : outcome_eqb (snd _) _ = true |- _ => rename X into Ho2 end.
  match goal with X : list_eqb otoken_eqb (fst _) _ = true |- _ => rename X into Hl2 end.
  match goal with X : res_eqb _ _ _ = true |- _ => rename X into Hdec end.
  match goal with X : read_agrees _ _ = true |- _ => rename X into Hrd end.
  destruct (read_agrees_stream v _ Hrd) as [Hd [Hoc He]]. rewrite Hs in Hd, Hoc, He. cbn [fst snd] in *.
  apply otokens_eqb_eq in Hl2.
  rewrite (retrans_captured t Hkf) in Hdec. apply res_otokens_eqb_ok in Hdec.
  assert (Hsame : same_stream (tokens (strip t)) (tokens t) = true).
  { unfold same_stream. rewrite !parse_forest_tree. apply same_tree_strip. }
  unfold doc_spec_ok. apply Bool.andb_true_iff. split.
  2:{ unfold doc_spec_in. unfold marshal_in_agrees, marshal in Hmin. subst v.
      rewrite marshal_raw_of in Hmin. unfold t in Hmin. rewrite (reread_in_top dav_ns n a cs Hkin) in Hmin.
      fold t in Hmin.
      destruct (do_mar_in o) as [m| |]; try discriminate.
      apply (same_stream_trans_l _ _ _ Hmin).
      unfold same_stream. rewrite !parse_forest_tree. apply same_tree_undeclare. }
  unfold doc_spec_main. rewrite H, Hoc, (He eq_refl), Hd, somes_map_Some, Hl2, Ho2, Hdec, somes_map_Some, Hsame.
  cbn [outcome_eqb andb].
  assert (Hwn : well_nested (tokens (strip t)) = true).
  { pose proof (stream_well_nested v (no_end_tok_raw_of _)) as W. rewrite Hs in W. cbn [fst snd] in W.
    rewrite somes_map_Some in W. now apply W. }
  rewrite Hwn. cbn [andb].
  assert (Hrefl : list_eqb otoken_eqb (map Some (tokens (strip t))) (map Some (tokens (strip t))) = true)
    by now apply otokens_eqb_eq.
  rewrite Hrefl. cbn [andb].
  unfold marshal_agrees, marshal in Hmar. subst v. rewrite marshal_raw_of, reread_top in Hmar.
  destruct (do_mar o) as [m| |]; try discriminate.
  apply (same_stream_trans_l _ _ _ Hmar).
  unfold same_stream. rewrite !parse_forest_tree. apply same_tree_undeclare.
Qed.

(** * Decoding from a captured value *)

(** A decoder reading a captured value gets the token stream of the document
    without its namespace declarations. *)
Lemma decode_stream n a cs :
  uses_xml_space (Elem n a cs) = false ->
  exists v, capture n a (tl (tokens (Elem n a cs))) = Some (Ok (v, [])) /\
            retrans (fst (drain v)) = Ok (map Some (strip_stream (tokens (Elem n a cs)))).
Proof.
  intros Hx. exists (raw_of (strip (Elem n a cs))). split.
  - pose proof (capture_replay_tl n a cs []) as H. now rewrite app_nil_r in H.
  - rewrite drain_stream, stream_raw_of. cbn [fst]. rewrite strip_stream_tokens.
    now apply retrans_captured.
Qed.

(** Hence any consumer of the decoder's tokens that does not look at namespace
    declarations computes, from the captured value, what it computes from the
    document. *)
Lemma decode_same n a cs (A : Type) (dec : res (list otoken) -> A) :
  uses_xml_space (Elem n a cs) = false ->
  (forall s, dec (Ok (map Some (strip_stream s))) = dec (Ok (map Some s))) ->
  exists v, capture n a (tl (tokens (Elem n a cs))) = Some (Ok (v, [])) /\
            dec (retrans (fst (drain v))) = dec (Ok (map Some (tokens (Elem n a cs)))).
Proof.
  intros Hx Hdec. destruct (decode_stream n a cs Hx) as [v [Hc Hr]].
  exists v. split; [exact Hc|]. now rewrite Hr, Hdec.
Qed.

(** Known finding C15/xml-literal-namespace: a namespace whose name is the
    three letters "xml" is taken for the reserved prefix by the token decoder. *)
Lemma xml_literal_namespace_refuted :
  exists n a cs,
    uses_xml_space (Elem n a cs) = true /\
    exists v, capture n a (tl (tokens (Elem n a cs))) = Some (Ok (v, [])) /\
              retrans (fst (drain v)) <> Ok (map Some (strip_stream (tokens (Elem n a cs)))).
Proof.
  exists ("xml", "a"), [(("", "xmlns"), "xml")], []. split; [reflexivity|].
  eexists. split; [vm_compute; reflexivity|]. vm_compute. discriminate.
Qed.

(** Why the two repairs of internal/xml.go were needed (the behaviour before
    commits 73f0337 and 3febfaa of /repo, on the same definitions). *)

(** Replaying captured declarations: the decoder applies them a second time. *)
Example declarations_applied_twice :
  let t := Elem ("b", "x") [(("xmlns", "a"), "b"); (("xmlns", "b"), "c")] [] in
  retrans (map Some (tokens t)) = Ok (map Some (tokens (Elem ("c", "x") [(("xmlns", "a"), "b"); (("xmlns", "b"), "c")] []))).
Proof. vm_compute. reflexivity. Qed.

(** Without xmlns="" the child of a prefixed element lands in its namespace. *)
Example unqualified_child_captured_by_parent :
  let t := Elem ("X", "a") [] [Elem ("", "b") [] []] in
  reread (tokens t) = tokens (Elem ("X", "a") [] [Elem ("X", "b") [] []]).
Proof. vm_compute. reflexivity. Qed.

(** A replayed xmlns="" after the encoder's own declaration removes the namespace. *)
Example conflicting_default_declarations :
  let t := Elem ("Y", "b") [(("", "xmlns"), "")] [] in
  reread (tokens t) = tokens (Elem ("", "b") [(("", "xmlns"), "")] []).
Proof. vm_compute. reflexivity. Qed.

(** * Summary statements used by Properties_C15.v *)

Lemma drain_tree v t : tree_of v = Some t -> drain v = (map Some (tokens t), DEof).
Proof. intros H. rewrite drain_stream, (tree_of_stream v t H). reflexivity. Qed.

Lemma drain_captured t : drain (raw_of t) = (map Some (tokens t), DEof).
Proof. apply drain_tree, tree_of_raw_of. Qed.

Lemma drain_complete v :
  r_out v = None ->
  exists rf,
    drain_f (drain_fuel v) (Reader v false false 0 None)
      = (fst (stream v), if snd (stream v) then DPanic else DEof, rf) /\
    (snd (stream v) = false -> forall k, eof_forever k rf = true).
Proof.
  intros Ho. apply drain_f_stream; [exact Ho|].
  pose proof (stream_len v). unfold drain_fuel. lia.
Qed.

Lemma drain_balanced v :
  no_end_tok v = true -> snd (drain v) = DEof ->
  well_nested (somes (fst (drain v))) = true /\
  (forall k, (0 <= depth (firstn k (somes (fst (drain v)))))%Z) /\
  depth (somes (fst (drain v))) = 0%Z.
Proof.
  rewrite drain_stream. cbn [fst snd]. intros Hne Hs.
  assert (Hp : snd (stream v) = false) by (destruct (snd (stream v)); [discriminate|reflexivity]).
  pose proof (stream_well_nested v Hne Hp) as W. split; [exact W|]. now apply well_nested_depth.
Qed.

Lemma drain_prefix_balanced v :
  no_end_tok v = true -> wn_prefix [] (somes (fst (drain v))) = true.
Proof. rewrite drain_stream. cbn [fst]. apply stream_prefix_nested. Qed.

Lemma marshal_captured t :
  exists l, marshal (raw_of t) = Ok l /\ strip_stream l = strip_stream (tokens t).
Proof. apply marshal_strip. Qed.

Lemma marshal_tree v t :
  tree_of v = Some t -> marshal v = Ok (tokens (undeclare "" t)).
Proof. apply marshal_tree_of. Qed.

Lemma remarshal_names t :
  exists l, marshal (raw_of (strip t)) = Ok l /\
            exists u, parse_forest (reread l) = Some [u] /\ same_tree u t = true.
Proof.
  exists (tokens (undeclare "" (strip t))). split; [apply marshal_raw_of|].
  exists (undeclare "" (strip t)). rewrite reread_top, parse_forest_tree. split; [reflexivity|].
  apply same_tree_undeclare.
Qed.

(** Written inside a container whose namespace the encoder has declared as the
    default, an element that has a namespace of its own still comes back as the
    same tree... *)
Lemma remarshal_embedded ns n a cs :
  str_empty (fst n) = false ->
  exists l, marshal (raw_of (strip (Elem n a cs))) = Ok l /\
            exists u, parse_forest (reread_in ns l) = Some [u] /\ same_tree u (Elem n a cs) = true.
Proof.
  intros Hn. exists (tokens (undeclare "" (strip (Elem n a cs)))). split; [apply marshal_raw_of|].
  exists (undeclare "" (strip (Elem n a cs))). rewrite (reread_in_top ns n a cs Hn), parse_forest_tree.
  split; [reflexivity|]. apply same_tree_undeclare.
Qed.

(** ...an element in no namespace does not (known finding
    C15/embedded-no-namespace): it is read back in the container's namespace. *)
Lemma embedded_no_namespace_refuted :
  exists n a cs l,
    str_empty (fst n) = true /\
    marshal (raw_of (strip (Elem n a cs))) = Ok l /\
    parse_forest (reread_in dav_ns l) = Some [Elem (dav_ns, snd n) a cs] /\
    same_tree (Elem (dav_ns, snd n) a cs) (Elem n a cs) = false.
Proof.
  exists ("", "x"), [], [], [TStart ("", "x") []; TEnd ("", "x")].
  repeat split; vm_compute; reflexivity.
Qed.

(** * Several readers of one value are independent state machines *)

Lemma nth_error_set_nth_eq {A : Type} (l : list A) i x y :
  nth_error l i = Some y -> nth_error (set_nth i x l) i = Some x.
Proof.
  revert i. induction l as [|z r IH]; intros [|i] H; cbn in *; try discriminate; [reflexivity|].
  now apply IH.
Qed.

Lemma nth_error_set_nth_neq {A : Type} (l : list A) i j x :
  i <> j -> nth_error (set_nth i x l) j = nth_error l j.
Proof.
  revert i j. induction l as [|z r IH]; intros [|i] [|j] H; cbn; try reflexivity; try congruence.
  apply IH. congruence.
Qed.

(** The product run projects to each single run: what reader [i] delivers in a
    run of several readers is what it delivers when it makes the same number of
    calls alone. *)
Lemma run_product_projects rs sched i r :
  nth_error rs i = Some r ->
  map snd (filter (fun p => Nat.eqb (fst p) i) (run_product rs sched))
  = run1 (count_occ Nat.eq_dec sched i) r.
Proof.
  revert rs r. induction sched as [|j s IH]; intros rs r Hr; [reflexivity|].
  cbn [run_product count_occ].
  destruct (Nat.eq_dec j i) as [->|Hne].
  - rewrite Hr. cbn [run1]. destruct (call r) as [c r'] eqn:Ec.
    cbn [filter fst]. rewrite Nat.eqb_refl. cbn [map snd]. f_equal.
    apply IH. eapply nth_error_set_nth_eq; eassumption.
  - destruct (nth_error rs j) as [rj|] eqn:Ej.
    + destruct (call rj) as [c rj'].
      cbn [filter fst]. apply Nat.eqb_neq in Hne as Hb. rewrite Hb.
      apply IH. rewrite nth_error_set_nth_neq by exact Hne. exact Hr.
    + apply IH. exact Hr.
Qed.

(** [k] calls on a reader that still has [l] to deliver (and does not panic):
    the first [k] of [l], then io.EOF. *)
Lemma run1_remaining k : forall r l m,
  remaining r = (l, false) -> k <= m ->
  run1 k r = firstn k (map CTok l ++ repeat CEof m).
Proof.
  induction k as [|k IH]; intros r l m Hr Hm; [reflexivity|].
  cbn [run1]. unfold call. pose proof (next_remaining r) as N.
  destruct (next r) as [t r'|r'|].
  - rewrite Hr in N. destruct (remaining r') as [l' p'] eqn:Er'.
    unfold tr_app, tr_one in N. cbn [fst snd] in N. injection N as -> <-.
    cbn [map app firstn]. f_equal. apply (IH r' l' m Er'). lia.
  - destruct N as [N ->]. rewrite Hr in N. unfold tr_nil in N. injection N as ->.
    cbn [map app]. destruct m as [|m']; [lia|]. cbn [repeat firstn]. f_equal.
    rewrite (IH r [] m' Hr) by lia. reflexivity.
  - rewrite Hr in N. unfold tr_panic in N. discriminate.
Qed.

(** Every reader of a captured value, whatever other readers of the same value
    do in between, delivers the token stream of the tree and then io.EOF. *)
Lemma run_product_captured t n sched i :
  i < n ->
  map snd (filter (fun p => Nat.eqb (fst p) i)
             (run_product (repeat (Reader (raw_of t) false false 0 None) n) sched))
  = firstn (count_occ Nat.eq_dec sched i)
           (map (fun x => CTok (Some x)) (tokens t) ++ repeat CEof (count_occ Nat.eq_dec sched i)).
Proof.
  intros Hi.
  rewrite (run_product_projects _ sched i (Reader (raw_of t) false false 0 None)).
  2:{ apply nth_error_repeat. exact Hi. }
  rewrite (run1_remaining _ _ (map Some (tokens t)) (count_occ Nat.eq_dec sched i)).
  - now rewrite map_map.
  - rewrite remaining_fresh by apply r_out_raw_of. apply stream_raw_of.
  - lia.
Qed.

(** Kept copies: a sequence of captures is judged copy by copy. *)
Lemma seq_agree_implies_spec_ok l :
  (forall p, In p l -> input_wf (fst p) = true /\ doc_kf (fst p) = false /\ doc_kf_in (fst p) = false) ->
  seq_agrees l = true -> seq_spec_ok l = true.
Proof.
  unfold seq_agrees, seq_spec_ok. rewrite !forallb_forall. intros Hwf H p Hp.
  destruct (Hwf p Hp) as [A [B C]]. apply doc_agree_implies_spec_ok; auto.
Qed.

(** * The specification does not depend on how character data is cut into pieces *)

Lemma xs_append_nil_r s : (s ++ "")%string = s.
Proof. induction s as [|c s IH]; cbn; [reflexivity|now rewrite IH]. Qed.

Lemma xs_append_assoc s1 s2 s3 : ((s1 ++ s2) ++ s3)%string = (s1 ++ (s2 ++ s3))%string.
Proof. induction s1 as [|c s IH]; cbn; [reflexivity|now rewrite IH]. Qed.

Lemma str_empty_append s1 s2 : str_empty (s1 ++ s2) = str_empty s1 && str_empty s2.
Proof. destruct s1; reflexivity. Qed.

Lemma prefix_refl s : String.prefix s s = true.
Proof. induction s as [|c s IH]; cbn; [reflexivity|]. destruct (ascii_dec c c); [exact IH|congruence]. Qed.

Lemma prefix_append s x : String.prefix s (s ++ x) = true.
Proof.
  induction s as [|c s IH]; cbn; [now destruct x|]. destruct (ascii_dec c c); [exact IH|congruence].
Qed.

Lemma prefix_append_l s a b : String.prefix (s ++ a) (s ++ b) = String.prefix a b.
Proof. induction s as [|c s IH]; cbn; [reflexivity|]. destruct (ascii_dec c c); [exact IH|congruence]. Qed.

Lemma token_eqb_refl t : token_eqb t t = true.
Proof. now apply token_eqb_eq. Qed.

(** A normal form holds no processing instruction and no directive, its
    pieces of character data are not empty and never adjacent. *)
Definition sep (x : token) : Prop :=
  match x with TStart _ _ | TEnd _ | TComment _ => True | _ => False end.

Inductive nf : list token -> Prop :=
| nf_nil : nf []
| nf_text s r : str_empty s = false -> nf r -> (forall s' r', r <> TText s' :: r') -> nf (TText s :: r)
| nf_other x r : sep x -> nf r -> nf (x :: r).

Lemma norm_stream_nf l : nf (norm_stream l).
Proof.
  induction l as [|x r IH]; [constructor|].
  destruct x as [n a|n|s|s|tg s|s]; cbn [norm_stream];
    try (apply nf_other; [exact I|exact IH]); try exact IH.
  destruct (norm_stream r) as [|y r'] eqn:E.
  - destruct (str_empty s) eqn:Es; [constructor|]. apply nf_text; [exact Es|constructor|intros; discriminate].
  - destruct y as [n a|n|s'|s'|tg s'|s'];
      try (destruct (str_empty s) eqn:Es; [exact IH|];
           apply nf_text; [exact Es|exact IH|intros; discriminate]).
    inversion IH as [|s0 r0 He Hr Hn|x0 r0 Hx Hr]; subst.
    + apply nf_text; [|exact Hr|exact Hn]. rewrite str_empty_append, He. apply Bool.andb_false_r.
    + destruct Hx.
Qed.

Lemma norm_stream_of_nf l : nf l -> (forall n a, In (TStart n a) l -> strip_decls a = a) -> norm_stream l = l.
Proof.
  intros H. induction H as [|s r He Hr IH Hn|x r Hx Hr IH]; intros Hd; [reflexivity| |].
  - cbn [norm_stream]. rewrite IH by (intros n a Hi; apply (Hd n a); now right).
    destruct r as [|y r']; [now rewrite He|].
    destruct y; try (now rewrite He). exfalso. now apply (Hn s0 r').
  - assert (IHr : norm_stream r = r) by (apply IH; intros n a Hi; apply (Hd n a); now right).
    destruct x as [n a|n|s|s|tg s|s]; cbn [norm_stream]; rewrite ?IHr; try reflexivity; try destruct Hx.
    rewrite (Hd n a); [reflexivity|now left].
Qed.

Lemma norm_stream_starts l n a : In (TStart n a) (norm_stream l) -> strip_decls a = a.
Proof.
  revert n a. induction l as [|x r IH]; intros n a H; [destruct H|].
  destruct x as [m b|m|s|s|tg s|s]; cbn [norm_stream] in H;
    try exact (IH n a H);
    try (destruct H as [H|H]; [discriminate|exact (IH n a H)]).
  - destruct H as [H|H]; [|exact (IH n a H)]. injection H as <- <-. apply strip_decls_idem.
  - destruct (norm_stream r) as [|y r'] eqn:E.
    + destruct (str_empty s); [destruct H|]. destruct H as [H|[]]. discriminate.
    + destruct y as [m b|m|s'|s'|tg s'|s'];
        try (destruct (str_empty s); [exact (IH n a H)|]; destruct H as [H|H]; [discriminate|exact (IH n a H)]).
      destruct H as [H|H]; [discriminate|]. apply (IH n a). now right.
Qed.

(** [norm_stream] is idempotent: it yields a normal form. *)
Lemma norm_stream_idem l : norm_stream (norm_stream l) = norm_stream l.
Proof.
  apply norm_stream_of_nf; [apply norm_stream_nf|]. intros n a H. now apply (norm_stream_starts l n a).
Qed.

(** It forgets namespace declarations... *)
Lemma norm_stream_strip l : norm_stream (strip_stream l) = norm_stream l.
Proof.
  induction l as [|x r IH]; [reflexivity|]. unfold strip_stream in *. cbn [map].
  destruct x as [n a|n|s|s|tg s|s]; cbn [strip_token norm_stream]; rewrite IH; try reflexivity.
  now rewrite strip_decls_idem.
Qed.

(** ...and where a run of character data is cut: one piece or two, anywhere in
    the stream, is the same stream. *)
Lemma norm_stream_segmentation l1 s1 s2 l2 :
  norm_stream (l1 ++ TText (s1 ++ s2) :: l2) = norm_stream (l1 ++ TText s1 :: TText s2 :: l2).
Proof.
  induction l1 as [|x r IH].
  - cbn [app norm_stream]. destruct (norm_stream l2) as [|y r'] eqn:E.
    + rewrite str_empty_append. destruct (str_empty s2) eqn:E2.
      * apply str_empty_spec in E2. subst s2. rewrite xs_append_nil_r, Bool.andb_true_r. reflexivity.
      * rewrite Bool.andb_false_r. reflexivity.
    + destruct y as [n a|n|s'|s'|tg s'|s']; try
        (rewrite str_empty_append; destruct (str_empty s2) eqn:E2;
         [apply str_empty_spec in E2; subst s2; rewrite xs_append_nil_r, Bool.andb_true_r; reflexivity
         |rewrite Bool.andb_false_r; reflexivity]).
      now rewrite xs_append_assoc.
  - cbn [app]. destruct x as [n a|n|s|s|tg s|s]; cbn [norm_stream]; now rewrite IH.
Qed.

(** Every beginning of a stream is a beginning of it in the sense of [tprefix]:
    a reader that keeps the pieces of character data apart (as the unchanged
    code does) is accepted at every point of its progress... *)
Lemma tprefix_nf_head a b :
  tprefix a b = true ->
  match a with
  | TText s :: a' => exists s' b', b = TText s' :: b' /\
                     ((a' = [] /\ String.prefix s s' = true) \/ (s = s' /\ tprefix a' b' = true))
  | x :: a' => exists y b', b = y :: b' /\ token_eqb x y = true /\ tprefix a' b' = true
  | [] => True
  end.
Proof.
  destruct a as [|x a']; [trivial|]. cbn [tprefix]. destruct b as [|y b']; [destruct x; discriminate|].
  destruct x as [n a|n|s|s|tg s|s]; intros H;
    try (apply Bool.andb_true_iff in H as [H1 H2]; exists y, b'; now repeat split).
  destruct y as [n a|n|s'|s'|tg s'|s']; try (apply Bool.andb_true_iff in H as [H1 _]; discriminate).
  exists s', b'. split; [reflexivity|]. destruct a' as [|z a''].
  - left. now split.
  - right. apply Bool.andb_true_iff in H as [H1 H2]. cbn [token_eqb] in H1. apply String.eqb_eq in H1. now split.
Qed.

Lemma tprefix_cons_other x a b :
  (forall s, x <> TText s) -> tprefix (x :: a) (x :: b) = tprefix a b.
Proof.
  intros Hx. cbn [tprefix]. rewrite token_eqb_refl.
  destruct x; try reflexivity. exfalso. now apply (Hx s).
Qed.

Lemma tprefix_firstn l : forall k, tprefix (norm_stream (firstn k l)) (norm_stream l) = true.
Proof.
  induction l as [|x r IH]; intros k; [now destruct k|].
  destruct k as [|k]; [reflexivity|]. cbn [firstn]. specialize (IH k).
  destruct x as [n a|n|s|s|tg s|s]; cbn [norm_stream];
    try exact IH;
    try (rewrite tprefix_cons_other by (intros ?; discriminate); exact IH).
  pose proof (norm_stream_nf (firstn k r)) as NA. pose proof (norm_stream_nf r) as NB.
  pose proof (tprefix_nf_head _ _ IH) as Hh.
  destruct (norm_stream (firstn k r)) as [|y A'] eqn:EA.
  - (* nothing delivered after the piece *)
    destruct (str_empty s) eqn:Es; [reflexivity|].
    destruct (norm_stream r) as [|z B'] eqn:EB.
    + cbn [tprefix]. apply prefix_refl.
    + destruct z; try (cbn [tprefix]; apply prefix_refl).
      cbn [tprefix]. apply prefix_append.
  - destruct y as [n a|n|s0|s0|tg s0|s0].
    1,2,4,5,6: destruct Hh as [z [B' [EB [He Ht]]]]; rewrite EB;
      apply token_eqb_eq in He; subst z;
      (destruct (str_empty s) eqn:Es; [rewrite <- EB; exact IH|]);
      cbn [tprefix]; rewrite !token_eqb_refl; cbn [andb]; exact Ht.
    destruct Hh as [s' [B' [EB Hc]]]. rewrite EB. destruct Hc as [[-> Hp]|[-> Ht]].
    + cbn [tprefix]. now rewrite prefix_append_l.
    + cbn [tprefix]. destruct A' as [|z A'']; [now rewrite prefix_refl|].
      rewrite token_eqb_refl. cbn [andb]. exact Ht.
Qed.

Lemma split_calls_toks l rest :
  (match rest with CTok (Some _) :: _ => False | _ => True end) ->
  split_calls (map (fun x => CTok (Some x)) l ++ rest) = (l, rest).
Proof.
  intros Hr. induction l as [|x r IH]; cbn [map app split_calls].
  - destruct rest as [|[[t|]| |] rest']; try reflexivity. destruct Hr.
  - now rewrite IH.
Qed.

Lemma forallb_repeat_eof m : forallb (ocall_eqb CEof) (repeat CEof m) = true.
Proof. induction m; cbn; [reflexivity|assumption]. Qed.

Lemma firstn_repeat_le {A : Type} (x : A) m k : m <= k -> firstn m (repeat x k) = repeat x m.
Proof.
  revert k. induction m as [|m IH]; intros k H; [reflexivity|].
  destruct k as [|k]; [lia|]. cbn [repeat firstn]. f_equal. apply IH. lia.
Qed.

(** ...so what the model's reader delivers — [k] calls on a reader of a captured
    tree, whatever other readers do ([run_product_captured]) — meets the
    specification of the interleaving stage for every document and every [k]. *)
Lemma calls_ok_model l k :
  calls_ok l (firstn k (map (fun x => CTok (Some x)) (strip_stream l) ++ repeat CEof k)) = true.
Proof.
  unfold calls_ok. set (l' := strip_stream l).
  destruct (Nat.le_gt_cases k (List.length l')) as [Hk|Hk].
  - rewrite firstn_app. rewrite map_length.
    replace (k - List.length l') with 0 by lia. cbn [firstn]. rewrite app_nil_r, firstn_map.
    pose proof (split_calls_toks (firstn k l') [] I) as Hs. rewrite app_nil_r in Hs. rewrite Hs.
    rewrite <- (norm_stream_strip l). apply tprefix_firstn.
  - rewrite firstn_app, map_length. rewrite firstn_all2 by (rewrite map_length; lia).
    rewrite firstn_repeat_le by lia.
    destruct (k - List.length l') as [|m] eqn:Em; [lia|]. cbn [repeat].
    rewrite (split_calls_toks l' (CEof :: repeat CEof m) I).
    unfold l'. rewrite norm_stream_strip.
    rewrite forallb_repeat_eof, Bool.andb_true_r. now apply tokens_eqb_eq.
Qed.

(** ** The tree normal form and the stream normal form are the same thing *)

Lemma norm_stream_app_other l x r :
  sep x -> norm_stream (l ++ x :: r) = norm_stream l ++ norm_stream (x :: r).
Proof.
  intros Hx. induction l as [|y l' IH]; [reflexivity|]. cbn [app].
  destruct y as [n a|n|s|s|tg s|s]; cbn [norm_stream app]; rewrite IH; try reflexivity.
  destruct (norm_stream l') as [|z l''] eqn:E.
  - cbn [app]. destruct x as [n a|n|s0|s0|tg s0|s0]; try destruct Hx; cbn [norm_stream];
      destruct (str_empty s); reflexivity.
  - cbn [app]. destruct z; try (destruct (str_empty s); reflexivity).
Qed.

Definition norm_forest_ok (f : list xtree) : Prop :=
  forest_tokens (merge_text (map norm f)) = norm_stream (forest_tokens f).

Lemma norm_forest_ok_of f :
  Forall (fun t => match t with Elem _ _ cs => norm_forest_ok cs | _ => True end) f -> norm_forest_ok f.
Proof.
  unfold norm_forest_ok. induction 1 as [|t r Ht _ IH]; [reflexivity|].
  unfold forest_tokens in *. cbn [map flat_map].
  destruct t as [n a cs|s|s|tg s|s]; cbn [norm merge_text flat_map tokens app norm_stream];
    try (now rewrite IH).
  - rewrite IH. rewrite <- app_assoc. cbn [app]. f_equal. rewrite Ht.
    rewrite <- (app_assoc _ [TEnd n]). cbn [app].
    rewrite norm_stream_app_other by exact I. reflexivity.
  - rewrite <- IH. destruct (merge_text (map norm r)) as [|y r'] eqn:E; cbn [flat_map].
    + destruct (str_empty s); reflexivity.
    + destruct y as [n a cs|s'|s'|tg s'|s']; cbn [flat_map tokens app];
        try (destruct (str_empty s); reflexivity).
Qed.

Lemma norm_forest_tokens f : forest_tokens (norm_forest f) = norm_stream (forest_tokens f).
Proof.
  apply norm_forest_ok_of. rewrite Forall_forall. intros t _.
  induction t as [n a cs IH| | | |] using xtree_ind2; try exact I.
  now apply norm_forest_ok_of.
Qed.

(** "Same element tree" is equality of the streams in normal form: namespace
    declarations, processing instructions, directives and the cutting of
    character data are the only things it forgets. *)
Lemma same_forest_norm_stream f g :
  same_forest f g = list_eqb token_eqb (norm_stream (forest_tokens f)) (norm_stream (forest_tokens g)).
Proof. unfold same_forest. now rewrite !norm_forest_tokens. Qed.

(** Processing instructions and directives are not seen by the normal form,
    wherever they stand (also between two pieces of character data, which then
    are one run). *)
Lemma norm_stream_drop l1 x l2 :
  (match x with TProcInst _ _ | TDirective _ => True | _ => False end) ->
  norm_stream (l1 ++ x :: l2) = norm_stream (l1 ++ l2).
Proof.
  intros Hx. induction l1 as [|y r IH].
  - destruct x; try destruct Hx; reflexivity.
  - cbn [app]. destruct y as [n a|n|s|s|tg s|s]; cbn [norm_stream]; now rewrite IH.
Qed.

(** The specification of the container stage accepts what the model answers
    (and, where the model panics on a marshal-only value, an error as well). *)
Lemma prop_agree_implies_spec_ok m o : prop_obs_agrees m o = true -> prop_obs_spec_ok m o = true.
Proof. destruct m, o; cbn; auto. Qed.

Lemma propm_agree_implies_spec_ok m o : propm_obs_agrees m o = true -> propm_obs_spec_ok m o = true.
Proof. destruct m, o; cbn; auto. Qed.

(** The two readings of "which propstat decides" give the same value whenever
    the first propstat that has the property is a successful one (in
    particular when the name occurs once). *)
Lemma select_propstat_alt_same ps n v :
  select_propstat ps n = Ok v -> forall f, select_propstat_alt ps n f = Ok v.
Proof.
  induction ps as [|[code l] r IH]; cbn [select_propstat select_propstat_alt]; [discriminate|].
  destruct (prop_get l n) as [w|]; [|exact IH].
  destruct (status_err_nil code); [intros H f; exact H|discriminate].
Qed.
