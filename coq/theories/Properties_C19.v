(** Properties_C19.v — C19: ValidateCalendarObject enforces the RFC 4791 section 4.1
    object rules.  Statements only; each is closed by [exact] of a lemma proved in
    CalValidateProofs.v. *)
From GW Require Import Base CalValidate CalValidateProofs.

(** Accepts exactly the calendars the RFC accepts, returning that type and UID. *)
Theorem C19_accept_iff : forall c ty uid,
  names_nonempty c -> (validate c = Some (ty, uid) <-> accepts c ty uid).
Proof. exact validate_accept_iff. Qed.
Print Assumptions C19_accept_iff.

(** Everything else is rejected ([None] = error with empty results). *)
Theorem C19_reject : forall c,
  names_nonempty c -> (~ exists ty uid, accepts c ty uid) -> validate c = None.
Proof. exact validate_reject. Qed.
Print Assumptions C19_reject.

(** The accepted (type, UID) pair is unique. *)
Theorem C19_accepts_unique : forall c ty uid ty' uid',
  accepts c ty uid -> accepts c ty' uid' -> ty = ty' /\ uid = uid'.
Proof. exact accepts_unique. Qed.
Print Assumptions C19_accepts_unique.

(** The executable specification used by the oracle is the declarative one. *)
Theorem C19_spec_exec : forall c ty uid,
  spec_validate c = Some (ty, uid) <-> accepts c ty uid.
Proof. exact spec_validate_accepts. Qed.
Print Assumptions C19_spec_exec.

(** Agreement of the implementation with the model entails the specification. *)
Theorem C19_agree_implies_spec_ok : forall c o,
  names_nonempty c -> model_agrees c o = true ->
  (o_result o = None -> o_empty_on_err o = true) -> spec_ok c o = true.
Proof. exact agree_implies_spec_ok. Qed.
Print Assumptions C19_agree_implies_spec_ok.
