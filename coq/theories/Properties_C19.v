(** Properties_C19.v — C19: ValidateCalendarObject enforces the RFC 4791 section 4.1
    object rules.  Statements only; each is closed by [exact] of a lemma proved in
    CalValidateProofs.v. *)
From GW Require Import Base CalValidate CalValidateProofs CalValidateMore.

(** Accepts exactly the calendars the RFC accepts, returning that type and UID. *)
Theorem C19_accept_iff : forall c ty uid,
  names_nonempty c -> (validate c = Some (ty, uid) <-> accepts c ty uid).
Proof. exact validate_accept_iff. Qed.
Print Assumptions C19_accept_iff.

(** Everything else is rejected ([None] = error with empty results). *)
Theorem C19_reject : forall c,
  names_nonempty c -> (~ exists ty uid, accepts c ty uid) -> validate c = None.
Proof. exact validate_reject. Qed.
Print Assumptions C19_reject.

(** The accepted (type, UID) pair is unique. *)
Theorem C19_accepts_unique : forall c ty uid ty' uid',
  accepts c ty uid -> accepts c ty' uid' -> ty = ty' /\ uid = uid'.
Proof. exact accepts_unique. Qed.
Print Assumptions C19_accepts_unique.

(** The executable specification used by the oracle is the declarative one. *)
Theorem C19_spec_exec : forall c ty uid,
  spec_validate c = Some (ty, uid) <-> accepts c ty uid.
Proof. exact spec_validate_accepts. Qed.
Print Assumptions C19_spec_exec.

(** Agreement of the implementation with the model entails the specification. *)
Theorem C19_agree_implies_spec_ok : forall c o,
  names_nonempty c -> model_agrees c o = true ->
  (o_result o = None -> o_empty_on_err o = true) -> spec_ok c o = true.
Proof. exact agree_implies_spec_ok. Qed.
Print Assumptions C19_agree_implies_spec_ok.

(** * Consequences that no finite enumeration shows *)

(** The verdict — accepted or not, the type and the UID returned — does not depend on
    the order of the components. *)
Theorem C19_order_independent : forall c c',
  names_nonempty c -> has_method c = has_method c' -> Permutation.Permutation (comps c) (comps c') ->
  validate c = validate c'.
Proof. exact validate_perm. Qed.
Print Assumptions C19_order_independent.

(** A VTIMEZONE component without UID, wherever it stands, changes nothing. *)
Theorem C19_timezone_ignored : forall m a b,
  (forall x, In x (a ++ b)%list -> fst x <> ""%string) ->
  validate {| has_method := m; comps := (a ++ ("VTIMEZONE"%string, NoUid) :: b)%list |} =
  validate {| has_method := m; comps := (a ++ b)%list |}.
Proof. exact validate_timezone_ignored. Qed.
Print Assumptions C19_timezone_ignored.

(** A rejection is final: no further component makes a rejected object acceptable. *)
Theorem C19_reject_extends : forall m a b,
  (forall x, In x (a ++ b)%list -> fst x <> ""%string) ->
  validate {| has_method := m; comps := a |} = None ->
  validate {| has_method := m; comps := (a ++ b)%list |} = None.
Proof. exact validate_reject_extends. Qed.
Print Assumptions C19_reject_extends.

(** An object with a single component and no METHOD is accepted with that component's
    type (none for a VTIMEZONE) and UID, unless the UID cannot be decoded. *)
Theorem C19_single_component : forall name u,
  name <> ""%string ->
  validate {| has_method := false; comps := [(name, u)] |} =
  match uid_text u with
  | None => None
  | Some t => Some (if String.eqb name "VTIMEZONE" then ""%string else name, t)
  end.
Proof. exact validate_single. Qed.
Print Assumptions C19_single_component.
