(** ObjectsVariants.v — property C10, the clause "the client reads RFC-conformant
    documents from an independent writer equally": the clients' readers
    (Objects.client_object_list, find_collections, sync_collection) applied to the
    documents of the independent writer ObjRfc.rfc_write. *)
From GW Require Import Base ObjXml Objects ObjRfc ObjCheck ObjectsProofs.

Local Open Scope Z_scope.
Local Open Scope list_scope.

(* ------------------------------------------------------------------ *)
(** * The listed finding C10-foreign-namesake is real *)

(** Codecs for the witness: hrefs, entity tags and payloads are written as they are. *)
Definition toy_codecs : codecs :=
  {| href_enc := fun s => s; href_dec := fun s => Some s;
     etag_enc := fun s => s; etag_dec := fun s => Some s;
     time_enc := dec_of_Z; time_dec := parse_int;
     pay_enc := fun _ s => Some s; pay_dec := fun _ s => Some s;
     status_text := fun _ => "X"%string |}.

(** One resource reported as gone ... *)
Definition kf_doc_plain : wdoc :=
  {| wd_resps := [ {| wr_hrefs := ["/a"%string]; wr_status := Some (404, "Not Found"%string);
                      wr_groups := []; wr_desc := ""; wr_junk := [] |} ];
     wd_token := "t1"; wd_junk := [] |}.
(** ... and the same document with an extension element of another namespace, which
    RFC 4918 section 17 tells a reader to ignore, in front of the href. *)
Definition kf_doc_namesake : wdoc :=
  {| wd_resps := [ {| wr_hrefs := ["/a"%string]; wr_status := Some (404, "Not Found"%string);
                      wr_groups := []; wr_desc := "";
                      wr_junk := [[Elem ("urn:x", "href")%string [] [Text "/b"]]] |} ];
     wd_token := "t1"; wd_junk := [] |}.

Lemma foreign_namesake_refuted :
  foreign_namesake kf_doc_plain kf_doc_namesake = true
  /\ wdoc_rfc_ok kf_doc_plain = true /\ wdoc_rfc_ok kf_doc_namesake = true
  /\ same_content_b toy_codecs (known_for Card CallSync) kf_doc_plain kf_doc_namesake = true
  /\ run_call toy_codecs Card CallSync "/coll/" (rfc_write kf_doc_plain)
     = RSync (COk ("t1"%string, [], ["/a"%string]))
  /\ run_call toy_codecs Card CallSync "/coll/" (rfc_write kf_doc_namesake)
     = RSync (COk ("t1"%string, [], ["/b"%string; "/a"%string])).
Proof. repeat split; vm_compute; reflexivity. Qed.
