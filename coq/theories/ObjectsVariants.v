(** ObjectsVariants.v — property C10, the clause "the client reads RFC-conformant
    documents from an independent writer equally": the clients' readers
    (Objects.client_object_list, find_collections, sync_collection) applied to the
    documents of the independent writer ObjRfc.rfc_write. *)
From GW Require Import Base ObjXml Objects ObjRfc ObjCheck ObjectsProofs.

Local Open Scope Z_scope.
Local Open Scope list_scope.

(* ------------------------------------------------------------------ *)
(** * The listed finding C10-foreign-namesake is real *)

(** Codecs for the witness: hrefs, entity tags and payloads are written as they are. *)
Definition toy_codecs : codecs :=
  {| href_enc := fun s => s; href_dec := fun s => Some s;
     etag_enc := fun s => s; etag_dec := fun s => Some s;
     time_enc := dec_of_Z; time_dec := parse_int;
     pay_enc := fun _ s => Some s; pay_dec := fun _ s => Some s;
     status_text := fun _ => "X"%string |}.

(** One resource reported as gone ... *)
Definition kf_doc_plain : wdoc :=
  {| wd_resps := [ {| wr_hrefs := ["/a"%string]; wr_status := Some (404, "Not Found"%string);
                      wr_groups := []; wr_desc := ""; wr_junk := [] |} ];
     wd_token := "t1"; wd_junk := [] |}.
(** ... and the same document with an extension element of another namespace, which
    RFC 4918 section 17 tells a reader to ignore, in front of the href. *)
Definition kf_doc_namesake : wdoc :=
  {| wd_resps := [ {| wr_hrefs := ["/a"%string]; wr_status := Some (404, "Not Found"%string);
                      wr_groups := []; wr_desc := "";
                      wr_junk := [[Elem ("urn:x", "href")%string [] [Text "/b"]]] |} ];
     wd_token := "t1"; wd_junk := [] |}.

Lemma foreign_namesake_refuted :
  foreign_namesake kf_doc_plain kf_doc_namesake = true
  /\ wdoc_rfc_ok kf_doc_plain = true /\ wdoc_rfc_ok kf_doc_namesake = true
  /\ same_content_b toy_codecs (known_for Card CallSync) kf_doc_plain kf_doc_namesake = true
  /\ run_call toy_codecs Card CallSync "/coll/" (rfc_write kf_doc_plain)
     = RSync (COk ("t1"%string, [], ["/a"%string]))
  /\ run_call toy_codecs Card CallSync "/coll/" (rfc_write kf_doc_namesake)
     = RSync (COk ("t1"%string, [], ["/b"%string; "/a"%string])).
Proof. repeat split; vm_compute; reflexivity. Qed.

(* ------------------------------------------------------------------ *)
(** * Boolean equalities are sound *)

Lemma list_eqb_sound {A} (eqb : A -> A -> bool) :
  (forall x y, eqb x y = true -> x = y) -> forall l1 l2, list_eqb eqb l1 l2 = true -> l1 = l2.
Proof.
  intros H. induction l1 as [|x l1 IH]; intros [|y l2]; cbn; try discriminate; [reflexivity|].
  intros E. apply andb_true_iff in E. destruct E as [E1 E2]. f_equal; [apply H, E1 | apply IH, E2].
Qed.

Lemma attr_eqb_sound a b : attr_eqb a b = true -> a = b.
Proof.
  destruct a as [n1 v1], b as [n2 v2]. unfold attr_eqb. cbn [fst snd]. intros E.
  apply andb_true_iff in E. destruct E as [E1 E2]. apply xname_eqb_eq in E1. apply String.eqb_eq in E2. congruence.
Qed.

Section XtreeInd.
Variable P : xtree -> Prop.
Hypothesis HE : forall n a k, Forall P k -> P (Elem n a k).
Hypothesis HT : forall s, P (Text s).
Hypothesis HC : forall s, P (Comment s).
Fixpoint xtree_ind' (t : xtree) : P t :=
  match t with
  | Elem n a k => HE n a k ((fix go (l : list xtree) : Forall P l :=
                              match l with
                              | [] => Forall_nil P
                              | x :: r => Forall_cons x (xtree_ind' x) (go r)
                              end) k)
  | Text s => HT s
  | Comment s => HC s
  end.
End XtreeInd.

Lemma xtree_eqb_sound : forall a b, xtree_eqb a b = true -> a = b.
Proof.
  induction a as [n1 a1 k1 IH | s1 | s1] using xtree_ind'; intros [n2 a2 k2 | s2 | s2]; cbn [xtree_eqb]; try discriminate.
  - intros E. apply andb_true_iff in E. destruct E as [E E3]. apply andb_true_iff in E. destruct E as [E1 E2].
    apply xname_eqb_eq in E1. apply (list_eqb_sound _ attr_eqb_sound) in E2. subst. f_equal.
    revert k2 E3. induction IH as [|x k1 Hx _ IHk]; intros [|y k2]; try discriminate; [reflexivity|].
    intros E. apply andb_true_iff in E. destruct E as [E1 E2]. f_equal; [apply Hx, E1 | apply IHk, E2].
  - intros E. apply String.eqb_eq in E. congruence.
  - intros E. apply String.eqb_eq in E. congruence.
Qed.

Lemma pair_eqb_sound a b : pair_eqb a b = true -> a = b.
Proof.
  destruct a as [t1 c1], b as [t2 c2]. unfold pair_eqb. cbn [fst snd]. intros E.
  apply andb_true_iff in E. destruct E as [E1 E2]. apply xtree_eqb_sound in E1. apply Z.eqb_eq in E2. congruence.
Qed.

Lemma opt_eqb_sound {A} (eqb : A -> A -> bool) :
  (forall x y, eqb x y = true -> x = y) -> forall a b, opt_eqb eqb a b = true -> a = b.
Proof. intros H [x|] [y|]; cbn; try discriminate; [intros E; f_equal; apply H, E | reflexivity]. Qed.

(* ------------------------------------------------------------------ *)
(** * Junk between the elements of the schema is invisible *)

Lemma kl_block_none l j : forallb (fun t => negb (has_local l t)) j = true -> kids_local l j = [].
Proof.
  induction j as [|t j IH]; cbn [forallb kids_local]; [reflexivity|]. intros E.
  apply andb_true_iff in E. destruct E as [E1 E2].
  destruct t as [[ns m] a k| |]; [|apply IH, E2|apply IH, E2].
  cbn in E1. apply negb_true_iff in E1. rewrite E1. apply IH, E2.
Qed.

Lemma kids_local_cons l x r : kids_local l (x :: r) = kids_local l [x] ++ kids_local l r.
Proof. apply (kids_local_app l [x] r). Qed.

Lemma kl_interleave l junk : (forall j, In j junk -> kids_local l j = []) ->
  forall xs, kids_local l (interleave junk xs) = kids_local l xs.
Proof.
  intros H xs. revert junk H. induction xs as [|x r IH]; intros junk H.
  - destruct junk as [|j jr]; cbn [interleave]; [reflexivity | apply H; left; reflexivity].
  - destruct junk as [|j jr]; cbn [interleave].
    + rewrite kids_local_cons, (kids_local_cons l x r). f_equal. apply IH. intros j [].
    + rewrite kids_local_app, (H j) by (left; reflexivity). cbn [app].
      rewrite kids_local_cons, (kids_local_cons l x r). f_equal. apply IH. intros j' Hj. apply H. right. exact Hj.
Qed.

Lemma junk_local_schema junk ns l :
  junk_local_ok junk = true -> In (ns, l) dav_schema -> forall j, In j junk -> kids_local l j = [].
Proof.
  intros H Hin j Hj. unfold junk_local_ok in H. rewrite forallb_forall in H. specialize (H j Hj).
  apply kl_block_none. rewrite forallb_forall in H |- *. intros t Ht. specialize (H t Ht).
  apply negb_true_iff in H. apply negb_true_iff.
  destruct (has_local l t) eqn:E; [|reflexivity].
  exfalso. apply not_true_iff_false in H. apply H.
  apply existsb_exists. exists (ns, l). split; [exact Hin | exact E].
Qed.

Lemma elem_kids_app a b : elem_kids (a ++ b) = elem_kids a ++ elem_kids b.
Proof. induction a as [|x a IH]; cbn; [reflexivity|]. destruct x; cbn; rewrite IH; reflexivity. Qed.
Lemma elem_kids_block_none j : forallb (fun t => negb (is_elem t)) j = true -> elem_kids j = [].
Proof.
  induction j as [|t j IH]; cbn [forallb elem_kids]; [reflexivity|]. intros E.
  apply andb_true_iff in E. destruct E as [E1 E2]. destruct t; cbn in E1; try discriminate; apply IH, E2.
Qed.
Lemma elem_kids_interleave junk : pjunk_ok junk = true ->
  forall xs, forallb is_elem xs = true -> elem_kids (interleave junk xs) = xs.
Proof.
  intros H xs. revert junk H. induction xs as [|x r IH]; intros junk H HX.
  - destruct junk as [|j jr]; cbn [interleave]; [reflexivity|].
    apply elem_kids_block_none. unfold pjunk_ok in H. cbn [forallb] in H. apply andb_true_iff in H. tauto.
  - cbn [forallb] in HX. apply andb_true_iff in HX. destruct HX as [Hx Hr].
    destruct x as [n a k| |]; try discriminate.
    destruct junk as [|j jr]; cbn [interleave].
    + cbn [elem_kids]. f_equal. apply IH; [reflexivity | exact Hr].
    + unfold pjunk_ok in H. cbn [forallb] in H. apply andb_true_iff in H. destruct H as [Hj Hjr].
      rewrite elem_kids_app, (elem_kids_block_none j Hj). cbn [app elem_kids]. f_equal. apply IH; assumption.
Qed.

(* ------------------------------------------------------------------ *)
(** * The decoder inverts the writer, whatever the layout *)

Lemma status_line_unmarshal old c t :
  code_ok c -> status_unmarshal old ("HTTP/1.1 " ++ dec_of_Z c ++ " " ++ t) = Some {| st_code := c; st_text := t |}.
Proof.
  intros R. unfold status_unmarshal. cbn -[dec_of_Z code3].
  rewrite (split_sp_app (dec_of_Z c) t) by apply dec_of_Z_no_space.
  rewrite code3_dec by exact R. reflexivity.
Qed.

Lemma code3_ok_code c : code3_ok c = true -> code_ok c.
Proof. unfold code3_ok, code_ok. intros H. apply andb_true_iff in H. destruct H as [A B]. apply Z.leb_le in A. apply Z.leb_le in B. lia. Qed.

Lemma mapM_ext {A B} (f g : A -> option B) l : (forall x, f x = g x) -> mapM f l = mapM g l.
Proof. intros H. induction l; cbn; [reflexivity|]. rewrite H, IHl. reflexivity. Qed.

Lemma in_schema l : In l ["response"; "href"; "propstat"; "prop"; "status"; "responsedescription"; "error"; "location"; "sync-token"]%string ->
  In (ns_dav, l) dav_schema.
Proof. intros H. cbn in H. unfold dav_schema, dav. cbn. intuition (subst; auto 12). Qed.

Lemma dec_propstat_wgroup g :
  wgroup_ok g = true -> dec_propstat (root_kids (w_group g)) = Some (ps_of_group g).
Proof.
  intros H. unfold wgroup_ok in H. rewrite !andb_true_iff in H. destruct H as [[[HJ HP] HE] HC].
  unfold w_group. cbn [root_kids]. unfold dec_propstat, dec_error.
  rewrite !(kl_interleave _ (wg_junk g))
    by (eapply junk_local_schema; [exact HJ | apply in_schema; cbn; auto 12]).
  assert (K : kids_local "prop" (if wg_status_first g
                                 then [w_status (wg_code g) (wg_reason g); Elem (dav "prop") [] (interleave (wg_pjunk g) (wg_props g))]
                                 else [Elem (dav "prop") [] (interleave (wg_pjunk g) (wg_props g)); w_status (wg_code g) (wg_reason g)])
              = [(ns_dav, ([], interleave (wg_pjunk g) (wg_props g)))]) by (destruct (wg_status_first g); reflexivity).
  assert (S : kids_local "status" (if wg_status_first g
                                   then [w_status (wg_code g) (wg_reason g); Elem (dav "prop") [] (interleave (wg_pjunk g) (wg_props g))]
                                   else [Elem (dav "prop") [] (interleave (wg_pjunk g) (wg_props g)); w_status (wg_code g) (wg_reason g)])
              = [(ns_dav, ([], [Text ("HTTP/1.1 " ++ dec_of_Z (wg_code g) ++ " " ++ wg_reason g)]))]) by (destruct (wg_status_first g); reflexivity).
  assert (E : kids_local "error" (if wg_status_first g
                                  then [w_status (wg_code g) (wg_reason g); Elem (dav "prop") [] (interleave (wg_pjunk g) (wg_props g))]
                                  else [Elem (dav "prop") [] (interleave (wg_pjunk g) (wg_props g)); w_status (wg_code g) (wg_reason g)])
              = []) by (destruct (wg_status_first g); reflexivity).
  rewrite K, S, E. unfold all_in_ns, dec_status_list.
  cbn [forallb fst snd fold_left chardata flat_map andb]. rewrite String.eqb_refl, append_nil_r.
  rewrite status_line_unmarshal by (apply code3_ok_code, HC).
  rewrite app_nil_r, elem_kids_interleave by assumption. reflexivity.
Qed.

Section Variants.
Variable cd : codecs.

Definition w_resp_kids (r : wresp) : list xtree :=
  map (fun h => Elem (dav "href") [] (text_nodes h)) (wr_hrefs r)
  ++ map w_group (wr_groups r)
  ++ match wr_status r with Some (c, t) => [w_status c t] | None => [] end
  ++ (if str_empty (wr_desc r) then [] else [Elem (dav "responsedescription") [] [Text (wr_desc r)]]).

Lemma kl_wresp_parts l (r : wresp) :
  kids_local l (w_resp_kids r)
  = kids_local l (map (fun h => Elem (dav "href") [] (text_nodes h)) (wr_hrefs r))
    ++ kids_local l (map w_group (wr_groups r))
    ++ kids_local l (match wr_status r with Some (c, t) => [w_status c t] | None => [] end)
    ++ kids_local l (if str_empty (wr_desc r) then [] else [Elem (dav "responsedescription") [] [Text (wr_desc r)]]).
Proof. unfold w_resp_kids. rewrite !kids_local_app. reflexivity. Qed.

Lemma kl_whrefs_same hs :
  kids_local "href" (map (fun h => Elem (dav "href") [] (text_nodes h)) hs) = map (fun h => (ns_dav, ([], text_nodes h))) hs.
Proof. induction hs; cbn; [reflexivity | rewrite IHhs; reflexivity]. Qed.
Lemma kl_whrefs_other l hs : l <> "href"%string ->
  kids_local l (map (fun h => Elem (dav "href") [] (text_nodes h)) hs) = [].
Proof.
  intros D. induction hs; cbn -[String.eqb]; [reflexivity|].
  assert (E : String.eqb "href" l = false) by (apply String.eqb_neq; congruence). rewrite E. assumption.
Qed.
Lemma kl_wgroups_same gs :
  kids_local "propstat" (map w_group gs) = map (fun g => (ns_dav, ([], root_kids (w_group g)))) gs.
Proof. induction gs; cbn; [reflexivity | rewrite IHgs; reflexivity]. Qed.
Lemma kl_wgroups_other l gs : l <> "propstat"%string -> kids_local l (map w_group gs) = [].
Proof.
  intros D. induction gs; cbn -[String.eqb]; [reflexivity|].
  assert (E : String.eqb "propstat" l = false) by (apply String.eqb_neq; congruence). rewrite E. assumption.
Qed.

Definition wstatus_part (s : option (Z * string)) : list xtree :=
  match s with Some (c, t) => [w_status c t] | None => [] end.
Definition wdesc_part (d : string) : list xtree :=
  if str_empty d then [] else [Elem (dav "responsedescription") [] [Text d]].
Lemma kl_wstatus_other l s : l <> "status"%string -> kids_local l (wstatus_part s) = [].
Proof.
  intros D. destruct s as [[c t]|]; [|reflexivity]. cbn -[String.eqb].
  assert (E : String.eqb "status" l = false) by (apply String.eqb_neq; congruence). rewrite E. reflexivity.
Qed.
Lemma kl_wdesc_other l d : l <> "responsedescription"%string -> kids_local l (wdesc_part d) = [].
Proof.
  intros D. unfold wdesc_part. destruct (str_empty d); [reflexivity|]. cbn -[String.eqb].
  assert (E : String.eqb "responsedescription" l = false) by (apply String.eqb_neq; congruence). rewrite E. reflexivity.
Qed.
Lemma kl_wdesc_same d : last_chardata (kids_local "responsedescription" (wdesc_part d)) = d.
Proof.
  unfold wdesc_part. destruct (str_empty d) eqn:E; cbn.
  - apply str_empty_spec in E. congruence.
  - apply append_nil_r.
Qed.

Lemma dec_response_wresp r :
  wresp_ok r = true -> dec_response cd (root_kids (w_resp r)) = resp_opt cd r.
Proof.
  intros H. unfold wresp_ok in H. rewrite !andb_true_iff in H. destruct H as [[HJ HG] HS].
  unfold w_resp. cbn [root_kids]. fold (w_resp_kids r). unfold dec_response, dec_error, dec_location_ok.
  rewrite !(kl_interleave _ (wr_junk r))
    by (eapply junk_local_schema; [exact HJ | apply in_schema; cbn; auto 12]).
  rewrite !kl_wresp_parts. fold (wstatus_part (wr_status r)). fold (wdesc_part (wr_desc r)).
  rewrite kl_whrefs_same, !kl_whrefs_other, kl_wgroups_same, !kl_wgroups_other by discriminate.
  rewrite !(kl_wstatus_other "href"), !(kl_wstatus_other "propstat"), !(kl_wstatus_other "error"),
    !(kl_wstatus_other "location"), !(kl_wstatus_other "responsedescription") by discriminate.
  rewrite !(kl_wdesc_other "href"), !(kl_wdesc_other "propstat"), !(kl_wdesc_other "error"),
    !(kl_wdesc_other "location"), !(kl_wdesc_other "status") by discriminate.
  cbn [app]. rewrite !app_nil_r. rewrite kl_wdesc_same.
  rewrite mapM_map. cbn [snd].
  rewrite (mapM_ext _ (href_dec cd)) by (intros h; rewrite chardata_text_nodes; reflexivity).
  unfold resp_opt. destruct (mapM (href_dec cd) (wr_hrefs r)) as [hs|]; [|reflexivity].
  assert (A : all_in_ns ns_dav (map (fun g => (ns_dav, (@nil (xname * string), root_kids (w_group g)))) (wr_groups r)) = true).
  { unfold all_in_ns. apply forallb_forall. intros x Hx. apply in_map_iff in Hx. destruct Hx as (g & <- & _). reflexivity. }
  rewrite A. rewrite mapM_map. cbn [snd].
  rewrite forallb_forall in HG.
  rewrite (mapM_all_some _ ps_of_group) by (intros g Hg; apply dec_propstat_wgroup, HG, Hg).
  unfold resp_of_wresp, wstatus_part.
  destruct (wr_status r) as [[c t]|] eqn:ES.
  - unfold w_status, all_in_ns, dec_status_list.
    cbn [kids_local forallb fst snd fold_left chardata andb option_map]. cbn [dav ns_dav]. 
    replace (String.eqb "status" "status") with true by reflexivity. cbv iota.
    cbn [fold_left snd chardata]. rewrite append_nil_r.
    rewrite status_line_unmarshal by (apply code3_ok_code; exact HS). reflexivity.
  - reflexivity.
Qed.

Definition wtoken_part (t : string) : list xtree :=
  if str_empty t then [] else [Elem (dav "sync-token") [] [Text t]].
Lemma kl_wresps_same rs :
  kids_local "response" (map w_resp rs) = map (fun r => (ns_dav, ([], root_kids (w_resp r)))) rs.
Proof. induction rs; cbn; [reflexivity | rewrite IHrs; reflexivity]. Qed.
Lemma kl_wresps_other l rs : l <> "response"%string -> kids_local l (map w_resp rs) = [].
Proof.
  intros D. induction rs; cbn -[String.eqb]; [reflexivity|].
  assert (E : String.eqb "response" l = false) by (apply String.eqb_neq; congruence). rewrite E. assumption.
Qed.
Lemma kl_wtoken_response t : kids_local "response" (wtoken_part t) = [].
Proof. unfold wtoken_part. destruct (str_empty t); reflexivity. Qed.
Lemma kl_wtoken_same t : last_chardata (kids_local "sync-token" (wtoken_part t)) = t.
Proof.
  unfold wtoken_part. destruct (str_empty t) eqn:E; cbn.
  - apply str_empty_spec in E. congruence.
  - apply append_nil_r.
Qed.

(** Whatever the layout, the decoder of internal/elements.go recovers from a document of
    the independent writer exactly its content. *)
Theorem dec_multistatus_wdoc d :
  wdoc_ok d = true -> dec_multistatus cd (rfc_write d) = ms_opt cd d.
Proof.
  intros H. unfold wdoc_ok in H. apply andb_true_iff in H. destruct H as [HJ HR].
  unfold rfc_write, dec_multistatus.
  replace (xname_eqb (dav "multistatus") (dav "multistatus")) with true by reflexivity.
  fold (wtoken_part (wd_token d)).
  rewrite !(kl_interleave _ (wd_junk d))
    by (eapply junk_local_schema; [exact HJ | apply in_schema; cbn; auto 12]).
  rewrite !kids_local_app, kl_wresps_same, (kl_wresps_other "sync-token"), kl_wtoken_response by discriminate.
  rewrite app_nil_r. cbn [app]. rewrite kl_wtoken_same.
  assert (A : all_in_ns ns_dav (map (fun r => (ns_dav, (@nil (xname * string), root_kids (w_resp r)))) (wd_resps d)) = true).
  { unfold all_in_ns. apply forallb_forall. intros x Hx. apply in_map_iff in Hx. destruct Hx as (g & <- & _). reflexivity. }
  rewrite A. rewrite mapM_map. cbn [snd].
  rewrite forallb_forall in HR. unfold ms_opt.
  assert (E : mapM (fun x => dec_response cd (root_kids (w_resp x))) (wd_resps d) = mapM (resp_opt cd) (wd_resps d)).
  { revert HR. generalize (wd_resps d). induction l as [|r l IH]; intros HR; cbn [mapM]; [reflexivity|].
    rewrite dec_response_wresp by (apply HR; left; reflexivity).
    rewrite IH by (intros x Hx; apply HR; right; exact Hx). reflexivity. }
  rewrite E. reflexivity.
Qed.

(* ------------------------------------------------------------------ *)
(** * What the clients read depends on the content only *)

Lemma find_hd {A} (f : A -> bool) l : find f l = hd_error (filter f l).
Proof. induction l as [|x l IH]; cbn; [reflexivity|]. destruct (f x); [reflexivity | exact IH]. Qed.
Lemma hd_error_app {A} (a b : list A) :
  hd_error (a ++ b) = match hd_error a with Some x => Some x | None => hd_error b end.
Proof. destruct a; reflexivity. Qed.
Lemma filter_map_pair (n : xname) (c : Z) (props : list xtree) :
  filter (fun e : xtree * Z => has_name n (fst e)) (map (fun p => (p, c)) props)
  = map (fun p => (p, c)) (filter (has_name n) props).
Proof. induction props as [|p l IH]; cbn; [reflexivity|]. destruct (has_name n p); cbn; rewrite IH; reflexivity. Qed.

(** the first answer for a name, as the client's DecodeProp finds it *)
Lemma lookup_groups n (gs : list wgroup) :
  lookup n (map ps_of_group gs)
  = hd_error (filter (fun e : xtree * Z => has_name n (fst e)) (flat_map flat_group gs)).
Proof.
  induction gs as [|g gs IH]; [reflexivity|].
  cbn [map flat_map]. rewrite lookup_cons, filter_app, hd_error_app, <- IH.
  unfold flat_group. rewrite filter_map_pair. cbn [ps_of_group ps_props ps_status st_code].
  rewrite find_hd. destruct (filter (has_name n) (wg_props g)); reflexivity.
Qed.

Definition resp_sim (known : list xname) (r1 r2 : response) : Prop :=
  r_hrefs r1 = r_hrefs r2 /\ response_err r1 = response_err r2
  /\ forall n, In n known -> lookup n (r_propstats r1) = lookup n (r_propstats r2).

Lemma decode_prop_raw_lookup' r n :
  decode_prop_raw r n
  = match response_err r with
    | Some c => CHttp c
    | None => match lookup n (r_propstats r) with
              | Some (raw, c) => if Z.quot c 100 =? 2 then COk raw else CHttp c
              | None => CHttp 404
              end
    end.
Proof.
  unfold decode_prop_raw, lookup. destruct (response_err r); [reflexivity|].
  destruct (find_prop n (r_propstats r)) as [[raw st]|]; reflexivity.
Qed.

Lemma decode_prop_raw_sim known r1 r2 n :
  resp_sim known r1 r2 -> In n known -> decode_prop_raw r1 n = decode_prop_raw r2 n.
Proof. intros (_ & HE & HL) Hn. rewrite !decode_prop_raw_lookup', HE, (HL n Hn). reflexivity. Qed.
Lemma response_path_sim known r1 r2 : resp_sim known r1 r2 -> response_path r1 = response_path r2.
Proof. intros (HH & HE & _). unfold response_path. rewrite HH, HE. reflexivity. Qed.

Lemma decode_object_sim fl r1 r2 :
  resp_sim (known_for fl CallObjects) r1 r2 -> decode_object cd fl r1 = decode_object cd fl r2.
Proof.
  intros S. unfold decode_object. rewrite (response_path_sim _ _ _ S).
  rewrite !(decode_prop_raw_sim _ r1 r2) by (try exact S; cbn; auto). reflexivity.
Qed.
Lemma find_one_sim fl r1 r2 :
  resp_sim (known_for fl CallFind) r1 r2 -> find_one fl r1 = find_one fl r2.
Proof.
  intros S. unfold find_one. rewrite (response_path_sim _ _ _ S).
  destruct fl.
  - rewrite (decode_prop_raw_sim _ r1 r2 n_resourcetype S), (decode_prop_raw_sim _ r1 r2 (desc_name Cal) S),
      (decode_prop_raw_sim _ r1 r2 n_displayname S), (decode_prop_raw_sim _ r1 r2 (maxsize_name Cal) S),
      (decode_prop_raw_sim _ r1 r2 n_compset S) by (cbn; auto 10). reflexivity.
  - rewrite (decode_prop_raw_sim _ r1 r2 n_resourcetype S), (decode_prop_raw_sim _ r1 r2 (desc_name Card) S),
      (decode_prop_raw_sim _ r1 r2 n_displayname S), (decode_prop_raw_sim _ r1 r2 (maxsize_name Card) S),
      (decode_prop_raw_sim _ r1 r2 n_adata_types S) by (cbn; auto 10). reflexivity.
Qed.
Lemma sync_one_sim fl reqpath r1 r2 :
  resp_sim (known_for fl CallSync) r1 r2 -> sync_one cd reqpath r1 = sync_one cd reqpath r2.
Proof.
  intros S. unfold sync_one. rewrite (response_path_sim _ _ _ S).
  rewrite !(decode_prop_raw_sim _ r1 r2) by (try exact S; cbn; auto).
  destruct S as (HH & _ & _). rewrite HH. reflexivity.
Qed.

Lemma Forall2_weaken {A B} (P Q : A -> B -> Prop) l1 l2 :
  (forall a b, P a b -> Q a b) -> Forall2 P l1 l2 -> Forall2 Q l1 l2.
Proof. intros H. induction 1; constructor; auto. Qed.
Lemma mapC_sim {A B} (f : A -> cres B) l1 l2 : Forall2 (fun a b => f a = f b) l1 l2 -> mapC f l1 = mapC f l2.
Proof. induction 1; cbn; [reflexivity|]. rewrite H, IHForall2. reflexivity. Qed.

Lemma mapM_of_map {A B} (f : A -> option B) l1 l2 : map f l1 = map f l2 -> mapM f l1 = mapM f l2.
Proof.
  revert l2. induction l1 as [|x l1 IH]; intros [|y l2] E; cbn in E; try discriminate; [reflexivity|].
  inversion E as [[E1 E2]]. cbn. rewrite E1, (IH l2 E2). reflexivity.
Qed.

(** two writer responses with the same content decode to similar responses *)
Lemma same_resp_sim known w1 w2 :
  same_resp_b cd known w1 w2 = true ->
  match resp_opt cd w1, resp_opt cd w2 with
  | Some r1, Some r2 => resp_sim known r1 r2
  | None, None => True
  | _, _ => False
  end.
Proof.
  intros H. unfold same_resp_b in H. rewrite !andb_true_iff in H. destruct H as [[HH HS] HA].
  apply (list_eqb_sound _ (opt_eqb_sound _ (fun x y E => proj1 (String.eqb_eq x y) E))) in HH.
  apply mapM_of_map in HH. unfold resp_opt. rewrite HH.
  destruct (mapM (href_dec cd) (wr_hrefs w2)) as [hs|]; [|exact I].
  split; [reflexivity|]. split.
  - unfold response_err, resp_of_wresp. cbn [r_status].
    apply (opt_eqb_sound _ (fun x y E => proj1 (Z.eqb_eq x y) E)) in HS.
    destruct (wr_status w1) as [[c1 t1]|], (wr_status w2) as [[c2 t2]|]; cbn in HS |- *; try discriminate; [|reflexivity].
    inversion HS. subst. reflexivity.
  - intros n Hn. unfold resp_of_wresp. cbn [r_propstats]. rewrite !lookup_groups.
    rewrite forallb_forall in HA. specialize (HA n Hn). apply (list_eqb_sound _ pair_eqb_sound) in HA.
    unfold answers_for, flat_resp in HA. rewrite HA. reflexivity.
Qed.

Lemma list_eqb_forall2 {A} (eqb : A -> A -> bool) l1 l2 :
  list_eqb eqb l1 l2 = true -> Forall2 (fun a b => eqb a b = true) l1 l2.
Proof.
  revert l2. induction l1 as [|x l1 IH]; intros [|y l2]; cbn; try discriminate; [constructor|].
  intros E. apply andb_true_iff in E. destruct E. constructor; auto.
Qed.

Lemma same_content_decodes known d1 d2 :
  same_content_b cd known d1 d2 = true ->
  match ms_opt cd d1, ms_opt cd d2 with
  | Some m1, Some m2 => ms_sync_token m1 = ms_sync_token m2
                        /\ Forall2 (resp_sim known) (ms_responses m1) (ms_responses m2)
  | None, None => True
  | _, _ => False
  end.
Proof.
  intros H. unfold same_content_b in H. apply andb_true_iff in H. destruct H as [HT HR].
  apply String.eqb_eq in HT. apply list_eqb_forall2 in HR. unfold ms_opt. rewrite HT.
  assert (G : match mapM (resp_opt cd) (wd_resps d1), mapM (resp_opt cd) (wd_resps d2) with
              | Some rs1, Some rs2 => Forall2 (resp_sim known) rs1 rs2
              | None, None => True
              | _, _ => False
              end).
  { induction HR as [|w1 w2 l1 l2 HW _ IH]; cbn [mapM]; [constructor|].
    pose proof (same_resp_sim known w1 w2 HW) as S.
    destruct (resp_opt cd w1) as [r1|], (resp_opt cd w2) as [r2|]; try contradiction; [|exact I].
    destruct (mapM (resp_opt cd) l1) as [rs1|], (mapM (resp_opt cd) l2) as [rs2|]; try contradiction; [|exact I].
    constructor; assumption. }
  destruct (mapM (resp_opt cd) (wd_resps d1)), (mapM (resp_opt cd) (wd_resps d2)); try contradiction; [|exact I].
  split; [reflexivity | exact G].
Qed.

(** The clients read two conformant layouts of the same content alike: any split of the
    properties over propstat elements, any order, unknown extra properties, comments, white
    space and extension elements between the known ones, any reason phrases, any spelling
    of an href that denotes the same path — except for the listed finding
    C10-foreign-namesake ([wdoc_ok] rules out extension elements that share their LOCAL
    name with an element of the multi-status schema). *)
Theorem client_reads_variants fl c reqpath d1 d2 :
  wdoc_ok d1 = true -> wdoc_ok d2 = true ->
  same_content_b cd (known_for fl c) d1 d2 = true ->
  run_call cd fl c reqpath (rfc_write d1) = run_call cd fl c reqpath (rfc_write d2).
Proof.
  intros W1 W2 HS. pose proof (same_content_decodes _ _ _ HS) as D.
  unfold run_call, client_object_list, find_collections, sync_collection, decode_object_list.
  rewrite !dec_multistatus_wdoc by assumption.
  destruct (ms_opt cd d1) as [m1|], (ms_opt cd d2) as [m2|]; try contradiction; [|destruct c; reflexivity].
  destruct D as [DT DR]. destruct c.
  - f_equal. apply mapC_sim. eapply Forall2_weaken; [|exact DR]. intros a b. apply decode_object_sim.
  - f_equal. f_equal. apply mapC_sim. eapply Forall2_weaken; [|exact DR]. intros a b. apply find_one_sim.
  - f_equal. rewrite DT.
    rewrite (mapC_sim (sync_one cd reqpath) (ms_responses m1) (ms_responses m2))
      by (eapply Forall2_weaken; [|exact DR]; intros a b; apply (sync_one_sim fl)).
    reflexivity.
Qed.

(** What a client returns for a conformant document is what the per-resource reading
    returns on its content ([content_call], the oracle's expectation for such documents). *)
Theorem client_reads_content fl c reqpath d :
  wdoc_ok d = true -> run_call cd fl c reqpath (rfc_write d) = content_call cd fl c reqpath d.
Proof.
  intros W. unfold run_call, content_call, client_object_list, find_collections, sync_collection.
  rewrite dec_multistatus_wdoc by exact W.
  destruct (ms_opt cd d); destruct c; reflexivity.
Qed.

Corollary client_reads_variants_kf fl c reqpath d1 d2 :
  foreign_namesake d1 d2 = false ->
  same_content_b cd (known_for fl c) d1 d2 = true ->
  run_call cd fl c reqpath (rfc_write d1) = run_call cd fl c reqpath (rfc_write d2).
Proof.
  intros K. unfold foreign_namesake in K. apply negb_false_iff in K. apply andb_true_iff in K. destruct K.
  apply client_reads_variants; assumption.
Qed.

(* ------------------------------------------------------------------ *)
(** * SyncCollection on a conformant sync-collection answer (RFC 6578 section 3.5) *)

Inductive member := Changed (path etag : string) (sec : Z) | Gone (path : string).

Definition sync_resp (m : member) : wresp :=
  match m with
  | Changed p e s =>
    {| wr_hrefs := [href_enc cd p]; wr_status := None;
       wr_groups := [ {| wg_code := 200; wg_reason := "OK";
                         wg_props := [simple n_getlastmodified (time_enc cd s); simple n_getetag (etag_enc cd e)];
                         wg_status_first := false; wg_junk := []; wg_pjunk := [] |} ];
       wr_desc := ""; wr_junk := [] |}
  | Gone p =>
    {| wr_hrefs := [href_enc cd p]; wr_status := Some (404, "Not Found"%string);
       wr_groups := []; wr_desc := ""; wr_junk := [] |}
  end.
Definition sync_doc (members : list member) (token : string) : wdoc :=
  {| wd_resps := map sync_resp members; wd_token := token; wd_junk := [] |}.
Definition sync_item_of (m : member) : sync_item :=
  match m with Changed p e s => Updated p e s | Gone p => Deleted p end.

(** the codecs round-trip the member's values, and it is not the collection itself *)
Definition member_ok (reqpath : string) (m : member) : Prop :=
  match m with
  | Changed p e s =>
    href_dec cd (href_enc cd p) = Some p /\ etag_dec cd (etag_enc cd e) = Some e /\ time_dec cd (time_enc cd s) = Some s
    /\ p <> reqpath /\ reqpath <> (p ++ "/")%string
  | Gone p => href_dec cd (href_enc cd p) = Some p
  end.

Lemma sync_doc_ok members token : wdoc_ok (sync_doc members token) = true.
Proof.
  unfold wdoc_ok, sync_doc. cbn [wd_junk wd_resps]. apply andb_true_iff. split; [reflexivity|].
  apply forallb_forall. intros r Hr. apply in_map_iff in Hr. destruct Hr as (m & <- & _). destruct m; reflexivity.
Qed.

Lemma sync_one_member reqpath m :
  member_ok reqpath m ->
  exists r, resp_opt cd (sync_resp m) = Some r /\ sync_one cd reqpath r = COk [sync_item_of m].
Proof.
  destruct m as [p e s | p]; cbn [member_ok].
  - intros (HP & HE & HT & N1 & N2). unfold resp_opt. cbn [sync_resp wr_hrefs mapM]. rewrite HP.
    eexists. split; [reflexivity|].
    unfold sync_one, response_path, response_err, resp_of_wresp. cbn [r_hrefs r_status wr_status option_map].
    apply String.eqb_neq in N1. apply String.eqb_neq in N2. rewrite N1, N2. cbn [orb].
    rewrite !decode_prop_raw_lookup'. unfold response_err. cbn [r_status r_propstats wr_groups map].
    unfold lookup. cbn [find_prop ps_of_group ps_props ps_status wg_props wg_code wg_reason].
    replace (find (has_name n_getlastmodified) [simple n_getlastmodified (time_enc cd s); simple n_getetag (etag_enc cd e)])
      with (Some (simple n_getlastmodified (time_enc cd s))) by reflexivity.
    replace (find (has_name n_getetag) [simple n_getlastmodified (time_enc cd s); simple n_getetag (etag_enc cd e)])
      with (Some (simple n_getetag (etag_enc cd e))) by reflexivity.
    cbn [option_map fst snd st_code]. change (Z.quot 200 100 =? 2) with true. cbv iota.
    assert (SC : forall n x, chardata (root_kids (simple n x)) = x) by (intros n x; exact (chardata_text_nodes x)).
    unfold optional, dec_time, dec_etag. rewrite !SC, HT, HE. reflexivity.
  - intros HP. unfold resp_opt. cbn [sync_resp wr_hrefs mapM]. rewrite HP.
    eexists. split; [reflexivity|]. reflexivity.
Qed.

(** SyncCollection returns the token, the changed members with entity tag and instant,
    and the removed members, in document order. *)
Theorem sync_reads_canonical reqpath members token :
  (forall m, In m members -> member_ok reqpath m) ->
  sync_collection cd reqpath (rfc_write (sync_doc members token)) = COk (token, map sync_item_of members).
Proof.
  intros H. unfold sync_collection. rewrite dec_multistatus_wdoc by apply sync_doc_ok.
  unfold ms_opt, sync_doc. cbn [wd_resps wd_token].
  assert (G : exists rs, mapM (resp_opt cd) (map sync_resp members) = Some rs
                         /\ mapC (sync_one cd reqpath) rs = COk (map (fun m => [sync_item_of m]) members)).
  { induction members as [|m l IH]; [exists []; split; reflexivity|].
    destruct (sync_one_member reqpath m (H m (or_introl eq_refl))) as (r & E1 & E2).
    destruct IH as (rs & E3 & E4); [intros x Hx; apply H; right; exact Hx|].
    exists (r :: rs). split.
    - cbn [map mapM]. rewrite E1, E3. reflexivity.
    - cbn [mapC map]. rewrite E2. cbn [bindc]. rewrite E4. reflexivity. }
  destruct G as (rs & E1 & E2). rewrite E1. cbn [ms_responses ms_sync_token]. rewrite E2. cbn [bindc].
  f_equal. f_equal. clear. induction members; cbn; [reflexivity | rewrite IHmembers; reflexivity].
Qed.

End Variants.
