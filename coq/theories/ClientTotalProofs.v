(** ClientTotalProofs.v — proofs about ClientTotal.v (C14): the model of the client methods
    against the specification written from the property text. *)
From GW Require Import Base ClientTotal.

(** * Small facts *)

Lemma success_not_404 c : success c = true -> (c =? 404)%N = false.
Proof.
  intros H. destruct (c =? 404)%N eqn:E; [|reflexivity].
  apply N.eqb_eq in E. subst c. discriminate H.
Qed.

Lemma success_207 : success 207%N = true.
Proof. reflexivity. Qed.

Lemma cbind_ok {A B} (x : cres A) (f : A -> cres B) b :
  cbind x f = COk b -> exists a, x = COk a /\ f a = COk b.
Proof. destruct x; simpl; intros H; try discriminate. eauto. Qed.

Lemma cbind_not_ok {A B} (x : cres A) (f : A -> cres B) :
  c_is_ok x = false -> c_is_ok (cbind x f) = false.
Proof. destruct x; simpl; congruence. Qed.

(** * DecodeProp against "what the multi-status reports about the property" *)

Lemma resp_err_success r : resp_success r = true -> resp_err r = None.
Proof. unfold resp_success, resp_err. destruct (r_status r); [intros ->|]; reflexivity. Qed.

Lemma resp_err_failure r : resp_success r = false -> exists c, resp_err r = Some (EHttp c (r_error r)) /\ r_status r = Some c /\ success c = false.
Proof.
  unfold resp_success, resp_err. destruct (r_status r) as [c|]; [|discriminate].
  intros H. rewrite H. eauto.
Qed.

Lemma decode_prop_cases {A} r n (dec : xtree -> option A) :
  resp_success r = true ->
  (exists a, decode_prop r n dec = COk a /\ prop_good r n dec = true /\ the_value r n dec = Some a) \/
  (exists e, decode_prop r n dec = CErr e /\ prop_good r n dec = false /\ is_not_found e = prop_absent r n).
Proof.
  intros H. unfold decode_prop, prop_good, prop_absent, the_value.
  rewrite (resp_err_success r H).
  destruct (find_prop n (r_pss r)) as [[ps raw]|].
  - unfold status_err. destruct (success (ps_status ps)) eqn:S.
    + destruct (dec raw) as [a|].
      * left. exists a. auto.
      * right. exists EOther. simpl. rewrite (success_not_404 _ S). auto.
    + right. exists (EHttp (ps_status ps) None). simpl. auto.
  - right. exists (EHttp 404 None). simpl. auto.
Qed.

Lemma decode_prop_failed_entry {A} r n (dec : xtree -> option A) :
  resp_success r = false -> exists e, decode_prop r n dec = CErr e.
Proof.
  intros H. destruct (resp_err_failure r H) as (c & E & _ & _).
  unfold decode_prop. rewrite E. eauto.
Qed.

Lemma decode_prop_no_panic {A} r n (dec : xtree -> option A) : decode_prop r n dec <> CPanic.
Proof.
  destruct (resp_success r) eqn:H.
  - destruct (decode_prop_cases r n dec H) as [(a & E & _)|(e & E & _)]; rewrite E; discriminate.
  - destruct (decode_prop_failed_entry r n dec H) as (e & E). rewrite E. discriminate.
Qed.

(** an optional property: tolerated when absent *)
Lemma tolerate_cases {A} r n (dec : xtree -> option A) z :
  resp_success r = true ->
  (exists a, tolerate (decode_prop r n dec) z = COk a /\ prop_opt r n dec = true /\
             a = (if prop_good r n dec then match the_value r n dec with Some v => v | None => z end else z)) \/
  (exists e, tolerate (decode_prop r n dec) z = CErr e /\ prop_opt r n dec = false).
Proof.
  intros H. unfold prop_opt.
  destruct (decode_prop_cases r n dec H) as [(a & E & G & V)|(e & E & G & N)]; rewrite E, G; simpl.
  - left. exists a. rewrite V. auto.
  - rewrite <- N. destruct (is_not_found e); [left; exists z|right; exists e]; auto.
Qed.

(** * One entry of a multi-status *)

Lemma entry_ok_success r : entry_ok r = true -> resp_success r = true.
Proof. unfold entry_ok. intros H. apply andb_true_iff in H. tauto. Qed.

Lemma resp_path_cases r :
  (entry_ok r = true /\ resp_path r = (first_href r, None)) \/
  (entry_ok r = false /\ exists p e, resp_path r = (p, Some e)).
Proof.
  unfold entry_ok, resp_path, one_href, first_href.
  destruct (resp_success r) eqn:S.
  - rewrite (resp_err_success r S).
    destruct (r_hrefs r) as [|p [|q l]]; simpl; eauto 6.
  - destruct (resp_err_failure r S) as (c & E & _). rewrite E.
    destruct (r_hrefs r) as [|p [|q l]]; simpl; eauto 6.
Qed.

Ltac use_prop H n dec :=
  let a := fresh "a" in let e := fresh "e" in
  let E := fresh "E" in let G := fresh "G" in let V := fresh "V" in
  destruct (decode_prop_cases _ n dec H) as [(a & E & G & V)|(e & E & G & V)];
  rewrite E, ?G; cbn [cbind c_is_ok andb orb negb].

Ltac use_opt H n dec z :=
  let a := fresh "a" in let e := fresh "e" in
  let E := fresh "E" in let O := fresh "O" in let V := fresh "V" in
  destruct (tolerate_cases _ n dec z H) as [(a & E & O & V)|(e & E & O)];
  rewrite E, ?O; cbn [cbind c_is_ok andb orb negb].

(** fileInfoFromResponse *)
Lemma file_info_ok r : c_is_ok (file_info r) = spec_file_ok r.
Proof.
  unfold file_info, spec_file_ok.
  destruct (resp_path_cases r) as [(E & P)|(E & p & e & P)]; rewrite P, E; [|reflexivity].
  pose proof (entry_ok_success r E) as H. cbn [andb].
  use_prop H n_resourcetype dec_restype; [|reflexivity].
  unfold is_collection. rewrite V.
  destruct (has_name n_collection a); cbn [cbind c_is_ok andb orb negb].
  - use_opt H n_getlastmodified dec_good tt; reflexivity.
  - use_prop H n_getcontentlength dec_int; [|reflexivity].
    use_opt H n_getcontenttype dec_any tt; [|reflexivity].
    use_opt H n_getetag dec_good tt; [|reflexivity].
    use_opt H n_getlastmodified dec_good tt; reflexivity.
Qed.

Lemma file_info_val r o : file_info r = COk o -> o = first_href r.
Proof.
  unfold file_info.
  destruct (resp_path_cases r) as [(E & P)|(E & p & e & P)]; rewrite P; [|discriminate].
  intros H.
  repeat (apply cbind_ok in H; destruct H as (? & _ & H)).
  congruence.
Qed.

Lemma file_info_no_panic r : file_info r <> CPanic.
Proof.
  intros H. pose proof (file_info_ok r) as K. 
  unfold file_info in H.
  destruct (resp_path_cases r) as [(E & P)|(E & p & e & P)]; rewrite P in H; [|discriminate].
  pose proof (entry_ok_success r E) as S.
  destruct (decode_prop_cases r n_resourcetype dec_restype S) as [(a & E1 & _)|(e & E1 & _)]; rewrite E1 in H; cbn [cbind] in H; [|discriminate].
  destruct (has_name n_collection a); cbn [cbind] in H.
  - destruct (tolerate_cases r n_getlastmodified dec_good tt S) as [(x & T & _)|(x & T & _)]; rewrite T in H; discriminate.
  - destruct (decode_prop_cases r n_getcontentlength dec_int S) as [(b & E2 & _)|(e & E2 & _)]; rewrite E2 in H; cbn [cbind] in H; [|discriminate].
    destruct (tolerate_cases r n_getcontenttype dec_any tt S) as [(x & T & _)|(x & T & _)]; rewrite T in H; cbn [cbind] in H; [|discriminate].
    destruct (tolerate_cases r n_getetag dec_good tt S) as [(y & T2 & _)|(y & T2 & _)]; rewrite T2 in H; cbn [cbind] in H; [|discriminate].
    destruct (tolerate_cases r n_getlastmodified dec_good tt S) as [(z & T3 & _)|(z & T3 & _)]; rewrite T3 in H; discriminate.
Qed.

Lemma cbind_np {A B} (x : cres A) (f : A -> cres B) :
  x <> CPanic -> (forall a, f a <> CPanic) -> cbind x f <> CPanic.
Proof. destruct x; simpl; auto; congruence. Qed.

Lemma tolerate_np {A} (x : cres A) z : x <> CPanic -> tolerate x z <> CPanic.
Proof. destruct x as [a|e|]; simpl; auto; try congruence. destruct (is_not_found e); congruence. Qed.

Ltac np :=
  repeat first
    [ apply decode_prop_no_panic
    | apply tolerate_np
    | (apply cbind_np; [|intros])
    | discriminate ].

(** FindCalendars / FindAddressBooks: one entry *)
Definition collection_val (n_type : qname) (r : response) : option string :=
  if has_type n_type r then Some (first_href r) else None.

Lemma collection_item_ok nt nd ns nsu ds r :
  c_is_ok (collection_item nt nd ns nsu ds r) = spec_collection_ok nt nd ns nsu ds r.
Proof.
  unfold collection_item, spec_collection_ok.
  destruct (resp_path_cases r) as [(E & P)|(E & p & e & P)]; rewrite P, E; [|reflexivity].
  pose proof (entry_ok_success r E) as H. cbn [andb].
  use_prop H n_resourcetype dec_restype; [|reflexivity].
  unfold has_type. rewrite V.
  destruct (has_name nt a); cbn [cbind c_is_ok andb orb negb]; [|reflexivity].
  use_opt H nd dec_any tt; [|reflexivity].
  use_opt H n_displayname dec_any tt; [|reflexivity].
  use_opt H ns dec_int false; [|reflexivity].
  unfold size_nonneg. subst a2.
  destruct (prop_good r ns dec_int).
  - destruct (the_value r ns dec_int) as [[|]|]; cbn [cbind c_is_ok andb orb negb]; try reflexivity;
      use_opt H nsu ds tt; reflexivity.
  - cbn [cbind c_is_ok andb orb negb]. use_opt H nsu ds tt; reflexivity.
Qed.

Lemma collection_item_val nt nd ns nsu ds r o :
  collection_item nt nd ns nsu ds r = COk o -> o = collection_val nt r.
Proof.
  unfold collection_item, collection_val.
  destruct (resp_path_cases r) as [(E & P)|(E & p & e & P)]; rewrite P; [|discriminate].
  pose proof (entry_ok_success r E) as H.
  destruct (decode_prop_cases r n_resourcetype dec_restype H) as [(a & E1 & G & V)|(e & E1 & _)];
    rewrite E1; cbn [cbind]; [|discriminate].
  unfold has_type. rewrite V.
  destruct (has_name nt a); cbn [negb]; [|congruence].
  intros K.
  repeat (apply cbind_ok in K; destruct K as (? & _ & K)).
  destruct x1; [discriminate|].
  repeat (apply cbind_ok in K; destruct K as (? & _ & K)).
  congruence.
Qed.

Lemma collection_item_no_panic nt nd ns nsu ds r : collection_item nt nd ns nsu ds r <> CPanic.
Proof.
  unfold collection_item. destruct (resp_path r) as [p [e|]]; [discriminate|].
  np. destruct (negb (has_name nt a)); [discriminate|]. np.
  destruct a2; np.
Qed.

(** decodeCalendarObjectList / decodeAddressList: one entry *)
Lemma prop_good_any r n :
  prop_good r n (fun t => Some (xann t)) = prop_good r n dec_any.
Proof. unfold prop_good. destruct (find_prop n (r_pss r)) as [[ps raw]|]; reflexivity. Qed.

Lemma object_item_ok g nd r : c_is_ok (object_item g nd r) = spec_object_ok nd r.
Proof.
  unfold object_item, spec_object_ok.
  destruct (resp_path_cases r) as [(E & P)|(E & p & e & P)]; rewrite P, E; [|reflexivity].
  pose proof (entry_ok_success r E) as H. cbn [andb].
  rewrite <- prop_good_any. unfold data_parses.
  use_prop H nd (fun t => Some (xann t)); [|reflexivity].
  rewrite V.
  use_opt H n_getlastmodified dec_good tt; [|destruct a; reflexivity].
  use_opt H n_getetag dec_good tt; [|destruct a; reflexivity].
  use_opt H n_getcontentlength dec_int false; destruct a, g; reflexivity.
Qed.

Lemma object_item_val g nd r o : object_item g nd r = COk o -> o = Some (first_href r).
Proof.
  unfold object_item.
  destruct (resp_path_cases r) as [(E & P)|(E & p & e & P)]; rewrite P; [|discriminate].
  intros K.
  repeat (apply cbind_ok in K; destruct K as (? & _ & K)).
  destruct x, g; congruence.
Qed.

(** the only place where a multi-status can make a client panic: a third-party decoder
    that is called unguarded *)
Lemma object_item_no_panic g nd r :
  g = true \/
  forallb (fun ps => forallb (fun raw => negb (qeq (xname raw) nd && is_lpanic (xann raw))) (ps_props ps)) (r_pss r) = true ->
  object_item g nd r <> CPanic.
Proof.
  intros F. unfold object_item. destruct (resp_path_cases r) as [(E & P)|(E & p & e & P)]; rewrite P; [|discriminate].
  pose proof (entry_ok_success r E) as H.
  destruct (decode_prop_cases r nd (fun t => Some (xann t)) H) as [(a & E1 & G & V)|(e & E1 & _)];
    rewrite E1; cbn [cbind]; [|discriminate].
  np.
  destruct F as [->|F]; [destruct a; discriminate|].
  assert (is_lpanic a = false) as NP.
  { unfold the_value in V. revert F V. generalize (r_pss r). induction l as [|ps l IH]; simpl; [discriminate|].
    intros F. apply andb_true_iff in F. destruct F as [F1 F2].
    unfold prop_get. destruct (find (fun t => qeq (xname t) nd) (ps_props ps)) as [raw|] eqn:Fd.
    - intros V. injection V as <-. apply find_some in Fd. destruct Fd as [In Q].
      rewrite forallb_forall in F1. specialize (F1 _ In). rewrite Q in F1. now apply negb_true_iff in F1.
    - apply IH. exact F2. }
  destruct a, g; try discriminate.
Qed.

(** SyncCollection: one entry *)
Definition sync_val (path : string) (r : response) : option sync_item :=
  if is_deletion r then Some (SDeleted (r_hrefs r))
  else if is_self path r then None else Some (SUpdated (first_href r)).

Lemma is_deletion_not_entry r : is_deletion r = true -> entry_ok r = false.
Proof.
  unfold is_deletion, entry_ok, resp_success. destruct (r_status r) as [c|]; [|discriminate].
  intros H. apply andb_true_iff in H. destruct H as [H _]. apply N.eqb_eq in H. subst c. reflexivity.
Qed.

Lemma sync_one_spec path r :
  (spec_sync_ok path r = true -> sync_one path r = COk (sync_val path r)) /\
  (spec_sync_ok path r = false -> exists e, sync_one path r = CErr e).
Proof.
  unfold sync_one, spec_sync_ok, sync_val.
  destruct (resp_path_cases r) as [(E & P)|(E & p & e & P)]; rewrite P.
  - assert (is_deletion r = false) as D.
    { destruct (is_deletion r) eqn:D; [|reflexivity]. apply is_deletion_not_entry in D. congruence. }
    rewrite D, E. cbn [orb andb]. unfold is_self.
    pose proof (entry_ok_success r E) as H.
    destruct (String.eqb (first_href r) path || String.eqb path (first_href r ++ "/")); [split; [reflexivity|discriminate]|].
    cbn [orb].
    destruct (tolerate_cases r n_getlastmodified dec_good tt H) as [(a & T & O & _)|(x & T & O)]; rewrite T, O; cbn [cbind andb].
    + destruct (tolerate_cases r n_getetag dec_good tt H) as [(b & T2 & O2 & _)|(x & T2 & O2)]; rewrite T2, O2; cbn [cbind andb].
      * split; [reflexivity|discriminate].
      * split; [discriminate|eauto].
    + split; [discriminate|eauto].
  - rewrite E. cbn [andb orb]. rewrite orb_false_r.
    (* the error of Path() is the response's own status error, or "not exactly one href" *)
    unfold resp_path in P. unfold is_deletion.
    unfold resp_err in *.
    destruct (r_status r) as [c|].
    + destruct (success c) eqn:S.
      * rewrite (success_not_404 c S). cbn [andb].
        destruct (r_hrefs r) as [|h [|h2 l]]; inversion P; subst; split; try discriminate; eauto.
      * destruct (r_hrefs r) as [|h [|h2 l]]; inversion P; subst; cbn [negb andb];
          rewrite ?andb_false_r, ?andb_true_r; destruct (c =? 404)%N; split; try discriminate; eauto.
    + cbn [andb]. destruct (r_hrefs r) as [|h [|h2 l]]; inversion P; subst; split; try discriminate; eauto.
Qed.

Lemma sync_one_ok path r : c_is_ok (sync_one path r) = spec_sync_ok path r.
Proof.
  destruct (sync_one_spec path r) as [A B]. destruct (spec_sync_ok path r).
  - rewrite A; reflexivity.
  - destruct B as (e & ->); reflexivity.
Qed.
Lemma sync_one_val path r o : sync_one path r = COk o -> o = sync_val path r.
Proof.
  destruct (sync_one_spec path r) as [A B]. destruct (spec_sync_ok path r).
  - rewrite A; congruence.
  - destruct B as (e & B); [reflexivity|]. rewrite B. discriminate.
Qed.
Lemma sync_one_no_panic path r : sync_one path r <> CPanic.
Proof.
  destruct (sync_one_spec path r) as [A B]. destruct (spec_sync_ok path r).
  - rewrite A by reflexivity. discriminate.
  - destruct B as (e & B); [reflexivity|]. rewrite B. discriminate.
Qed.

(** * Loops over the responses *)

Definition fmap {A} (g : response -> option A) (l : list response) : list A :=
  flat_map (fun r => match g r with Some a => [a] | None => [] end) l.

Lemma collect_not_ok {A} (f : response -> cres (option A)) P :
  (forall r, c_is_ok (f r) = P r) ->
  forall l, forallb P l = false -> c_is_ok (collect f l) = false.
Proof.
  intros Hf. induction l as [|r l IH]; simpl; [discriminate|].
  intros H. specialize (Hf r). destruct (f r) as [o| |]; simpl in *; try reflexivity.
  rewrite <- Hf in H. simpl in H. specialize (IH H).
  destruct (collect f l); simpl in *; congruence.
Qed.

Lemma collect_ok {A} (f : response -> cres (option A)) P g :
  (forall r, c_is_ok (f r) = P r) -> (forall r o, f r = COk o -> o = g r) ->
  forall l, forallb P l = true -> collect f l = COk (fmap g l).
Proof.
  intros Hf Hg. induction l as [|r l IH]; simpl; [reflexivity|].
  intros H. apply andb_true_iff in H. destruct H as [H1 H2].
  rewrite <- Hf in H1. destruct (f r) as [o| |] eqn:E; try discriminate.
  rewrite (Hg r o E). simpl. rewrite (IH H2). simpl. destruct (g r); reflexivity.
Qed.

Lemma collect_np {A} (f : response -> cres (option A)) l :
  (forall r, In r l -> f r <> CPanic) -> collect f l <> CPanic.
Proof.
  induction l as [|r l IH]; simpl; [discriminate|]. intros H.
  apply cbind_np; [apply H; auto|]. intros o. apply cbind_np; [apply IH; intros; apply H; auto|].
  discriminate.
Qed.

Lemma fmap_all (l : list response) (h : response -> string) :
  fmap (fun r => Some (h r)) l = map h l.
Proof. induction l; simpl; congruence. Qed.

Lemma fmap_filter (l : list response) (c : response -> bool) (h : response -> string) :
  fmap (fun r => if c r then Some (h r) else None) l = map h (filter c l).
Proof. induction l as [|r l IH]; simpl; [reflexivity|]. destruct (c r); simpl; congruence. Qed.

Lemma sync_lists path l :
  sync_deleted (fmap (sync_val path) l) = flat_map r_hrefs (filter is_deletion l) /\
  sync_updated (fmap (sync_val path) l) =
    map first_href (filter (fun x => negb (is_deletion x) && negb (is_self path x)) l).
Proof.
  unfold sync_deleted, sync_updated.
  induction l as [|r l [IH1 IH2]]; simpl; [auto|].
  unfold sync_val at 1 3. destruct (is_deletion r); simpl.
  - rewrite IH1, IH2. auto.
  - destruct (is_self path r); simpl; rewrite IH1, IH2; auto.
Qed.

(** * Client.Do, DoMultiStatus *)

Lemma client_do_resp r :
  client_do (Resp r) =
  if success (h_status r) then COk r else CErr (EHttp (h_status r) (spec_dav_error r)).
Proof.
  unfold client_do, spec_dav_error. destruct (success (h_status r)); [reflexivity|].
  destruct (String.eqb (h_mt r) "application/xml" || String.eqb (h_mt r) "text/xml"); [|reflexivity].
  destruct (h_xml r) as [|[n a k]]; reflexivity.
Qed.

Lemma do_ms_resp r :
  do_multistatus (Resp r) =
  if success (h_status r) then
    if (h_status r =? 207)%N then
      match spec_ms r with Some ms => COk ms | None => CErr EOther end
    else CErr (EHttp (h_status r) None)
  else CErr (EHttp (h_status r) (spec_dav_error r)).
Proof.
  unfold do_multistatus. rewrite client_do_resp. destruct (success (h_status r)); [|reflexivity].
  cbn [cbind]. destruct (h_status r =? 207)%N; [|reflexivity].
  unfold spec_ms. destruct (h_xml r) as [|t]; [reflexivity|]. destruct (dec_multistatus t); reflexivity.
Qed.

(** * The methods on a 2xx (207 where required) response *)

Definition ok_spec (m : meth) (p : string) (r : hresp) : Prop :=
  (interpretable m p r = true -> h_reqset r = true -> run m p (Resp r) = COk (spec_value m p r)) /\
  (interpretable m p r = false -> c_is_ok (run m p (Resp r)) = false).

Lemma propfind_flat_resp r :
  success (h_status r) = true -> (h_status r =? 207)%N = true ->
  propfind_flat (Resp r) =
  match spec_ms r with Some [x] => COk x | _ => CErr EOther end.
Proof.
  intros S N. unfold propfind_flat. rewrite do_ms_resp, S, N.
  destruct (spec_ms r) as [[|x [|y l]]|]; reflexivity.
Qed.

Lemma find_cup_spec p r :
  success (h_status r) = true -> (h_status r =? 207)%N = true -> ok_spec MFindCurrentUserPrincipal p r.
Proof.
  intros S N. unfold ok_spec, run, find_cup, interpretable, spec_value. rewrite (propfind_flat_resp r S N).
  destruct (spec_ms r) as [[|x [|y l]]|]; cbn [single forallb andb cbind c_is_ok map]; try (split; [discriminate|reflexivity]).
  rewrite andb_true_r.
  destruct (resp_success x) eqn:RS.
  - destruct (decode_prop_cases x n_cup dec_cup RS) as [(a & E & G & V)|(e & E & G & _)]; rewrite E, G; cbn [cbind andb c_is_ok].
    + rewrite V. destruct a as [h [|]]; cbn [snd fst]; split; try discriminate; reflexivity.
    + split; [discriminate|reflexivity].
  - destruct (decode_prop_failed_entry x n_cup dec_cup RS) as (e & E). rewrite E. split; [discriminate|reflexivity].
Qed.

Lemma find_homeset_spec m n p r :
  success (h_status r) = true -> (h_status r =? 207)%N = true ->
  (m = MFindCalendarHomeSet /\ n = n_cal_home \/ m = MFindAddressBookHomeSet /\ n = n_card_home) ->
  run m p (Resp r) = find_homeset n (Resp r) /\ ok_spec m p r.
Proof.
  intros S N M.
  assert (run m p (Resp r) = find_homeset n (Resp r)) as R by (destruct M as [[-> ->]|[-> ->]]; reflexivity).
  split; [exact R|].
  unfold ok_spec. rewrite R. unfold find_homeset. rewrite (propfind_flat_resp r S N).
  assert (interpretable m p r = match spec_ms r with None => false | Some ms =>
            single ms && forallb (fun x => resp_success x && prop_good x n dec_homeset) ms end) as I
    by (destruct M as [[-> ->]|[-> ->]]; reflexivity).
  assert (spec_value m p r = VPaths (map (fun x => match the_value x n dec_homeset with Some p => p | None => "" end)
            (match spec_ms r with Some l => l | None => [] end))) as SV
    by (destruct M as [[-> ->]|[-> ->]]; reflexivity).
  rewrite I, SV.
  destruct (spec_ms r) as [[|x [|y l]]|]; cbn [single forallb andb cbind c_is_ok map]; try (split; [discriminate|reflexivity]).
  rewrite andb_true_r.
  destruct (resp_success x) eqn:RS.
  - destruct (decode_prop_cases x n dec_homeset RS) as [(a & E & G & V)|(e & E & G & _)]; rewrite E, G; cbn [cbind andb c_is_ok].
    + rewrite V. split; try discriminate; reflexivity.
    + split; [discriminate|reflexivity].
  - destruct (decode_prop_failed_entry x n dec_homeset RS) as (e & E). rewrite E. split; [discriminate|reflexivity].
Qed.

Lemma stat_spec p r :
  success (h_status r) = true -> (h_status r =? 207)%N = true -> ok_spec MStat p r.
Proof.
  intros S N. unfold ok_spec, run, stat, interpretable, spec_value. rewrite (propfind_flat_resp r S N).
  destruct (spec_ms r) as [[|x [|y l]]|]; cbn [single forallb andb cbind c_is_ok map]; try (split; [discriminate|reflexivity]).
  rewrite andb_true_r. rewrite <- file_info_ok.
  destruct (file_info x) as [o| |] eqn:E; cbn [cbind c_is_ok]; split; try discriminate; try reflexivity.
  rewrite (file_info_val x o E). reflexivity.
Qed.

(** methods built from DoMultiStatus and a loop over the responses *)
Lemma loop_spec {A} (f : response -> cres (option A)) P g (k : list A -> value) r interp sv :
  success (h_status r) = true -> (h_status r =? 207)%N = true ->
  (forall x, c_is_ok (f x) = P x) -> (forall x o, f x = COk o -> o = g x) ->
  interp = match spec_ms r with None => false | Some ms => forallb P ms end ->
  sv = k (fmap g (match spec_ms r with Some l => l | None => [] end)) ->
  let res := cdo ms <- do_multistatus (Resp r); cdo l <- collect f ms; COk (k l) in
  (interp = true -> res = COk sv) /\ (interp = false -> c_is_ok res = false).
Proof.
  intros S N Hf Hg -> -> res. subst res. rewrite do_ms_resp, S, N.
  destruct (spec_ms r) as [ms|]; cbn [cbind c_is_ok]; [|split; [discriminate|reflexivity]].
  split; intros H.
  - rewrite (collect_ok f P g Hf Hg ms H). reflexivity.
  - apply cbind_not_ok. apply (collect_not_ok f P Hf ms H).
Qed.

Lemma ok_spec_of m p r :
  ((interpretable m p r = true -> run m p (Resp r) = COk (spec_value m p r)) /\
   (interpretable m p r = false -> c_is_ok (run m p (Resp r)) = false)) -> ok_spec m p r.
Proof. unfold ok_spec. tauto. Qed.

Lemma read_dir_spec p r :
  success (h_status r) = true -> (h_status r =? 207)%N = true -> ok_spec MReadDir p r.
Proof.
  intros S N. apply ok_spec_of.
  apply (loop_spec (fun x => cdo q <- file_info x; COk (Some q)) spec_file_ok (fun x => Some (first_href x)) VPaths r _ _ S N).
  - intros x. rewrite <- file_info_ok. destruct (file_info x); reflexivity.
  - intros x o H. apply cbind_ok in H. destruct H as (q & E & H). rewrite (file_info_val x q E) in H. congruence.
  - reflexivity.
  - rewrite fmap_all. reflexivity.
Qed.

Lemma find_collections_spec m nt nd ns nsu ds p r :
  success (h_status r) = true -> (h_status r =? 207)%N = true ->
  (m = MFindCalendars /\ (nt, nd, ns, nsu) = (n_calendar, n_cal_desc, n_cal_size, n_cal_supp) /\ ds = dec_compset \/
   m = MFindAddressBooks /\ (nt, nd, ns, nsu) = (n_addressbook, n_card_desc, n_card_size, n_card_supp) /\ ds = dec_addrdata) ->
  ok_spec m p r.
Proof.
  intros S N M. apply ok_spec_of.
  assert (run m p (Resp r) = find_collections nt nd ns nsu ds (Resp r)) as R
    by (destruct M as [(-> & E & ->)|(-> & E & ->)]; inversion E; reflexivity).
  rewrite R. unfold find_collections.
  apply (loop_spec (collection_item nt nd ns nsu ds) (spec_collection_ok nt nd ns nsu ds) (collection_val nt) VPaths r _ _ S N).
  - apply collection_item_ok.
  - apply collection_item_val.
  - destruct M as [(-> & E & ->)|(-> & E & ->)]; inversion E; reflexivity.
  - unfold collection_val. rewrite fmap_filter.
    destruct M as [(-> & E & ->)|(-> & E & ->)]; inversion E; reflexivity.
Qed.

Lemma report_objects_spec m g nd p r :
  success (h_status r) = true -> (h_status r =? 207)%N = true ->
  ((m = MQueryCalendar \/ m = MMultiGetCalendar) /\ nd = n_cal_data /\ g = true \/
   (m = MQueryAddressBook \/ m = MMultiGetAddressBook) /\ nd = n_card_data /\ g = false) ->
  ok_spec m p r.
Proof.
  intros S N M'. apply ok_spec_of.
  assert ((m = MQueryCalendar \/ m = MMultiGetCalendar) /\ nd = n_cal_data \/
          (m = MQueryAddressBook \/ m = MMultiGetAddressBook) /\ nd = n_card_data) as M by tauto.
  assert (run m p (Resp r) = report_objects g nd (Resp r)) as R
    by (destruct M' as [([-> | ->] & -> & ->)|([-> | ->] & -> & ->)]; reflexivity).
  rewrite R. unfold report_objects.
  apply (loop_spec (object_item g nd) (spec_object_ok nd) (fun x => Some (first_href x)) VPaths r _ _ S N).
  - apply object_item_ok.
  - apply object_item_val.
  - destruct M as [([-> | ->] & ->)|([-> | ->] & ->)]; reflexivity.
  - rewrite fmap_all. destruct M as [([-> | ->] & ->)|([-> | ->] & ->)]; reflexivity.
Qed.

Lemma sync_spec p r :
  success (h_status r) = true -> (h_status r =? 207)%N = true -> ok_spec MSyncCollection p r.
Proof.
  intros S N. apply ok_spec_of. unfold run, sync_collection.
  apply (loop_spec (sync_one p) (spec_sync_ok p) (sync_val p) (fun l => VSync (sync_deleted l) (sync_updated l)) r _ _ S N).
  - apply sync_one_ok.
  - apply sync_one_val.
  - reflexivity.
  - destruct (sync_lists p (match spec_ms r with Some l => l | None => [] end)) as [-> ->]. reflexivity.
Qed.

(** methods that do not read a multi-status *)
Lemma plain_spec m p r :
  success (h_status r) = true ->
  (m = MOpen \/ m = MCreate \/ m = MRemoveAll \/ m = MMkdir \/ m = MCopy \/ m = MMove) -> ok_spec m p r.
Proof.
  intros S M. apply ok_spec_of.
  assert (run m p (Resp r) = plain (Resp r) /\ interpretable m p r = true /\ spec_value m p r = VUnit) as (R & I & V)
    by (destruct M as [->|[->|[->|[->|[->| ->]]]]]; auto).
  rewrite R, I, V. unfold plain. rewrite client_do_resp, S. split; [reflexivity|discriminate].
Qed.

Lemma put_object_spec m p r :
  success (h_status r) = true -> (m = MPutCalendarObject \/ m = MPutAddressObject) -> ok_spec m p r.
Proof.
  intros S M. apply ok_spec_of.
  assert (run m p (Resp r) = put_object p (Resp r) /\ interpretable m p r = populate_ok r /\
          spec_value m p r = VPaths [populate_path r p]) as (R & I & V)
    by (destruct M as [->| ->]; auto).
  rewrite R, I, V. unfold put_object. rewrite client_do_resp, S. cbn [cbind].
  destruct (populate_ok r); split; try discriminate; reflexivity.
Qed.

Lemma get_object_spec m g mime parsed p r :
  success (h_status r) = true ->
  (m = MGetCalendarObject /\ mime = "text/calendar" /\ parsed = h_ical /\ g = true \/
   m = MGetAddressObject /\ mime = "text/vcard" /\ parsed = h_vcard /\ g = false) -> ok_spec m p r.
Proof.
  intros S M.
  assert (run m p (Resp r) = get_object g mime parsed p (Resp r) /\
          interpretable m p r = (negb (h_ct_err r) && String.eqb (lower (h_ct r)) mime && is_lgood (parsed r) && populate_ok r) /\
          spec_value m p r = VPaths [populate_path r p]) as (R & I & V)
    by (destruct M as [(-> & -> & -> & ->)|(-> & -> & -> & ->)]; auto).
  unfold ok_spec. rewrite R, I, V. unfold get_object. rewrite client_do_resp, S. cbn [cbind].
  destruct (h_ct_err r); cbn [negb andb]; [split; [discriminate|reflexivity]|].
  destruct (String.eqb (lower (h_ct r)) mime); cbn [negb andb]; [|split; [discriminate|reflexivity]].
  destruct (parsed r); cbn [is_lgood andb]; try (split; [discriminate|reflexivity]);
    try (split; [discriminate|destruct g; reflexivity]).
  split.
  - intros H Q. rewrite Q, H. reflexivity.
  - intros H. rewrite H. destruct (h_reqset r); reflexivity.
Qed.

Lemma has_support_spec p r : success (h_status r) = true -> ok_spec MHasSupport p r.
Proof.
  intros S. apply ok_spec_of. unfold run, has_support, options, interpretable, spec_value.
  rewrite client_do_resp, S. cbn [cbind].
  destruct (set_has (h_dav r) "1"); cbn [cbind andb]; [|split; [discriminate|reflexivity]].
  destruct (set_has (h_dav r) "addressbook"); split; try discriminate; reflexivity.
Qed.

(** * Every method *)

Lemma run_2xx m p r :
  success (h_status r) = true -> (needs_207 m = true -> (h_status r =? 207)%N = true) -> ok_spec m p r.
Proof.
  intros S N. destruct m; try specialize (N eq_refl).
  - apply find_cup_spec; auto.
  - apply stat_spec; auto.
  - apply plain_spec; auto.
  - apply read_dir_spec; auto.
  - apply plain_spec; auto.
  - apply plain_spec; auto.
  - apply plain_spec; auto.
  - apply plain_spec; auto 7.
  - apply plain_spec; auto 7.
  - apply (find_homeset_spec MFindCalendarHomeSet n_cal_home); auto.
  - apply (find_collections_spec MFindCalendars n_calendar n_cal_desc n_cal_size n_cal_supp dec_compset); auto.
  - apply (report_objects_spec MQueryCalendar true n_cal_data); auto.
  - apply (report_objects_spec MMultiGetCalendar true n_cal_data); auto.
  - apply (get_object_spec MGetCalendarObject true "text/calendar" h_ical); auto 6.
  - apply put_object_spec; auto.
  - apply has_support_spec; auto.
  - apply (find_homeset_spec MFindAddressBookHomeSet n_card_home); auto.
  - apply (find_collections_spec MFindAddressBooks n_addressbook n_card_desc n_card_size n_card_supp dec_addrdata); auto 6.
  - apply (report_objects_spec MQueryAddressBook false n_card_data); auto 6.
  - apply (report_objects_spec MMultiGetAddressBook false n_card_data); auto 6.
  - apply (get_object_spec MGetAddressObject false "text/vcard" h_vcard); auto 7.
  - apply put_object_spec; auto.
  - apply sync_spec; auto.
Qed.

(** * Failures that are the HTTP status *)

Ltac unfold_run :=
  unfold run, find_cup, stat, read_dir, plain, find_homeset, find_collections, report_objects,
    get_object, put_object, has_support, sync_collection, options, propfind_flat.

Lemma run_transport_error m p : run m p Terr = CErr EOther.
Proof. destruct m; reflexivity. Qed.

Lemma run_failed_status m p r :
  success (h_status r) = false -> run m p (Resp r) = CErr (EHttp (h_status r) (spec_dav_error r)).
Proof.
  intros S. destruct m; unfold_run; rewrite ?do_ms_resp, ?client_do_resp, S; reflexivity.
Qed.

Lemma run_not_207 m p r :
  needs_207 m = true -> success (h_status r) = true -> (h_status r =? 207)%N = false ->
  run m p (Resp r) = CErr (EHttp (h_status r) None).
Proof.
  intros M S N. destruct m; try discriminate M; unfold_run; rewrite do_ms_resp, S, N; reflexivity.
Qed.

(** * No panic *)

Lemma dt_ms r ms :
  vcard_decoder_total (Resp r) = true -> spec_ms r = Some ms -> ms_panic_free n_card_data ms = true.
Proof.
  unfold vcard_decoder_total, spec_ms. intros H. apply andb_true_iff in H. destruct H as [_ H].
  destruct (h_xml r) as [|t]; [discriminate|]. intros E. rewrite E in H. exact H.
Qed.

Lemma get_object_np g mime parsed p r :
  h_reqset r = true -> g = true \/ is_lpanic (parsed r) = false ->
  get_object g mime parsed p (Resp r) <> CPanic.
Proof.
  intros Q L. unfold get_object. rewrite client_do_resp.
  destruct (success (h_status r)); cbn [cbind]; [|discriminate].
  destruct (h_ct_err r); [discriminate|]. destruct (negb _); [discriminate|].
  destruct (parsed r); try discriminate.
  - rewrite Q. cbn [negb]. destruct (populate_ok r); discriminate.
  - destruct L as [->|L]; discriminate.
Qed.

Theorem run_no_panic m p s :
  well_formed s = true -> vcard_decoder_total s = true -> run m p s <> CPanic.
Proof.
  intros W D. destruct s as [|r]; [rewrite run_transport_error; discriminate|].
  simpl in W.
  destruct (success (h_status r)) eqn:S; [|rewrite (run_failed_status m p r S); discriminate].
  assert (is_lpanic (h_vcard r) = false) as LV.
  { unfold vcard_decoder_total in D. apply andb_true_iff in D. destruct D as [D _]. now apply negb_true_iff. }
  destruct m; try (apply get_object_np; auto; fail);
    unfold_run; rewrite ?do_ms_resp, ?client_do_resp, S; cbn [cbind];
    try (destruct (h_status r =? 207)%N; [|discriminate]);
    try (destruct (spec_ms r) as [ms|] eqn:MS; [|discriminate]); cbn [cbind].
  - destruct ms as [|x [|y l]]; try discriminate. cbn [cbind].
    apply cbind_np; [apply decode_prop_no_panic|intros q; destruct (snd q); discriminate].
  - destruct ms as [|x [|y l]]; try discriminate. cbn [cbind]. np. apply file_info_no_panic.
  - discriminate.
  - np. apply collect_np. intros x _. np. apply file_info_no_panic.
  - discriminate.
  - discriminate.
  - discriminate.
  - discriminate.
  - discriminate.
  - destruct ms as [|x [|y l]]; try discriminate. np.
  - np. apply collect_np. intros x _. apply collection_item_no_panic.
  - np. apply collect_np. intros x In. apply object_item_no_panic. auto.
  - np. apply collect_np. intros x In. apply object_item_no_panic. auto.
  - destruct (populate_ok r); discriminate.
  - destruct (set_has (h_dav r) "1"); cbn [cbind]; [|discriminate]. destruct (set_has (h_dav r) "addressbook"); discriminate.
  - destruct ms as [|x [|y l]]; try discriminate. np.
  - np. apply collect_np. intros x _. apply collection_item_no_panic.
  - np. apply collect_np. intros x In. apply object_item_no_panic. right.
    pose proof (dt_ms r ms D MS) as F. unfold ms_panic_free in F. rewrite forallb_forall in F. apply F, In.
  - np. apply collect_np. intros x In. apply object_item_no_panic. right.
    pose proof (dt_ms r ms D MS) as F. unfold ms_panic_free in F. rewrite forallb_forall in F. apply F, In.
  - destruct (populate_ok r); discriminate.
  - np. apply collect_np. intros x _. apply sync_one_no_panic.
Qed.

(** * The property theorems *)

Lemma must_fail_resp m p r :
  must_fail m p (Resp r) = false ->
  success (h_status r) = true /\ (needs_207 m = true -> (h_status r =? 207)%N = true) /\ interpretable m p r = true.
Proof.
  unfold must_fail. intros H. apply orb_false_iff in H. destruct H as [H I].
  apply orb_false_iff in H. destruct H as [S N].
  apply negb_false_iff in S, I. repeat split; auto.
  intros M. rewrite M in N. cbn [andb] in N. now apply negb_false_iff in N.
Qed.

(** A call that must fail does not hand out a value. *)
Theorem run_fail m p s : must_fail m p s = true -> c_is_ok (run m p s) = false.
Proof.
  destruct s as [|r]; [rewrite run_transport_error; reflexivity|].
  intros H. destruct (success (h_status r)) eqn:S; [|rewrite (run_failed_status m p r S); reflexivity].
  destruct (needs_207 m && negb (h_status r =? 207)%N) eqn:N.
  - apply andb_true_iff in N. destruct N as [M N]. apply negb_true_iff in N.
    rewrite (run_not_207 m p r M S N). reflexivity.
  - unfold must_fail in H. rewrite S, N in H. cbn [negb orb] in H. apply negb_true_iff in H.
    apply (run_2xx m p r S); [|exact H].
    intros M. rewrite M in N. cbn [andb] in N. now apply negb_false_iff in N.
Qed.

(** A call that need not fail succeeds, with the value the specification names. *)
Theorem run_succeed m p r :
  must_fail m p (Resp r) = false -> h_reqset r = true -> run m p (Resp r) = COk (spec_value m p r).
Proof.
  intros H Q. destruct (must_fail_resp m p r H) as (S & N & I).
  apply (run_2xx m p r S N); assumption.
Qed.

Theorem run_error_iff m p s :
  well_formed s = true -> vcard_decoder_total s = true ->
  (c_is_err (run m p s) = true <-> must_fail m p s = true).
Proof.
  intros W D. pose proof (run_no_panic m p s W D) as NP. split.
  - intros E. destruct (must_fail m p s) eqn:F; [reflexivity|].
    destruct s as [|r]; [discriminate F|]. simpl in W.
    rewrite (run_succeed m p r F W) in E. discriminate.
  - intros F. pose proof (run_fail m p s F) as K.
    destruct (run m p s); simpl in *; congruence.
Qed.

Theorem run_ok_value m p s v :
  well_formed s = true -> run m p s = COk v ->
  exists r, s = Resp r /\ must_fail m p s = false /\ v = spec_value m p r.
Proof.
  intros W E. destruct s as [|r]; [rewrite run_transport_error in E; discriminate|].
  exists r. destruct (must_fail m p (Resp r)) eqn:F.
  - pose proof (run_fail m p _ F) as K. rewrite E in K. discriminate.
  - simpl in W. rewrite (run_succeed m p r F W) in E. split; [reflexivity|]. split; congruence.
Qed.

(** When the failure is the HTTP status, the error carries it (and the DAV:error element). *)
Theorem run_status_error m p r e :
  spec_status_error m r = Some e -> run m p (Resp r) = CErr e.
Proof.
  unfold spec_status_error. destruct (success (h_status r)) eqn:S; cbn [negb].
  - destruct (needs_207 m) eqn:M; cbn [andb]; [|discriminate].
    destruct (h_status r =? 207)%N eqn:N; cbn [negb]; [discriminate|].
    intros H. injection H as <-. apply run_not_207; assumption.
  - intros H. injection H as <-. apply run_failed_status; assumption.
Qed.

(** * Inner statuses: what a successful call implies about the multi-status *)

Definition entry_rule (m : meth) (x : response) : Prop :=
  resp_success x = true \/ (m = MSyncCollection /\ is_deletion x = true).

Lemma interpretable_entries m p r :
  needs_207 m = true -> interpretable m p r = true ->
  exists ms, spec_ms r = Some ms /\ forall x, In x ms -> entry_rule m x.
Proof.
  intros M I.
  destruct (spec_ms r) as [ms|] eqn:MS; [|destruct m; try discriminate M; unfold interpretable in I; rewrite MS in I; discriminate].
  exists ms. split; [reflexivity|].
  assert (forall P : response -> bool, forallb P ms = true -> (forall x, P x = true -> entry_rule m x) ->
          forall x, In x ms -> entry_rule m x) as K.
  { intros P F HP x In. rewrite forallb_forall in F. apply HP, F, In. }
  assert (forall x, entry_ok x = true -> entry_rule m x) as EO.
  { intros x H. left. now apply entry_ok_success. }
  destruct m; try discriminate M; unfold interpretable in I; rewrite MS in I;
    try (apply andb_true_iff in I; destruct I as [_ I]).
  - apply (K _ I). intros x H. left. repeat (apply andb_true_iff in H; destruct H as [H _]). exact H.
  - apply (K _ I). intros x H. left. unfold spec_file_ok in H. repeat (apply andb_true_iff in H; destruct H as [H _]). exact H.
  - apply (K _ I). intros x H. left. unfold spec_file_ok in H. repeat (apply andb_true_iff in H; destruct H as [H _]). exact H.
  - apply (K _ I). intros x H. left. repeat (apply andb_true_iff in H; destruct H as [H _]). exact H.
  - apply (K _ I). intros x H. left. unfold spec_collection_ok in H. repeat (apply andb_true_iff in H; destruct H as [H _]). exact H.
  - apply (K _ I). intros x H. left. unfold spec_object_ok in H. repeat (apply andb_true_iff in H; destruct H as [H _]). exact H.
  - apply (K _ I). intros x H. left. unfold spec_object_ok in H. repeat (apply andb_true_iff in H; destruct H as [H _]). exact H.
  - apply (K _ I). intros x H. left. repeat (apply andb_true_iff in H; destruct H as [H _]). exact H.
  - apply (K _ I). intros x H. left. unfold spec_collection_ok in H. repeat (apply andb_true_iff in H; destruct H as [H _]). exact H.
  - apply (K _ I). intros x H. left. unfold spec_object_ok in H. repeat (apply andb_true_iff in H; destruct H as [H _]). exact H.
  - apply (K _ I). intros x H. left. unfold spec_object_ok in H. repeat (apply andb_true_iff in H; destruct H as [H _]). exact H.
  - apply (K _ I). intros x H. unfold spec_sync_ok in H. apply orb_true_iff in H. destruct H as [H|H].
    + right. auto.
    + apply EO. apply andb_true_iff in H. tauto.
Qed.

(** A successful call: every response of the multi-status has an absent or 2xx status
    (sync-collection: or is a 404 reported as a deletion). *)
Theorem ok_inner_status m p r v :
  h_reqset r = true -> needs_207 m = true -> run m p (Resp r) = COk v ->
  exists ms, spec_ms r = Some ms /\ forall x, In x ms -> entry_rule m x.
Proof.
  intros Q M E. destruct (run_ok_value m p (Resp r) v Q E) as (r' & R & F & _).
  destruct (must_fail_resp m p r F) as (_ & _ & I).
  apply (interpretable_entries m p r M I).
Qed.

(** sync-collection hands out exactly the 404 entries as deletions, and no entry with a
    non-success status as an update. *)
Theorem sync_classification p r d u :
  h_reqset r = true -> run MSyncCollection p (Resp r) = COk (VSync d u) ->
  exists ms, spec_ms r = Some ms /\
    d = flat_map r_hrefs (filter is_deletion ms) /\
    u = map first_href (filter (fun x => negb (is_deletion x) && negb (is_self p x)) ms) /\
    forall x, In x ms -> is_deletion x = false -> resp_success x = true.
Proof.
  intros Q E. destruct (run_ok_value MSyncCollection p (Resp r) _ Q E) as (r' & R & F & V). injection R as <-.
  destruct (ok_inner_status MSyncCollection p r _ Q eq_refl E) as (ms & MS & H).
  exists ms. split; [exact MS|]. unfold spec_value in V. rewrite MS in V. injection V as -> ->.
  repeat split. intros x In D. destruct (H x In) as [S|[_ D']]; congruence.
Qed.

(** A property reported with a non-success status is not handed out: a successful object
    report found the data property of every entry in a 2xx propstat, parseable. *)
Theorem report_inner_propstat m nd p r v :
  (m = MQueryCalendar \/ m = MMultiGetCalendar) /\ nd = n_cal_data \/
  (m = MQueryAddressBook \/ m = MMultiGetAddressBook) /\ nd = n_card_data ->
  h_reqset r = true -> run m p (Resp r) = COk v ->
  exists ms, spec_ms r = Some ms /\ v = VPaths (map first_href ms) /\
    forall x, In x ms -> one_href x = true /\ prop_good x nd dec_any = true /\ data_parses x nd = true.
Proof.
  intros M Q E. destruct (run_ok_value m p (Resp r) v Q E) as (r' & R & F & V). injection R as <-.
  destruct (must_fail_resp m p r F) as (_ & _ & I).
  assert (interpretable m p r = match spec_ms r with None => false | Some ms => forallb (spec_object_ok nd) ms end) as II
    by (destruct M as [([-> | ->] & ->)|([-> | ->] & ->)]; reflexivity).
  assert (spec_value m p r = VPaths (map first_href (match spec_ms r with Some l => l | None => [] end))) as VV
    by (destruct M as [([-> | ->] & ->)|([-> | ->] & ->)]; reflexivity).
  rewrite II in I. rewrite VV in V. destruct (spec_ms r) as [ms|]; [|discriminate].
  exists ms. repeat split; auto; rewrite forallb_forall in I; specialize (I x H);
    unfold spec_object_ok, entry_ok in I; repeat (apply andb_true_iff in I; destruct I as [I ?]); auto.
Qed.

(** * Metadata: each object carries what the multi-status says about that resource *)

Lemma field_spec r n z : resp_success r = true -> field r n z = spec_field r n z.
Proof.
  intros H. unfold field, spec_field.
  destruct (decode_prop_cases r n dec_val H) as [(a & E & G & V)|(e & E & G & _)]; rewrite E, G; [rewrite V|]; reflexivity.
Qed.

Lemma collect_meta_spec {A} (f : response -> cres (option A)) sel mf mf' P (g : response -> option A) l :
  (forall r, c_is_ok (f r) = P r) -> (forall r o, f r = COk o -> o = g r) ->
  (forall r, P r = true -> match g r with Some a => sel a = true -> mf r = mf' r | None => True end) ->
  forallb P l = true ->
  collect_meta f sel mf l =
  map mf' (filter (fun r => match g r with Some a => sel a | None => false end) l).
Proof.
  intros Hf Hg Hm. unfold collect_meta. induction l as [|r l IH]; [reflexivity|].
  cbn [forallb flat_map filter]. intros H. apply andb_true_iff in H. destruct H as [H1 H2].
  rewrite (IH H2). pose proof (Hm r H1) as M. rewrite <- Hf in H1.
  destruct (f r) as [o| |] eqn:E; try discriminate. rewrite (Hg r o E) in *.
  destruct (g r) as [a|]; [|reflexivity]. destruct (sel a); [|reflexivity].
  cbn [app map]. now rewrite (M eq_refl).
Qed.

Lemma collect_ok_forall {A} (f : response -> cres (option A)) P l v :
  (forall r, c_is_ok (f r) = P r) -> collect f l = COk v -> forallb P l = true.
Proof.
  intros Hf E. destruct (forallb P l) eqn:F; [reflexivity|].
  pose proof (collect_not_ok f P Hf l F) as K. rewrite E in K. discriminate.
Qed.

Lemma filter_true {A} (l : list A) : filter (fun _ => true) l = l.
Proof. induction l; simpl; congruence. Qed.

Lemma do_ms_ok r ms : do_multistatus (Resp r) = COk ms -> spec_ms r = Some ms.
Proof.
  rewrite do_ms_resp. destruct (success (h_status r)); [|discriminate].
  destruct (h_status r =? 207)%N; [|discriminate]. destruct (spec_ms r); [congruence|discriminate].
Qed.

Lemma object_meta_spec r : resp_success r = true -> object_meta r = spec_object_meta r.
Proof. intros H. unfold object_meta, spec_object_meta. now rewrite !(field_spec r _ _ H). Qed.
Lemma collection_meta_spec a b c r : resp_success r = true -> collection_meta a b c r = spec_collection_meta a b c r.
Proof. intros H. unfold collection_meta, spec_collection_meta. now rewrite !(field_spec r _ _ H). Qed.
Lemma sync_meta_spec r : resp_success r = true -> sync_meta r = spec_sync_meta r.
Proof. intros H. unfold sync_meta, spec_sync_meta. now rewrite !(field_spec r _ _ H). Qed.

Lemma spec_object_success nd r : spec_object_ok nd r = true -> resp_success r = true.
Proof. unfold spec_object_ok. intros H. repeat (apply andb_true_iff in H; destruct H as [H _]). first [exact H | now apply entry_ok_success]. Qed.
Lemma spec_collection_success a b c d e r : spec_collection_ok a b c d e r = true -> resp_success r = true.
Proof. unfold spec_collection_ok. intros H. repeat (apply andb_true_iff in H; destruct H as [H _]). first [exact H | now apply entry_ok_success]. Qed.

(** A successful call hands out, with each object, the metadata the specification names. *)
Theorem run_meta_spec m p r v :
  run m p (Resp r) = COk v -> run_meta m p (Resp r) = spec_meta m p r.
Proof.
  intros E. unfold run_meta, spec_meta.
  destruct (do_multistatus (Resp r)) as [ms| |] eqn:D.
  2,3: destruct m; try reflexivity; unfold_run; unfold run, find_collections, report_objects, sync_collection in E;
       rewrite D in E; discriminate.
  rewrite (do_ms_ok r ms D).
  assert (forall A (f : response -> cres (option A)) (k : list A -> value) P,
            (forall x, c_is_ok (f x) = P x) ->
            (cdo ms' <- do_multistatus (Resp r); cdo l <- collect f ms'; COk (k l)) = COk v ->
            forallb P ms = true) as OKS.
  { intros A f k P Hf K. rewrite D in K. cbn [cbind] in K.
    destruct (collect f ms) as [l| |] eqn:C; try discriminate. exact (collect_ok_forall f P ms l Hf C). }
  destruct m; try reflexivity.
  - (* FindCalendars *)
    pose proof (OKS _ _ VPaths _ (collection_item_ok n_calendar n_cal_desc n_cal_size n_cal_supp dec_compset) E) as F.
    rewrite (collect_meta_spec _ _ _ (spec_collection_meta n_cal_desc n_cal_size n_cal_supp) _ (collection_val n_calendar) ms
               (collection_item_ok _ _ _ _ _) (collection_item_val _ _ _ _ _)); [|..|exact F].
    + f_equal. apply filter_ext. intros x. unfold collection_val. destruct (has_type n_calendar x); reflexivity.
    + intros x Px. destruct (collection_val n_calendar x); [|exact I]. intros _.
      apply collection_meta_spec. exact (spec_collection_success _ _ _ _ _ _ Px).
  - (* QueryCalendar *)
    pose proof (OKS _ _ VPaths _ (object_item_ok true n_cal_data) E) as F.
    rewrite (collect_meta_spec _ _ _ spec_object_meta _ (fun x => Some (first_href x)) ms
               (object_item_ok _ _) (object_item_val _ _)); [|..|exact F].
    + now rewrite filter_true.
    + intros x Px _. apply object_meta_spec. exact (spec_object_success _ _ Px).
  - (* MultiGetCalendar *)
    pose proof (OKS _ _ VPaths _ (object_item_ok true n_cal_data) E) as F.
    rewrite (collect_meta_spec _ _ _ spec_object_meta _ (fun x => Some (first_href x)) ms
               (object_item_ok _ _) (object_item_val _ _)); [|..|exact F].
    + now rewrite filter_true.
    + intros x Px _. apply object_meta_spec. exact (spec_object_success _ _ Px).
  - (* FindAddressBooks *)
    pose proof (OKS _ _ VPaths _ (collection_item_ok n_addressbook n_card_desc n_card_size n_card_supp dec_addrdata) E) as F.
    rewrite (collect_meta_spec _ _ _ (spec_collection_meta n_card_desc n_card_size n_card_supp) _ (collection_val n_addressbook) ms
               (collection_item_ok _ _ _ _ _) (collection_item_val _ _ _ _ _)); [|..|exact F].
    + f_equal. apply filter_ext. intros x. unfold collection_val. destruct (has_type n_addressbook x); reflexivity.
    + intros x Px. destruct (collection_val n_addressbook x); [|exact I]. intros _.
      apply collection_meta_spec. exact (spec_collection_success _ _ _ _ _ _ Px).
  - (* QueryAddressBook *)
    pose proof (OKS _ _ VPaths _ (object_item_ok false n_card_data) E) as F.
    rewrite (collect_meta_spec _ _ _ spec_object_meta _ (fun x => Some (first_href x)) ms
               (object_item_ok _ _) (object_item_val _ _)); [|..|exact F].
    + now rewrite filter_true.
    + intros x Px _. apply object_meta_spec. exact (spec_object_success _ _ Px).
  - (* MultiGetAddressBook *)
    pose proof (OKS _ _ VPaths _ (object_item_ok false n_card_data) E) as F.
    rewrite (collect_meta_spec _ _ _ spec_object_meta _ (fun x => Some (first_href x)) ms
               (object_item_ok _ _) (object_item_val _ _)); [|..|exact F].
    + now rewrite filter_true.
    + intros x Px _. apply object_meta_spec. exact (spec_object_success _ _ Px).
  - (* SyncCollection *)
    pose proof (OKS _ _ (fun l => VSync (sync_deleted l) (sync_updated l)) _ (sync_one_ok p) E) as F.
    rewrite (collect_meta_spec _ _ _ spec_sync_meta _ (sync_val p) ms (sync_one_ok p) (sync_one_val p)); [|..|exact F].
    + f_equal. apply filter_ext. intros x. unfold sync_val.
      destruct (is_deletion x); [reflexivity|]. destruct (is_self p x); reflexivity.
    + intros x Px. unfold sync_val. destruct (is_deletion x) eqn:Dl; [intros K; discriminate K|].
      destruct (is_self p x); [exact I|]. intros _. apply sync_meta_spec.
      unfold spec_sync_ok in Px. rewrite Dl in Px. cbn [orb] in Px.
      apply andb_true_iff in Px. destruct Px as [Px _]. now apply entry_ok_success.
Qed.

(** * The verdict functions *)

Lemma list_eqb_eq {A} (eqb : A -> A -> bool) :
  (forall x y, eqb x y = true -> x = y) -> forall a b, list_eqb eqb a b = true -> a = b.
Proof.
  intros H. induction a as [|x a IH]; destruct b as [|y b]; simpl; try discriminate; auto.
  intros E. apply andb_true_iff in E. destruct E as [E1 E2]. f_equal; auto.
Qed.
Lemma list_eqb_refl {A} (eqb : A -> A -> bool) :
  (forall x, eqb x x = true) -> forall a, list_eqb eqb a a = true.
Proof. intros H. induction a; simpl; auto. rewrite H, IHa. reflexivity. Qed.

Lemma qeq_eq a b : qeq a b = true -> a = b.
Proof.
  destruct a, b. unfold qeq. simpl. intros H. apply andb_true_iff in H. destruct H as [H1 H2].
  apply String.eqb_eq in H1, H2. congruence.
Qed.
Lemma qeq_refl a : qeq a a = true.
Proof. unfold qeq. now rewrite !String.eqb_refl. Qed.

Lemma value_eqb_eq a b : value_eqb a b = true -> a = b.
Proof.
  destruct a, b; simpl; try discriminate; auto.
  - intros H. f_equal. apply (list_eqb_eq String.eqb); auto. intros x y. apply String.eqb_eq.
  - intros H. apply andb_true_iff in H. destruct H as [H1 H2].
    f_equal; apply (list_eqb_eq String.eqb); auto; intros x y; apply String.eqb_eq.
Qed.
Lemma value_eqb_refl a : value_eqb a a = true.
Proof. destruct a; simpl; auto; rewrite ?list_eqb_refl; auto using String.eqb_refl. Qed.

Lemma cerr_eqb_eq a b : cerr_eqb a b = true -> a = b.
Proof.
  destruct a as [c d|], b as [c' d'|]; simpl; try discriminate; auto.
  intros H. apply andb_true_iff in H. destruct H as [H1 H2]. apply N.eqb_eq in H1. subst c'.
  destruct d, d'; try discriminate; auto. f_equal. f_equal. apply (list_eqb_eq qeq); auto using qeq_eq.
Qed.
Lemma cerr_eqb_refl a : cerr_eqb a a = true.
Proof.
  destruct a as [c [d|]|]; simpl; auto; rewrite N.eqb_refl; auto.
  simpl. apply list_eqb_refl, qeq_refl.
Qed.

Lemma outcome_eqb_eq a b : outcome_eqb a b = true -> a = b.
Proof.
  destruct a, b; simpl; try discriminate; auto; intros H; f_equal; auto using value_eqb_eq, cerr_eqb_eq.
Qed.

(** What [spec_ok] decides, declaratively. *)
Definition meets_spec (m : meth) (p : string) (s : script) (o : obs) : Prop :=
  o_reqs o = 1%N /\
  match o_out o with
  | OOk v => must_fail m p s = false /\ exists r, s = Resp r /\ v = spec_value m p r
  | OErr e => must_fail m p s = true /\
              forall r e', s = Resp r -> spec_status_error m r = Some e' -> e = e'
  | OPanic | OHang => False
  end.

Theorem spec_ok_meets m p s o : spec_ok m p s o = true <-> meets_spec m p s o.
Proof.
  unfold spec_ok, meets_spec. split.
  - intros H. apply andb_true_iff in H. destruct H as [R H]. apply N.eqb_eq in R. split; [exact R|].
    destruct (o_out o) as [v|e| |]; try discriminate.
    + apply andb_true_iff in H. destruct H as [F V]. apply negb_true_iff in F. split; [exact F|].
      destruct s as [|r]; [discriminate|]. exists r. split; [reflexivity|]. symmetry. now apply value_eqb_eq.
    + apply andb_true_iff in H. destruct H as [F V]. split; [exact F|].
      intros r e' -> SE. rewrite SE in V. symmetry. now apply cerr_eqb_eq.
  - intros [R H]. rewrite R. cbn [N.eqb Pos.eqb andb].
    destruct (o_out o) as [v|e| |]; try contradiction.
    + destruct H as (F & r & -> & ->). rewrite F. cbn [negb andb]. apply value_eqb_refl.
    + destruct H as (F & H). rewrite F. cbn [andb]. destruct s as [|r]; [reflexivity|].
      destruct (spec_status_error m r) as [e'|] eqn:SE; [|reflexivity].
      rewrite (H r e' eq_refl SE). apply cerr_eqb_refl.
Qed.

(** An implementation that agrees with the model meets the specification. *)
Theorem agree_implies_spec_ok m p s o :
  well_formed s = true -> vcard_decoder_total s = true ->
  model_agrees m p s o = true -> spec_ok m p s o = true.
Proof.
  intros W D A. unfold model_agrees in A. apply andb_true_iff in A. destruct A as [R A].
  apply outcome_eqb_eq in A. apply spec_ok_meets. unfold meets_spec. apply N.eqb_eq in R. split; [exact R|].
  rewrite <- A. unfold model_out. destruct (run m p s) as [v|e|] eqn:E.
  - destruct (run_ok_value m p s v W E) as (r & -> & F & V). eauto.
  - split.
    + apply (run_error_iff m p s W D). rewrite E. reflexivity.
    + intros r e' -> SE. rewrite (run_status_error m p r e' SE) in E. congruence.
  - exact (run_no_panic m p s W D E).
Qed.

(** * Repaired (c4d1d95): go-ical's decoder panics on some texts; the caldav client now
    reports an error.  The former witness of the finding: *)

Definition ical_panic_witness : script :=
  Resp (mkH 200 true "text/calendar" false "text/calendar" [] LNone true true true LPanic LBad XSyn).

Example ical_decoder_panic_is_an_error :
  run MGetCalendarObject "/cal/me/work/1.ics" ical_panic_witness = CErr EOther /\
  must_fail MGetCalendarObject "/cal/me/work/1.ics" ical_panic_witness = true.
Proof. vm_compute. auto. Qed.

(** the hypothesis on the HTTPClient is needed as well: without Response.Request the
    object getters dereference nil *)
Example request_unset_panics :
  run MGetCalendarObject "/c/1.ics"
    (Resp (mkH 200 false "text/calendar" false "text/calendar" [] LNone true true true LGood LBad XSyn)) = CPanic.
Proof. reflexivity. Qed.

(** * DecodeProp with several values: every value is looked up *)

Theorem decode_pair_ok r : c_is_ok (decode_pair r) = spec_pair_ok r.
Proof.
  unfold decode_pair, spec_pair_ok. destruct (resp_success r) eqn:H.
  - cbn [andb]. use_prop H n_getetag dec_good; [|reflexivity].
    use_prop H n_getlastmodified dec_good; reflexivity.
  - destruct (decode_prop_failed_entry r n_getetag dec_good H) as (e & ->). reflexivity.
Qed.

Theorem decode_pair_no_panic r : decode_pair r <> CPanic.
Proof. unfold decode_pair. np. Qed.

(** the same with the known-finding selector as the visible hypothesis *)
Lemma dp_dt s : vcard_decoder_panics s = false -> vcard_decoder_total s = true.
Proof. unfold vcard_decoder_panics. apply negb_false_iff. Qed.

Theorem run_no_panic_kf m p s :
  well_formed s = true -> vcard_decoder_panics s = false -> run m p s <> CPanic.
Proof. intros W D. apply run_no_panic; auto using dp_dt. Qed.

Theorem run_error_iff_kf m p s :
  well_formed s = true -> vcard_decoder_panics s = false ->
  (c_is_err (run m p s) = true <-> must_fail m p s = true).
Proof. intros W D. apply run_error_iff; auto using dp_dt. Qed.

Theorem agree_implies_spec_ok_kf m p s o :
  well_formed s = true -> vcard_decoder_panics s = false ->
  model_agrees m p s o = true -> spec_ok m p s o = true.
Proof. intros W D. apply agree_implies_spec_ok; auto using dp_dt. Qed.

(** the relaxed verdict only adds acceptances *)
Lemma spec_ok_relaxed_weaker m p s o : spec_ok m p s o = true -> spec_ok_relaxed m p s o = true.
Proof. unfold spec_ok_relaxed. intros ->. reflexivity. Qed.

Lemma spec_ok_relaxed_unambiguous m p s o :
  ambiguous s = false -> spec_ok_relaxed m p s o = spec_ok m p s o.
Proof. unfold spec_ok_relaxed. intros ->. cbn [andb]. apply orb_false_r. Qed.
