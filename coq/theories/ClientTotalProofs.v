(** ClientTotalProofs.v — proofs about ClientTotal.v (C14). *)
From GW Require Import Base ClientTotal.

Lemma plain_ok_iff s : c_is_err (plain s) = must_fail MOpen "" s.
Proof.
  destruct s as [|r]; simpl; [reflexivity|].
  unfold plain, client_do. destruct (success (h_status r)); reflexivity.
Qed.
