(** ObjCheck.v — executable verdicts used by the C10 oracle: for every kind of case
    the harness records, [agree] (the real code did what the model says) and [spec]
    (the observation meets the specification), plus [applies] (the premises of the
    theorems hold for this input: the external codecs round-trip its values).
    No proofs here: this file is extracted. *)
From GW Require Import Base ObjXml Objects ObjRfc.

Local Open Scope Z_scope.

Record verdict := { agree : bool; spec : bool; applies : bool; finding : bool }.

(** * Equalities *)
Definition obj_view_eqb (a b : obj_view) : bool :=
  String.eqb (v_path a) (v_path b) && String.eqb (v_etag a) (v_etag b) && (v_sec a =? v_sec b)
  && (v_len a =? v_len b) && String.eqb (v_data a) (v_data b).
Definition str_pair_eqb (a b : string * string) : bool :=
  String.eqb (fst a) (fst b) && String.eqb (snd a) (snd b).
Definition coll_view_eqb (a b : coll_view) : bool :=
  String.eqb (cv_path a) (cv_path b) && String.eqb (cv_name a) (cv_name b) && String.eqb (cv_desc a) (cv_desc b)
  && (cv_max a =? cv_max b) && list_eqb String.eqb (cv_comps a) (cv_comps b)
  && list_eqb str_pair_eqb (cv_adata a) (cv_adata b).
Definition cres_eqb {A} (eqb : A -> A -> bool) (a b : cres A) : bool :=
  match a, b with
  | COk x, COk y => eqb x y
  | CHttp c, CHttp d => c =? d
  | COther, COther => true
  | _, _ => false
  end.
Definition sync_item_eqb (a b : sync_item) : bool :=
  match a, b with
  | Updated p e s, Updated p' e' s' => String.eqb p p' && String.eqb e e' && (s =? s')
  | Deleted p, Deleted p' => String.eqb p p'
  | _, _ => false
  end.

(** multiset equality of tables *)
Fixpoint remove_row (r : row) (l : list row) : option (list row) :=
  match l with
  | [] => None
  | x :: rest => if row_eqb r x then Some rest
                 else match remove_row r rest with Some l' => Some (x :: l') | None => None end
  end.
Fixpoint table_perm_b (a b : list row) : bool :=
  match a with
  | [] => match b with [] => true | _ => false end
  | r :: rest => match remove_row r b with Some b' => table_perm_b rest b' | None => false end
  end.
Definition row_href (r : row) : string := match r with PropRow h _ _ => h | StatusRow h _ => h end.
Fixpoint dedup_adj (l : list string) : list string :=
  match l with
  | a :: ((b :: _) as r) => if String.eqb a b then dedup_adj r else a :: dedup_adj r
  | _ => l
  end.
(** same rows per resource, resources in the same order *)
Definition table_same_b (a b : list row) : bool :=
  table_perm_b a b && list_eqb String.eqb (dedup_adj (map row_href a)) (dedup_adj (map row_href b)).
Definition opt_table_eqb (a b : option (list row)) : bool :=
  match a, b with
  | Some x, Some y => list_eqb row_eqb x y
  | None, None => true
  | _, _ => false
  end.

(** The content of a writer document as values of the wire structs. *)
Definition ps_of_group (g : wgroup) : propstat :=
  {| ps_props := wg_props g; ps_status := {| st_code := wg_code g; st_text := wg_reason g |} |}.
Definition resp_of_wresp (r : wresp) (hs : list string) : response :=
  {| r_hrefs := hs; r_propstats := map ps_of_group (wr_groups r); r_desc := wr_desc r;
     r_status := option_map (fun ct => {| st_code := fst ct; st_text := snd ct |}) (wr_status r);
     r_error := None |}.

Section WithCodecs.
Variable cd hd : codecs.

Definition resp_opt (r : wresp) : option response :=
  match mapM (href_dec cd) (wr_hrefs r) with
  | None => None
  | Some hs => Some (resp_of_wresp r hs)
  end.
(** [None]: an href of the document does not parse *)
Definition ms_opt (d : wdoc) : option multistatus :=
  match mapM resp_opt (wd_resps d) with
  | None => None
  | Some rs => Some {| ms_responses := rs; ms_sync_token := wd_token d |}
  end.

(** * Premises: the codecs round-trip the values of this input *)
Definition opt_str_is (o : option string) (s : string) : bool :=
  match o with Some x => String.eqb x s | None => false end.
Definition path_ok (p : string) : bool := opt_str_is (href_dec cd (href_enc cd p)) p.
Definition obj_codec_ok (fl : flavor) (o : obj) : bool :=
  path_ok (o_path o)
  && (str_empty (o_etag o) || opt_str_is (etag_dec cd (etag_enc cd (o_etag o))) (o_etag o))
  && (is_zero_time o || match time_dec cd (time_enc cd (o_sec o)) with Some z => z =? o_sec o | None => false end)
  && match pay_enc cd fl (o_data o) with Some b => opt_str_is (pay_dec cd fl b) (o_data o) | None => false end
  && int64_ok (o_len o).
Definition coll_codec_ok (c : coll) : bool := path_ok (c_path c) && int64_ok (c_max c).

(** the header code paths round-trip the entity tag and the instant *)
Definition hdr_meta_ok (o : obj) : bool :=
  (str_empty (o_etag o)
   || (negb (str_empty (etag_enc cd (o_etag o))) && opt_str_is (etag_dec hd (etag_enc cd (o_etag o))) (o_etag o)))
  && (is_zero_time o
      || (negb (str_empty (time_enc hd (o_sec o)))
          && match time_dec hd (time_enc hd (o_sec o)) with Some z => z =? o_sec o | None => false end)).
(** the Location header round-trips the path the backend answered *)
Definition hdr_loc_ok (o : obj) : bool :=
  str_empty (o_path o)
  || (negb (str_empty (href_enc hd (o_path o))) && opt_str_is (href_dec hd (href_enc hd (o_path o))) (o_path o)).

(** * What a client call should return *)
Definition pos_or_zero (z : Z) : Z := if 0 <? z then z else 0.
Definition report_view (o : obj) : obj_view :=
  {| v_path := o_path o; v_etag := o_etag o; v_sec := o_sec o; v_len := 0; v_data := o_data o |}.
Definition full_view (o : obj) : obj_view :=
  {| v_path := o_path o; v_etag := o_etag o; v_sec := o_sec o; v_len := pos_or_zero (o_len o); v_data := o_data o |}.
Definition coll_spec_view (fl : flavor) (c : coll) : coll_view :=
  {| cv_path := c_path c; cv_name := c_name c; cv_desc := c_desc c; cv_max := pos_or_zero (c_max c);
     cv_comps := match fl with Cal => advertised_comps c | Card => [] end;
     cv_adata := match fl with
                 | Cal => []
                 | Card => [("text/vcard", "3.0"); ("text/vcard", "4.0")]%string
                 end |}.

(** A media type is compared by type/subtype (RFC 7231 section 3.1.1.1: case-insensitive;
    parameters such as charset are not constrained by the property): what precedes the
    first ";", without surrounding white space, in lower case. *)
Definition lower_ascii (c : ascii) : ascii :=
  let n := N_of_ascii c in if (N.leb 65 n) && (N.leb n 90) then ascii_of_N (n + 32) else c.
Fixpoint lower_string (s : string) : string :=
  match s with EmptyString => EmptyString | String c r => String (lower_ascii c) (lower_string r) end.
Definition media_essence (s : string) : string :=
  lower_string (trim_space (match split_at ";" s with Some (a, _) => a | None => s end)).
(** the rows of DAV:getcontenttype, reduced to the essence of their media type *)
Definition norm_row (r : row) : row :=
  match r with
  | PropRow h (Elem n a ks) c =>
    if xname_eqb n n_getcontenttype then PropRow h (Elem n a (text_nodes (media_essence (chardata ks)))) c else r
  | _ => r
  end.
Definition norm_table (t : option (list row)) : option (list row) := option_map (map norm_row) t.

Definition body_checks (model_tree obs_tree : xtree) (obs_table : option (list row)) : bool :=
  xtree_eqb model_tree obs_tree && opt_table_eqb (rfc4918_read_multistatus model_tree) obs_table.
Definition table_spec (expected : list row) (obs_table : option (list row)) : bool :=
  match norm_table obs_table with Some t => table_same_b t expected | None => false end.

(** The ContentLength field of a client's object is not among the things the property
    says must reach the client unchanged: the specification accepts 0 (the clients do not
    ask for getcontentlength) or the backend's length.  [exp] carries the backend's. *)
Definition obj_view_spec_eqb (exp obs : obj_view) : bool :=
  String.eqb (v_path exp) (v_path obs) && String.eqb (v_etag exp) (v_etag obs) && (v_sec exp =? v_sec obs)
  && ((v_len obs =? 0) || (v_len obs =? v_len exp)) && String.eqb (v_data exp) (v_data obs).

(** The table of a server body against what the RFCs prescribe, independent of WHICH names
    the client chose to ask for beyond the ones it must read ([known]): the rows for the
    known names are exactly the expected ones (resource by resource, in order), and every
    other row is the RFC's answer for its name on a resource with that href.
    [answers]: per resource, the href written for it and its answer function. *)
Definition row_known (known : list xname) (r : row) : bool :=
  match r with
  | PropRow _ p _ => existsb (fun n => has_name n p) known
  | StatusRow _ _ => true
  end.
Definition extra_row_ok (answers : list (string * (xname -> xtree * Z))) (r : row) : bool :=
  match r with
  | PropRow h p c =>
    match root_name p with
    | Some n => existsb (fun a => String.eqb (fst a) h && pair_eqb (snd a n) (p, c)) answers
    | None => false
    end
  | StatusRow _ _ => true
  end.
Definition table_spec_rel (known : list xname) (answers : list (string * (xname -> xtree * Z)))
           (expected : list row) (obs_table : option (list row)) : bool :=
  match norm_table obs_table with
  | Some t => table_same_b (filter (row_known known) t) expected
              && forallb (fun r => row_known known r || extra_row_ok answers r) t
  | None => false
  end.

(** ** Query *)
Definition check_query (fl : flavor) (principal : string) (os : list obj)
           (obs_tree : xtree) (obs_table : option (list row)) (obs_client : cres (list obj_view)) : verdict :=
  let mt := server_query cd fl principal (report_req fl) os in
  {| agree := body_checks mt obs_tree obs_table
              && cres_eqb (list_eqb obj_view_eqb) (e2e_query cd fl principal os) obs_client;
     spec := table_spec_rel (report_req fl)
               (map (fun o => (href_enc cd (o_path o), spec_object_answer cd fl principal o)) os)
               (flat_map (fun o => expected_rows cd (o_path o) (spec_object_answer cd fl principal o) (report_req fl)) os) obs_table
             && cres_eqb (list_eqb obj_view_spec_eqb) (COk (map full_view os)) obs_client;
     applies := forallb (obj_codec_ok fl) os; finding := false |}.

(** ** Multiget *)
Definition outcome_ok (fl : flavor) (h : string) (out : outcome) : bool :=
  match out with
  | Found o => obj_codec_ok fl o && String.eqb (o_path o) h
  | Failed c _ _ => path_ok h && int64_ok (fail_code c) && negb (Z.quot (fail_code c) 100 =? 2)
                    && (100 <=? fail_code c) && (fail_code c <=? 999)
  end.
Fixpoint spec_multiget_client (backend : string -> outcome) (hrefs : list string) : cres (list obj_view) :=
  match hrefs with
  | [] => COk []
  | h :: r => match backend h with
              | Failed c _ _ => CHttp (fail_code c)
              | Found o => bindc (spec_multiget_client backend r) (fun l => COk (report_view o :: l))
              end
  end.
(** the same with the backend's lengths, for the lenient comparison of the specification *)
Fixpoint spec_multiget_full (backend : string -> outcome) (hrefs : list string) : cres (list obj_view) :=
  match hrefs with
  | [] => COk []
  | h :: r => match backend h with
              | Failed c _ _ => CHttp (fail_code c)
              | Found o => bindc (spec_multiget_full backend r) (fun l => COk (full_view o :: l))
              end
  end.
Definition check_multiget (fl : flavor) (principal : string) (backend : string -> outcome) (hrefs : list string)
           (obs_tree : xtree) (obs_table : option (list row)) (obs_client : cres (list obj_view))
           (obs_calls : list string) : verdict :=
  let seen := match request_hrefs cd hrefs with Some hs => hs | None => [] end in
  let mt := server_multiget cd fl principal (report_req fl) backend seen in
  {| agree := body_checks mt obs_tree obs_table
              && cres_eqb (list_eqb obj_view_eqb) (e2e_multiget cd fl principal backend hrefs) obs_client
              && list_eqb String.eqb seen obs_calls;
     spec := table_spec_rel (report_req fl)
               (flat_map (fun h => match backend h with
                                   | Found o => [(href_enc cd (o_path o), spec_object_answer cd fl principal o)]
                                   | Failed _ _ _ => []
                                   end) hrefs)
               (flat_map (fun h => match backend h with
                                   | Found o => expected_rows cd (o_path o) (spec_object_answer cd fl principal o) (report_req fl)
                                   | Failed c _ _ => [StatusRow (href_enc cd h) (fail_code c)]
                                   end) hrefs) obs_table
             && cres_eqb (list_eqb obj_view_spec_eqb) (spec_multiget_full backend hrefs) obs_client
             && list_eqb String.eqb hrefs obs_calls;
     applies := forallb (fun h => outcome_ok fl h (backend h)) hrefs; finding := false |}.

(** ** Discovery *)
Definition check_find (fl : flavor) (principal home : string) (cs : list coll)
           (obs_tree : xtree) (obs_table : option (list row)) (obs_client : cres (list coll_view)) : verdict :=
  let mt := server_propfind_homeset cd fl principal home (find_req fl) cs in
  {| agree := body_checks mt obs_tree obs_table
              && cres_eqb (list_eqb coll_view_eqb) (e2e_find cd fl principal home cs) obs_client;
     spec := cres_eqb (list_eqb coll_view_eqb) (COk (map (coll_spec_view fl) cs)) obs_client
             && table_spec_rel (find_req fl)
                  (map (fun c => (href_enc cd (c_path c), spec_collection_answer cd fl principal c)) cs)
                  (flat_map (fun c => expected_rows cd (c_path c) (spec_collection_answer cd fl principal c) (find_req fl)) cs)
                  (* the rows of the home set itself come first and are not the subject here *)
                  (option_map (filter (fun r => negb (String.eqb (row_href r) (href_enc cd home))
                                                || existsb (fun c => String.eqb (c_path c) home) cs)) obs_table);
     applies := forallb coll_codec_ok cs && path_ok home && path_ok principal; finding := false |}.

(** ** PROPFIND Depth 1 on a collection (listing), any requested names *)
Definition check_propfind (fl : flavor) (principal : string) (req : list xname) (c : coll) (os : list obj)
           (obs_tree : xtree) (obs_table : option (list row)) : verdict :=
  let mt := server_propfind_collection cd fl principal req c os in
  {| agree := body_checks mt obs_tree obs_table;
     spec := table_spec (expected_rows cd (c_path c) (spec_collection_answer cd fl principal c) req
                         ++ flat_map (fun o => expected_rows cd (o_path o) (spec_object_answer cd fl principal o) req) os)
                        obs_table;
     applies := coll_codec_ok c && forallb (obj_codec_ok fl) os && path_ok principal
                && negb (match req with [] => true | _ => false end);
     finding := false |}.

(** ** GET *)
Definition check_get (fl : flavor) (reqpath : string) (out : outcome) (obs_client : cres obj_view) : verdict :=
  {| agree := cres_eqb obj_view_eqb (e2e_get cd hd fl reqpath out) obs_client;
     spec := cres_eqb obj_view_spec_eqb
               (match out with
                | Found o => COk {| v_path := reqpath; v_etag := o_etag o; v_sec := o_sec o;
                                    v_len := pos_or_zero (o_len o); v_data := o_data o |}
                | Failed c _ _ => CHttp (fail_code c)
                end) obs_client;
     applies := match out with
                | Found o => obj_codec_ok fl o && hdr_meta_ok o
                | Failed c _ _ => negb (Z.quot (fail_code c) 100 =? 2)
                end;
     finding := false |}.

(** ** PUT *)
Definition opt_pair_eqb (a b : option (string * string)) : bool :=
  match a, b with
  | Some x, Some y => str_pair_eqb x y
  | None, None => true
  | _, _ => false
  end.
Definition check_put (fl : flavor) (reqpath data : string) (ret : outcome)
           (obs_client : cres obj_view) (obs_received : option (string * string)) : verdict :=
  let m := e2e_put cd hd fl reqpath data ret in
  {| agree := cres_eqb obj_view_eqb (fst m) obs_client
              && opt_pair_eqb (option_map (fun c => (reqpath, c)) (snd m)) obs_received;
     spec := opt_pair_eqb (Some (reqpath, data)) obs_received
             && cres_eqb obj_view_eqb
                  (match ret with
                   | Found o => COk {| v_path := if str_empty (o_path o) then reqpath else o_path o;
                                       v_etag := o_etag o; v_sec := o_sec o; v_len := 0; v_data := "" |}
                   | Failed c _ _ => CHttp (fail_code c)
                   end) obs_client;
     applies := match pay_enc cd fl data with Some b => opt_str_is (pay_dec cd fl b) data | None => false end
                && match ret with
                   | Found o => hdr_loc_ok o && hdr_meta_ok o
                   | Failed c _ _ => negb (Z.quot (fail_code c) 100 =? 2)
                   end;
     finding := false |}.

(** ** A history of PUTs at one request path against a backend with state.  The code does
    not consult the backend before Put, so every step is judged as a PUT of its own: whether
    an object was retrievable at the request path before (an earlier PUT, or one that was
    there) must not matter, and the client gets back the path the backend answered. *)
(** outside the premises of the theorems only agreement with the model is required *)
Definition verdict_settle (v : verdict) : verdict :=
  {| agree := agree v; spec := spec v || negb (applies v); applies := applies v; finding := finding v |}.
(** several judgements of one case (the steps of a history): each settled on its own *)
Definition verdict_and (a b : verdict) : verdict :=
  {| agree := agree a && agree b; spec := spec a && spec b; applies := applies a && applies b;
     finding := finding a || finding b |}.
Definition verdict_ok : verdict := {| agree := true; spec := true; applies := true; finding := false |}.
(** the implementation panicked, answered unreadably, or the machinery saw it modify an
    argument / a result it had handed out *)
Definition verdict_fail : verdict := {| agree := false; spec := false; applies := true; finding := false |}.
(** the behaviour differs from the model in a way the specification does not speak about *)
Definition verdict_break : verdict := {| agree := false; spec := true; applies := true; finding := false |}.
Fixpoint check_putseq (fl : flavor) (reqpath : string) (steps : list (string * outcome))
         (obs : list (cres obj_view * option (string * string))) : verdict :=
  match steps, obs with
  | [], [] => verdict_ok
  | (d, ret) :: steps', (c, r) :: obs' =>
    verdict_and (verdict_settle (check_put fl reqpath d ret c r)) (check_putseq fl reqpath steps' obs')
  | _, _ => verdict_fail
  end.

(** ** Documents from the independent writer, and arbitrary trees *)
Inductive call := CallObjects | CallFind | CallSync.
Inductive call_result :=
| RObjects (r : cres (list obj_view))
| RFind (r : cres (list coll_view))
| RSync (r : cres (string * list (string * string * Z) * list string)).

Fixpoint sync_updated (l : list sync_item) : list (string * string * Z) :=
  match l with
  | [] => []
  | Updated p e s :: r => (p, e, s) :: sync_updated r
  | _ :: r => sync_updated r
  end.
Fixpoint sync_deleted (l : list sync_item) : list string :=
  match l with
  | [] => []
  | Deleted p :: r => p :: sync_deleted r
  | _ :: r => sync_deleted r
  end.

Definition run_call (fl : flavor) (c : call) (reqpath : string) (body : xtree) : call_result :=
  match c with
  | CallObjects => RObjects (client_object_list cd fl body)
  | CallFind => RFind (find_collections cd fl body)
  | CallSync => RSync (match sync_collection cd reqpath body with
                       | COk (tok, l) => COk (tok, sync_updated l, sync_deleted l)
                       | CHttp c => CHttp c
                       | COther => COther
                       end)
  end.

(** What a call should return for the CONTENT of a writer document, whatever its layout:
    the per-resource reading applied to the content itself, no XML involved. *)
Definition content_call (fl : flavor) (c : call) (reqpath : string) (d : wdoc) : call_result :=
  let sync_res (r : cres (string * list sync_item)) :=
      match r with
      | COk (tok, l) => COk (tok, sync_updated l, sync_deleted l)
      | CHttp c => CHttp c
      | COther => COther
      end in
  match ms_opt d with
  | None => match c with CallObjects => RObjects COther | CallFind => RFind COther | CallSync => RSync COther end
  | Some ms =>
    match c with
    | CallObjects => RObjects (decode_object_list cd fl ms)
    | CallFind => RFind (bindc (mapC (find_one fl) (ms_responses ms)) (fun l => COk (somes l)))
    | CallSync => RSync (sync_res (bindc (mapC (sync_one cd reqpath) (ms_responses ms))
                                         (fun l => COk (ms_sync_token ms, List.concat l))))
    end
  end.

Definition upd_eqb (a b : string * string * Z) : bool :=
  String.eqb (fst (fst a)) (fst (fst b)) && String.eqb (snd (fst a)) (snd (fst b)) && (snd a =? snd b).
Definition sync_res_eqb (a b : string * list (string * string * Z) * list string) : bool :=
  String.eqb (fst (fst a)) (fst (fst b)) && list_eqb upd_eqb (snd (fst a)) (snd (fst b))
  && list_eqb String.eqb (snd a) (snd b).
Definition call_result_eqb (a b : call_result) : bool :=
  match a, b with
  | RObjects x, RObjects y => cres_eqb (list_eqb obj_view_eqb) x y
  | RFind x, RFind y => cres_eqb (list_eqb coll_view_eqb) x y
  | RSync x, RSync y => cres_eqb sync_res_eqb x y
  | _, _ => false
  end.

Definition known_for (fl : flavor) (c : call) : list xname :=
  match c with
  | CallObjects => [data_name fl; n_getlastmodified; n_getetag; n_getcontentlength]
  | CallFind => find_req fl
  | CallSync => [n_getlastmodified; n_getetag]
  end.

Definition check_doc (fl : flavor) (c : call) (reqpath : string) (tree : xtree) (obs : call_result) : verdict :=
  {| agree := call_result_eqb (run_call fl c reqpath tree) obs; spec := true; applies := true; finding := false |}.

(** Two layouts of the same content: both must be what the writer writes, both must be
    read as the model reads them, and both must be read alike. *)
Definition check_vdoc (fl : flavor) (c : call) (reqpath : string) (d1 d2 : wdoc)
           (tree1 : xtree) (obs1 : call_result) (tree2 : xtree) (obs2 : call_result) : verdict :=
  {| agree := xtree_eqb (rfc_write d1) tree1 && xtree_eqb (rfc_write d2) tree2
              && call_result_eqb (run_call fl c reqpath tree1) obs1
              && call_result_eqb (run_call fl c reqpath tree2) obs2;
     spec := call_result_eqb obs1 obs2
             && call_result_eqb (content_call fl c reqpath d1) obs1
             && call_result_eqb (content_call fl c reqpath d2) obs2;
     applies := wdoc_ok d1 && wdoc_ok d2 && same_content_b cd (known_for fl c) d1 d2;
     (* known finding C10-foreign-namesake: RFC-conformant layouts of the same content, one
        of which holds a foreign-namespace element with the local name of a schema element,
        are read differently *)
     finding := foreign_namesake d1 d2 && wdoc_rfc_ok d1 && wdoc_rfc_ok d2
                && same_content_b cd (known_for fl c) d1 d2 && negb (call_result_eqb obs1 obs2) |}.

End WithCodecs.
