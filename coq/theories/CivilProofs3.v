(** CivilProofs3.v — every rfc850-date and asctime-date of RFC 7231 7.1.1.1 is accepted by
    internal.Time.UnmarshalText with the instant it denotes; with CivilProofs2 this makes
    the whole HTTP-date grammar accepted with the denoted value. *)
From GW Require Import Base Wire WireProofs Civil CivilSweep CivilProofs CivilProofs2.
Local Open Scope Z_scope.

Lemma j_cases j : 0 <= j < 0 + 7 -> j = 0 \/ j = 1 \/ j = 2 \/ j = 3 \/ j = 4 \/ j = 5 \/ j = 6.
Proof. lia. Qed.

Lemma lookup_long_day j r : 0 <= j < 0 + 7 ->
  lookup long_day_names (nth_name long_day_names j ++ r) 0 = Some (j, r).
Proof. intros H. apply j_cases in H. repeat (destruct H as [H|H]); subst; reflexivity. Qed.

(** the IMF-fixdate layout does not read an rfc850-date: after the short day name comes a letter *)
Lemma rfc850_not_imf j r : 0 <= j < 0 + 7 ->
  parse_with layout_http (nth_name long_day_names j ++ String "," r) = None.
Proof. intros H. apply j_cases in H. repeat (destruct H as [H|H]); subst; reflexivity. Qed.

Theorem rfc850_accepted s t : den_rfc850 s = Some t -> http_parse_time s = Some (t, 0).
Proof.
  unfold den_rfc850.
  destruct (exact_name long_day_names s 0) as [[j r0]|] eqn:Ed; [|discriminate].
  destruct (exact_name_inv _ _ _ _ _ Ed) as [Hj ->]. cbn [List.length long_day_names Z.of_nat Pos.of_succ_nat Pos.succ] in Hj.
  destruct r0 as [|c [|sp1 [|d1 [|d2 [|da1 r1]]]]]; try discriminate.
  destruct (Ascii.eqb_spec c ","); [subst c|discriminate].
  destruct (Ascii.eqb_spec sp1 " "); [subst sp1|discriminate].
  destruct (Ascii.eqb_spec da1 "-"); [subst da1|discriminate]. cbn [andb].
  destruct (exact_name short_month_names r1 0) as [[mi r2]|] eqn:Em; [|discriminate].
  destruct (exact_name_inv _ _ _ _ _ Em) as [Hmi ->]. cbn [List.length short_month_names] in Hmi.
  destruct r2 as [|da2 [|y1 [|y2 [|sp2 r3]]]]; try discriminate.
  destruct (Ascii.eqb_spec da2 "-"); [subst da2|discriminate].
  destruct (Ascii.eqb_spec sp2 " "); [subst sp2|discriminate]. cbn [andb].
  unfold den_time_of_day.
  destruct r3 as [|h1 [|h2 [|c1 [|n1 [|n2 [|c2 [|s1 [|s2 rest]]]]]]]]; try discriminate.
  destruct (Ascii.eqb_spec c1 ":"); [subst c1|discriminate].
  destruct (Ascii.eqb_spec c2 ":"); [subst c2|discriminate]. cbn [andb].
  destruct (String.eqb_spec rest " GMT"); [subst rest|discriminate].
  unfold den_fields.
  destruct (two_digits y1 y2) as [y|] eqn:Ey; [|discriminate].
  destruct (two_digits d1 d2) as [d|] eqn:Edd; [|discriminate].
  destruct (two_digits h1 h2) as [h|] eqn:Eh; [|discriminate].
  destruct (two_digits n1 n2) as [mn|] eqn:En; [|discriminate].
  destruct (two_digits s1 s2) as [sec|] eqn:Es; [|discriminate].
  apply two_digits_some in Ey, Edd, Eh, En, Es.
  destruct Ey as (Hy1&Hy2&->). destruct Edd as (Hd1&Hd2&->). destruct Eh as (Hh1&Hh2&->).
  destruct En as (Hn1&Hn2&->). destruct Es as (Hs1&Hs2&->).
  destruct (valid_fields _ _ _ _ _ _) eqn:Ev; [|discriminate]. intros [= <-].
  assert (Ev' := Ev). unfold valid_fields in Ev'. rewrite !andb_true_iff, !Z.leb_le in Ev'.
  clear Ed Em. rewrite !Z.sub_0_r. fold (nth_name long_day_names j). fold (nth_name short_month_names mi).
  unfold http_parse_time. rewrite rfc850_not_imf by exact Hj.
  replace (parse_with layout_rfc850 _) with (Some (spec_unix_of_fields (if 69 <=? v2 y1 y2 then v2 y1 y2 + 1900 else v2 y1 y2 + 2000)
             (mi + 1) (v2 d1 d2) (v2 h1 h2) (v2 n1 n2) (v2 s1 s2), 0)); [reflexivity|]. symmetry.
  unfold parse_with, time_parse, layout_rfc850. cbn [fst snd]. pstep.
  rewrite skip_empty. cbn [parse_std]. rewrite lookup_long_day by exact Hj. pstep.
  rewrite skip_comma_space by (apply head_not_space_digit; exact Hd1).
  rewrite getnum_2digits by assumption. pstep.
  rewrite skip_lit1 by reflexivity.
  assert (Hpm := fun r => lookup_short_month (mi + 1) r). replace (mi + 1 - 1) with mi in Hpm by lia.
  rewrite Hpm by lia. pstep.
  rewrite skip_lit1 by reflexivity. cbn [take].
  rewrite atoi_time_digit_first by exact Hy1. cbn [all_digits]. rewrite Hy1, Hy2. cbn [andb].
  unfold dec_value. cbn [dec_value_acc].
  replace ((0 * 10 + digit_val y1) * 10 + digit_val y2) with (v2 y1 y2) by (unfold v2; lia).
  pstep. rewrite skip_space by (apply head_not_space_digit; exact Hh1).
  rewrite getnum_2digits by assumption.
  destruct (Z.leb_spec 24 (v2 h1 h2)); [lia|].
  pstep. rewrite skip_lit1 by reflexivity. rewrite getnum_2digits by assumption.
  destruct (Z.leb_spec 60 (v2 n1 n2)); [lia|].
  pstep. rewrite skip_lit1 by reflexivity. rewrite getnum_2digits by assumption.
  destruct (Z.leb_spec 60 (v2 s1 s2)); [lia|].
  change (parse_frac " GMT") with (0, " GMT"%string). cbv iota beta. pstep.
  change (skip " GMT" " ") with (Some "GMT"%string). cbv iota beta.
  change (strip_prefix "UTC" "GMT") with (@None string). cbv iota.
  change (parse_time_zone "GMT") with (Some 3%nat). cbv iota. cbn [drop]. pstep.
  change (skip "" "") with (Some EmptyString). cbv iota.
  rewrite finish_valid; try (apply v2_range; assumption).
  - rewrite Ev. reflexivity.
  - apply negb_true_iff, orb_false_iff. split; [apply Z.leb_gt|apply Z.ltb_ge]; lia.
  - apply Z.leb_gt; lia.
  - apply Z.leb_gt; lia.
  - apply Z.leb_gt; lia.
Qed.

(** neither the IMF-fixdate nor the rfc850 layout reads an asctime-date *)
Lemma asctime_not_imf j r : 0 <= j < 0 + 7 ->
  parse_with layout_http (nth_name short_day_names j ++ String " " r) = None.
Proof. intros H. apply j_cases in H. repeat (destruct H as [H|H]); subst; reflexivity. Qed.

Lemma asctime_not_rfc850 j r : 0 <= j < 0 + 7 ->
  parse_with layout_rfc850 (nth_name short_day_names j ++ String " " r) = None.
Proof. intros H. apply j_cases in H. repeat (destruct H as [H|H]); subst; reflexivity. Qed.

Lemma skip_two_spaces v : head_not_space v -> skip (String " " (String " " v)) " " = Some v.
Proof.
  intros H. unfold skip. cbn [String.length skip_fuel Ascii.eqb Bool.eqb cutspace].
  rewrite (cutspace_head v H). destruct v; reflexivity.
Qed.

Theorem asctime_accepted s t : den_asctime s = Some t -> http_parse_time s = Some (t, 0).
Proof.
  unfold den_asctime.
  destruct (exact_name short_day_names s 0) as [[j r0]|] eqn:Ed; [|discriminate].
  destruct (exact_name_inv _ _ _ _ _ Ed) as [Hj ->]. cbn [List.length short_day_names Z.of_nat Pos.of_succ_nat Pos.succ] in Hj.
  destruct r0 as [|sp1 r0]; [discriminate|].
  destruct (Ascii.eqb_spec sp1 " "); [subst sp1|discriminate].
  destruct (exact_name short_month_names r0 0) as [[mi r1]|] eqn:Em; [|discriminate].
  destruct (exact_name_inv _ _ _ _ _ Em) as [Hmi ->]. cbn [List.length short_month_names] in Hmi.
  destruct r1 as [|sp2 [|d1 [|d2 [|sp3 r2]]]]; try discriminate.
  destruct (Ascii.eqb_spec sp2 " "); [subst sp2|discriminate].
  destruct (Ascii.eqb_spec sp3 " "); [subst sp3|discriminate]. cbn [andb].
  unfold den_time_of_day.
  destruct r2 as [|h1 [|h2 [|c1 [|n1 [|n2 [|c2 [|s1 [|s2 rest]]]]]]]]; try discriminate.
  destruct (Ascii.eqb_spec c1 ":"); [subst c1|discriminate].
  destruct (Ascii.eqb_spec c2 ":"); [subst c2|discriminate]. cbn [andb].
  destruct rest as [|sp4 [|y1 [|y2 [|y3 [|y4 [|? ?]]]]]]; try discriminate.
  destruct (Ascii.eqb_spec sp4 " "); [subst sp4|discriminate].
  unfold den_fields.
  destruct (four_digits y1 y2 y3 y4) as [y|] eqn:Ey; [|discriminate].
  set (day := if Ascii.eqb d1 " " then if is_digit d2 then Some (digit_val d2) else None else two_digits d1 d2).
  destruct day as [d|] eqn:Edd; [|discriminate].
  destruct (two_digits h1 h2) as [h|] eqn:Eh; [|discriminate].
  destruct (two_digits n1 n2) as [mn|] eqn:En; [|discriminate].
  destruct (two_digits s1 s2) as [sec|] eqn:Es; [|discriminate].
  apply four_digits_some in Ey. destruct Ey as (Hy1&Hy2&Hy3&Hy4&->).
  apply two_digits_some in Eh, En, Es.
  destruct Eh as (Hh1&Hh2&->). destruct En as (Hn1&Hn2&->). destruct Es as (Hs1&Hs2&->).
  destruct (valid_fields _ _ _ _ _ _) eqn:Ev; [|discriminate]. intros [= <-].
  assert (Ev' := Ev). unfold valid_fields in Ev'. rewrite !andb_true_iff, !Z.leb_le in Ev'.
  clear Ed Em. rewrite !Z.sub_0_r. fold (nth_name short_day_names j). fold (nth_name short_month_names mi).
  unfold http_parse_time. rewrite asctime_not_imf, asctime_not_rfc850 by exact Hj.
  assert (Hhm := fun r => head_not_space_month (mi + 1) r). assert (Hpm := fun r => lookup_short_month (mi + 1) r).
  replace (mi + 1 - 1) with mi in Hhm, Hpm by lia.
  (* the parse up to the day of the month, in its two spellings *)
  assert (Hday : forall tl, head_not_space tl ->
    exists v, skip (String " " (String d1 (String d2 (String " " tl)))) " " = Some v
              /\ getnum (match v with String c r => if Ascii.eqb c " " then r else v | EmptyString => v end) false
                 = Some (d, String " " tl) /\ 0 <= d).
  { intros tl Htl. subst day. destruct (Ascii.eqb_spec d1 " ") as [->|Hd1].
    - destruct (is_digit d2) eqn:Hd2; [|discriminate]. injection Edd as <-.
      exists (String d2 (String " " tl)). split; [apply skip_two_spaces, head_not_space_digit; exact Hd2|].
      rewrite (is_digit_not_space d2 Hd2). unfold getnum. rewrite Hd2. cbn. split; [reflexivity|].
      apply digit_val_range in Hd2. lia.
    - apply two_digits_some in Edd. destruct Edd as (Hd1'&Hd2&->).
      exists (String d1 (String d2 (String " " tl))). split; [apply skip_space, head_not_space_digit; exact Hd1'|].
      rewrite (is_digit_not_space d1 Hd1'). rewrite getnum_2digits by assumption. split; [reflexivity|].
      apply v2_range; assumption. }
  destruct (Hday (String h1 (String h2 (String ":" (String n1 (String n2 (String ":" (String s1 (String s2
              (String " " (String y1 (String y2 (String y3 (String y4 EmptyString))))))))))))))
    as (v & Hv1 & Hv2 & Hd0); [apply head_not_space_digit; exact Hh1|].
  unfold parse_with, time_parse, layout_ansic. cbn [fst snd]. pstep.
  rewrite skip_empty. cbn [parse_std]. rewrite lookup_short_day by lia. pstep.
  rewrite skip_space by (apply Hhm; lia). rewrite Hpm by lia. pstep.
  rewrite Hv1, Hv2. pstep.
  rewrite skip_space by (apply head_not_space_digit; exact Hh1).
  rewrite getnum_2digits by assumption.
  destruct (Z.leb_spec 24 (v2 h1 h2)); [lia|].
  pstep. rewrite skip_lit1 by reflexivity. rewrite getnum_2digits by assumption.
  destruct (Z.leb_spec 60 (v2 n1 n2)); [lia|].
  pstep. rewrite skip_lit1 by reflexivity. rewrite getnum_2digits by assumption.
  destruct (Z.leb_spec 60 (v2 s1 s2)); [lia|].
  replace (parse_frac (String " " (String y1 (String y2 (String y3 (String y4 EmptyString))))))
    with (0, String " " (String y1 (String y2 (String y3 (String y4 EmptyString))))) by reflexivity.
  cbv iota beta. pstep.
  rewrite skip_space by (apply head_not_space_digit; exact Hy1).
  cbn [take]. rewrite Hy1.
  rewrite atoi_time_digit_first by exact Hy1. cbn [all_digits]. rewrite Hy1, Hy2, Hy3, Hy4. cbn [andb].
  unfold dec_value. cbn [dec_value_acc].
  replace ((((0 * 10 + digit_val y1) * 10 + digit_val y2) * 10 + digit_val y3) * 10 + digit_val y4)
    with (v4 y1 y2 y3 y4) by (unfold v4; lia).
  pstep. change (skip "" "") with (Some EmptyString). cbv iota.
  rewrite finish_valid; try (apply v2_range; assumption); try exact Hd0.
  - rewrite Ev. reflexivity.
  - apply negb_true_iff, orb_false_iff. split; [apply Z.leb_gt|apply Z.ltb_ge]; lia.
  - apply Z.leb_gt; lia.
  - apply Z.leb_gt; lia.
  - apply Z.leb_gt; lia.
Qed.

(** every HTTP-date of RFC 7231 7.1.1.1, in any of its three forms, is accepted with the
    instant it denotes and no sub-second part *)
Theorem time_accepts_grammar s t : http_den s = Some t -> time_unmarshal s = Ok (t, 0).
Proof.
  unfold http_den, time_unmarshal. intros H.
  destruct (den_imf s) as [t1|] eqn:E1.
  { injection H as <-. apply time_accepts_imf in E1. exact E1. }
  destruct (den_rfc850 s) as [t2|] eqn:E2.
  { injection H as <-. rewrite (rfc850_accepted _ _ E2). reflexivity. }
  rewrite (asctime_accepted _ _ H). reflexivity.
Qed.

(** away from the listed finding, an accepted text is an HTTP-date and the value decoded
    is the instant it denotes *)
Theorem time_rejects_except_lenient_full s t ns :
  kf_httpdate_lenient s (obs_of (time_unmarshal s)) = false ->
  time_unmarshal s = Ok (t, ns) -> http_den s = Some t /\ ns = 0.
Proof.
  intros Hk H. destruct (time_rejects_except_lenient s t ns Hk H) as [t' Hd].
  assert (H' := time_accepts_grammar _ _ Hd). rewrite H in H'. injection H' as -> ->. auto.
Qed.
