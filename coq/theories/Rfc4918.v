(** Rfc4918.v — the abstract RFC 4918 resource tree the file server is proved to
    implement.  A state is a partial map from paths to resources (a collection, or a
    file with its bytes); the methods are given by their effect on that map and by
    the table of refusals of property C01.  Short on purpose: meant to be read.
    No proofs here (extracted, because the oracle evaluates it on finite trees). *)
From GW Require Import Base GoPath Fs DavServer.
Local Open Scope list_scope.
Local Open Scope N_scope.

Inductive ares := AFile (content : string) | ACol.
Definition amap := path -> option ares.

Definition ares_eqb (a b : option ares) : bool :=
  match a, b with
  | None, None => true
  | Some ACol, Some ACol => true
  | Some (AFile x), Some (AFile y) => String.eqb x y
  | _, _ => false
  end.

Definition is_col (a : option ares) : bool := match a with Some ACol => true | _ => false end.
Definition mapped (a : option ares) : bool := match a with Some _ => true | None => false end.

(** ** Requests, after the headers and paths have been read (RFC 4918 sections 9, 10) *)
Inductive areq :=
| AOptions (p : path)
| AGet (p : path) (head : bool)
| APut (p : path) (c : string) (breaks_off : bool)
| ADelete (p : path)
| AMkcol (p : path)
| ACopy (s d : path) (deep overwrite : bool)
| AMove (s d : path) (overwrite : bool)
| APropfind (p : path) (depth : N) (names_only : bool)   (* depth 0, 1, 2 = infinity *)
| ARefused (code : N).  (* 400 malformed header/path/body, 415 body on MKCOL, 405 unknown method *)

Definition parse_overwrite (s : string) : option bool :=
  if String.eqb s "" then Some true else if String.eqb s "T" then Some true
  else if String.eqb s "F" then Some false else None.

Definition parse_depth_default_inf (s : string) : option N :=
  if String.eqb s "" then Some 2%N else if String.eqb s "0" then Some 0%N
  else if String.eqb s "1" then Some 1%N else if String.eqb s "infinity" then Some 2%N else None.

Definition known_method (m : string) : bool :=
  existsb (String.eqb m) ["OPTIONS"; "GET"; "HEAD"; "PUT"; "DELETE"; "PROPFIND"; "MKCOL"; "COPY"; "MOVE"]%string.

(** Methods the file server does not carry out: 405 — except PROPPATCH, a WebDAV method
    it understands but refuses, since properties cannot be changed on this server: 403
    (RFC 4918 9.2), or 400 for a body that is not a propertyupdate document. *)
Definition unsupported_code (r : request) : N :=
  if String.eqb (meth r) "PROPPATCH" then match pf r with PfBad => 400 | _ => 403 end else 405.

(** The request path (and Destination path) name the resource [root ++ segments]. *)
Definition abs_path (root : path) (name : string) : option path :=
  match local_segs name with Ok s => Some (root ++ s) | _ => None end.

Definition parse_req (root : path) (r : request) : areq :=
  let m := meth r in
  if negb (known_method m) then ARefused (unsupported_code r)
  else if String.eqb m "MKCOL" && negb (String.eqb (h_ctype r) "") then ARefused 415
  else
    match abs_path root (rpath r) with
    | None => ARefused 400
    | Some p =>
      if String.eqb m "OPTIONS" then AOptions p
      else if String.eqb m "GET" then AGet p false
      else if String.eqb m "HEAD" then AGet p true
      else if String.eqb m "PUT" then APut p (body r) (body_fails r)
      else if String.eqb m "DELETE" then ADelete p
      else if String.eqb m "MKCOL" then AMkcol p
      else if String.eqb m "PROPFIND" then
        match pf r, parse_depth_default_inf (h_depth r) with
        | PfAllProp, Some d => APropfind p d false
        | PfPropName, Some d => APropfind p d true
        | _, _ => ARefused 400
        end
      else (* COPY, MOVE *)
        match h_dest r with
        | DestPath dn =>
          match abs_path root dn, parse_overwrite (h_overwrite r), parse_depth_default_inf (h_depth r) with
          | Some d, Some ow, Some dp =>
            if String.eqb m "COPY" then
              if N.eqb dp 1 then ARefused 400 else ACopy p d (N.eqb dp 2) ow
            else
              if N.eqb dp 2 then AMove p d ow else ARefused 400
          | _, _, _ => ARefused 400
          end
        | _ => ARefused 400
        end
    end.

(** ** Preconditions (RFC 7232 as property C04 states it).  [tag] is the current
    entity tag of the addressed resource, "" if there is none; [d] the tag a header
    value denotes ([None]: not a quoted string). *)
Definition if_match_refusals (tag v : string) (d : option string) : list N :=
  if String.eqb v "" then []
  else if String.eqb tag "" then [412]
  else if String.eqb v "*" then []
  else match d with
       | None => [400]
       | Some t => if String.eqb t tag then [] else [412]
       end.

Definition if_none_match_refusals (tag v : string) (d : option string) : list N :=
  if String.eqb v "" then []
  else if String.eqb tag "" then []
  else if String.eqb v "*" then [412]
  else match d with
       | None => [400]
       | Some t => if String.eqb t tag then [412] else []
       end.

(** The shape of a quoted string (RFC 7232 entity-tag without the weak prefix, as the
    property reads it): opening and closing double quote, no unescaped double quote
    in between.  A header value the decoder accepts must have this shape. *)
Definition dquote : ascii := """"%char.
Definition backslash : ascii := "\"%char.

Fixpoint interior_ok (s : string) (escaped : bool) : bool :=
  (* [s] is what follows the opening quote; true iff the first unescaped quote ends [s] *)
  match s with
  | EmptyString => false
  | String a r =>
    if escaped then interior_ok r false
    else if Ascii.eqb a backslash then interior_ok r true
    else if Ascii.eqb a dquote then (match r with EmptyString => true | _ => false end)
    else interior_ok r false
  end.

Definition looks_quoted (v : string) : bool :=
  match v with
  | String a r => Ascii.eqb a dquote && interior_ok r false
  | EmptyString => false
  end.

Definition decoder_shape_ok (v : string) (d : option string) : bool :=
  match d with Some _ => looks_quoted v | None => true end.

Definition cond_shape_ok (r : request) : bool :=
  decoder_shape_ok (h_if_match r) (d_if_match r) && decoder_shape_ok (h_if_none_match r) (d_if_none_match r).

Definition cond_refusals (tag : string) (r : request) : list N :=
  if_match_refusals tag (h_if_match r) (d_if_match r) ++
  if_none_match_refusals tag (h_if_none_match r) (d_if_none_match r).

(** ** The refusal table.  Every status the abstract tree may answer a request with
    instead of carrying it out; empty = the request is carried out. *)
Definition related (s d : path) : bool := is_prefix s d || is_prefix d s.

Definition refusals (top : path) (M : amap) (a : areq) (conds : list N) : list N :=
  match a with
  | ARefused c => [c]
  | AOptions _ => []
  | AGet p _ =>
    match M p with None => [404] | Some ACol => [405] | Some (AFile _) => [] end
  | APut p _ breaks =>
    conds ++
    (if is_col (M p) || is_prefix p top then [405] else []) ++
    (if is_col (M (parent p)) then [] else [409]) ++
    (if breaks then [500] else [])
  | ADelete p =>
    match M p with None => [404] | Some _ => conds end
  | AMkcol p =>
    (if mapped (M p) then [405] else []) ++
    (if is_col (M (parent p)) then [] else [409])
  | ACopy s d _ ow | AMove s d ow =>
    (if related s d then [403] else []) ++
    (if mapped (M s) then [] else [404]) ++
    (if is_col (M (parent d)) then [] else [409]) ++
    (if mapped (M d) && negb ow then [412] else [])
  | APropfind p _ _ =>
    match M p with None => [404] | Some _ => [] end
  end.

(** Status of a request that is carried out. *)
Definition success_status (M : amap) (a : areq) : N :=
  match a with
  | AOptions _ => 204
  | AGet _ _ => 200
  | APut p _ _ => if mapped (M p) then 204 else 201
  | ADelete _ => 204
  | AMkcol _ => 201
  | ACopy _ d _ _ | AMove _ d _ => if mapped (M d) then 204 else 201
  | APropfind _ _ _ => 207
  | ARefused c => c
  end.

(** The resource tree after a request that is carried out. *)
Definition shallow (a : option ares) : option ares := a.

Definition after (M : amap) (a : areq) : amap :=
  match a with
  | APut p c _ => fun q => if is_prefix p q then (if is_prefix q p then Some (AFile c) else None) else M q
  | ADelete p => fun q => if is_prefix p q then None else M q
  | AMkcol p => fun q => if is_prefix p q then (if is_prefix q p then Some ACol else None) else M q
  | ACopy s d deep _ =>
    fun q => match strip_prefix d q with
             | Some suf => if deep then M (s ++ suf) else match suf with [] => M s | _ => None end
             | None => M q
             end
  | AMove s d _ =>
    fun q => match strip_prefix d q with
             | Some suf => M (s ++ suf)
             | None => if is_prefix s q then None else M q
             end
  | _ => M
  end.

(** ** What the readers report *)
Definition allow_for (a : option ares) : string :=
  match a with
  | None => "OPTIONS, PUT, MKCOL"
  | Some ACol => "OPTIONS, DELETE, PROPFIND, COPY, MOVE"
  | Some (AFile _) => "OPTIONS, DELETE, PROPFIND, COPY, MOVE, HEAD, GET, PUT"
  end%string.

(** In scope of a PROPFIND on [p]: [p] itself; its direct members for depth 1; every
    descendant for depth infinity. *)
Definition in_scope (p : path) (depth : N) (q : path) : bool :=
  match strip_prefix p q with
  | None => false
  | Some suf =>
    match depth with
    | 0%N => match suf with [] => true | _ => false end
    | 1%N => match suf with [] | [_] => true | _ => false end
    | _ => true
    end
  end.

(** ** Abstraction of a file-system tree *)
Definition kind_of (on : option node) : option ares :=
  match on with
  | Some (File c _) => Some (AFile c)
  | Some (Dir _) => Some ACol
  | None => None
  end.

Definition abs (on : option node) : amap := fun q => kind_of (geto on q).

(** The entity tag the server currently announces for what is mapped at [p]. *)
Definition tag_at (dirtag : string) (on : option node) (p : path) : string :=
  match geto on p with
  | Some n => fi_etag (fi_of dirtag n)
  | None => ""
  end.

Definition req_target (root : path) (r : request) : path :=
  match abs_path root (rpath r) with Some p => p | None => root end.

(** ** Executable verdict for the oracle: does an observation (status, tree after,
    reader output) meet the abstract tree's answer?  [paths] is the finite set of
    paths on which the two maps are compared (all paths mapped before or after, and
    their images under the request's destination). *)
Definition amap_agree (paths : list path) (A B : amap) : bool :=
  forallb (fun q => ares_eqb (A q) (B q)) paths.

Definition relevant_paths (sb sb' : option node) (a : areq) : list path :=
  let base := all_paths sb ++ all_paths sb' in
  match a with
  | ACopy s d _ _ | AMove s d _ =>
    base ++ flat_map (fun q => match strip_prefix s q with Some suf => [d ++ suf] | None => [] end) base
  | APut p _ _ | AMkcol p | ADelete p => p :: base
  | _ => base
  end.

Definition status_ok (st : N) (refs : list N) (ok : N) : bool :=
  match refs with
  | [] => N.eqb st ok
  | _ => existsb (N.eqb st) refs
  end.

(** The media type of a stored file: the type registered for the extension of its
    name (mime.TypeByExtension, an input: [mime_tab]); GET and HEAD fall back to the
    type detected from the content ([sniffed], http.DetectContentType). *)
Definition registered_type (r : request) (name : string) : string := mime_of (mime_tab r) (ext_of name).

Definition spec_content_type (root : path) (r : request) (p : path) : string :=
  match strip_prefix root p with
  | Some segs =>
    let m := registered_type r (external_path segs) in
    if negb (String.eqb m "") then m
    else let m2 := registered_type r (rpath r) in
         if negb (String.eqb m2 "") then m2 else sniffed r
  | None => ""%string
  end.

(** An href names the resource at [segs]: its canonical external path, or — for a
    collection other than the root — that path followed by a slash (RFC 4918 section 5.2
    says a collection's URL should end in one; sent back as a request path it addresses
    the same resource). *)
Definition href_names (h : string) (segs : path) (is_col : bool) : bool :=
  String.eqb h (external_path segs) ||
  (is_col && match segs with [] => false | _ => String.eqb h (external_path segs ++ "/") end).

(** [tb q]: the entity tag the server currently announces for the stored file at [q].
    The statement asks that PUT, GET, HEAD and PROPFIND announce "one and the same
    string" for an unmodified resource and that it is accepted back; what the string
    looks like is left open.  The verdicts below therefore take the announced tags as a
    function: [spec_ok] instantiates it with the model's (hex of the modification time
    followed by hex of the size), the oracle with what LocalFileSystem.Stat reports for
    every stored file before and after the request. *)
Definition entry_ok_with (tb : path -> string) (r : request) (sb : option node) (root p : path) (depth : N) (names_only : bool) (e : ms_entry) : bool :=
  let M := abs sb in
  (* the href is the canonical external path of an in-scope resource, described as stored *)
  match local_segs (me_href e) with
  | Ok segs =>
    let q := root ++ segs in
    href_names (me_href e) segs (is_col (M q)) && in_scope p depth q &&
    match M q with
    | None => false
    | Some ACol => (names_only || me_dir e) && String.eqb (me_clen e) "" && String.eqb (me_etag e) "" && String.eqb (me_ctype e) ""
    | Some (AFile c) =>
      negb (me_dir e) &&
      (if names_only then String.eqb (me_clen e) "" && String.eqb (me_etag e) "" && String.eqb (me_ctype e) ""
       else String.eqb (me_clen e) (dec (strlen c)) && String.eqb (me_etag e) (tb q) &&
            String.eqb (me_ctype e) (registered_type r (me_href e)))
    end
  | _ => false
  end.

Definition entry_ok (r : request) (sb : option node) (root p : path) (depth : N) (names_only : bool) (e : ms_entry) : bool :=
  entry_ok_with (tag_at "" sb) r sb root p depth names_only e.

Fixpoint path_eqb (a b : path) : bool :=
  match a, b with
  | [], [] => true
  | x :: a', y :: b' => String.eqb x y && path_eqb a' b'
  | _, _ => false
  end.

Definition count_href (h : string) (es : list ms_entry) : nat :=
  List.length (filter (fun e => String.eqb (me_href e) h) es).

(** entries whose href names the resource at [segs] *)
Definition count_named (segs : path) (is_col : bool) (es : list ms_entry) : nat :=
  List.length (filter (fun e => href_names (me_href e) segs is_col) es).

(** COPY or MOVE where one of source and destination lies properly inside the other: the
    property asks for "some 4xx" there (403 only when they coincide).  The model answers
    403 ([refusals]); the verdict on an observation accepts every 4xx. *)
Definition properly_nested (a : areq) : bool :=
  match a with
  | ACopy s d _ _ | AMove s d _ => related s d && negb (is_prefix s d && is_prefix d s)
  | _ => false
  end.

(** A PROPFIND or PROPPATCH whose body cannot be read as the XML it must be: the statement
    names no status for it; the model answers 400, the verdict accepts every 4xx. *)
Definition unreadable_body (r : request) (a : areq) : bool :=
  existsb (String.eqb (meth r)) ["PROPFIND"; "PROPPATCH"]%string &&
  match pf r with PfBad => true | _ => false end &&
  match a with ARefused c => N.eqb c 400 | _ => false end.

(** A PUT whose body breaks off before its end: the statements ask that it fails and that
    nothing changes, not for a particular status (a server may blame the sender: 400, or
    itself: 500).  The model answers 500; the verdict accepts every status from 400 on. *)
Definition put_breaks (a : areq) : bool :=
  match a with APut _ _ true => true | _ => false end.

(** PROPPATCH is not among the methods the statement of C01 speaks about (and it is a known
    method, so "405 for unknown methods" does not apply either): the model answers 403
    (properties cannot be changed on this server) or 400; the verdict accepts any answer —
    RFC 4918 section 9.2 would have 404 for a missing target and a 207 listing each
    property under 403 — as long as nothing changes and no host path is disclosed. *)
Definition is_proppatch (r : request) : bool := String.eqb (meth r) "PROPPATCH".

Definition spec_ok_with (tb ta : path -> string) (root : path) (sb : option node) (r : request) (o : response) (sb' : option node) : bool :=
  let M := abs sb in
  let a := parse_req root r in
  let tag := tb (req_target root r) in
  let refs := refusals root M a (cond_refusals tag r) in
  (status_ok (status o) refs (success_status M a) ||
   ((properly_nested a || unreadable_body r a) && N.leb 400 (status o) && N.ltb (status o) 500) ||
   (put_breaks a && N.leb 400 (status o) && N.ltb (status o) 600) ||
   (is_proppatch r && match a with ARefused _ => true | _ => false end)) &&
  match refs with
  | _ :: _ => amap_agree (relevant_paths sb sb' a) (abs sb') M   (* refused: nothing changes *)
  | [] =>
    amap_agree (relevant_paths sb sb' a) (abs sb') (after M a) &&
    match a with
    | AOptions p => String.eqb (r_allow o) (allow_for (M p)) && String.eqb (r_dav o) "1, 3"
    | AGet p head =>
      match M p with
      | Some (AFile c) =>
        String.eqb (r_clen o) (dec (strlen c)) &&
        (if head then match r_body o with None => true | Some _ => false end
         else match r_body o with Some b => String.eqb b c | None => false end) &&
        String.eqb (r_etag o) (quote_tag (tb p)) &&
        String.eqb (r_ctype o) (spec_content_type root r p)
      | _ => false
      end
    | APut p c _ => String.eqb (r_etag o) (quote_tag (ta p))
    | APropfind p depth names_only =>
      (* every entry describes an in-scope stored resource under its canonical href, once;
         every in-scope resource has an entry *)
      forallb (entry_ok_with tb r sb root p depth names_only) (r_ms o) &&
      forallb (fun e => Nat.eqb (count_href (me_href e) (r_ms o)) 1%nat) (r_ms o) &&
      forallb (fun q => negb (in_scope p depth q) || negb (mapped (M q)) ||
                        match strip_prefix root q with
                        | Some segs => Nat.eqb (count_named segs (is_col (M q)) (r_ms o)) 1%nat
                        | None => false
                        end) (all_paths sb)
    | _ => true
    end
  end &&
  negb (r_leak o) &&
  (* a conditional header that was decoded to a tag is a quoted string, and an existing
     resource has a (non-empty) entity tag to compare it with *)
  (if existsb (String.eqb (meth r)) ["PUT"; "DELETE"]%string
   then cond_shape_ok r && (negb (mapped (M (req_target root r))) || negb (String.eqb tag ""))
   else true).

(** The verdict with the model's own tags. *)
Definition spec_ok (root : path) (sb : option node) (r : request) (o : response) (sb' : option node) : bool :=
  spec_ok_with (tag_at (dir_tag r) sb) (tag_at "" sb') root sb r o sb'.

(** The verdict with the tags the file system reports ([tags_before], [tags_after]: pairs
    of a path and the tag LocalFileSystem.Stat announces for the file there); a path
    without an entry falls back to the model's tag. *)
Fixpoint lookup_tag (l : list (path * string)) (q : path) : option string :=
  match l with
  | [] => None
  | (p, t) :: rest => if path_eqb p q then Some t else lookup_tag rest q
  end.

Definition spec_ok_reported (tags_before tags_after : list (path * string))
    (root : path) (sb : option node) (r : request) (o : response) (sb' : option node) : bool :=
  spec_ok_with
    (fun q => match lookup_tag tags_before q with Some t => t | None => tag_at (dir_tag r) sb q end)
    (fun q => match lookup_tag tags_after q with Some t => t | None => tag_at "" sb' q end)
    root sb r o sb'.
