(** Properties_C18S.v — C18, the disjointness half stated over the file-server model of
    C01 itself ([DavServer.serve] / [run] on the sandbox trees of Fs.v).  Statements
    only; each is closed by [exact] of a lemma proved in ConcServeProofs.v.  (A file of
    its own because DavServer.v and Upload.v / Concurrent.v use the same short names.) *)
From Coq Require Import PeanoNat List.
From GW Require Import Base GoPath Fs DavServer Rfc4918 CopySteps UploadSteps ConcServe ConcServeProofs.
Local Open Scope list_scope.

(** * Requests on disjoint collections, over the file-server model of C01 itself

    From here on the statements are about [DavServer.serve] / [DavServer.run] on the
    sandbox trees of Fs.v — the model that C01 ties to the real handler and that the
    oracle of this check runs as well — not about the small tree of Concurrent.v.
    A client owns the collection [root ++ c]; its ACTIONS are whole requests naming only
    paths at or below [c] ([req_of_client]) or single OS calls below [c]; a THREAD is an
    adaptive program of actions of one client. *)

(** Clients of pairwise disjoint collections of one served directory: two schedules
    that give client i equally many steps leave it with the same continuation (at the
    end: the same result) and the same subtree at its collection — whatever the other
    clients did in between and wherever they stopped. *)
Theorem C18_serve_clients_any_schedule : forall (root : path) (colls : list path) (Ret : Type),
  pairwise_incomparable colls = true ->
  forall (i : nat) (sched sched' : list nat) (g g' : list (tprog act result Ret) * option node),
  cwf colls Ret g -> cwf colls Ret g' ->
  count_occ Nat.eq_dec sched i = count_occ Nat.eq_dec sched' i ->
  csim root colls Ret i g g' ->
  csim root colls Ret i (trun (act_step root) g sched) (trun (act_step root) g' sched').
Proof. exact clients_sim. Qed.
Print Assumptions C18_serve_clients_any_schedule.

(** ... in particular the ones it has when only its own steps are scheduled, *)
Theorem C18_serve_clients_alone : forall (root : path) (colls : list path) (Ret : Type),
  pairwise_incomparable colls = true ->
  forall (i : nat) (sched : list nat) (g : list (tprog act result Ret) * option node),
  cwf colls Ret g -> cok (cview root colls i (snd g)) ->
  csim root colls Ret i (trun (act_step root) g sched)
       (trun (act_step root) g (repeat i (count_occ Nat.eq_dec sched i))).
Proof. exact clients_alone. Qed.
Print Assumptions C18_serve_clients_alone.

(** ... and — independence of progress — the ones it has when a client that stalls
    somewhere (inside an upload whose body never arrives, between two entries of a
    COPY) is never scheduled at all. *)
Theorem C18_serve_stalled_client_harmless : forall (root : path) (colls : list path) (Ret : Type),
  pairwise_incomparable colls = true ->
  forall (i j : nat) (sched : list nat) (g : list (tprog act result Ret) * option node),
  cwf colls Ret g -> cok (cview root colls i (snd g)) -> i <> j ->
  csim root colls Ret i (trun (act_step root) g sched)
       (trun (act_step root) g (remove Nat.eq_dec j sched)).
Proof. exact clients_stalled_harmless. Qed.
Print Assumptions C18_serve_stalled_client_harmless.

(** In terms of [DavServer.run]: client i issues the requests [rs] one after another;
    under ANY schedule that lets it issue them all it receives exactly the responses,
    and its collection ends as exactly the subtree, of [run root s0 rs] — its requests
    alone on the initial sandbox. *)
Theorem C18_serve_requests_any_interleaving : forall (root : path) (colls : list path),
  pairwise_incomparable colls = true ->
  forall (progs : list (tprog act result (list result))) (s0 : option node) (i : nat) (c : path)
         (rs : list request) (sched : list nat),
  cwf colls (list result) (progs, s0) ->
  nth_error colls i = Some c -> nth_error progs i = Some (requests_prog rs) ->
  view_ok (geto s0 (root ++ c)) = true ->
  List.length rs <= count_occ Nat.eq_dec sched i ->
  let g := trun (act_step root) (progs, s0) sched in
  nth_error (fst g) i = Some (TRet (map RResp (snd (run root s0 rs)))) /\
  geto (snd g) (root ++ c) = geto (fst (run root s0 rs)) (root ++ c).
Proof. exact serve_any_interleaving_alone. Qed.
Print Assumptions C18_serve_requests_any_interleaving.

(** What makes these hold — the two facts about [serve] itself: a request of the client
    of [c] leaves every path incomparable with [root ++ c] exactly as it was, ... *)
Theorem C18_serve_frame : forall (root c y : path),
  (forall q, incomparable (hp root (c ++ q)) y = true) ->
  forall sb r, req_of_client c r = true -> geto (fst (serve root sb r)) y = geto sb y.
Proof. exact serve_frame. Qed.
Print Assumptions C18_serve_frame.

(** ... and its response and what it makes of the subtree at [root ++ c] are functions
    of that subtree (a collection) alone. *)
Theorem C18_serve_local : forall (root c : path) (ch : list (string * node)) (s1 s2 : option node),
  geto s1 (root ++ c) = Some (Dir ch) -> geto s2 (root ++ c) = Some (Dir ch) ->
  forall r, req_of_client c r = true ->
  snd (serve root s1 r) = snd (serve root s2 r) /\
  geto (fst (serve root s1 r)) (root ++ c) = geto (fst (serve root s2 r)) (root ++ c) /\
  is_dir (geto (fst (serve root s1 r)) (root ++ c)) = true.
Proof. exact serve_local. Qed.
Print Assumptions C18_serve_local.

(** A COPY as the sequence of its OS calls, as fs_local.go makes them since the repair of
    the write-fault defect: the checks; createTemp + Remove to reserve a name next to
    the destination; one Mkdir / copyRegularFile per entry of the Walk at [tmp ++ rel];
    on failure RemoveAll(tmp); on success RemoveAll(dst) if it existed and
    Rename(tmp, dst).  All its calls belong to the client, with or without a fault,
    whatever the calls return — PROVIDED both paths of the request are at or below its
    collection: the checks then pass only for a destination STRICTLY below it, so the
    temporary name (a sibling of the destination) is below it too.  (For a destination
    that is the collection itself the sibling would lie outside; such a COPY is
    refused 403 by the checks when the source is the client's as well.) *)
Theorem C18_copy_prog_owned : forall colls i c, nth_error colls i = Some c ->
  forall tmp k r dst rec ow qs qd,
  segs_under c (rpath r) = Some qs -> segs_under c dst = Some qd ->
  cowned colls response i (copy_prog c tmp k r dst rec ow).
Proof. exact copy_prog_owned. Qed.
Print Assumptions C18_copy_prog_owned.

(** Run alone, on a sandbox with sorted listings and with a free temporary name, it ends
    with the response of the one step [do_copy] and in a sandbox that has at every path
    the names, kinds and bytes of [do_copy]'s. *)
Theorem C18_copy_prog_is_do_copy : forall root c sb r dst rec ow tmp qs qd,
  sorted_otree sb = true ->
  segs_under c (rpath r) = Some qs -> segs_under c dst = Some qd ->
  tmp_free root sb r dst ow tmp ->
  snd (exec_prog root (copy_prog c tmp None r dst rec ow) sb) = snd (do_copy root sb r dst rec ow) /\
  forall q, Rfc4918.abs (fst (exec_prog root (copy_prog c tmp None r dst rec ow) sb)) q =
            Rfc4918.abs (fst (do_copy root sb r dst rec ow)) q.
Proof. exact copy_prog_is_do_copy. Qed.
Print Assumptions C18_copy_prog_is_do_copy.

(** ... hence a COPY interrupted between any two of its OS calls, for as long as the
    scheduler likes, by clients on disjoint collections ends — once it has had enough
    steps — with [do_copy]'s response, its collection having at every path what
    [do_copy] makes of it. *)
Theorem C18_copy_interrupted : forall root colls, pairwise_incomparable colls = true ->
  forall (progs : list (tprog act result response)) s0 i c r dst rec ow tmp qs qd,
  cwf colls response (progs, s0) -> sorted_otree s0 = true ->
  nth_error colls i = Some c ->
  segs_under c (rpath r) = Some qs -> segs_under c dst = Some qd ->
  view_ok (geto s0 (root ++ c)) = true -> tmp_free root s0 r dst ow tmp ->
  nth_error progs i = Some (copy_prog c tmp None r dst rec ow) ->
  exists n, forall sched, n <= count_occ Nat.eq_dec sched i ->
    let g := trun (act_step root) (progs, s0) sched in
    nth_error (fst g) i = Some (TRet (snd (do_copy root s0 r dst rec ow))) /\
    forall q, Rfc4918.abs (snd g) (root ++ c ++ q) = Rfc4918.abs (fst (do_copy root s0 r dst rec ow)) (root ++ c ++ q).
Proof. exact copy_interrupted. Qed.
Print Assumptions C18_copy_interrupted.

(** A COPY in which the creation of ANY entry of the walk fails (a write error): run
    alone it answers 500 and the sandbox is the very one it started from; ... *)
Theorem C18_copy_fault_harmless_alone : forall root c sb r dst rec ow tmp qs qd k ss n ds cr,
  sorted_otree sb = true ->
  segs_under c (rpath r) = Some qs -> segs_under c dst = Some qd ->
  tmp_free root sb r dst ow tmp ->
  copy_move_checks root sb (rpath r) dst ow = GOk (ss, n, ds, cr) ->
  k < List.length (walk_entries n rec) ->
  exec_prog root (copy_prog c tmp (Some k) r dst rec ow) sb = (sb, fail500).
Proof. exact copy_fault_harmless_alone. Qed.
Print Assumptions C18_copy_fault_harmless_alone.

(** ... and among the steps of clients on disjoint collections it answers 500 and leaves
    its own collection exactly as it was — the others never see it at all
    ([C18_serve_stalled_client_harmless]): every client's view is as before. *)
Theorem C18_copy_fault_harmless : forall root colls, pairwise_incomparable colls = true ->
  forall (progs : list (tprog act result response)) s0 i c r dst rec ow tmp qs qd,
  cwf colls response (progs, s0) -> sorted_otree s0 = true ->
  nth_error colls i = Some c ->
  segs_under c (rpath r) = Some qs -> segs_under c dst = Some qd ->
  view_ok (geto s0 (root ++ c)) = true -> tmp_free root s0 r dst ow tmp ->
  forall k ss n ds cr,
  nth_error progs i = Some (copy_prog c tmp (Some k) r dst rec ow) ->
  copy_move_checks root s0 (rpath r) dst ow = GOk (ss, n, ds, cr) ->
  k < List.length (walk_entries n rec) ->
  exists m, forall sched, m <= count_occ Nat.eq_dec sched i ->
    let g := trun (act_step root) (progs, s0) sched in
    nth_error (fst g) i = Some (TRet fail500) /\
    geto (snd g) (root ++ c) = geto s0 (root ++ c).
Proof. exact copy_fault_harmless. Qed.
Print Assumptions C18_copy_fault_harmless.

(** The upload section of a PUT as the sequence of its OS calls (createTemp, one write
    per piece of the body, Rename = read / remove / map): all calls belong to the
    client of the target's collection, and alone it takes the sandbox to where the one
    step [do_put] takes it, for every chunking, when the temporary name is free. *)
Theorem C18_upload_prog_owned : forall colls i c d tmp name st chunks,
  nth_error colls i = Some c -> cowned colls bool i (upload_prog (c ++ d) tmp name st chunks).
Proof. exact upload_prog_owned. Qed.
Print Assumptions C18_upload_prog_owned.

Theorem C18_upload_prog_is_put : forall root sb r segs tmp chunks,
  segs_of (rpath r) = GOk segs ->
  req_cond r (match geto sb (hp root segs) with Some n => fi_etag (fi_of (dir_tag r) n) | None => ""%string end) = None ->
  is_dir (geto sb (hp root segs)) = false -> segs <> [] ->
  is_dir (geto sb (hp root (parent segs))) = true ->
  geto sb (hp root (parent segs) ++ [tmp]) = None ->
  body_fails r = false -> concat_str chunks = body r ->
  fst (exec_prog root (upload_prog (parent segs) tmp (last segs ""%string) (stamp r) chunks) sb) = fst (do_put root sb r).
Proof. exact upload_prog_is_put. Qed.
Print Assumptions C18_upload_prog_is_put.

(** The workload the oracle checks against [serve]: whatever interleaving of the
    clients' requests the scheduler produced, client i received the responses whose
    projections are [run_ops] of its operations ALONE on the initial sandbox, and its
    collection ended as the subtree [run_ops] leaves there. *)
Theorem C18_workload_serve_any_interleaving : forall root s0 cs i c sched,
  workload_ok root s0 cs = true -> nth_error cs i = Some c ->
  List.length (sc_ops c) <= count_occ Nat.eq_dec sched i ->
  let g := trun (act_step root) (workload_progs cs, s0) sched in
  exists resps,
    nth_error (fst g) i = Some (TRet (map RResp resps)) /\
    answers_of (sc_ops c) resps = snd (run_ops root (sc_coll c) s0 (sc_ops c)) /\
    geto (snd g) (root ++ sc_coll c) = geto (fst (run_ops root (sc_coll c) s0 (sc_ops c))) (root ++ sc_coll c).
Proof. exact workload_any_interleaving. Qed.
Print Assumptions C18_workload_serve_any_interleaving.
