(** Properties_C07.v - C07: CardDAV filter evaluation, limit and projection follow
    RFC 6352 section 10.5.  Statements only; each is closed by [exact] of a lemma
    proved in CardMatchProofs.v.

    [match_query], [filter_objs], [filter_properties]/[project] are the model of
    carddav.Match, carddav.Filter and filterProperties (CardMatch.v);
    [rfc6352_query] is the three-valued reading of section 10.5 ([None] = an
    unknown test or match type is needed for the verdict); [query_sat] is the same
    semantics stated with [Exists]/[Forall] and string equations. *)
From GW Require Import Base CardMatch CardMatchProofs.

(** A verdict is never guessed: whatever Match returns without error is the
    verdict the RFC semantics defines. *)
Theorem C07_match_sound : forall q o b,
  match_query (Some q) (Some o) = Ok b -> rfc6352_query q (o_card o) = Some b.
Proof. exact match_sound. Qed.
Print Assumptions C07_match_sound.

(** Where the semantics is undefined (the verdict depends on an unknown test or
    match type) Match reports an error. *)
Theorem C07_match_reports : forall q o,
  rfc6352_query q (o_card o) = None -> exists e, match_query (Some q) (Some o) = Err e.
Proof. exact match_reports. Qed.
Print Assumptions C07_match_reports.

(** On a query whose tests and match types are all defined by the RFC, Match
    returns a verdict, and it is true iff the vCard satisfies the query. *)
Theorem C07_match_total : forall q o,
  all_known q ->
  exists b, match_query (Some q) (Some o) = Ok b /\ (b = true <-> query_sat q (o_card o)).
Proof. exact match_total_sat. Qed.
Print Assumptions C07_match_total.

(** An error is only ever reported for a query carrying an unknown test or match type. *)
Theorem C07_match_err_only_unknown : forall q o e,
  match_query (Some q) (Some o) = Err e -> all_known_b q = false.
Proof. exact match_err_unknown. Qed.
Print Assumptions C07_match_err_only_unknown.

(** A nil query matches everything. *)
Theorem C07_match_nil_query : forall ao, match_query None ao = Ok true.
Proof. exact match_nil_query. Qed.
Print Assumptions C07_match_nil_query.

(** The executable three-valued semantics is the declarative one wherever all
    attributes are known (so [sem_query] below is "the vCard satisfies the query"). *)
Theorem C07_semantics_declarative : forall q c,
  all_known q -> (sem_query q c = true <-> query_sat q c).
Proof. exact sem_query_sat. Qed.
Print Assumptions C07_semantics_declarative.

(** The string tests are equality, prefix, suffix and substring. *)
Theorem C07_string_tests : forall s t,
  (has_prefix s t = true <-> exists b, s = t ++ b) /\
  (has_suffix s t = true <-> exists a, s = a ++ t) /\
  (contains s t = true <-> exists a b, s = a ++ t ++ b).
Proof. exact string_tests_spec. Qed.
Print Assumptions C07_string_tests.

(** Filter: the matching objects in input order, each projected, cut to the first
    Limit matches when Limit is positive ([firstn' n] is the identity for n <= 0) -
    for object lists of any length. *)
Theorem C07_filter : forall q os,
  all_known q -> safe_request q os ->
  filter_objs (Some q) os =
  Ok (firstn' (q_limit q)
        (map (project (q_data q)) (filter (fun o => sem_query q (o_card o)) os))).
Proof. exact filter_spec. Qed.
Print Assumptions C07_filter.

(** A nil query returns all objects. *)
Theorem C07_filter_nil_query : forall os, filter_objs None os = Ok os.
Proof. exact filter_nil_query. Qed.
Print Assumptions C07_filter_nil_query.

(** Filter in general (unknown attributes allowed): a returned list is the one the
    lazy three-valued reading defines, an error means the query carries an unknown
    attribute, and there is no panic. *)
Theorem C07_filter_general : forall q os,
  safe_request q os ->
  match filter_objs (Some q) os with
  | Ok l => spec_filter q os = Some l
  | Err _ => all_known_b q = false
  | Panic => False
  end.
Proof. exact filter_refines. Qed.
Print Assumptions C07_filter_general.

(** Projection: the whole object for all-properties or an empty selection ... *)
Theorem C07_project_whole : forall r o, dr_whole r = true -> project r o = o.
Proof. exact project_whole. Qed.
Print Assumptions C07_project_whole.

(** ... otherwise the same path, entity tag and modification time, and a card that
    binds exactly VERSION (to the source's VERSION fields) and every requested name
    the source binds, to the same field list. *)
Theorem C07_project : forall r o,
  dr_whole r = false ->
  o_path (project r o) = o_path o /\ o_etag (project r o) = o_etag o /\
  o_mtime (project r o) = o_mtime o /\
  forall k, card_assoc k (o_card (project r o)) =
            if String.eqb k version_key then Some (card_fields version_key (o_card o))
            else if existsb (String.eqb k) (dr_props r) then card_assoc k (o_card o) else None.
Proof. exact project_reduced. Qed.
Print Assumptions C07_project.

(** filterProperties returns that projection unless it is asked to reduce an empty card, ... *)
Theorem C07_project_model : forall r o,
  dr_whole r = true \/ o_card o <> [] -> filter_properties r o = Ok (project r o).
Proof. exact filter_properties_ok. Qed.
Print Assumptions C07_project_model.

(** ... which is exactly when it panics. *)
Theorem C07_project_panics_iff : forall r o,
  filter_properties r o = Panic <-> dr_whole r = false /\ o_card o = [].
Proof. exact filter_properties_panics. Qed.
Print Assumptions C07_project_panics_iff.

(** Match never panics on an address object; Filter never panics when no card is
    empty or the whole card is requested. *)
Theorem C07_no_panic_match : forall q o, match_query q (Some o) <> Panic.
Proof. exact match_no_panic. Qed.
Print Assumptions C07_no_panic_match.

Theorem C07_no_panic : forall q os,
  match q with Some q' => safe_request q' os | None => True end ->
  filter_objs q os <> Panic.
Proof. exact filter_no_panic. Qed.
Print Assumptions C07_no_panic.

(** The executable specification the oracle evaluates ([spec_ok_*]: the defined
    verdict or, for a query carrying an unknown attribute anywhere, an error; the
    lazily defined list with reduced cards compared up to the VERSION slot of a
    card without VERSION) accepts what the model does, for every input of the
    domain in which the unchanged code does not panic ... *)
Theorem C07_spec_ok_match : forall q o,
  spec_ok_match q o (obs_of_match (match_query q (Some o))) = true.
Proof. exact spec_ok_match_model. Qed.
Print Assumptions C07_spec_ok_match.

Theorem C07_spec_ok_filter : forall q os,
  in_domain_filter q os = true ->
  spec_ok_filter q os (obs_of_filter (filter_objs q os)) = true.
Proof. exact spec_ok_filter_model. Qed.
Print Assumptions C07_spec_ok_filter.

(** ... hence agreement of the implementation with the model entails the specification. *)
Theorem C07_agree_implies_spec_ok_match : forall q o ob,
  model_agrees_match q (Some o) ob = true -> spec_ok_match q o ob = true.
Proof. exact agree_implies_spec_ok_match. Qed.
Print Assumptions C07_agree_implies_spec_ok_match.

Theorem C07_agree_implies_spec_ok_filter : forall q os ob,
  in_domain_filter q os = true ->
  model_agrees_filter q os ob = true -> spec_ok_filter q os ob = true.
Proof. exact agree_implies_spec_ok_filter. Qed.
Print Assumptions C07_agree_implies_spec_ok_filter.

(** The verdict the oracle reports ([spec_verdict_*]: the specification, plus the
    model's own behaviour where the unchanged code may panic - nil object, empty
    card to reduce) is met by the unchanged code's model on EVERY input, ... *)
Theorem C07_spec_verdict_match_model : forall q ao,
  spec_verdict_match q ao (obs_of_match (match_query q ao)) = true.
Proof. exact spec_verdict_match_model. Qed.
Print Assumptions C07_spec_verdict_match_model.

Theorem C07_spec_verdict_filter_model : forall q os,
  spec_verdict_filter q os (obs_of_filter (filter_objs q os)) = true.
Proof. exact spec_verdict_filter_model. Qed.
Print Assumptions C07_spec_verdict_filter_model.

(** ... follows from agreement with the model on every input, ... *)
Theorem C07_agree_implies_spec_verdict_match : forall q ao ob,
  model_agrees_match q ao ob = true -> spec_verdict_match q ao ob = true.
Proof. exact agree_implies_spec_verdict_match. Qed.
Print Assumptions C07_agree_implies_spec_verdict_match.

Theorem C07_agree_implies_spec_verdict_filter : forall q os ob,
  model_agrees_filter q os ob = true -> spec_verdict_filter q os ob = true.
Proof. exact agree_implies_spec_verdict_filter. Qed.
Print Assumptions C07_agree_implies_spec_verdict_filter.

(** ... and is the specification alone inside the domain. *)
Theorem C07_spec_verdict_filter_in_domain : forall q os ob,
  in_domain_filter q os = true -> spec_verdict_filter q os ob = spec_ok_filter q os ob.
Proof. exact spec_verdict_filter_in_domain. Qed.
Print Assumptions C07_spec_verdict_filter_in_domain.

(** "An unknown test or match type is reported as an error, never guessed": an
    error is accepted for every query carrying an unknown test or match type
    anywhere (reached by a lazy evaluation or not; object, nil object, any list), ... *)
Theorem C07_unknown_error_accepted : forall q,
  all_known_b q = false ->
  (forall ao, spec_verdict_match (Some q) ao MErr = true) /\
  (forall os, spec_verdict_filter (Some q) os FErr = true).
Proof. exact unknown_error_accepted. Qed.
Print Assumptions C07_unknown_error_accepted.

(** ... for no other query, ... *)
Theorem C07_known_error_rejected : forall q o os,
  all_known_b q = true ->
  spec_verdict_match (Some q) (Some o) MErr = false /\
  (in_domain_filter (Some q) os = true -> spec_verdict_filter (Some q) os FErr = false).
Proof. exact known_error_rejected. Qed.
Print Assumptions C07_known_error_rejected.

(** ... and a verdict is accepted iff it is the one the three-valued semantics
    defines (computable without consulting an unknown value). *)
Theorem C07_verdict_accepted_iff : forall q o b,
  spec_verdict_match (Some q) (Some o) (MOk b) = true <-> rfc6352_query q (o_card o) = Some b.
Proof. exact verdict_accepted_iff. Qed.
Print Assumptions C07_verdict_accepted_iff.

(** "Reduced to VERSION plus the requested properties": what the specification
    accepts in place of [project r o] is the same path, entity tag and
    modification time, every requested name the source binds bound to the same
    fields, nothing else, and VERSION bound to the source's VERSION fields -
    where a source without VERSION fields may also leave the key unbound. *)
Theorem C07_project_accepted : forall r o p,
  dr_whole r = false ->
  (object_sim (project r o) p = true <->
   o_path p = o_path o /\ o_etag p = o_etag o /\ o_mtime p = o_mtime o /\
   forall k,
     if String.eqb k version_key
     then card_assoc k (o_card p) = Some (card_fields version_key (o_card o)) \/
          (card_fields version_key (o_card o) = [] /\ card_assoc k (o_card p) = None)
     else card_assoc k (o_card p) =
          if existsb (String.eqb k) (dr_props r) then card_assoc k (o_card o) else None).
Proof. exact object_sim_project. Qed.
Print Assumptions C07_project_accepted.

(** The comparison of reduced cards is equality of maps up to that VERSION slot. *)
Theorem C07_card_sim_spec : forall a b,
  card_sim a b = true <-> forall k, vnorm k (card_assoc k a) = vnorm k (card_assoc k b).
Proof. exact card_sim_spec. Qed.
Print Assumptions C07_card_sim_spec.

(** Concrete instances: the behaviours of two property-preserving variants of
    the code (eager validation of the query; no VERSION key for a card without
    VERSION, no panic on an empty card) are accepted, the neighbouring wrong
    ones (guessed verdict, VERSION dropped or invented, object lost, panic where
    the model does not panic) are rejected. *)
Theorem C07_relaxed_witnesses :
  match_query (Some w_q_inner_unknown) None = Panic /\
  spec_verdict_match (Some w_q_inner_unknown) None MErr = true /\
  spec_verdict_match (Some w_q_inner_unknown) None MPanic = true /\
  spec_verdict_match (Some w_q_inner_unknown) None (MOk false) = false /\
  match_query (Some w_q_inner_unknown) (Some w_obj_nover) = Ok false /\
  spec_verdict_match (Some w_q_inner_unknown) (Some w_obj_nover) MErr = true /\
  spec_verdict_match (Some w_q_inner_unknown) (Some w_obj_nover) (MOk false) = true /\
  spec_verdict_match (Some w_q_inner_unknown) (Some w_obj_nover) (MOk true) = false /\
  spec_verdict_filter (Some w_q_fn_notdef_x) [w_obj_nover] (FOk [mkobj [("VERSION", []); ("FN", [fld "a"])]]) = true /\
  spec_verdict_filter (Some w_q_fn_notdef_x) [w_obj_nover] (FOk [mkobj [("FN", [fld "a"])]]) = true /\
  spec_verdict_filter (Some w_q_fn_notdef_x) [w_obj_nover] (FOk [mkobj [("VERSION", [fld "3.0"]); ("FN", [fld "a"])]]) = false /\
  spec_verdict_filter (Some w_q_fn_notdef_x) [w_obj_nover] (FOk [mkobj []]) = false /\
  spec_verdict_filter (Some w_q_fn_notdef_x) [w_obj] (FOk [mkobj [("VERSION", [fld "4.0"])]]) = true /\
  spec_verdict_filter (Some w_q_fn_notdef_x) [w_obj] (FOk [mkobj []]) = false /\
  spec_verdict_filter (Some w_q_fn_notdef_x) [w_obj] (FOk [mkobj [("VERSION", [])]]) = false /\
  filter_objs (Some w_q_fn_notdef_x) [mkobj []] = Panic /\
  spec_verdict_filter (Some w_q_fn_notdef_x) [mkobj []] FPanic = true /\
  spec_verdict_filter (Some w_q_fn_notdef_x) [mkobj []] (FOk [mkobj []]) = true /\
  spec_verdict_filter (Some w_q_fn_notdef_x) [mkobj []] (FOk [mkobj [("VERSION", [])]]) = true /\
  spec_verdict_filter (Some w_q_fn_notdef_x) [mkobj []] (FOk []) = false /\
  spec_verdict_filter (Some w_q_fn_notdef_x) [mkobj []] FErr = false /\
  spec_verdict_filter (Some w_q_fn_notdef_x) [w_obj_nover] FPanic = false.
Proof. exact relaxed_witnesses. Qed.
Print Assumptions C07_relaxed_witnesses.

(** The comparison of cards used by the oracle is equality of maps. *)
Theorem C07_card_eqb_spec : forall a b,
  card_eqb a b = true <-> forall k, card_assoc k a = card_assoc k b.
Proof. exact card_eqb_spec. Qed.
Print Assumptions C07_card_eqb_spec.

(** Recorded witness of the repaired defect: the code that tested only the first
    instance of a property rejected a card the RFC semantics (and the repaired
    code) accept. *)
Theorem C07_first_field_only_refuted :
  match_prop_filter_first w_pf w_obj = Ok false /\
  rfc_prop w_pf (o_card w_obj) = Some true /\
  match_prop_filter w_pf (Some w_obj) = Ok true.
Proof. exact first_field_only_refuted. Qed.
Print Assumptions C07_first_field_only_refuted.

(** The hypotheses of the no-panic theorem are needed. *)
Theorem C07_panic_witnesses :
  filter_objs (Some w_q_notdef) [mkobj []] = Panic /\
  match_query (Some w_q_notdef) None = Panic.
Proof. exact panic_witnesses. Qed.
Print Assumptions C07_panic_witnesses.
