(** Properties_C07.v - C07: CardDAV filter evaluation, limit and projection follow
    RFC 6352 section 10.5.  Statements only; each is closed by [exact] of a lemma
    proved in CardMatchProofs.v.

    [match_query], [filter_objs], [filter_properties]/[project] are the model of
    carddav.Match, carddav.Filter and filterProperties (CardMatch.v);
    [rfc6352_query] is the three-valued reading of section 10.5 ([None] = an
    unknown test or match type is needed for the verdict); [query_sat] is the same
    semantics stated with [Exists]/[Forall] and string equations. *)
From GW Require Import Base CardMatch CardMatchProofs.

(** A verdict is never guessed: whatever Match returns without error is the
    verdict the RFC semantics defines. *)
Theorem C07_match_sound : forall q o b,
  match_query (Some q) (Some o) = Ok b -> rfc6352_query q (o_card o) = Some b.
Proof. exact match_sound. Qed.
Print Assumptions C07_match_sound.

(** Where the semantics is undefined (the verdict depends on an unknown test or
    match type) Match reports an error. *)
Theorem C07_match_reports : forall q o,
  rfc6352_query q (o_card o) = None -> exists e, match_query (Some q) (Some o) = Err e.
Proof. exact match_reports. Qed.
Print Assumptions C07_match_reports.

(** On a query whose tests and match types are all defined by the RFC, Match
    returns a verdict, and it is true iff the vCard satisfies the query. *)
Theorem C07_match_total : forall q o,
  all_known q ->
  exists b, match_query (Some q) (Some o) = Ok b /\ (b = true <-> query_sat q (o_card o)).
Proof. exact match_total_sat. Qed.
Print Assumptions C07_match_total.

(** An error is only ever reported for a query carrying an unknown test or match type. *)
Theorem C07_match_err_only_unknown : forall q o e,
  match_query (Some q) (Some o) = Err e -> all_known_b q = false.
Proof. exact match_err_unknown. Qed.
Print Assumptions C07_match_err_only_unknown.

(** A nil query matches everything. *)
Theorem C07_match_nil_query : forall ao, match_query None ao = Ok true.
Proof. exact match_nil_query. Qed.
Print Assumptions C07_match_nil_query.

(** The executable three-valued semantics is the declarative one wherever all
    attributes are known (so [sem_query] below is "the vCard satisfies the query"). *)
Theorem C07_semantics_declarative : forall q c,
  all_known q -> (sem_query q c = true <-> query_sat q c).
Proof. exact sem_query_sat. Qed.
Print Assumptions C07_semantics_declarative.

(** The string tests are equality, prefix, suffix and substring. *)
Theorem C07_string_tests : forall s t,
  (has_prefix s t = true <-> exists b, s = t ++ b) /\
  (has_suffix s t = true <-> exists a, s = a ++ t) /\
  (contains s t = true <-> exists a b, s = a ++ t ++ b).
Proof. exact string_tests_spec. Qed.
Print Assumptions C07_string_tests.

(** Filter: the matching objects in input order, each projected, cut to the first
    Limit matches when Limit is positive ([firstn' n] is the identity for n <= 0) -
    for object lists of any length. *)
Theorem C07_filter : forall q os,
  all_known q -> safe_request q os ->
  filter_objs (Some q) os =
  Ok (firstn' (q_limit q)
        (map (project (q_data q)) (filter (fun o => sem_query q (o_card o)) os))).
Proof. exact filter_spec. Qed.
Print Assumptions C07_filter.

(** A nil query returns all objects. *)
Theorem C07_filter_nil_query : forall os, filter_objs None os = Ok os.
Proof. exact filter_nil_query. Qed.
Print Assumptions C07_filter_nil_query.

(** Filter in general (unknown attributes allowed): a returned list is the one the
    lazy three-valued reading defines, an error means the query carries an unknown
    attribute, and there is no panic. *)
Theorem C07_filter_general : forall q os,
  safe_request q os ->
  match filter_objs (Some q) os with
  | Ok l => spec_filter q os = Some l
  | Err _ => all_known_b q = false
  | Panic => False
  end.
Proof. exact filter_refines. Qed.
Print Assumptions C07_filter_general.

(** Projection: the whole object for all-properties or an empty selection ... *)
Theorem C07_project_whole : forall r o, dr_whole r = true -> project r o = o.
Proof. exact project_whole. Qed.
Print Assumptions C07_project_whole.

(** ... otherwise the same path, entity tag and modification time, and a card that
    binds exactly VERSION (to the source's VERSION fields) and every requested name
    the source binds, to the same field list. *)
Theorem C07_project : forall r o,
  dr_whole r = false ->
  o_path (project r o) = o_path o /\ o_etag (project r o) = o_etag o /\
  o_mtime (project r o) = o_mtime o /\
  forall k, card_assoc k (o_card (project r o)) =
            if String.eqb k version_key then Some (card_fields version_key (o_card o))
            else if existsb (String.eqb k) (dr_props r) then card_assoc k (o_card o) else None.
Proof. exact project_reduced. Qed.
Print Assumptions C07_project.

(** filterProperties returns that projection unless it is asked to reduce an empty card, ... *)
Theorem C07_project_model : forall r o,
  dr_whole r = true \/ o_card o <> [] -> filter_properties r o = Ok (project r o).
Proof. exact filter_properties_ok. Qed.
Print Assumptions C07_project_model.

(** ... which is exactly when it panics. *)
Theorem C07_project_panics_iff : forall r o,
  filter_properties r o = Panic <-> dr_whole r = false /\ o_card o = [].
Proof. exact filter_properties_panics. Qed.
Print Assumptions C07_project_panics_iff.

(** Match never panics on an address object; Filter never panics when no card is
    empty or the whole card is requested. *)
Theorem C07_no_panic_match : forall q o, match_query q (Some o) <> Panic.
Proof. exact match_no_panic. Qed.
Print Assumptions C07_no_panic_match.

Theorem C07_no_panic : forall q os,
  match q with Some q' => safe_request q' os | None => True end ->
  filter_objs q os <> Panic.
Proof. exact filter_no_panic. Qed.
Print Assumptions C07_no_panic.

(** The executable specification the oracle evaluates accepts what the model
    does, for every input of the property's domain ... *)
Theorem C07_spec_ok_match : forall q o,
  spec_ok_match q o (obs_of_match (match_query q (Some o))) = true.
Proof. exact spec_ok_match_model. Qed.
Print Assumptions C07_spec_ok_match.

Theorem C07_spec_ok_filter : forall q os,
  in_domain_filter q os = true ->
  spec_ok_filter q os (obs_of_filter (filter_objs q os)) = true.
Proof. exact spec_ok_filter_model. Qed.
Print Assumptions C07_spec_ok_filter.

(** ... hence agreement of the implementation with the model entails the specification. *)
Theorem C07_agree_implies_spec_ok_match : forall q o ob,
  model_agrees_match q (Some o) ob = true -> spec_ok_match q o ob = true.
Proof. exact agree_implies_spec_ok_match. Qed.
Print Assumptions C07_agree_implies_spec_ok_match.

Theorem C07_agree_implies_spec_ok_filter : forall q os ob,
  in_domain_filter q os = true ->
  model_agrees_filter q os ob = true -> spec_ok_filter q os ob = true.
Proof. exact agree_implies_spec_ok_filter. Qed.
Print Assumptions C07_agree_implies_spec_ok_filter.

(** The comparison of cards used by the oracle is equality of maps. *)
Theorem C07_card_eqb_spec : forall a b,
  card_eqb a b = true <-> forall k, card_assoc k a = card_assoc k b.
Proof. exact card_eqb_spec. Qed.
Print Assumptions C07_card_eqb_spec.

(** Recorded witness of the repaired defect: the code that tested only the first
    instance of a property rejected a card the RFC semantics (and the repaired
    code) accept. *)
Theorem C07_first_field_only_refuted :
  match_prop_filter_first w_pf w_obj = Ok false /\
  rfc_prop w_pf (o_card w_obj) = Some true /\
  match_prop_filter w_pf (Some w_obj) = Ok true.
Proof. exact first_field_only_refuted. Qed.
Print Assumptions C07_first_field_only_refuted.

(** The hypotheses of the no-panic theorem are needed. *)
Theorem C07_panic_witnesses :
  filter_objs (Some w_q_notdef) [mkobj []] = Panic /\
  match_query (Some w_q_notdef) None = Panic.
Proof. exact panic_witnesses. Qed.
Print Assumptions C07_panic_witnesses.
