(** RelocProofs.v — non-interference (C03): serving requests from the directory at
    [root] inside any sandbox is serving them at the top of the subtree mapped at
    [root].  Hence the response, and what is mapped at the root afterwards, are
    functions of the served subtree alone: nothing beside or above the root is ever
    read.  (Hypothesis: the served directory exists; when it does not, MKCOL of "/"
    consults the root's parent — see [mkcol_root_reads_parent].) *)
From GW Require Import Base GoPath Fs DavServer FsProofs UploadSteps UploadStepsProofs CopySteps CopyStepsProofs Rfc4918 DavRefine DavCorollaries.
Local Open Scope list_scope.

(** * Paths below a prefix *)

Lemma seto_exists p : forall on n x, geto on p = Some n -> exists t, seto on p x = Some t.
Proof.
  induction p as [|s r IH]; intros on n x H; [cbn; eauto|].
  cbn [geto] in H. destruct on as [[c m|ch]|]; try discriminate.
  rewrite seto_cons. destruct (IH _ _ x H) as [t Ht]. rewrite Ht. eauto.
Qed.

(** mapping below a mapped prefix = mapping inside the node at the prefix *)
Lemma seto_app p : forall on n q x,
  geto on p = Some n ->
  seto on (p ++ q) x =
  match seto (Some n) q x with
  | Some n' => seto on p n'
  | None => None
  end.
Proof.
  induction p as [|s r IH]; intros on n q x H.
  - cbn in H. subst on. cbn [app]. destruct (seto (Some n) q x); reflexivity.
  - cbn [geto] in H. destruct on as [[c m|ch]|]; try discriminate.
    cbn [app]. rewrite !seto_cons. rewrite (IH _ _ q x H).
    destruct (seto (Some n) q x) as [n'|]; [|reflexivity].
    rewrite seto_cons. reflexivity.
Qed.

Lemma geto_seto_app p on n q x t :
  geto on p = Some n -> seto on (p ++ q) x = Some t -> geto (Some t) p = seto (Some n) q x.
Proof.
  intros Hg Hs. rewrite (seto_app p on n q x Hg) in Hs.
  destruct (seto (Some n) q x) as [n'|]; [|discriminate].
  apply (geto_seto_self p on n' t Hs).
Qed.

Lemma seto_app_none p on n q x :
  geto on p = Some n -> (seto on (p ++ q) x = None <-> seto (Some n) q x = None).
Proof.
  intros Hg. rewrite (seto_app p on n q x Hg).
  destruct (seto (Some n) q x) as [n'|]; [|tauto].
  destruct (seto_exists p on n n' Hg) as [t Ht]. rewrite Ht. split; discriminate.
Qed.

(** unmapping below a mapped prefix *)
Lemma remo_app p : forall on n q,
  geto on p = Some n -> q <> [] ->
  remo on (p ++ q) = match remo (Some n) q with Some n' => seto on p n' | None => on end.
Proof.
  induction p as [|s r IH]; intros on n q H Hq.
  - cbn in H. subst on. cbn [app]. destruct (remo (Some n) q) eqn:E; [reflexivity|].
    apply remo_some_none in E. congruence.
  - cbn [geto] in H. destruct on as [[c m|ch]|]; try discriminate.
    cbn [app remo].
    destruct (assoc s ch) as [c0|] eqn:Ea; [|rewrite geto_None in H; discriminate].
    rewrite (IH (Some c0) n q H Hq).
    destruct (remo (Some n) q) as [n'|] eqn:E.
    + rewrite seto_cons, Ea.
      destruct (seto (Some c0) r n') as [c1|] eqn:E1; [reflexivity|].
      destruct (seto_exists r (Some c0) n n' H) as [t Ht]. congruence.
    + apply remo_some_none in E. congruence.
Qed.

Lemma geto_remo_app p on n q :
  geto on p = Some n -> q <> [] -> geto (remo on (p ++ q)) p = remo (Some n) q.
Proof.
  intros Hg Hq. rewrite (remo_app p on n q Hg Hq).
  destruct (remo (Some n) q) as [n'|] eqn:E.
  - destruct (seto_exists p on n n' Hg) as [t Ht]. rewrite Ht. apply (geto_seto_self p on n' t Ht).
  - apply remo_some_none in E. congruence.
Qed.

Lemma geto_remo_top p on : p <> [] -> geto (remo on p) p = None.
Proof. apply geto_remo_self. Qed.

(** * Serving at [root] is serving the subtree *)

Section Reloc.
  Variable root : path.
  Variables (sb : option node) (n0 : node).
  Hypothesis Hview : geto sb root = Some n0.

  Let inner := Some n0.

  Lemma look p : geto sb (hp root p) = geto inner (hp [] p).
  Proof. unfold hp, inner. cbn [app]. rewrite geto_app, Hview. reflexivity. Qed.

  Lemma look_parent p : p <> [] -> geto sb (parent (hp root p)) = geto inner (parent (hp [] p)).
  Proof.
    intros Hp. unfold hp, parent. cbn [app]. rewrite removelast_app by exact Hp.
    rewrite geto_app, Hview. reflexivity.
  Qed.

  (** mapping below the root *)
  Lemma set_view p x :
    match seto sb (hp root p) x, seto inner (hp [] p) x with
    | Some t, Some n' => geto (Some t) root = Some n'
    | None, None => True
    | _, _ => False
    end.
  Proof.
    unfold hp, inner. cbn [app]. rewrite (seto_app root sb n0 p x Hview).
    destruct (seto (Some n0) p x) as [n'|]; [|exact I].
    destruct (seto_exists root sb n0 n' Hview) as [t Ht]. rewrite Ht.
    apply (geto_seto_self root sb n' t Ht).
  Qed.

  (** unmapping below (or at) the root *)
  Lemma rem_view p : geto (remo sb (hp root p)) root = remo inner (hp [] p).
  Proof.
    unfold hp, inner. cbn [app]. destruct p as [|s q].
    - rewrite app_nil_r. cbn [remo]. destruct root as [|r0 rr]; [reflexivity|].
      apply geto_remo_self. discriminate.
    - apply geto_remo_app; [exact Hview|discriminate].
  Qed.
End Reloc.

(** the relation kept by every step: what is mapped at the root is the inner state *)
Definition views (root : path) (sb inner : option node) : Prop := geto sb root = inner.

Lemma checks_nonempty root sb src dst ow ss n ds cr :
    copy_move_checks root sb src dst ow = GOk (ss, n, ds, cr) -> ss <> [] /\ ds <> [].
  Proof.
    unfold copy_move_checks.
    destruct (segs_of src) as [ss0|]; [|discriminate].
    destruct (segs_of dst) as [ds0|]; [|discriminate].
    destruct (is_prefix ss0 ds0 || is_prefix ds0 ss0) eqn:E; [discriminate|].
    destruct (geto sb (hp root ss0)); [|discriminate].
    destruct (negb (is_dir (geto sb (hp root (parent ds0))))); [discriminate|].
    intros H.
    assert (ss0 = ss /\ ds0 = ds) as [-> ->]
      by (destruct (exists_ (geto sb (hp root ds0))); [destruct ow|]; inversion H; split; reflexivity).
    apply Bool.orb_false_iff in E. destruct E as [E1 E2].
    split; intros ->.
    - cbn in E1. discriminate.
    - cbn in E2. discriminate.
  Qed.


Section Serve.
  Variable root : path.

  Lemma segs_of_any name : segs_of name = segs_of name. Proof. reflexivity. Qed.

  Lemma stat_view sb n0 dt name :
    geto sb root = Some n0 -> stat root sb dt name = stat [] (Some n0) dt name.
  Proof.
    intros H. unfold stat. destruct (segs_of name) as [segs|]; [|reflexivity].
    rewrite (look root sb n0 H). reflexivity.
  Qed.

  Lemma checks_view sb n0 src dst ow :
    geto sb root = Some n0 ->
    copy_move_checks root sb src dst ow = copy_move_checks [] (Some n0) src dst ow.
  Proof.
    intros H. unfold copy_move_checks.
    destruct (segs_of src) as [ss|]; [|reflexivity].
    destruct (segs_of dst) as [ds|]; [|reflexivity].
    rewrite !(look root sb n0 H). reflexivity.
  Qed.

  Ltac fin Hv := split; [reflexivity|exact Hv].

  Lemma put_view sb n0 r : geto sb root = Some n0 ->
    snd (do_put root sb r) = snd (do_put [] (Some n0) r) /\
    views root (fst (do_put root sb r)) (fst (do_put [] (Some n0) r)).
  Proof.
    intros Hv. unfold do_put, views.
    destruct (segs_of (rpath r)) as [segs|]; [|fin Hv].
    rewrite !(look root sb n0 Hv).
    destruct (req_cond r _); [fin Hv|].
    destruct (is_dir (geto (Some n0) (hp [] segs)) || _); [fin Hv|].
    destruct (negb (is_dir (geto (Some n0) (hp [] (parent segs))))); [fin Hv|].
    destruct (body_fails r); [fin Hv|].
    pose proof (set_view root sb n0 Hv segs (File (body r) (stamp r))) as Hs.
    destruct (seto sb (hp root segs) (File (body r) (stamp r))) as [t|];
      destruct (seto (Some n0) (hp [] segs) (File (body r) (stamp r))) as [n'|]; try contradiction.
    - split; [reflexivity|exact Hs].
    - fin Hv.
  Qed.

  Lemma delete_view sb n0 r : geto sb root = Some n0 ->
    snd (do_delete root sb r) = snd (do_delete [] (Some n0) r) /\
    views root (fst (do_delete root sb r)) (fst (do_delete [] (Some n0) r)).
  Proof.
    intros Hv. unfold do_delete, views. rewrite (stat_view sb n0 _ _ Hv).
    destruct (stat [] (Some n0) (dir_tag r) (rpath r)) as [[segs n]|]; [|fin Hv].
    destruct (req_cond r _); [fin Hv|].
    split; [reflexivity|]. cbn [fst]. apply (rem_view root sb n0 Hv).
  Qed.

  Lemma mkcol_view sb n0 r : geto sb root = Some n0 ->
    snd (do_mkcol root sb r) = snd (do_mkcol [] (Some n0) r) /\
    views root (fst (do_mkcol root sb r)) (fst (do_mkcol [] (Some n0) r)).
  Proof.
    intros Hv. unfold do_mkcol, views.
    destruct (negb (String.eqb (h_ctype r) "")); [fin Hv|].
    destruct (segs_of (rpath r)) as [segs|]; [|fin Hv].
    rewrite (look root sb n0 Hv).
    destruct (exists_ (geto (Some n0) (hp [] segs))) eqn:Ex; [fin Hv|].
    assert (Hne : segs <> []) by (intros ->; cbn in Ex; discriminate).
    rewrite (look_parent root sb n0 Hv segs Hne).
    destruct (negb (is_dir (geto (Some n0) (parent (hp [] segs))))); [fin Hv|].
    pose proof (set_view root sb n0 Hv segs (Dir [])) as Hs.
    destruct (seto sb (hp root segs) (Dir [])) as [t|];
      destruct (seto (Some n0) (hp [] segs) (Dir [])) as [n'|]; try contradiction.
    - split; [reflexivity|exact Hs].
    - fin Hv.
  Qed.

  Lemma copy_view sb n0 r dst rec ow : geto sb root = Some n0 ->
    snd (do_copy root sb r dst rec ow) = snd (do_copy [] (Some n0) r dst rec ow) /\
    views root (fst (do_copy root sb r dst rec ow)) (fst (do_copy [] (Some n0) r dst rec ow)).
  Proof.
    intros Hv. unfold do_copy, views. rewrite (checks_view sb n0 _ _ _ Hv).
    destruct (copy_move_checks [] (Some n0) (rpath r) dst ow) as [[[[ss n] ds] cr]|] eqn:Ec; [|fin Hv].
    destruct (checks_nonempty _ _ _ _ _ _ _ _ _ Ec) as [_ Hds].
    set (x := if rec then copy_tree (stamp r) n else copy_shallow (stamp r) n).
    pose proof (rem_view root sb n0 Hv ds) as Hr.
    destruct (remo (Some n0) (hp [] ds)) as [n1|] eqn:E1.
    2:{ apply remo_some_none in E1. unfold hp in E1. cbn in E1. congruence. }
    pose proof (set_view root (remo sb (hp root ds)) n1 Hr ds x) as Hs.
    destruct (seto (remo sb (hp root ds)) (hp root ds) x) as [t|];
      destruct (seto (Some n1) (hp [] ds) x) as [n'|]; try contradiction.
    - split; [reflexivity|exact Hs].
    - fin Hv.
  Qed.

  Lemma move_view sb n0 r dst ow : geto sb root = Some n0 ->
    snd (do_move root sb r dst ow) = snd (do_move [] (Some n0) r dst ow) /\
    views root (fst (do_move root sb r dst ow)) (fst (do_move [] (Some n0) r dst ow)).
  Proof.
    intros Hv. unfold do_move, views. rewrite (checks_view sb n0 _ _ _ Hv).
    destruct (copy_move_checks [] (Some n0) (rpath r) dst ow) as [[[[ss n] ds] cr]|] eqn:Ec; [|fin Hv].
    destruct (checks_nonempty _ _ _ _ _ _ _ _ _ Ec) as [Hss Hds].
    pose proof (rem_view root sb n0 Hv ds) as Hr.
    destruct (remo (Some n0) (hp [] ds)) as [n1|] eqn:E1.
    2:{ apply remo_some_none in E1. unfold hp in E1. cbn in E1. congruence. }
    pose proof (rem_view root (remo sb (hp root ds)) n1 Hr ss) as Hr2.
    destruct (remo (Some n1) (hp [] ss)) as [n2|] eqn:E2.
    2:{ apply remo_some_none in E2. unfold hp in E2. cbn in E2. congruence. }
    pose proof (set_view root (remo (remo sb (hp root ds)) (hp root ss)) n2 Hr2 ds n) as Hs.
    destruct (seto (remo (remo sb (hp root ds)) (hp root ss)) (hp root ds) n) as [t|];
      destruct (seto (Some n2) (hp [] ds) n) as [n'|]; try contradiction.
    - split; [reflexivity|exact Hs].
    - fin Hv.
  Qed.
End Serve.

Section Main.
  Variable root : path.

  Lemma options_view sb n0 r : geto sb root = Some n0 ->
    do_options root sb r = (sb, snd (do_options [] (Some n0) r)) /\ fst (do_options [] (Some n0) r) = Some n0.
  Proof.
    intros Hv. unfold do_options. destruct (segs_of (rpath r)) as [segs|]; [|split; reflexivity].
    rewrite (look root sb n0 Hv). split; reflexivity.
  Qed.

  Lemma get_view sb n0 r h : geto sb root = Some n0 ->
    do_get root sb r h = (sb, snd (do_get [] (Some n0) r h)) /\ fst (do_get [] (Some n0) r h) = Some n0.
  Proof.
    intros Hv. unfold do_get. rewrite (stat_view root sb n0 _ _ Hv).
    destruct (stat [] (Some n0) (dir_tag r) (rpath r)) as [[segs [c m|ch]]|]; split; reflexivity.
  Qed.

  Lemma propfind_view sb n0 r : geto sb root = Some n0 ->
    do_propfind root sb r = (sb, snd (do_propfind [] (Some n0) r)) /\ fst (do_propfind [] (Some n0) r) = Some n0.
  Proof.
    intros Hv. unfold do_propfind. rewrite (stat_view root sb n0 _ _ Hv).
    destruct (pf r); try (split; reflexivity);
      (destruct (String.eqb (h_depth r) ""); [|destruct (String.eqb (h_depth r) "0"); [|destruct (String.eqb (h_depth r) "1"); [|destruct (String.eqb (h_depth r) "infinity"); [|split; reflexivity]]]]);
      destruct (stat [] (Some n0) (dir_tag r) (rpath r)) as [[segs n]|]; split; reflexivity.
  Qed.

  Lemma copy_move_view sb n0 r : geto sb root = Some n0 ->
    snd (do_copy_move root sb r) = snd (do_copy_move [] (Some n0) r) /\
    views root (fst (do_copy_move root sb r)) (fst (do_copy_move [] (Some n0) r)).
  Proof.
    intros Hv. unfold do_copy_move.
    destruct (h_dest r) as [| |dst]; try (split; [reflexivity|exact Hv]).
    destruct (String.eqb (h_overwrite r) ""); [|destruct (String.eqb (h_overwrite r) "T"); [|destruct (String.eqb (h_overwrite r) "F"); [|split; [reflexivity|exact Hv]]]];
    (destruct (String.eqb (h_depth r) ""); [|destruct (String.eqb (h_depth r) "0"); [|destruct (String.eqb (h_depth r) "1"); [|destruct (String.eqb (h_depth r) "infinity"); [|split; [reflexivity|exact Hv]]]]]);
    destruct (String.eqb (meth r) "COPY"); cbv iota; cbn [N.eqb Pos.eqb negb];
    first [apply copy_view; exact Hv|apply move_view; exact Hv|split; [reflexivity|exact Hv]].
  Qed.

  (** Serving at [root] inside any sandbox = serving the subtree at its own top:
      same response, and what is mapped at the root afterwards is what the subtree
      becomes. *)
  Theorem serve_relocates sb n0 r : geto sb root = Some n0 ->
    snd (serve root sb r) = snd (serve [] (Some n0) r) /\
    geto (fst (serve root sb r)) root = fst (serve [] (Some n0) r).
  Proof.
    intros Hv. unfold serve. cbv zeta.
    destruct (String.eqb (meth r) "OPTIONS").
    { destruct (options_view sb n0 r Hv) as [H1 H2]. rewrite H1. cbn [fst snd]. rewrite H2. split; [reflexivity|exact Hv]. }
    destruct (String.eqb (meth r) "GET").
    { destruct (get_view sb n0 r false Hv) as [H1 H2]. rewrite H1. cbn [fst snd]. rewrite H2. split; [reflexivity|exact Hv]. }
    destruct (String.eqb (meth r) "HEAD").
    { destruct (get_view sb n0 r true Hv) as [H1 H2]. rewrite H1. cbn [fst snd]. rewrite H2. split; [reflexivity|exact Hv]. }
    destruct (String.eqb (meth r) "PUT"); [apply put_view; exact Hv|].
    destruct (String.eqb (meth r) "DELETE"); [apply delete_view; exact Hv|].
    destruct (String.eqb (meth r) "PROPFIND").
    { destruct (propfind_view sb n0 r Hv) as [H1 H2]. rewrite H1. cbn [fst snd]. rewrite H2. split; [reflexivity|exact Hv]. }
    destruct (String.eqb (meth r) "MKCOL"); [apply mkcol_view; exact Hv|].
    destruct (String.eqb (meth r) "COPY" || String.eqb (meth r) "MOVE"); [apply copy_move_view; exact Hv|].
    destruct (String.eqb (meth r) "PROPPATCH"); [unfold do_proppatch; destruct (pf r)|]; (split; [reflexivity|exact Hv]).
  Qed.

  (** Non-interference: two sandboxes that agree on what is mapped at the served
      directory (an existing one) give the same response and agree afterwards,
      whatever lies beside or above the root in either of them. *)
  Corollary serve_noninterference sb1 sb2 r :
    geto sb1 root = geto sb2 root -> exists_ (geto sb1 root) = true ->
    snd (serve root sb1 r) = snd (serve root sb2 r) /\
    geto (fst (serve root sb1 r)) root = geto (fst (serve root sb2 r)) root.
  Proof.
    intros Heq Hex. destruct (geto sb1 root) as [n0|] eqn:E1; [|discriminate].
    symmetry in Heq.
    destruct (serve_relocates sb1 n0 r E1) as [A1 B1].
    destruct (serve_relocates sb2 n0 r Heq) as [A2 B2].
    split; congruence.
  Qed.
End Main.

(** Why the served directory must exist: MKCOL of "/" on a missing root consults the
    root's parent, which lies outside. *)
Example mkcol_root_reads_parent :
  let r := {| meth := "MKCOL"; rpath := "/"; h_depth := ""; h_overwrite := ""; h_dest := DestAbsent; h_ctype := "";
              h_if_match := ""; h_if_none_match := ""; d_if_match := None; d_if_none_match := None;
              body := ""; body_fails := false; pf := PfAllProp; stamp := 0; dir_tag := ""; mime_tab := []; sniffed := "" |}%string in
  let sb1 := Some (Dir [("top", Dir [])])%string in
  let sb2 := Some (Dir [("top", File "x" 0)])%string in
  geto sb1 ["top"; "root"]%string = geto sb2 ["top"; "root"]%string /\
  status (snd (serve ["top"; "root"]%string sb1 r)) <> status (snd (serve ["top"; "root"]%string sb2 r)).
Proof. vm_compute. split; [reflexivity|discriminate]. Qed.

(** * Two served directories (C17)

    The response is a function of the served subtree and the request: the same subtree
    served from two different places of two different sandboxes gives the same answers —
    every projected observable, the bodies' leak bit included — and the same subtree
    afterwards.  Where the served directory lives therefore cannot flow into a response. *)
Theorem serve_two_roots root1 root2 sb1 sb2 n0 r :
  geto sb1 root1 = Some n0 -> geto sb2 root2 = Some n0 ->
  snd (serve root1 sb1 r) = snd (serve root2 sb2 r) /\
  geto (fst (serve root1 sb1 r)) root1 = geto (fst (serve root2 sb2 r)) root2.
Proof.
  intros H1 H2.
  destruct (serve_relocates root1 sb1 n0 r H1) as [A1 B1].
  destruct (serve_relocates root2 sb2 n0 r H2) as [A2 B2].
  split; congruence.
Qed.

(** Along a history: as long as the served directory exists (DELETE of "/" removes it),
    all answers agree and the served subtrees stay equal. *)
Fixpoint agree_while_served (root1 root2 : list string) (sb1 sb2 : option node) (rs : list request) : Prop :=
  match rs with
  | [] => True
  | r :: rest =>
    snd (serve root1 sb1 r) = snd (serve root2 sb2 r) /\
    geto (fst (serve root1 sb1 r)) root1 = geto (fst (serve root2 sb2 r)) root2 /\
    (exists_ (geto (fst (serve root1 sb1 r)) root1) = true ->
     agree_while_served root1 root2 (fst (serve root1 sb1 r)) (fst (serve root2 sb2 r)) rest)
  end.

Theorem history_two_roots root1 root2 rs : forall sb1 sb2,
  geto sb1 root1 = geto sb2 root2 -> exists_ (geto sb1 root1) = true ->
  agree_while_served root1 root2 sb1 sb2 rs.
Proof.
  induction rs as [|r rest IH]; intros sb1 sb2 Heq Hex; [exact I|].
  cbn [agree_while_served].
  destruct (geto sb1 root1) as [n0|] eqn:E1; [|discriminate]. symmetry in Heq.
  destruct (serve_two_roots root1 root2 sb1 sb2 n0 r E1 Heq) as [A B].
  split; [exact A|]. split; [exact B|]. intros Hex'. apply IH; assumption.
Qed.

(** The premises are met by different places with different surroundings. *)
Example two_roots_example :
  let n0 := Dir [("a", File "x" 1)]%string in
  let sb1 := Some (Dir [("srv", Dir [("dav", n0)]); ("secret", File "s" 2)])%string in
  let sb2 := Some (Dir [("home", Dir [("u", Dir [("data", n0)])])])%string in
  geto sb1 ["srv"; "dav"]%string = Some n0 /\ geto sb2 ["home"; "u"; "data"]%string = Some n0.
Proof. vm_compute. split; reflexivity. Qed.

Lemma history_no_leak root rs : forall sb,
  Forall (fun resp => r_leak resp = false) (snd (run root sb rs)).
Proof.
  induction rs as [|r rest IH]; intros sb; cbn [run]; [constructor|].
  pose proof (DavCorollaries.no_host_path_disclosed root sb r) as Hl.
  destruct (serve root sb r) as [sb1 resp] eqn:E.
  specialize (IH sb1). destruct (run root sb1 rest) as [sb2 resps] eqn:E2.
  cbn [snd] in *. constructor; assumption.
Qed.
