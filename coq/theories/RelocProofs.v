(** RelocProofs.v — non-interference (C03): serving requests from the directory at
    [root] inside any sandbox is serving them at the top of the subtree mapped at
    [root].  Hence the response, and what is mapped at the root afterwards, are
    functions of the served subtree alone: nothing beside or above the root is ever
    read.  (Hypothesis: the served directory exists; when it does not, MKCOL of "/"
    consults the root's parent — see [mkcol_root_reads_parent].) *)
From GW Require Import Base GoPath Fs DavServer FsProofs UploadSteps UploadStepsProofs CopySteps CopyStepsProofs.
Local Open Scope list_scope.

(** * Paths below a prefix *)

Lemma seto_exists p : forall on n x, geto on p = Some n -> exists t, seto on p x = Some t.
Proof.
  induction p as [|s r IH]; intros on n x H; [cbn; eauto|].
  cbn [geto] in H. destruct on as [[c m|ch]|]; try discriminate.
  rewrite seto_cons. destruct (IH _ _ x H) as [t Ht]. rewrite Ht. eauto.
Qed.

(** mapping below a mapped prefix = mapping inside the node at the prefix *)
Lemma seto_app p : forall on n q x,
  geto on p = Some n ->
  seto on (p ++ q) x =
  match seto (Some n) q x with
  | Some n' => seto on p n'
  | None => None
  end.
Proof.
  induction p as [|s r IH]; intros on n q x H.
  - cbn in H. subst on. cbn [app]. destruct (seto (Some n) q x); reflexivity.
  - cbn [geto] in H. destruct on as [[c m|ch]|]; try discriminate.
    cbn [app]. rewrite !seto_cons. rewrite (IH _ _ q x H).
    destruct (seto (Some n) q x) as [n'|]; [|reflexivity].
    rewrite seto_cons. reflexivity.
Qed.

Lemma geto_seto_app p on n q x t :
  geto on p = Some n -> seto on (p ++ q) x = Some t -> geto (Some t) p = seto (Some n) q x.
Proof.
  intros Hg Hs. rewrite (seto_app p on n q x Hg) in Hs.
  destruct (seto (Some n) q x) as [n'|]; [|discriminate].
  apply (geto_seto_self p on n' t Hs).
Qed.

Lemma seto_app_none p on n q x :
  geto on p = Some n -> (seto on (p ++ q) x = None <-> seto (Some n) q x = None).
Proof.
  intros Hg. rewrite (seto_app p on n q x Hg).
  destruct (seto (Some n) q x) as [n'|]; [|tauto].
  destruct (seto_exists p on n n' Hg) as [t Ht]. rewrite Ht. split; discriminate.
Qed.

(** unmapping below a mapped prefix *)
Lemma remo_app p : forall on n q,
  geto on p = Some n -> q <> [] ->
  remo on (p ++ q) = match remo (Some n) q with Some n' => seto on p n' | None => on end.
Proof.
  induction p as [|s r IH]; intros on n q H Hq.
  - cbn in H. subst on. cbn [app]. destruct (remo (Some n) q) eqn:E; [reflexivity|].
    apply remo_some_none in E. congruence.
  - cbn [geto] in H. destruct on as [[c m|ch]|]; try discriminate.
    cbn [app remo].
    destruct (assoc s ch) as [c0|] eqn:Ea; [|rewrite geto_None in H; discriminate].
    rewrite (IH (Some c0) n q H Hq).
    destruct (remo (Some n) q) as [n'|] eqn:E.
    + rewrite seto_cons, Ea.
      destruct (seto (Some c0) r n') as [c1|] eqn:E1; [reflexivity|].
      destruct (seto_exists r (Some c0) n n' H) as [t Ht]. congruence.
    + apply remo_some_none in E. congruence.
Qed.

Lemma geto_remo_app p on n q :
  geto on p = Some n -> q <> [] -> geto (remo on (p ++ q)) p = remo (Some n) q.
Proof.
  intros Hg Hq. rewrite (remo_app p on n q Hg Hq).
  destruct (remo (Some n) q) as [n'|] eqn:E.
  - destruct (seto_exists p on n n' Hg) as [t Ht]. rewrite Ht. apply (geto_seto_self p on n' t Ht).
  - apply remo_some_none in E. congruence.
Qed.

Lemma geto_remo_top p on : p <> [] -> geto (remo on p) p = None.
Proof. apply geto_remo_self. Qed.
