(** CondWireProofs.v — C04 from the bytes of the headers: composition of the
    truth table of [check_cond] (DavServer.v) with the entity-tag codec of C16
    (Quote.v, QuoteProofs.v). *)
From GW Require Import Base GoPath Fs DavServer Quote QuoteProofs CondWire.
Local Open Scope list_scope.

Lemma ostr_eqb_eq a b : ostr_eqb a b = true -> a = b.
Proof.
  destruct a, b; cbn; try discriminate; try reflexivity.
  intros H. apply String.eqb_eq in H. subst. reflexivity.
Qed.

Section Wire.
  Variable is_print_hi : N -> bool.

  Let announced (t : string) : string := etag_marshal is_print_hi t.

  Lemma announced_not_special t : needs_decoding (announced t) = true.
  Proof. reflexivity. Qed.

  Lemma decode_announced t : decode_cond (announced t) = Some t.
  Proof. unfold decode_cond, announced. rewrite etag_roundtrip. reflexivity. Qed.

  (** If-Match carrying the text the server announces for tag [t], on an existing
      resource whose current tag is [cur]: the precondition holds iff [t = cur]. *)
  Theorem if_match_announced r t cur :
    cur <> ""%string -> wire_decoded r = true ->
    h_if_match r = announced t -> h_if_none_match r = ""%string ->
    (req_cond r cur = None <-> t = cur).
  Proof.
    intros Hcur Hw Him Hinm. unfold wire_decoded in Hw. rewrite Him, Hinm in Hw.
    rewrite announced_not_special in Hw. cbn [needs_decoding String.eqb negb andb] in Hw.
    rewrite Bool.andb_true_r in Hw. apply ostr_eqb_eq in Hw. rewrite decode_announced in Hw.
    unfold req_cond, check_cond. rewrite Him, Hinm, Hw.
    assert (He : String.eqb (announced t) "" = false) by reflexivity.
    assert (Hs : String.eqb (announced t) "*" = false) by reflexivity.
    rewrite He. unfold match_etag. rewrite Hs.
    destruct (String.eqb cur "") eqn:Ec; [apply String.eqb_eq in Ec; congruence|].
    cbn [String.eqb]. destruct (String.eqb t cur) eqn:Et.
    - apply String.eqb_eq in Et. split; [intros _; exact Et|reflexivity].
    - apply String.eqb_neq in Et. split; [discriminate|congruence].
  Qed.

  (** If-None-Match with the announced text of [t]: refused (412) iff [t = cur]. *)
  Theorem if_none_match_announced r t cur :
    cur <> ""%string -> wire_decoded r = true ->
    h_if_none_match r = announced t -> h_if_match r = ""%string ->
    (req_cond r cur = None <-> t <> cur).
  Proof.
    intros Hcur Hw Hinm Him. unfold wire_decoded in Hw. rewrite Him, Hinm in Hw.
    rewrite announced_not_special in Hw. cbn [needs_decoding String.eqb negb andb] in Hw.
    apply ostr_eqb_eq in Hw. rewrite decode_announced in Hw.
    unfold req_cond, check_cond. rewrite Him, Hinm, Hw.
    assert (He : String.eqb (announced t) "" = false) by reflexivity.
    assert (Hs : String.eqb (announced t) "*" = false) by reflexivity.
    cbn [String.eqb]. rewrite He. unfold match_etag. rewrite Hs.
    destruct (String.eqb cur "") eqn:Ec; [apply String.eqb_eq in Ec; congruence|].
    destruct (String.eqb t cur) eqn:Et.
    - apply String.eqb_eq in Et. split; [discriminate|congruence].
    - apply String.eqb_neq in Et. split; [intros _; exact Et|reflexivity].
  Qed.

  (** On a resource that does not exist, If-Match with any announced tag is refused
      and If-None-Match with any announced tag lets the request through. *)
  Theorem announced_on_absent r t :
    wire_decoded r = true ->
    (h_if_match r = announced t -> req_cond r "" <> None) /\
    (h_if_match r = ""%string -> h_if_none_match r = announced t -> req_cond r "" = None).
  Proof.
    intros Hw. split.
    - intros Him. unfold req_cond, check_cond. rewrite Him.
      assert (He : String.eqb (announced t) "" = false) by reflexivity. rewrite He.
      unfold match_etag. cbn [String.eqb]. discriminate.
    - intros Him Hinm. unfold req_cond, check_cond. rewrite Him, Hinm.
      assert (He : String.eqb (announced t) "" = false) by reflexivity.
      cbn [String.eqb]. rewrite He. unfold match_etag. cbn [String.eqb]. reflexivity.
  Qed.
End Wire.

(** A header value that is not one double-quoted Go string literal (unquoted, single
    quoted, weak, a list) never decodes, so on an existing resource it is a 400. *)
Theorem undecodable_is_400 r cur :
  cur <> ""%string -> wire_decoded r = true ->
  needs_decoding (h_if_match r) = true -> decode_cond (h_if_match r) = None ->
  exists e, req_cond r cur = Some e /\ ecode e = 400%N.
Proof.
  intros Hcur Hw Hn Hd. unfold wire_decoded in Hw. rewrite Hn in Hw.
  apply andb_prop in Hw. destruct Hw as [Hw _]. apply ostr_eqb_eq in Hw. rewrite Hd in Hw.
  unfold needs_decoding in Hn. apply andb_prop in Hn. destruct Hn as [H1 H2].
  apply Bool.negb_true_iff in H1. apply Bool.negb_true_iff in H2.
  unfold req_cond, check_cond. rewrite H1. unfold match_etag. rewrite H2, Hw.
  destruct (String.eqb cur "") eqn:Ec; [apply String.eqb_eq in Ec; congruence|].
  eexists. split; reflexivity.
Qed.

Example wire_examples :
  decode_cond """abc""" = Some "abc"%string /\ decode_cond "abc" = None /\ decode_cond "W/""abc""" = None
  /\ decode_cond "'abc'" = None /\ decode_cond """a"", ""b""" = None.
Proof. vm_compute. repeat split. Qed.

(** * One tag in the four places, for every backend tag *)
Theorem announce_meets_spec is_print_hi t :
  let a := announce is_print_hi t in
  tags_spec_ok t a a a a (match a with Some s => match_back s t | None => None end) = true.
Proof.
  unfold announce, tags_spec_ok. destruct (String.eqb t "") eqn:E; [reflexivity|].
  cbn [ostr_eqb]. rewrite String.eqb_refl. cbn [andb].
  unfold decode_cond. rewrite etag_roundtrip. cbn [ostr_eqb]. rewrite String.eqb_refl. cbn [andb].
  unfold match_back, match_etag. rewrite E.
  assert (Hs : String.eqb (etag_marshal is_print_hi t) "*" = false) by reflexivity.
  rewrite Hs. unfold decode_cond. rewrite etag_roundtrip. rewrite String.eqb_refl. reflexivity.
Qed.

Theorem tags_agree_implies_spec is_print_hi t put get head pf :
  tags_agree is_print_hi t put get head pf = true ->
  tags_spec_ok t put get head pf (match get with Some s => match_back s t | None => None end) = true.
Proof.
  unfold tags_agree. intros H.
  apply andb_prop in H. destruct H as [H Hpf]. apply andb_prop in H. destruct H as [H Hh].
  apply andb_prop in H. destruct H as [Hp Hg].
  apply ostr_eqb_eq in Hp, Hg, Hh, Hpf. subst. apply announce_meets_spec.
Qed.

Theorem cdav_options_unaltered im inm :
  cdav_options (Some im) (Some inm) = (im, inm) /\ cdav_options None None = (""%string, ""%string).
Proof. split; reflexivity. Qed.
