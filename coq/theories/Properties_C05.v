(** Properties_C05.v — C05: WebDAV client and server agree on names, metadata and
    content.  Statements only. *)
From GW Require Import Base GoPath Fs DavServer DavClient DavClientProofs.
Local Open Scope list_scope.
