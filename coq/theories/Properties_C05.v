(** Properties_C05.v — C05: WebDAV client and server agree on names, metadata and
    content.  Statements only; each is closed by [exact] of a lemma of
    DavClientProofs.v.

    [X : ext] holds the library codecs that are not modelled (net/url, strconv.Quote /
    Unquote, HTTP dates, encoding/xml character data, mime.TypeByExtension);
    [codec_laws X] are their round-trip laws — visible hypotheses, the subject of
    property C16.  [fs : filesystem] is ANY backend: its answers are arbitrary
    functions.  [ep] is the endpoint's path as internal.NewClient holds it (never
    empty: [C05_endpoint_path_nonempty]). *)
From GW Require Import Base GoPath Fs DavServer DavClient DavClientProofs.
Local Open Scope list_scope.

(** The whole property in one statement, for every backend, endpoint and client
    call: what the model of client + server does — the calls the backend receives and
    what the client returns — is accepted by the specification [spec_ok], which is
    written from the property text (the backend's FileInfo / bytes reported exactly,
    to the second; the backend addressed at exactly the resolved names with exactly
    the requested options; failures reported as failures). *)
Theorem C05_model_meets_spec : forall X, codec_laws X -> forall fs ep, ep <> "" -> forall o,
  let '(calls, out) := run_op X fs ep o in spec_ok X fs ep o calls out = true.
Proof. exact model_meets_spec. Qed.
Print Assumptions C05_model_meets_spec.

(** Stat: any FileInfo of the domain (any path bytes that form an absolute path, any
    tag bytes, any size below 2^63, any instant of the years 0..9999 or Go's zero
    time, a MIME type XML can carry) comes back as [view fi]: path, kind, time to the
    second, and for a file size, type and tag. *)
Theorem C05_stat_roundtrip : forall X, codec_laws X -> forall fs ep name fi,
  fs_stat fs (resolve_href ep name) = FOk fi -> wf_info X fi = true ->
  client_stat X fs ep name = ([CStat (resolve_href ep name)], OInfo (view fi)).
Proof. exact stat_roundtrip. Qed.
Print Assumptions C05_stat_roundtrip.

(** one multistatus entry written by the server and read by the client *)
Theorem C05_file_info_roundtrip : forall X, codec_laws X -> forall fi,
  wf_info X fi = true -> file_info_from_response X (wire_of X fi) = Ok (view fi).
Proof. exact file_info_roundtrip. Qed.
Print Assumptions C05_file_info_roundtrip.

(** ReadDir: whatever list the backend returns for a collection comes back entry by
    entry, in order; the backend is asked Stat then ReadDir with the recursion flag. *)
Theorem C05_readdir_roundtrip : forall X, codec_laws X -> forall fs ep name recursive fi l,
  let p := resolve_href ep name in
  fs_stat fs p = FOk fi -> i_dir fi = true -> fs_readdir fs p recursive = FOk l ->
  forallb (wf_info X) l = true ->
  client_readdir X fs ep name recursive = ([CStat p; CReadDir p recursive], OList (map view l)).
Proof. exact readdir_roundtrip. Qed.
Print Assumptions C05_readdir_roundtrip.

(** Open: the bytes the backend holds. *)
Theorem C05_open_bytes : forall fs ep name fi b,
  let p := resolve_href ep name in
  fs_stat fs p = FOk fi -> i_dir fi = false -> fs_open fs p = FOk b ->
  client_open fs ep name = ([CStat p; COpen p], OBytes b).
Proof. exact open_bytes. Qed.
Print Assumptions C05_open_bytes.

(** Create: the chunks written, concatenated, are the body handed to the backend,
    for exactly the resolved name, without conditions. *)
Theorem C05_create_bytes : forall fs ep name chunks,
  fst (client_create fs ep name chunks) = [CCreate (resolve_href ep name) (String.concat "" chunks) "" ""].
Proof. exact create_call. Qed.
Print Assumptions C05_create_bytes.

Theorem C05_mkdir_call : forall fs ep name, fst (client_mkdir fs ep name) = [CMkdir (resolve_href ep name)].
Proof. exact mkdir_call. Qed.
Print Assumptions C05_mkdir_call.

Theorem C05_remove_all_call : forall fs ep name,
  fst (client_remove_all fs ep name) = [CRemoveAll (resolve_href ep name) "" ""].
Proof. exact remove_all_call. Qed.
Print Assumptions C05_remove_all_call.

(** Copy / Move: source and destination resolved, Overwrite and Depth survive
    format and parse, the two negations (NoOverwrite, NoRecursive) cancel. *)
Theorem C05_copy_args : forall fs ep name dest nr no,
  fst (client_copy fs ep name dest nr no) = [CCopy (resolve_href ep name) (resolve_href ep dest) nr no].
Proof. exact copy_call. Qed.
Print Assumptions C05_copy_args.

Theorem C05_move_args : forall fs ep name dest no,
  fst (client_move fs ep name dest no) = [CMove (resolve_href ep name) (resolve_href ep dest) no].
Proof. exact move_call. Qed.
Print Assumptions C05_move_args.

(** Addressing: absolute names unchanged, relative names clean-joined to the endpoint path. *)
Theorem C05_addressing : forall ep name, ep <> "" -> resolve_href ep name = spec_target ep name.
Proof. exact resolve_is_target. Qed.
Print Assumptions C05_addressing.

Theorem C05_endpoint_path_nonempty : forall u, endpoint_path u <> "".
Proof. exact endpoint_path_nonempty. Qed.
Print Assumptions C05_endpoint_path_nonempty.

(** ReadDir of a collection served by LocalFileSystem (tree of any size, names any
    directory-entry names, unique per directory): the collection itself and its
    direct members, or all descendants — each exactly once, nothing else, every
    entry under a path that resolves to itself and that LocalFileSystem maps back to
    the node the entry describes (kind; size, tag and time of a file). *)
Theorem C05_readdir_scope : forall X dmeta t writes ep name recursive segs ch,
  codec_laws X ->
  (forall p, x_text X (x_mime_ext X p) = x_mime_ext X p) ->
  (forall q, (fst (dmeta q) < big)%N /\ (snd (dmeta q) < big)%N) ->
  (forall n, t = Some n -> wf_node n) ->
  local_segs (resolve_href ep name) = Ok segs ->
  geto t segs = Some (Dir ch) ->
  exists l,
    client_readdir X (local_fs X dmeta t writes) ep name recursive =
      ([CStat (resolve_href ep name); CReadDir (resolve_href ep name) recursive], OList l) /\
    NoDup (map i_path l) /\
    (forall e, In e l ->
       exists q n, i_path e = external_path q /\ resolve_href ep (i_path e) = i_path e /\
         local_segs (i_path e) = Ok q /\ geto t q = Some n /\ scope recursive segs q /\
         match n with
         | Dir _ => i_dir e = true
         | File c m => i_dir e = false /\ i_size e = Z.of_N (strlen c) /\ i_etag e = etag_of m (strlen c) /\
                       i_mod e = to_second (instant_of_ns m)
         end) /\
    (forall q n, geto t q = Some n -> scope recursive segs q -> In (external_path q) (map i_path l)).
Proof. exact readdir_scope. Qed.
Print Assumptions C05_readdir_scope.

(** Stat and Open over LocalFileSystem. *)
Theorem C05_stat_local : forall X dmeta t writes ep name segs n,
  codec_laws X ->
  (forall p, x_text X (x_mime_ext X p) = x_mime_ext X p) ->
  (forall q, (fst (dmeta q) < big)%N /\ (snd (dmeta q) < big)%N) ->
  (forall n0, t = Some n0 -> wf_node n0) ->
  local_segs (resolve_href ep name) = Ok segs ->
  geto t segs = Some n ->
  client_stat X (local_fs X dmeta t writes) ep name =
    ([CStat (resolve_href ep name)], OInfo (view (fi_of_node X dmeta segs n))).
Proof. exact stat_local. Qed.
Print Assumptions C05_stat_local.

Theorem C05_open_local : forall X dmeta t writes ep name segs c m,
  local_segs (resolve_href ep name) = Ok segs ->
  geto t segs = Some (File c m) ->
  client_open (local_fs X dmeta t writes) ep name =
    ([CStat (resolve_href ep name); COpen (resolve_href ep name)], OBytes c).
Proof. exact open_local. Qed.
Print Assumptions C05_open_local.

(** a path LocalFileSystem reports leads back to the same segments *)
Theorem C05_reported_path_addressable : forall q,
  Forall (fun x => name_ok x = true) q -> local_segs (external_path q) = Ok q.
Proof. exact local_segs_external. Qed.
Print Assumptions C05_reported_path_addressable.

(** The executable scope check the oracle applies to the implementation's listing
    ([tree_spec_ok]: no duplicate, every entry canonical / in scope / mapping back to
    a node of its kind and size, every mapped path in scope listed) accepts the
    model's listing, for every well-formed tree. *)
Theorem C05_tree_spec_sound : forall X dmeta t writes ep name recursive segs ch,
  codec_laws X ->
  (forall p, x_text X (x_mime_ext X p) = x_mime_ext X p) ->
  (forall q, (fst (dmeta q) < big)%N /\ (snd (dmeta q) < big)%N) ->
  (forall n, t = Some n -> wf_node n) ->
  ep <> "" ->
  local_segs (resolve_href ep name) = Ok segs ->
  geto t segs = Some (Dir ch) ->
  tree_spec_ok t ep name recursive (snd (client_readdir X (local_fs X dmeta t writes) ep name recursive)) = true.
Proof. exact tree_spec_sound. Qed.
Print Assumptions C05_tree_spec_sound.

(** Non-vacuity: the codec hypotheses of the theorems above can be met. *)
Theorem C05_hypotheses_satisfiable :
  codec_laws toy_ext /\ (forall p, x_text toy_ext (x_mime_ext toy_ext p) = x_mime_ext toy_ext p).
Proof. exact codec_laws_satisfiable. Qed.
Print Assumptions C05_hypotheses_satisfiable.

(** * The same theorems on C16's codec models

    [X_model iph txt mime] fills the codec record with the Gallina models of
    url.URL.String / url.Parse (Href.v), strconv.Quote / Unquote (Quote.v) and
    time.Format(http.TimeFormat) / http.ParseTime (Civil.v).  The round-trip laws are
    no longer hypotheses: they follow from C16's theorems (C16_href_roundtrip,
    C16_etag_unquote_quote, C16_httpdate_roundtrip) on exactly C16's domains, which
    are C05's ([C05_path_domain_is_C16], [C05_time_domain_is_C16]).  What remains a
    parameter: [iph] (strconv.IsPrint above U+00FF; any table), [mime]
    (mime.TypeByExtension) and [txt] (XML character data) with the single remaining
    hypothesis [text_transparent iph txt]: encoding/xml hands the four encoders'
    texts on unchanged. *)
From GW Require Import DavClientCodecs DavClientCodecsProofs.
From GW Require Civil Href.

Theorem C05_codec_laws_modelled_codecs : forall iph txt mime,
  text_transparent iph txt -> codec_laws (X_model iph txt mime).
Proof. exact model_codec_laws. Qed.
Print Assumptions C05_codec_laws_modelled_codecs.

Theorem C05_path_domain_is_C16 : forall p, wf_path p = true -> Href.href_in_domain p = true.
Proof. exact wf_path_in_domain. Qed.
Print Assumptions C05_path_domain_is_C16.

Theorem C05_time_domain_is_C16 : forall t, wf_time t = true -> is_zero t = false ->
  (0 <= Civil.year_of_unix (t_sec t) <= 9999)%Z.
Proof. exact wf_time_year. Qed.
Print Assumptions C05_time_domain_is_C16.

Theorem C05_model_meets_spec_modelled_codecs : forall iph txt mime, text_transparent iph txt ->
  forall fs ep, ep <> "" -> forall o,
  let '(calls, out) := run_op (X_model iph txt mime) fs ep o in
  spec_ok (X_model iph txt mime) fs ep o calls out = true.
Proof. exact model_meets_spec_modelled. Qed.
Print Assumptions C05_model_meets_spec_modelled_codecs.

Theorem C05_stat_roundtrip_modelled_codecs : forall iph txt mime, text_transparent iph txt ->
  forall fs ep name fi,
  fs_stat fs (resolve_href ep name) = FOk fi -> wf_info (X_model iph txt mime) fi = true ->
  client_stat (X_model iph txt mime) fs ep name = ([CStat (resolve_href ep name)], OInfo (view fi)).
Proof. exact stat_roundtrip_modelled. Qed.
Print Assumptions C05_stat_roundtrip_modelled_codecs.

Theorem C05_file_info_roundtrip_modelled_codecs : forall iph txt mime, text_transparent iph txt ->
  forall fi, wf_info (X_model iph txt mime) fi = true ->
  file_info_from_response (X_model iph txt mime) (wire_of (X_model iph txt mime) fi) = Ok (view fi).
Proof. exact file_info_roundtrip_modelled. Qed.
Print Assumptions C05_file_info_roundtrip_modelled_codecs.

Theorem C05_readdir_roundtrip_modelled_codecs : forall iph txt mime, text_transparent iph txt ->
  forall fs ep name recursive fi l,
  let p := resolve_href ep name in
  fs_stat fs p = FOk fi -> i_dir fi = true -> fs_readdir fs p recursive = FOk l ->
  forallb (wf_info (X_model iph txt mime)) l = true ->
  client_readdir (X_model iph txt mime) fs ep name recursive = ([CStat p; CReadDir p recursive], OList (map view l)).
Proof. exact readdir_roundtrip_modelled. Qed.
Print Assumptions C05_readdir_roundtrip_modelled_codecs.

Theorem C05_readdir_scope_modelled_codecs : forall iph txt mime, text_transparent iph txt ->
  forall dmeta t writes ep name recursive segs ch,
  (forall p, txt (mime p) = mime p) ->
  (forall q, (fst (dmeta q) < big)%N /\ (snd (dmeta q) < big)%N) ->
  (forall n, t = Some n -> wf_node n) ->
  local_segs (resolve_href ep name) = Ok segs ->
  geto t segs = Some (Dir ch) ->
  exists l,
    client_readdir (X_model iph txt mime) (local_fs (X_model iph txt mime) dmeta t writes) ep name recursive =
      ([CStat (resolve_href ep name); CReadDir (resolve_href ep name) recursive], OList l) /\
    NoDup (map i_path l) /\
    (forall e, In e l ->
       exists q n, i_path e = external_path q /\ resolve_href ep (i_path e) = i_path e /\
         local_segs (i_path e) = Ok q /\ geto t q = Some n /\ scope recursive segs q /\
         match n with
         | Dir _ => i_dir e = true
         | File c m => i_dir e = false /\ i_size e = Z.of_N (strlen c) /\ i_etag e = etag_of m (strlen c) /\
                       i_mod e = to_second (instant_of_ns m)
         end) /\
    (forall q n, geto t q = Some n -> scope recursive segs q -> In (external_path q) (map i_path l)).
Proof. exact readdir_scope_modelled. Qed.
Print Assumptions C05_readdir_scope_modelled_codecs.

Theorem C05_stat_local_modelled_codecs : forall iph txt mime, text_transparent iph txt ->
  forall dmeta t writes ep name segs n,
  (forall p, txt (mime p) = mime p) ->
  (forall q, (fst (dmeta q) < big)%N /\ (snd (dmeta q) < big)%N) ->
  (forall n0, t = Some n0 -> wf_node n0) ->
  local_segs (resolve_href ep name) = Ok segs ->
  geto t segs = Some n ->
  client_stat (X_model iph txt mime) (local_fs (X_model iph txt mime) dmeta t writes) ep name =
    ([CStat (resolve_href ep name)], OInfo (view (fi_of_node (X_model iph txt mime) dmeta segs n))).
Proof. exact stat_local_modelled. Qed.
Print Assumptions C05_stat_local_modelled_codecs.

(** the remaining hypothesis is satisfiable *)
Theorem C05_text_transparent_satisfiable : forall iph, text_transparent iph (fun s => s).
Proof. exact text_transparent_id. Qed.
Print Assumptions C05_text_transparent_satisfiable.

(** * Read-only backend calls

    [spec_ok] = [calls_ok] (the mutating calls are exactly the expected ones; read-only
    calls may be any, as long as each names the request's resource or destination) and
    [outcome_ok] (what the client returns).  [C05_model_meets_spec] above is about this
    specification.  The present code makes exactly the calls of the strict reading: *)
Theorem C05_model_meets_spec_exact : forall X, codec_laws X -> forall fs ep, ep <> "" -> forall o,
  let '(calls, out) := run_op X fs ep o in spec_exact X fs ep o calls out = true.
Proof. exact model_meets_spec_exact. Qed.
Print Assumptions C05_model_meets_spec_exact.

(** a read-only call (Stat, ReadDir, Open) on a resource the request refers to may be
    added anywhere among the calls *)
Theorem C05_spec_tolerates_extra_reads : forall names expected l1 l2 c,
  is_mutating c = false -> name_in (read_name c) names = true ->
  calls_ok names expected (l1 ++ l2) = true -> calls_ok names expected (l1 ++ c :: l2) = true.
Proof. exact calls_ok_extra_read. Qed.
Print Assumptions C05_spec_tolerates_extra_reads.

(** a read-only call on any other name (a wrongly decoded one, say) is a failure *)
Theorem C05_spec_refuses_foreign_reads : forall names expected l1 l2 c,
  is_mutating c = false -> name_in (read_name c) names = false ->
  calls_ok names expected (l1 ++ c :: l2) = false.
Proof. exact calls_ok_foreign_read. Qed.
Print Assumptions C05_spec_refuses_foreign_reads.

(** the mutating calls are exactly the expected ones, in order, with their arguments *)
Theorem C05_spec_fixes_mutations : forall names expected calls,
  calls_ok names expected calls = true -> calls_eqb (filter is_mutating calls) expected = true.
Proof. exact calls_ok_mutations. Qed.
Print Assumptions C05_spec_fixes_mutations.
