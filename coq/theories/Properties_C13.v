(** Properties_C13.v — C13: servers answer every request without panicking; malformed
    input gets 4xx.  Statements only; each is closed by [exact] of a lemma proved in
    ServerTotalProofs.v.  [serve] is the model of webdav.Handler, caldav.Handler,
    carddav.Handler and webdav.ServePrincipal (ServerTotal.v); [backend_total] says the
    backend double is there, returns errors with a 4xx/5xx code and never (nil, nil). *)
From GW Require Import Base GoPath Fs ServerTotal ServerTotalProofs ServerTotalReport ServerTotalAgree.
Local Open Scope N_scope.

(** No request makes a handler panic: any method, path, header values, body parse. *)
Theorem C13_no_panic : forall c, backend_total c = true -> serve c <> Panicked.
Proof. exact serve_no_panic. Qed.
Print Assumptions C13_no_panic.

(** Every request gets a complete response: a status in 100..599 is written. *)
Theorem C13_complete : forall c, backend_total c = true ->
  exists s cs, serve c = Resp s cs /\ 100 <= s /\ s < 600.
Proof. exact serve_complete. Qed.
Print Assumptions C13_complete.

(** Every malformed request gets a 4xx and reaches no create, update or delete call:
    invalid Depth / Overwrite / Destination / Content-Type, unparseable, empty or wrongly
    rooted XML, unparseable iCalendar or vCard ([malformed_basic]), and, in REPORT
    documents of any shape, mutually exclusive elements, invalid dates, enumeration
    values and limits ([malformed_report], a predicate on the XML tree). *)
Theorem C13_malformed_4xx : forall c, backend_total c = true -> malformed c = true ->
  exists s, serve c = Resp s [] /\ 400 <= s /\ s < 500.
Proof. exact malformed_refused. Qed.
Print Assumptions C13_malformed_4xx.

(** The two halves separately. *)
Theorem C13_malformed_basic_4xx : forall c, backend_total c = true -> malformed_basic c = true ->
  exists s, serve c = Resp s [] /\ 400 <= s /\ s < 500.
Proof. exact malformed_basic_refused. Qed.
Print Assumptions C13_malformed_basic_4xx.

Theorem C13_malformed_report_4xx : forall c, backend_total c = true -> malformed_report c = true ->
  exists s, serve c = Resp s [] /\ 400 <= s /\ s < 500.
Proof. exact malformed_report_refused. Qed.
Print Assumptions C13_malformed_report_4xx.

(** The REPORT handlers, whatever the backend: a calendar-query / calendar-multiget /
    addressbook-query / addressbook-multiget tree in which, at any depth of comp-filter or
    comp nesting and at any position among its siblings, is-not-defined stands next to
    time-range / text-match / param-filter / prop-filter / comp-filter, allprop next to
    prop, allcomp next to comp, or a start / end / negate-condition / match-type / test
    attribute or an nresults text is invalid, is answered 400 before the backend is asked. *)
Theorem C13_cal_report_tree_400 : forall env r root,
  r_xml r = XTree root -> rfc_cal_report_bad root = true -> cal_handle_report env r = bad_request.
Proof. exact cal_report_bad_400. Qed.
Print Assumptions C13_cal_report_tree_400.

Theorem C13_card_report_tree_400 : forall env r root,
  r_xml r = XTree root -> rfc_card_report_bad root = true -> card_handle_report env r = bad_request.
Proof. exact card_report_bad_400. Qed.
Print Assumptions C13_card_report_tree_400.

(** The decoders reject what the RFC predicates flag, for every accumulator (a repeated
    element is unmarshalled into the value decoded so far) and every depth; and once a
    merged comp-filter / comp is rejected, no further element un-rejects it. *)
Theorem C13_comp_filter_rejected : forall t, rfc_cf_bad t = true ->
  forall d acc v, um_comp_filter d acc t = Some v -> decode_comp_filter v = false.
Proof. exact cf_rej. Qed.
Print Assumptions C13_comp_filter_rejected.

Theorem C13_comp_filter_monotone : forall d acc t v,
  um_comp_filter d acc t = Some v -> decode_comp_filter acc = false -> decode_comp_filter v = false.
Proof. exact cf_mono. Qed.
Print Assumptions C13_comp_filter_monotone.

Theorem C13_comp_rejected : forall t, rfc_comp_bad t = true ->
  forall d acc v, um_comp d acc t = Some v -> decode_comp v = false.
Proof. exact comp_rej. Qed.
Print Assumptions C13_comp_rejected.

(** Agreement of an observation with the model entails the specification the oracle
    evaluates (so a specification failure always comes with a model disagreement). *)
Theorem C13_agree_implies_spec_ok : forall c o, model_agrees c o = true -> spec_ok c o = true.
Proof. exact agree_implies_spec_ok. Qed.
Print Assumptions C13_agree_implies_spec_ok.

(** The hypothesis on the backend is needed: a (nil, nil) result, an error with
    status code 0 and a nil options pointer each make the model panic (as the code does). *)
Theorem C13_panic_witnesses :
  serve (CDav {| fe_has_fs := true; fe_stat := BOk None; fe_open := None; fe_readdir := BOk [];
                 fe_create := BOk (None, true); fe_removeall := None; fe_mkdir := None;
                 fe_copy := BOk true; fe_move := BOk true |} (plain_req "GET" "/a")) = Panicked /\
  serve (CDav {| fe_has_fs := true; fe_stat := BErr (EDirect 0); fe_open := None; fe_readdir := BOk [];
                 fe_create := BOk (None, true); fe_removeall := None; fe_mkdir := None;
                 fe_copy := BOk true; fe_move := BOk true |} (plain_req "GET" "/a")) = Panicked /\
  serve (CPrincipal true (plain_req "OPTIONS" "/")) = Panicked /\
  serve (CDav fs_fine (plain_req "GET" "/a")) = Resp 200 [].
Proof. exact panic_witnesses. Qed.
Print Assumptions C13_panic_witnesses.

(** RawXMLValue.TokenReader's panic is unreachable from Prop.Decode: Prop.Get only
    returns values that hold a token. *)
Theorem C13_prop_get_never_marshal_only : forall raws ns l r,
  prop_get raws ns l = Some r -> exists t, r = RawTok t.
Proof. exact prop_get_tok. Qed.
Print Assumptions C13_prop_get_never_marshal_only.

(** REPORT documents, the building blocks: (a) whatever makes the report decoder fail is
    a 400; (b) a decoded calendar-query whose filter violates the is-not-defined
    exclusivity anywhere in the tree of comp-filters, or whose calendar-data is rejected,
    is a 400 before the backend is asked; the same for CardDAV. *)
Theorem C13_report_undecodable_400 : forall env r,
  dx_failed (decode_xml_request r (um_cal_report (r_url_ok r) 0)) -> cal_handle_report env r = bad_request.
Proof. exact cal_report_undecodable. Qed.
Print Assumptions C13_report_undecodable_400.

Theorem C13_card_report_undecodable_400 : forall env r,
  dx_failed (decode_xml_request r (um_card_report (r_url_ok r) 0)) -> card_handle_report env r = bad_request.
Proof. exact card_report_undecodable. Qed.
Print Assumptions C13_card_report_undecodable_400.

Theorem C13_cal_query_rejected_400 : forall env r q,
  cal_data_of_prop (cq_sel q) = Ok false \/ decode_comp_filter (cq_filter q) = false ->
  cal_handle_query env r q = bad_request.
Proof. exact cal_query_rejected. Qed.
Print Assumptions C13_cal_query_rejected_400.

Theorem C13_exclusive_filter_rejected : forall c, cf_exclusive c -> decode_comp_filter c = false.
Proof. exact cf_exclusive_rejected. Qed.
Print Assumptions C13_exclusive_filter_rejected.

Theorem C13_card_query_rejected_400 : forall env r q,
  addr_data_of_prop (aq_sel q) = SBad \/
  (addr_data_of_prop (aq_sel q) = SGo /\ forallb decode_aprop_filter (af_props (aq_filter q)) = false) ->
  card_handle_query env r q = bad_request.
Proof. exact card_query_rejected. Qed.
Print Assumptions C13_card_query_rejected_400.

(** Invalid dates, enumeration values and limits make the decoder of the element that
    carries them fail, whatever was decoded before. *)
Theorem C13_invalid_date_fails : forall d acc ns l attrs kids a,
  In a attrs -> bad_attr parse_utc_ok "start" a || bad_attr parse_utc_ok "end" a = true ->
  um_time_range d acc (XElem ns l attrs kids) = None /\ um_expand d acc (XElem ns l attrs kids) = None.
Proof. exact time_range_invalid. Qed.
Print Assumptions C13_invalid_date_fails.

Theorem C13_invalid_text_match_fails : forall card tns d acc ns l attrs kids a,
  In a attrs ->
  bad_attr yes_no_ok "negate-condition" a || (card && bad_attr match_type_ok "match-type" a) = true ->
  um_text_match card tns d acc (XElem ns l attrs kids) = None.
Proof. exact text_match_invalid. Qed.
Print Assumptions C13_invalid_text_match_fails.

Theorem C13_invalid_test_fails : forall d ns l attrs kids a,
  In a attrs -> bad_attr filter_test_ok "test" a = true ->
  (forall acc, um_card_filter d acc (XElem ns l attrs kids) = None) /\
  (forall acc, um_aprop_filter d acc (XElem ns l attrs kids) = None).
Proof. exact card_test_invalid. Qed.
Print Assumptions C13_invalid_test_fails.

Theorem C13_invalid_limit_fails : forall d acc ns l attrs kids kns ka kk,
  In (XElem kns "nresults" ka kk) kids -> parse_uint (chardata kk) = None ->
  um_limit d acc (XElem ns l attrs kids) = None.
Proof. exact limit_invalid. Qed.
Print Assumptions C13_invalid_limit_fails.

(** The oracle's acceptance test is the declarative statement. *)
Theorem C13_acceptable_spec : forall c o,
  acceptable c o = true <->
  exists s cs, o = Resp s cs /\ 100 <= s /\ s < 600 /\
               (malformed c = true -> 400 <= s /\ s < 500 /\ cs = []).
Proof. exact acceptable_spec. Qed.
Print Assumptions C13_acceptable_spec.

(** Agreement with the model is equality of status and mutating calls. *)
Theorem C13_agree_is_equality : forall a c, outcome_eqb a c = true -> a = c.
Proof. exact outcome_eqb_eq. Qed.
Print Assumptions C13_agree_is_equality.

(** The two models of webdav.Handler agree.  [D.serve root sb r] is the file-server stack's
    model (DavServer.v: the handler composed with LocalFileSystem on the sandbox tree [sb]);
    [local_env root sb r] is the FileSystem double that answers Stat / Open / ReadDir / Create /
    RemoveAll / Mkdir / Copy / Move as DavServer's own [stat] and [do_*] functions say
    LocalFileSystem does on [sb]; [req_match r r'] says [r'] carries the method, path, Depth /
    Overwrite / Destination texts and Content-Type presence of [r] and that the handler reads
    its body as [D.pf r] says ([pf_reads]: on PROPPATCH, [D.pf r = PfBad] iff DecodeXMLRequest
    of the propertyupdate body fails; otherwise [D.pf r] is the outcome of
    DecodePropFindRequest).  Then, for every method, this file's model answers the status
    DavServer answers, never panics, records at most one mutating call (on the request path),
    and records none only if DavServer leaves the sandbox as it was. *)
Theorem C13_agrees_with_file_server_model : forall root sb r r',
  req_match r r' ->
  exists cs,
    serve (CDav (local_env root sb r) r') = Resp (st (D.serve root sb r)) cs /\
    (cs = [] \/ exists k dst, cs = [Call k (D.rpath r) dst]) /\
    (cs = [] -> fst (D.serve root sb r) = sb).
Proof. exact agrees_with_file_server_model. Qed.
Print Assumptions C13_agrees_with_file_server_model.

Theorem C13_file_server_double_never_panics : forall root sb r r',
  req_match r r' -> serve (CDav (local_env root sb r) r') <> Panicked.
Proof. exact local_env_never_panics. Qed.
Print Assumptions C13_file_server_double_never_panics.

(** every DavServer request has a translation ([req_of]) *)
Theorem C13_request_translation_exists : forall r, req_match r (req_of r).
Proof. exact req_of_match. Qed.
Print Assumptions C13_request_translation_exists.

(** An instance.  On PROPPATCH the two models used to differ (DavServer.serve answered 405,
    having no case for the method; this model and the real handler 403 for a decodable body,
    400 otherwise; notes/C13.md).  DavServer.v has been corrected and the theorem above now
    covers PROPPATCH; the former witness is kept as an example of the agreement. *)
Theorem C13_file_server_model_proppatch_example :
  st (D.serve [] None proppatch_req) = 403 /\
  serve (CDav (local_env [] None proppatch_req) proppatch_req') = Resp 403 [].
Proof. exact proppatch_example_agrees. Qed.
Print Assumptions C13_file_server_model_proppatch_example.

(** A Destination that parses but has no path (http://host, //host, ?q, #f, mailto:a@b):
    internal/server.go hands the empty path to the backend as it is (in the model:
    [r_dest = DPath ""], inside C13_no_panic and C13_complete like every other request; not
    counted as malformed at the handler, whose answer is the backend's); over the
    LocalFileSystem model the answer is 400 and nothing changes. *)
Theorem C13_empty_destination_path_400_on_file_server : forall root sb r r',
  req_match r r' -> D.meth r = "COPY" \/ D.meth r = "MOVE" -> D.h_dest r = D.DestPath "" ->
  exists cs, serve (CDav (local_env root sb r) r') = Resp 400 cs /\ fst (D.serve root sb r) = sb.
Proof. exact empty_destination_path_file_server. Qed.
Print Assumptions C13_empty_destination_path_400_on_file_server.

(** What counts as an invalid Depth / Overwrite value: a non-empty text that is not one of
    the literals in any ASCII letter case (RFC 2616 section 2.1: literals are
    case-insensitive, and RFC 4918 uses that grammar).  "Infinity" or "t" do not make a
    request malformed, whether the server accepts them or answers 400. *)
Theorem C13_invalid_depth_classification : forall r,
  bad_depth r = true <-> str_empty (r_depth r) = false /\ depth_literal_ci (r_depth r) = false.
Proof. exact bad_depth_iff. Qed.
Print Assumptions C13_invalid_depth_classification.

Theorem C13_invalid_overwrite_classification : forall r,
  bad_overwrite r = true <-> str_empty (r_overwrite r) = false /\ overwrite_literal_ci (r_overwrite r) = false.
Proof. exact bad_overwrite_iff. Qed.
Print Assumptions C13_invalid_overwrite_classification.

Theorem C13_case_variants_examples :
  depth_literal_ci "Infinity" = true /\ depth_literal_ci "INFINITY" = true /\ depth_literal_ci "infinity" = true /\
  overwrite_literal_ci "t" = true /\ overwrite_literal_ci "f" = true /\ overwrite_literal_ci "T" = true /\
  depth_literal_ci "2" = false /\ depth_literal_ci " 1" = false /\ depth_literal_ci "infinite" = false /\
  overwrite_literal_ci "X" = false /\ overwrite_literal_ci "TT" = false /\ overwrite_literal_ci "true" = false.
Proof. exact case_variants_examples. Qed.
Print Assumptions C13_case_variants_examples.
