(** Properties_C13.v — C13: servers answer every request without panicking; malformed
    input gets 4xx.  Statements only; each is closed by [exact] of a lemma proved in
    ServerTotalProofs.v.  [serve] is the model of webdav.Handler, caldav.Handler,
    carddav.Handler and webdav.ServePrincipal (ServerTotal.v); [backend_total] says the
    backend double is there, returns errors with a 4xx/5xx code and never (nil, nil). *)
From GW Require Import Base GoPath ServerTotal ServerTotalProofs.
Local Open Scope N_scope.

(** No request makes a handler panic: any method, path, header values, body parse. *)
Theorem C13_no_panic : forall c, backend_total c = true -> serve c <> Panicked.
Proof. exact serve_no_panic. Qed.
Print Assumptions C13_no_panic.

(** Every request gets a complete response: a status in 100..599 is written. *)
Theorem C13_complete : forall c, backend_total c = true ->
  exists s cs, serve c = Resp s cs /\ 100 <= s /\ s < 600.
Proof. exact serve_complete. Qed.
Print Assumptions C13_complete.

(** Invalid Depth / Overwrite / Destination / Content-Type, unparseable, empty or
    wrongly rooted XML, unparseable iCalendar or vCard: a 4xx, and no create, update or
    delete call reaches the backend. *)
Theorem C13_malformed_4xx : forall c, backend_total c = true -> malformed_basic c = true ->
  exists s, serve c = Resp s [] /\ 400 <= s /\ s < 500.
Proof. exact malformed_basic_refused. Qed.
Print Assumptions C13_malformed_4xx.

(** The hypothesis on the backend is needed: a (nil, nil) result, an error with
    status code 0 and a nil options pointer each make the model panic (as the code does). *)
Theorem C13_panic_witnesses :
  serve (CDav {| fe_has_fs := true; fe_stat := BOk None; fe_open := None; fe_readdir := BOk [];
                 fe_create := BOk (None, true); fe_removeall := None; fe_mkdir := None;
                 fe_copy := BOk true; fe_move := BOk true |} (plain_req "GET" "/a")) = Panicked /\
  serve (CDav {| fe_has_fs := true; fe_stat := BErr (EDirect 0); fe_open := None; fe_readdir := BOk [];
                 fe_create := BOk (None, true); fe_removeall := None; fe_mkdir := None;
                 fe_copy := BOk true; fe_move := BOk true |} (plain_req "GET" "/a")) = Panicked /\
  serve (CPrincipal true (plain_req "OPTIONS" "/")) = Panicked /\
  serve (CDav fs_fine (plain_req "GET" "/a")) = Resp 200 [].
Proof. exact panic_witnesses. Qed.
Print Assumptions C13_panic_witnesses.

(** RawXMLValue.TokenReader's panic is unreachable from Prop.Decode: Prop.Get only
    returns values that hold a token. *)
Theorem C13_prop_get_never_marshal_only : forall raws ns l r,
  prop_get raws ns l = Some r -> exists t, r = RawTok t.
Proof. exact prop_get_tok. Qed.
Print Assumptions C13_prop_get_never_marshal_only.

(** REPORT documents, partial: (a) whatever makes the report decoder fail is a 400;
    (b) a decoded calendar-query whose filter violates the is-not-defined exclusivity
    anywhere in the tree of comp-filters, or whose calendar-data is rejected, is a 400
    before the backend is asked; the same for CardDAV.  The step from the XML tree to
    the decoded structure (malformed_report) is not proved, see notes/C13.md. *)
Theorem C13_report_undecodable_400_partial : forall env r,
  dx_failed (decode_xml_request r (um_cal_report (r_url_ok r) 0)) -> cal_handle_report env r = bad_request.
Proof. exact cal_report_undecodable. Qed.
Print Assumptions C13_report_undecodable_400_partial.

Theorem C13_card_report_undecodable_400_partial : forall env r,
  dx_failed (decode_xml_request r (um_card_report (r_url_ok r) 0)) -> card_handle_report env r = bad_request.
Proof. exact card_report_undecodable. Qed.
Print Assumptions C13_card_report_undecodable_400_partial.

Theorem C13_cal_query_rejected_400_partial : forall env r q,
  cal_data_of_prop (cq_sel q) = Ok false \/ decode_comp_filter (cq_filter q) = false ->
  cal_handle_query env r q = bad_request.
Proof. exact cal_query_rejected. Qed.
Print Assumptions C13_cal_query_rejected_400_partial.

Theorem C13_exclusive_filter_rejected_partial : forall c, cf_exclusive c -> decode_comp_filter c = false.
Proof. exact cf_exclusive_rejected. Qed.
Print Assumptions C13_exclusive_filter_rejected_partial.

Theorem C13_card_query_rejected_400_partial : forall env r q,
  addr_data_of_prop (aq_sel q) = SBad \/
  (addr_data_of_prop (aq_sel q) = SGo /\ forallb decode_aprop_filter (af_props (aq_filter q)) = false) ->
  card_handle_query env r q = bad_request.
Proof. exact card_query_rejected. Qed.
Print Assumptions C13_card_query_rejected_400_partial.

(** Invalid dates, enumeration values and limits make the decoder of the element that
    carries them fail, whatever was decoded before (so the request ends as (a) above
    once the failure is propagated, which the correspondence check exercises). *)
Theorem C13_invalid_date_fails_partial : forall d acc ns l attrs kids a,
  In a attrs -> bad_attr parse_utc_ok "start" a || bad_attr parse_utc_ok "end" a = true ->
  um_time_range d acc (XElem ns l attrs kids) = None /\ um_expand d acc (XElem ns l attrs kids) = None.
Proof. exact time_range_invalid. Qed.
Print Assumptions C13_invalid_date_fails_partial.

Theorem C13_invalid_text_match_fails_partial : forall card tns d acc ns l attrs kids a,
  In a attrs ->
  bad_attr yes_no_ok "negate-condition" a || (card && bad_attr match_type_ok "match-type" a) = true ->
  um_text_match card tns d acc (XElem ns l attrs kids) = None.
Proof. exact text_match_invalid. Qed.
Print Assumptions C13_invalid_text_match_fails_partial.

Theorem C13_invalid_test_fails_partial : forall d ns l attrs kids a,
  In a attrs -> bad_attr filter_test_ok "test" a = true ->
  (forall acc, um_card_filter d acc (XElem ns l attrs kids) = None) /\
  (forall acc, um_aprop_filter d acc (XElem ns l attrs kids) = None).
Proof. exact card_test_invalid. Qed.
Print Assumptions C13_invalid_test_fails_partial.

Theorem C13_invalid_limit_fails_partial : forall d acc ns l attrs kids kns ka kk,
  In (XElem kns "nresults" ka kk) kids -> parse_uint (chardata kk) = None ->
  um_limit d acc (XElem ns l attrs kids) = None.
Proof. exact limit_invalid. Qed.
Print Assumptions C13_invalid_limit_fails_partial.

(** The oracle's acceptance test is the declarative statement. *)
Theorem C13_acceptable_spec : forall c o,
  acceptable c o = true <->
  exists s cs, o = Resp s cs /\ 100 <= s /\ s < 600 /\
               (malformed c = true -> 400 <= s /\ s < 500 /\ cs = []).
Proof. exact acceptable_spec. Qed.
Print Assumptions C13_acceptable_spec.

(** Agreement with the model is equality of status and mutating calls. *)
Theorem C13_agree_is_equality : forall a c, outcome_eqb a c = true -> a = c.
Proof. exact outcome_eqb_eq. Qed.
Print Assumptions C13_agree_is_equality.
