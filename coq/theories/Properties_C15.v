(** Properties_C15.v — C15: raw XML values preserve the element tree they
    captured.  Statements only; each is closed by [exact] of a lemma proved in
    XmlProofs.v.  The definitions are in Xml.v (model of /repo/internal/xml.go
    after the repairs 73f0337 and 3febfaa).

    Conventions: [tokens t] is the token stream encoding/xml yields for the tree
    [t] (namespace-expanded names, declarations still present as attributes);
    [strip t] is [t] without its namespace declaration attributes;
    [raw_of t] is the RawXMLValue a tree is stored as; [stream v] is the
    functional reading of a raw value (tokens, then end or panic);
    [None] among the tokens is Go's nil xml.Token. *)
From GW Require Import Base Xml XmlProofs.
Local Open Scope list_scope.

(** ** Capture (RawXMLValue.UnmarshalXML) *)

(** Capturing an element from the token stream of any tree — any depth, fan-out
    and mixture of node kinds — yields the raw value of that tree (minus its
    namespace declarations) and leaves the rest of the stream untouched. *)
Theorem C15_capture_replay : forall n a cs rest,
  capture n a (tl (tokens (Elem n a cs)) ++ rest)
  = Some (Ok (raw_of (strip (Elem n a cs)), rest)).
Proof. exact capture_replay_tl. Qed.
Print Assumptions C15_capture_replay.

(** It fails exactly when the stream ends before the element is closed... *)
Theorem C15_capture_fails_iff : forall n a ts,
  capture n a ts = Some (Err 400) <-> ends_early 0 ts = true.
Proof. exact capture_err_iff. Qed.
Print Assumptions C15_capture_fails_iff.

(** ...and otherwise succeeds: no panic, and the fuel of the model is never
    exhausted, on any token stream whatsoever. *)
Theorem C15_capture_ok_or_err : forall n a ts,
  (exists r rest, capture n a ts = Some (Ok (r, rest))) \/ capture n a ts = Some (Err 400).
Proof. exact capture_ok_or_err. Qed.
Print Assumptions C15_capture_ok_or_err.

(** ** The token reader (TokenReader, rawXMLValueReader.Token) *)

(** One call of Token(), in every state of the reader (reachable or not):
    it delivers the first token of what remains, or io.EOF when nothing
    remains (leaving the state as it is), or panics where the functional
    reading says so. *)
Theorem C15_reader_step : forall r,
  match next r with
  | STok t r' => remaining r = tr_app (tr_one t) (remaining r')
  | SEof r' => remaining r = tr_nil /\ r' = r
  | SPanic => remaining r = tr_panic
  end.
Proof. exact next_remaining. Qed.
Print Assumptions C15_reader_step.

(** The model's short cut for a new child reader is TokenReader() followed by Token(). *)
Theorem C15_first_token : forall c,
  match token_reader c with
  | Ok r => match next r with STok t r' => first_token c = FTok t r' | _ => False end
  | Panic => first_token c = FPanic
  | Err _ => False
  end.
Proof. exact first_token_next. Qed.
Print Assumptions C15_first_token.

(** Draining the reader of any raw value delivers exactly its functional
    reading, and ends with io.EOF unless a marshal-only value is met (panic). *)
Theorem C15_drain : forall v,
  drain v = (fst (stream v), if snd (stream v) then DPanic else DEof).
Proof. exact drain_stream. Qed.
Print Assumptions C15_drain.

(** For a raw value that denotes a tree, that is the token stream of the tree. *)
Theorem C15_drain_tree : forall v t,
  tree_of v = Some t -> drain v = (map Some (tokens t), DEof).
Proof. exact drain_tree. Qed.
Print Assumptions C15_drain_tree.

Theorem C15_drain_captured : forall t, drain (raw_of t) = (map Some (tokens t), DEof).
Proof. exact drain_captured. Qed.
Print Assumptions C15_drain_captured.

(** Finite: the bound 2 * size + 2 on the number of calls is never reached... *)
Theorem C15_finite : forall v, snd (drain v) <> DFuel.
Proof. exact drain_finite. Qed.
Print Assumptions C15_finite.

(** ...a larger bound changes nothing... *)
Theorem C15_fuel_irrelevant : forall v fuel,
  r_out v = None -> drain_fuel v <= fuel ->
  fst (drain_f fuel (Reader v false false 0 None)) = drain v.
Proof. exact drain_f_fuel_irrelevant. Qed.
Print Assumptions C15_fuel_irrelevant.

(** ...and after the last token every further call returns io.EOF. *)
Theorem C15_eof_forever : forall v,
  r_out v = None ->
  exists rf,
    drain_f (drain_fuel v) (Reader v false false 0 None)
      = (fst (stream v), if snd (stream v) then DPanic else DEof, rf) /\
    (snd (stream v) = false -> forall k, eof_forever k rf = true).
Proof. exact drain_complete. Qed.
Print Assumptions C15_eof_forever.

(** Balanced and well nested: for every raw value that obeys the invariant of
    the Go struct (no end element as token) and is read to the end, every end
    element closes the innermost open start element of the same name, the depth
    is never negative and is zero at the end. *)
Theorem C15_balanced : forall v,
  no_end_tok v = true -> snd (drain v) = DEof ->
  well_nested (somes (fst (drain v))) = true /\
  (forall k, (0 <= depth (firstn k (somes (fst (drain v)))))%Z) /\
  depth (somes (fst (drain v))) = 0%Z.
Proof. exact drain_balanced. Qed.
Print Assumptions C15_balanced.

(** Even when the reading is cut by a panic, what was delivered is a prefix of
    a well-nested stream. *)
Theorem C15_balanced_prefix : forall v,
  no_end_tok v = true -> wn_prefix [] (somes (fst (drain v))) = true.
Proof. exact drain_prefix_balanced. Qed.
Print Assumptions C15_balanced_prefix.

(** Several readers of ONE value are independent state machines: in a run of
    the readers [rs] under any schedule, what reader [i] delivers is what it
    delivers when it makes the same number of calls alone... *)
Theorem C15_readers_independent : forall rs sched i r,
  nth_error rs i = Some r ->
  map snd (filter (fun p => Nat.eqb (fst p) i) (run_product rs sched))
  = run1 (count_occ Nat.eq_dec sched i) r.
Proof. exact run_product_projects. Qed.
Print Assumptions C15_readers_independent.

(** ...[k] calls on a reader deliver the first [k] of what remains, then io.EOF... *)
Theorem C15_reader_run : forall k r l m,
  remaining r = (l, false) -> k <= m ->
  run1 k r = firstn k (map CTok l ++ repeat CEof m).
Proof. exact run1_remaining. Qed.
Print Assumptions C15_reader_run.

(** ...hence each of [n] readers of a captured value, interleaved in any way,
    delivers the token stream of the tree and then io.EOF. *)
Theorem C15_interleaved_readers : forall t n sched i,
  i < n ->
  map snd (filter (fun p => Nat.eqb (fst p) i)
             (run_product (repeat (Reader (raw_of t) false false 0 None) n) sched))
  = firstn (count_occ Nat.eq_dec sched i)
           (map (fun x => CTok (Some x)) (tokens t) ++ repeat CEof (count_occ Nat.eq_dec sched i)).
Proof. exact run_product_captured. Qed.
Print Assumptions C15_interleaved_readers.

(** ** MarshalXML *)

(** The EncodeToken calls for a raw value that denotes a tree are the tokens of
    that tree, with xmlns="" added where an element without namespace sits in
    one with a namespace. *)
Theorem C15_marshal_tokens : forall v t,
  tree_of v = Some t -> marshal v = Ok (tokens (undeclare "" t)).
Proof. exact marshal_tree. Qed.
Print Assumptions C15_marshal_tokens.

(** Up to namespace declarations they are the tokens of the tree. *)
Theorem C15_marshal_captured : forall t,
  exists l, marshal (raw_of t) = Ok l /\ strip_stream l = strip_stream (tokens t).
Proof. exact marshal_captured. Qed.
Print Assumptions C15_marshal_captured.

(** MarshalXML panics on an end element token only. *)
Theorem C15_marshal_no_panic : forall v dflt,
  no_end_tok v = true -> no_out v = true -> marshal_tokens dflt v <> Panic.
Proof. exact marshal_no_panic. Qed.
Print Assumptions C15_marshal_no_panic.

(** PARTIAL.  Written by the encoder and read again, a captured tree is the
    same element tree — relative to [reread], the model of what the Encoder
    and Decoder of encoding/xml do to element names (validated against the real
    package on every run).  Not covered by proof: the bytes (escaping) and the
    attribute prefixes the encoder invents. *)
Theorem C15_remarshal_tree_partial : forall t,
  exists l, marshal (raw_of (strip t)) = Ok l /\
            exists u, parse_forest (reread l) = Some [u] /\ same_tree u t = true.
Proof. exact remarshal_names. Qed.
Print Assumptions C15_remarshal_tree_partial.

(** PARTIAL (same reservation), and with a visible hypothesis.  Written inside
    a container element of the library (Prop, ResourceType, Include, ...: the
    encoder has declared the container's namespace [ns] as the default, and
    MarshalXML cannot know), a captured element that has a namespace of its
    own is read back as the same element tree... *)
Theorem C15_remarshal_embedded_partial : forall ns n a cs,
  str_empty (fst n) = false ->
  exists l, marshal (raw_of (strip (Elem n a cs))) = Ok l /\
            exists u, parse_forest (reread_in ns l) = Some [u] /\ same_tree u (Elem n a cs) = true.
Proof. exact remarshal_embedded. Qed.
Print Assumptions C15_remarshal_embedded_partial.

(** ...known finding C15/embedded-no-namespace: an element in no namespace is
    read back in the container's namespace. *)
Theorem C15_embedded_no_namespace_refuted :
  exists n a cs l,
    str_empty (fst n) = true /\
    marshal (raw_of (strip (Elem n a cs))) = Ok l /\
    parse_forest (reread_in dav_ns l) = Some [Elem (dav_ns, snd n) a cs] /\
    same_tree (Elem (dav_ns, snd n) a cs) (Elem n a cs) = false.
Proof. exact embedded_no_namespace_refuted. Qed.
Print Assumptions C15_embedded_no_namespace_refuted.

(** ** Decoding a typed value from a captured raw value *)

(** The decoder Decode builds on the reader of a captured value yields the
    document's token stream without the namespace declarations (hypothesis: the
    selector of known finding xml-literal-namespace is false). *)
Theorem C15_decode_stream : forall n a cs,
  uses_xml_space (Elem n a cs) = false ->
  exists v, capture n a (tl (tokens (Elem n a cs))) = Some (Ok (v, [])) /\
            retrans (fst (drain v)) = Ok (map Some (strip_stream (tokens (Elem n a cs)))).
Proof. exact decode_stream. Qed.
Print Assumptions C15_decode_stream.

(** Any decoder that is a function of the token stream and does not look at
    namespace declaration attributes computes from the captured value what it
    computes from the document. *)
Theorem C15_decode_same : forall n a cs (A : Type) (dec : res (list otoken) -> A),
  uses_xml_space (Elem n a cs) = false ->
  (forall s, dec (Ok (map Some (strip_stream s))) = dec (Ok (map Some s))) ->
  exists v, capture n a (tl (tokens (Elem n a cs))) = Some (Ok (v, [])) /\
            dec (retrans (fst (drain v))) = dec (Ok (map Some (tokens (Elem n a cs)))).
Proof. exact decode_same. Qed.
Print Assumptions C15_decode_same.

(** Known finding C15/xml-literal-namespace: the hypothesis above is needed. *)
Theorem C15_xml_literal_namespace_refuted :
  exists n a cs,
    uses_xml_space (Elem n a cs) = true /\
    exists v, capture n a (tl (tokens (Elem n a cs))) = Some (Ok (v, [])) /\
              retrans (fst (drain v)) <> Ok (map Some (strip_stream (tokens (Elem n a cs)))).
Proof. exact xml_literal_namespace_refuted. Qed.
Print Assumptions C15_xml_literal_namespace_refuted.

(** ** The raw value as a property container (elements.go) *)

(** Prop.Get on captured children: the first child element of that name. *)
Theorem C15_prop_get : forall f n,
  prop_get (map raw_of f) n = option_map raw_of (first_elem f n).
Proof. exact prop_get_raw_of. Qed.
Print Assumptions C15_prop_get.

Theorem C15_prop_get_none : forall l n,
  prop_get l n = None <-> forall v, In v l -> raw_name v <> Some n.
Proof. exact prop_get_none. Qed.
Print Assumptions C15_prop_get_none.

(** Response.DecodeProp decodes the first candidate over all propstats. *)
Theorem C15_select_propstat : forall ps n, select_propstat ps n = spec_select ps n.
Proof. exact select_propstat_spec. Qed.
Print Assumptions C15_select_propstat.

(** Response.DecodeProp with several values (after repair f543abd): it succeeds
    exactly when every value, taken alone, is selected and decoded, and yields
    them in the order of the arguments... *)
Theorem C15_decode_prop_all : forall tags rc ps ids,
  decode_prop_all tags rc ps = Ok ids <->
  Forall2 (fun t s => decode_prop t rc ps = Ok s) tags ids.
Proof. exact decode_prop_all_ok. Qed.
Print Assumptions C15_decode_prop_all.

(** ...and otherwise fails (or panics) as the first value that fails alone. *)
Theorem C15_decode_prop_all_first_failure : forall pre t post rc ps ids,
  Forall2 (fun t s => decode_prop t rc ps = Ok s) pre ids ->
  (forall c, decode_prop t rc ps = Err c -> decode_prop_all (pre ++ t :: post) rc ps = Err c) /\
  (decode_prop t rc ps = Panic -> decode_prop_all (pre ++ t :: post) rc ps = Panic).
Proof. exact decode_prop_all_first_failure. Qed.
Print Assumptions C15_decode_prop_all_first_failure.

(** valueXMLName reads (namespace, local name) off a tag "ns local[,options]". *)
Theorem C15_value_xml_name : forall sp lo opts,
  has_char " " sp = false -> has_char "," sp = false ->
  has_char " " lo = false -> has_char "," lo = false ->
  (opts = "" \/ exists o, opts = String "," o) ->
  value_xml_name (Some ((sp ++ String " " lo) ++ opts)%string) = Ok (sp, lo).
Proof. exact value_xml_name_ok. Qed.
Print Assumptions C15_value_xml_name.

(** ** Specification-level facts *)

(** [parse_forest] inverts [forest_tokens]: the trees the oracle compares are
    the trees of the streams. *)
Theorem C15_parse_tokens : forall f, parse_forest (forest_tokens f) = Some f.
Proof. exact parse_forest_tokens. Qed.
Print Assumptions C15_parse_tokens.

(** Removing namespace declarations does not change the element tree. *)
Theorem C15_same_tree_strip : forall t, same_tree (strip t) t = true.
Proof. exact same_tree_strip. Qed.
Print Assumptions C15_same_tree_strip.

(** ** Agreement of the implementation with the model entails the property *)

(** For every well-formed element outside the two known findings: observations
    that agree with the model (capture, every reader step, decoder view, marshal
    output alone and inside a container) satisfy the specification (finite,
    balanced, well nested, same tree on every path). *)
Theorem C15_doc_agree_implies_spec_ok : forall ts o,
  input_wf ts = true -> doc_kf ts = false -> doc_kf_in ts = false ->
  doc_agrees ts o = true -> doc_spec_ok ts o = true.
Proof. exact doc_agree_implies_spec_ok. Qed.
Print Assumptions C15_doc_agree_implies_spec_ok.

(** For every raw value, built in any way.  Where the reading reaches a
    marshal-only part (a value made for writing, never captured: outside the
    statement) the specification accepts a panic or an error, provided the
    reading stops there with what stands before delivered; the model panics. *)
Theorem C15_raw_agree_implies_spec_ok : forall v o,
  raw_agrees v o = true -> raw_spec_ok v o = true.
Proof. exact raw_agree_implies_spec_ok. Qed.
Print Assumptions C15_raw_agree_implies_spec_ok.

(** Documents captured one after the other into one variable, a copy kept after
    each capture: the copies are judged one by one (values are immutable in the
    model; that the Go values do not share storage is what the run checks). *)
Theorem C15_seq_agree_implies_spec_ok : forall l,
  (forall p, In p l -> input_wf (fst p) = true /\ doc_kf (fst p) = false /\ doc_kf_in (fst p) = false) ->
  seq_agrees l = true -> seq_spec_ok l = true.
Proof. exact seq_agree_implies_spec_ok. Qed.
Print Assumptions C15_seq_agree_implies_spec_ok.

(** ** What the specification does not look at: the cutting of character data

    Where the boundaries between adjacent pieces of character data fall (text,
    CDATA section, entity reference) is not part of the element tree.  Every
    specification verdict compares streams in the normal form [norm_stream]
    (declaration attributes, processing instructions and directives dropped,
    each maximal run of character data one token, empty runs none), trees in
    the corresponding normal form [norm]. *)

(** The normal form is one: normalising again changes nothing. *)
Theorem C15_norm_stream_idem : forall l, norm_stream (norm_stream l) = norm_stream l.
Proof. exact norm_stream_idem. Qed.
Print Assumptions C15_norm_stream_idem.

(** Cutting a piece of character data in two, anywhere, is not seen. *)
Theorem C15_norm_stream_segmentation : forall l1 s1 s2 l2,
  norm_stream (l1 ++ TText (s1 ++ s2) :: l2) = norm_stream (l1 ++ TText s1 :: TText s2 :: l2).
Proof. exact norm_stream_segmentation. Qed.
Print Assumptions C15_norm_stream_segmentation.

(** Processing instructions and directives are not part of the element tree
    the property enumerates (element and attribute names, attribute values,
    character data, comments, child order): the normal form does not see them,
    wherever they stand. *)
Theorem C15_norm_stream_ignores_pi_and_directive : forall l1 x l2,
  (match x with TProcInst _ _ | TDirective _ => True | _ => False end) ->
  norm_stream (l1 ++ x :: l2) = norm_stream (l1 ++ l2).
Proof. exact norm_stream_drop. Qed.
Print Assumptions C15_norm_stream_ignores_pi_and_directive.

(** "Same element tree" ([same_tree], [same_stream], used by every clause of
    [doc_spec_ok]) is equality of the token streams in that normal form. *)
Theorem C15_same_forest_norm_stream : forall f g,
  same_forest f g = list_eqb token_eqb (norm_stream (forest_tokens f)) (norm_stream (forest_tokens g)).
Proof. exact same_forest_norm_stream. Qed.
Print Assumptions C15_same_forest_norm_stream.

(** The specification of the interleaving stage ([calls_ok]: what a reader has
    delivered so far is a beginning of the document's stream in normal form,
    all of it at io.EOF) accepts what the model's reader delivers after any
    number of calls — the unchanged code, which keeps the pieces apart, meets
    it, and so does a reader that joins them. *)
Theorem C15_interleaved_spec_accepts_model : forall l k,
  calls_ok l (firstn k (map (fun x => CTok (Some x)) (strip_stream l) ++ repeat CEof k)) = true.
Proof. exact calls_ok_model. Qed.
Print Assumptions C15_interleaved_spec_accepts_model.

(** Prop.Decode / DecodeProp: the specification is the model's answer, except
    that on a marshal-only value a panic (the model, TokenReader) or an error
    other than "not found" are both accepted. *)
Theorem C15_prop_agree_implies_spec_ok : forall m o,
  prop_obs_agrees m o = true -> prop_obs_spec_ok m o = true.
Proof. exact prop_agree_implies_spec_ok. Qed.
Print Assumptions C15_prop_agree_implies_spec_ok.

Theorem C15_propm_agree_implies_spec_ok : forall m o,
  propm_obs_agrees m o = true -> propm_obs_spec_ok m o = true.
Proof. exact propm_agree_implies_spec_ok. Qed.
Print Assumptions C15_propm_agree_implies_spec_ok.

(** Which of several propstats carrying the same property name decides is not
    part of the statement; the specification verdict of the container stage
    accepts the reading of the code ([select_propstat]: the first that has the
    property) and the reading "first successful" ([select_propstat_alt]).  They
    give the same value whenever the first propstat that has the property is a
    successful one, in particular when the name occurs once. *)
Theorem C15_propstat_readings_agree : forall ps n v,
  select_propstat ps n = Ok v -> forall f, select_propstat_alt ps n f = Ok v.
Proof. exact select_propstat_alt_same. Qed.
Print Assumptions C15_propstat_readings_agree.
