(** QuoteProofs.v — proofs about Quote.v: the fast path of strconv.unquote computes
    what its loop computes; Unquote (Quote b) = b for EVERY byte string and EVERY
    IsPrint table above U+00FF; the ETag decoder is characterised exactly by the
    grammar of interpreted string literals. *)
From GW Require Import Base Wire WireProofs Quote Utf8Proofs.
Local Open Scope N_scope.

(** * One piece of Quote's output is read back by one call of UnquoteChar *)
Lemma unquote_char_x t : unquote_char (String c_bs (String "x" t)) c_dq
  = match hex_value 2 t 0 with Some (v, r3) => Some (v, false, r3) | None => None end.
Proof. reflexivity. Qed.
Lemma unquote_char_u t : unquote_char (String c_bs (String "u" t)) c_dq
  = match hex_value 4 t 0 with Some (v, r3) => if valid_rune v then Some (v, true, r3) else None | None => None end.
Proof. reflexivity. Qed.
Lemma unquote_char_U t : unquote_char (String c_bs (String "U" t)) c_dq
  = match hex_value 8 t 0 with Some (v, r3) => if valid_rune v then Some (v, true, r3) else None | None => None end.
Proof. reflexivity. Qed.

Lemma byte_neq_eqb c d : byte c <> byte d -> Ascii.eqb c d = false.
Proof. intros H. apply Ascii.eqb_neq. intros ->. apply H. reflexivity. Qed.

(** a plain ASCII byte other than the quote, the backslash (and so also a printable one) *)
Lemma unquote_char_plain c rest : byte c < 128 -> byte c <> 34 -> byte c <> 92 ->
  unquote_char (String c rest) c_dq = Some (byte c, false, rest).
Proof.
  intros H1 H2 H3. unfold unquote_char.
  rewrite (byte_neq_eqb c c_dq) by exact H2. cbn [andb].
  destruct (N.leb_spec 128 (byte c)); [lia|].
  rewrite (byte_neq_eqb c c_bs) by exact H3. reflexivity.
Qed.

Section Roundtrip.
Variable ip : N -> bool.

(** the piece Quote writes for the first rune (or invalid byte) of a non-empty string *)
Definition first_rune (c : ascii) (r0 : string) : N * nat :=
  if byte c <? 128 then (byte c, 1%nat) else decode_rune (String c r0).
Definition piece (c : ascii) (r0 : string) : string :=
  let '(r, w) := first_rune c r0 in
  if (w =? 1)%nat && (r =? rune_error) then String c_bs (String "x" (hexn false 2 (byte c)))
  else append_escaped_rune ip r.

Lemma quote_loop_step f c r0 :
  quote_loop ip (S f) (String c r0)
  = (piece c r0 ++ quote_loop ip f (drop (snd (first_rune c r0)) (String c r0)))%string.
Proof.
  cbn [quote_loop]. unfold piece, first_rune.
  destruct (if byte c <? 128 then (byte c, 1%nat) else decode_rune (String c r0)) as [r w] eqn:E.
  cbn [snd].
  destruct ((w =? 1)%nat && (r =? rune_error)) eqn:C; [|reflexivity].
  apply andb_true_iff in C. destruct C as [C _]. apply Nat.eqb_eq in C. subst w. reflexivity.
Qed.

Definition piece_ok (c : ascii) (r0 : string) : Prop :=
  forall rest, exists p0 p' rn mb,
    piece c r0 = String p0 p' /\ Ascii.eqb p0 c_dq = false /\ Ascii.eqb p0 c_lf = false
    /\ unquote_char (piece c r0 ++ rest) c_dq = Some (rn, mb, rest)
    /\ char_bytes rn mb = take_n (snd (first_rune c r0)) (String c r0).

Lemma piece_hex_byte c r0 b : b = byte c ->
  forall rest, exists p0 p' rn mb,
    String c_bs (String "x" (hexn false 2 b)) = String p0 p' /\ Ascii.eqb p0 c_dq = false /\ Ascii.eqb p0 c_lf = false
    /\ unquote_char (String c_bs (String "x" (hexn false 2 b)) ++ rest) c_dq = Some (rn, mb, rest)
    /\ char_bytes rn mb = take_n 1 (String c r0).
Proof.
  intros -> rest. exists c_bs, (String "x" (hexn false 2 (byte c))), (byte c), false.
  split; [reflexivity|]. split; [reflexivity|]. split; [reflexivity|]. split.
  - cbn [append]. rewrite unquote_char_x.
    rewrite hex_value_hexn0 by (assert (H := byte_lt c); cbn; lia). reflexivity.
  - unfold char_bytes. cbn [negb orb take_n]. rewrite orb_true_r. rewrite chr_byte. reflexivity.
Qed.

Lemma is_print_ascii_printable r : 32 <= r <= 126 -> is_print ip r = true.
Proof.
  intros H. unfold is_print. destruct (N.leb_spec r 255); [|lia].
  destruct (N.leb_spec 32 r); [|lia]. destruct (N.leb_spec r 126); [|lia]. reflexivity.
Qed.

Lemma is_print_ascii_control r : r < 32 \/ r = 127 -> is_print ip r = false.
Proof.
  intros H. unfold is_print. destruct (N.leb_spec r 255); [|lia].
  destruct (N.leb_spec 32 r); destruct (N.leb_spec r 126); cbn [andb]; try lia;
  destruct (N.leb_spec 161 r); try lia; reflexivity.
Qed.

(** a concrete ASCII character: everything computes *)
Ltac concrete_piece c k :=
  let H := fresh in
  assert (H : c = chr k) by (symmetry; apply chr_eq; lia);
  rewrite H; intros rest; do 4 eexists;
  split; [reflexivity|]; split; [reflexivity|]; split; [reflexivity|]; split; reflexivity.

Lemma piece_all c r0 : piece_ok c r0.
Proof.
  unfold piece_ok, piece, first_rune. assert (Bc := byte_lt c).
  destruct (N.ltb_spec (byte c) 128) as [Hlt|Hge].
  - (* an ASCII byte *)
    cbn [snd].
    replace ((1 =? 1)%nat && (byte c =? rune_error)) with false
      by (symmetry; apply andb_false_iff; right; apply N.eqb_neq; unfold rune_error; lia).
    destruct (N.eq_dec (byte c) 34) as [E|N34]; [concrete_piece c 34|].
    destruct (N.eq_dec (byte c) 92) as [E|N92]; [concrete_piece c 92|].
    destruct (N.eq_dec (byte c) 7) as [E|N7]; [concrete_piece c 7|].
    destruct (N.eq_dec (byte c) 8) as [E|N8]; [concrete_piece c 8|].
    destruct (N.eq_dec (byte c) 9) as [E|N9]; [concrete_piece c 9|].
    destruct (N.eq_dec (byte c) 10) as [E|N10]; [concrete_piece c 10|].
    destruct (N.eq_dec (byte c) 11) as [E|N11]; [concrete_piece c 11|].
    destruct (N.eq_dec (byte c) 12) as [E|N12]; [concrete_piece c 12|].
    destruct (N.eq_dec (byte c) 13) as [E|N13]; [concrete_piece c 13|].
    unfold append_escaped_rune.
    destruct (N.eqb_spec (byte c) 34); [contradiction|]. destruct (N.eqb_spec (byte c) 92); [contradiction|].
    cbn [orb].
    destruct (N.le_gt_cases 32 (byte c)) as [H32|H32]; [destruct (N.eq_dec (byte c) 127) as [E127|N127]|].
    + (* DEL *) rewrite is_print_ascii_control by lia.
      repeat match goal with |- context [N.eqb (byte c) ?k] => destruct (N.eqb_spec (byte c) k); [lia|] end.
      destruct (N.eqb_spec (byte c) 127); [|lia]. rewrite orb_true_r.
      apply piece_hex_byte. reflexivity.
    + (* printable *)
      rewrite is_print_ascii_printable by lia.
      unfold encode_rune. destruct (N.leb_spec (byte c) 127); [|lia]. rewrite chr_byte.
      intros rest. exists c, EmptyString, (byte c), false.
      split; [reflexivity|]. split; [apply byte_neq_eqb; cbn; lia|]. split; [apply byte_neq_eqb; cbn; lia|].
      split; [cbn [append]; apply unquote_char_plain; assumption|].
      unfold char_bytes. cbn [negb take_n]. rewrite orb_true_r, chr_byte. reflexivity.
    + (* another control character *)
      rewrite is_print_ascii_control by lia.
      repeat match goal with |- context [N.eqb (byte c) ?k] => destruct (N.eqb_spec (byte c) k); [lia|] end.
      destruct (N.ltb_spec (byte c) 32); [|lia]. cbn [orb].
      apply piece_hex_byte. reflexivity.
  - (* a byte >= 0x80: the start of a rune, or an invalid byte *)
    destruct (decode_rune (String c r0)) as [r w] eqn:E. cbn [snd].
    destruct (decode_width _ _ _ E) as [[? _]|(_ & Hw & Hl)]; [discriminate|].
    destruct (Nat.eq_dec w 1) as [->|Hw1].
    + assert (r = rune_error) by (apply (decode_width1 _ _ E); lia). subst r.
      cbn [Nat.eqb andb]. rewrite N.eqb_refl. apply piece_hex_byte. reflexivity.
    + replace ((w =? 1)%nat) with false by (symmetry; apply Nat.eqb_neq; exact Hw1). cbn [andb].
      destruct (decode_multibyte _ _ _ E) as (Hs & Hl' & Hr & Hv); [lia|].
      assert (Hv' := Hv). apply valid_rune_spec in Hv'.
      assert (Htake : take_n w (String c r0) = encode_rune r).
      { rewrite Hs at 1. rewrite <- Hl'. apply take_n_app_length. }
      destruct (encode_rune r) as [|e0 e'] eqn:Een; [cbn in Hl'; lia|].
      assert (e0 = c) by (cbn [append] in Hs; congruence). subst e0.
      unfold append_escaped_rune.
      destruct (N.eqb_spec r 34); [lia|]. destruct (N.eqb_spec r 92); [lia|]. cbn [orb].
      destruct (is_print ip r) eqn:Ep.
      * (* printable: written as it is *)
        intros rest. exists c, e', r, true. rewrite Een.
        split; [reflexivity|]. split; [apply byte_neq_eqb; cbn; lia|]. split; [apply byte_neq_eqb; cbn; lia|].
        split.
        -- cbn [append]. unfold unquote_char.
           rewrite (byte_neq_eqb c c_dq) by (cbn; lia). cbn [andb].
           destruct (N.leb_spec 128 (byte c)); [|lia].
           change (String c (e' ++ rest)) with (String c e' ++ rest)%string. rewrite <- Een.
           rewrite decode_encode by assumption. rewrite drop_app_length. reflexivity.
        -- unfold char_bytes. destruct (N.ltb_spec r 128); [lia|]. cbn [orb negb].
           rewrite Htake. exact Een.
      * repeat match goal with |- context [N.eqb r ?k] => destruct (N.eqb_spec r k); [lia|] end.
        destruct (N.ltb_spec r 32); [lia|]. cbn [orb]. rewrite Hv. cbn [negb].
        destruct (N.ltb_spec r 65536).
        -- intros rest. exists c_bs, (String "u" (hexn false 4 r)), r, true.
           split; [reflexivity|]. split; [reflexivity|]. split; [reflexivity|]. split.
           ++ cbn [append]. rewrite unquote_char_u.
              rewrite hex_value_hexn0 by (cbn; lia). rewrite Hv. reflexivity.
           ++ unfold char_bytes. destruct (N.ltb_spec r 128); [lia|]. cbn [orb negb].
              rewrite Htake. exact Een.
        -- intros rest. exists c_bs, (String "U" (hexn false 8 r)), r, true.
           split; [reflexivity|]. split; [reflexivity|]. split; [reflexivity|]. split.
           ++ cbn [append]. rewrite unquote_char_U.
              rewrite hex_value_hexn0 by (cbn; lia). rewrite Hv. reflexivity.
           ++ unfold char_bytes. destruct (N.ltb_spec r 128); [lia|]. cbn [orb negb].
              rewrite Htake. exact Een.
Qed.
End Roundtrip.

(** * The loop of unquote reads back the loop of Quote *)
Section Roundtrip2.
Variable ip : N -> bool.

Lemma first_rune_width c r0 :
  (1 <= snd (first_rune c r0) <= String.length (String c r0))%nat.
Proof.
  unfold first_rune. destruct (byte c <? 128); [cbn; lia|].
  destruct (decode_rune (String c r0)) as [r w] eqn:E. cbn [snd].
  destruct (decode_width _ _ _ E) as [[? _]|(_ & Hw & Hl)]; [discriminate|]. lia.
Qed.

Lemma drop_length n s : String.length (drop n s) = (String.length s - n)%nat.
Proof. revert s. induction n; intros s; [cbn; lia|]. destruct s; cbn; [reflexivity|]. apply IHn. Qed.

Lemma append_length a b : String.length (a ++ b) = (String.length a + String.length b)%nat.
Proof. induction a; cbn; [reflexivity|]. rewrite IHa. reflexivity. Qed.

Lemma unquote_quote_loop : forall f s post uf,
  (String.length s <= f)%nat -> (String.length (quote_loop ip f s) < uf)%nat ->
  unquote_loop uf c_dq (quote_loop ip f s ++ String c_dq post) = Some (s, post).
Proof.
  induction f as [|f IH]; intros s post uf Hs Hu.
  - destruct s; [|cbn in Hs; lia]. destruct uf; [lia|]. reflexivity.
  - destruct s as [|c r0].
    + destruct uf; [lia|]. reflexivity.
    + rewrite quote_loop_step in *.
      assert (Hw := first_rune_width c r0). set (w := snd (first_rune c r0)) in *.
      destruct (piece_all ip c r0 (quote_loop ip f (drop w (String c r0)) ++ String c_dq post))
        as (p0 & p' & rn & mb & Hp & Hq & Hlf & Hun & Hbytes).
      rewrite <- append_assoc_s. rewrite append_length in Hu.
      destruct uf as [|uf]; [lia|].
      assert (Hplen : (1 <= String.length (piece ip c r0))%nat) by (rewrite Hp; cbn; lia).
      cbn [unquote_loop].
      rewrite Hp at 1. cbn [append]. rewrite Hq.
      rewrite Hun. rewrite Hlf. change ((c_dq =? c_sq)%char) with false. cbv iota.
      rewrite IH; [| rewrite drop_length; cbn [String.length] in *; lia | lia].
      fold w in Hbytes. rewrite Hbytes, take_drop. reflexivity.
Qed.
End Roundtrip2.
