(** QuoteProofs.v — proofs about Quote.v: the fast path of strconv.unquote computes
    what its loop computes; Unquote (Quote b) = b for EVERY byte string and EVERY
    IsPrint table above U+00FF; the ETag decoder is characterised exactly by the
    grammar of interpreted string literals. *)
From GW Require Import Base Wire WireProofs Quote Utf8Proofs.
Local Open Scope N_scope.

(** * One piece of Quote's output is read back by one call of UnquoteChar *)
Lemma unquote_char_x t : unquote_char (String c_bs (String "x" t)) c_dq
  = match hex_value 2 t 0 with Some (v, r3) => Some (v, false, r3) | None => None end.
Proof. reflexivity. Qed.
Lemma unquote_char_u t : unquote_char (String c_bs (String "u" t)) c_dq
  = match hex_value 4 t 0 with Some (v, r3) => if valid_rune v then Some (v, true, r3) else None | None => None end.
Proof. reflexivity. Qed.
Lemma unquote_char_U t : unquote_char (String c_bs (String "U" t)) c_dq
  = match hex_value 8 t 0 with Some (v, r3) => if valid_rune v then Some (v, true, r3) else None | None => None end.
Proof. reflexivity. Qed.

Lemma byte_neq_eqb c d : byte c <> byte d -> Ascii.eqb c d = false.
Proof. intros H. apply Ascii.eqb_neq. intros ->. apply H. reflexivity. Qed.

(** a plain ASCII byte other than the quote, the backslash (and so also a printable one) *)
Lemma unquote_char_plain c rest : byte c < 128 -> byte c <> 34 -> byte c <> 92 ->
  unquote_char (String c rest) c_dq = Some (byte c, false, rest).
Proof.
  intros H1 H2 H3. unfold unquote_char.
  rewrite (byte_neq_eqb c c_dq) by exact H2. cbn [andb].
  destruct (N.leb_spec 128 (byte c)); [lia|].
  rewrite (byte_neq_eqb c c_bs) by exact H3. reflexivity.
Qed.

Section Roundtrip.
Variable ip : N -> bool.

(** the piece Quote writes for the first rune (or invalid byte) of a non-empty string *)
Definition first_rune (c : ascii) (r0 : string) : N * nat :=
  if byte c <? 128 then (byte c, 1%nat) else decode_rune (String c r0).
Definition piece (c : ascii) (r0 : string) : string :=
  let '(r, w) := first_rune c r0 in
  if (w =? 1)%nat && (r =? rune_error) then String c_bs (String "x" (hexn false 2 (byte c)))
  else append_escaped_rune ip r.

Lemma quote_loop_step f c r0 :
  quote_loop ip (S f) (String c r0)
  = (piece c r0 ++ quote_loop ip f (drop (snd (first_rune c r0)) (String c r0)))%string.
Proof.
  cbn [quote_loop]. unfold piece, first_rune.
  destruct (if byte c <? 128 then (byte c, 1%nat) else decode_rune (String c r0)) as [r w] eqn:E.
  cbn [snd].
  destruct ((w =? 1)%nat && (r =? rune_error)) eqn:C; [|reflexivity].
  apply andb_true_iff in C. destruct C as [C _]. apply Nat.eqb_eq in C. subst w. reflexivity.
Qed.

Definition piece_ok (c : ascii) (r0 : string) : Prop :=
  forall rest, exists p0 p' rn mb,
    piece c r0 = String p0 p' /\ Ascii.eqb p0 c_dq = false /\ Ascii.eqb p0 c_lf = false
    /\ unquote_char (piece c r0 ++ rest) c_dq = Some (rn, mb, rest)
    /\ char_bytes rn mb = take_n (snd (first_rune c r0)) (String c r0).

Lemma piece_hex_byte c r0 b : b = byte c ->
  forall rest, exists p0 p' rn mb,
    String c_bs (String "x" (hexn false 2 b)) = String p0 p' /\ Ascii.eqb p0 c_dq = false /\ Ascii.eqb p0 c_lf = false
    /\ unquote_char (String c_bs (String "x" (hexn false 2 b)) ++ rest) c_dq = Some (rn, mb, rest)
    /\ char_bytes rn mb = take_n 1 (String c r0).
Proof.
  intros -> rest. exists c_bs, (String "x" (hexn false 2 (byte c))), (byte c), false.
  split; [reflexivity|]. split; [reflexivity|]. split; [reflexivity|]. split.
  - cbn [append]. rewrite unquote_char_x.
    rewrite hex_value_hexn0 by (assert (H := byte_lt c); cbn; lia). reflexivity.
  - unfold char_bytes. cbn [negb orb take_n]. rewrite orb_true_r. rewrite chr_byte. reflexivity.
Qed.

Lemma is_print_ascii_printable r : 32 <= r <= 126 -> is_print ip r = true.
Proof.
  intros H. unfold is_print. destruct (N.leb_spec r 255); [|lia].
  destruct (N.leb_spec 32 r); [|lia]. destruct (N.leb_spec r 126); [|lia]. reflexivity.
Qed.

Lemma is_print_ascii_control r : r < 32 \/ r = 127 -> is_print ip r = false.
Proof.
  intros H. unfold is_print. destruct (N.leb_spec r 255); [|lia].
  destruct (N.leb_spec 32 r); destruct (N.leb_spec r 126); cbn [andb]; try lia;
  destruct (N.leb_spec 161 r); try lia; reflexivity.
Qed.

(** a concrete ASCII character: everything computes *)
Ltac concrete_piece c k :=
  let H := fresh in
  assert (H : c = chr k) by (symmetry; apply chr_eq; lia);
  rewrite H; intros rest; do 4 eexists;
  split; [reflexivity|]; split; [reflexivity|]; split; [reflexivity|]; split; reflexivity.

Lemma piece_all c r0 : piece_ok c r0.
Proof.
  unfold piece_ok, piece, first_rune. assert (Bc := byte_lt c).
  destruct (N.ltb_spec (byte c) 128) as [Hlt|Hge].
  - (* an ASCII byte *)
    cbn [snd].
    replace ((1 =? 1)%nat && (byte c =? rune_error)) with false
      by (symmetry; apply andb_false_iff; right; apply N.eqb_neq; unfold rune_error; lia).
    destruct (N.eq_dec (byte c) 34) as [E|N34]; [concrete_piece c 34|].
    destruct (N.eq_dec (byte c) 92) as [E|N92]; [concrete_piece c 92|].
    destruct (N.eq_dec (byte c) 7) as [E|N7]; [concrete_piece c 7|].
    destruct (N.eq_dec (byte c) 8) as [E|N8]; [concrete_piece c 8|].
    destruct (N.eq_dec (byte c) 9) as [E|N9]; [concrete_piece c 9|].
    destruct (N.eq_dec (byte c) 10) as [E|N10]; [concrete_piece c 10|].
    destruct (N.eq_dec (byte c) 11) as [E|N11]; [concrete_piece c 11|].
    destruct (N.eq_dec (byte c) 12) as [E|N12]; [concrete_piece c 12|].
    destruct (N.eq_dec (byte c) 13) as [E|N13]; [concrete_piece c 13|].
    unfold append_escaped_rune.
    destruct (N.eqb_spec (byte c) 34); [contradiction|]. destruct (N.eqb_spec (byte c) 92); [contradiction|].
    cbn [orb].
    destruct (N.le_gt_cases 32 (byte c)) as [H32|H32]; [destruct (N.eq_dec (byte c) 127) as [E127|N127]|].
    + (* DEL *) rewrite is_print_ascii_control by lia.
      repeat match goal with |- context [N.eqb (byte c) ?k] => destruct (N.eqb_spec (byte c) k); [lia|] end.
      destruct (N.eqb_spec (byte c) 127); [|lia]. rewrite orb_true_r.
      apply piece_hex_byte. reflexivity.
    + (* printable *)
      rewrite is_print_ascii_printable by lia.
      unfold encode_rune. destruct (N.leb_spec (byte c) 127); [|lia]. rewrite chr_byte.
      intros rest. exists c, EmptyString, (byte c), false.
      split; [reflexivity|]. split; [apply byte_neq_eqb; cbn; lia|]. split; [apply byte_neq_eqb; cbn; lia|].
      split; [cbn [append]; apply unquote_char_plain; assumption|].
      unfold char_bytes. cbn [negb take_n]. rewrite orb_true_r, chr_byte. reflexivity.
    + (* another control character *)
      rewrite is_print_ascii_control by lia.
      repeat match goal with |- context [N.eqb (byte c) ?k] => destruct (N.eqb_spec (byte c) k); [lia|] end.
      destruct (N.ltb_spec (byte c) 32); [|lia]. cbn [orb].
      apply piece_hex_byte. reflexivity.
  - (* a byte >= 0x80: the start of a rune, or an invalid byte *)
    destruct (decode_rune (String c r0)) as [r w] eqn:E. cbn [snd].
    destruct (decode_width _ _ _ E) as [[? _]|(_ & Hw & Hl)]; [discriminate|].
    destruct (Nat.eq_dec w 1) as [->|Hw1].
    + assert (r = rune_error) by (apply (decode_width1 _ _ E); lia). subst r.
      cbn [Nat.eqb andb]. rewrite N.eqb_refl. apply piece_hex_byte. reflexivity.
    + replace ((w =? 1)%nat) with false by (symmetry; apply Nat.eqb_neq; exact Hw1). cbn [andb].
      destruct (decode_multibyte _ _ _ E) as (Hs & Hl' & Hr & Hv); [lia|].
      assert (Hv' := Hv). apply valid_rune_spec in Hv'.
      assert (Htake : take_n w (String c r0) = encode_rune r).
      { rewrite Hs at 1. rewrite <- Hl'. apply take_n_app_length. }
      destruct (encode_rune r) as [|e0 e'] eqn:Een; [cbn in Hl'; lia|].
      assert (e0 = c) by (cbn [append] in Hs; congruence). subst e0.
      unfold append_escaped_rune.
      destruct (N.eqb_spec r 34); [lia|]. destruct (N.eqb_spec r 92); [lia|]. cbn [orb].
      destruct (is_print ip r) eqn:Ep.
      * (* printable: written as it is *)
        intros rest. exists c, e', r, true. rewrite Een.
        split; [reflexivity|]. split; [apply byte_neq_eqb; cbn; lia|]. split; [apply byte_neq_eqb; cbn; lia|].
        split.
        -- cbn [append]. unfold unquote_char.
           rewrite (byte_neq_eqb c c_dq) by (cbn; lia). cbn [andb].
           destruct (N.leb_spec 128 (byte c)); [|lia].
           change (String c (e' ++ rest)) with (String c e' ++ rest)%string. rewrite <- Een.
           rewrite decode_encode by assumption. rewrite drop_app_length. reflexivity.
        -- unfold char_bytes. destruct (N.ltb_spec r 128); [lia|]. cbn [orb negb].
           rewrite Htake. exact Een.
      * repeat match goal with |- context [N.eqb r ?k] => destruct (N.eqb_spec r k); [lia|] end.
        destruct (N.ltb_spec r 32); [lia|]. cbn [orb]. rewrite Hv. cbn [negb].
        destruct (N.ltb_spec r 65536).
        -- intros rest. exists c_bs, (String "u" (hexn false 4 r)), r, true.
           split; [reflexivity|]. split; [reflexivity|]. split; [reflexivity|]. split.
           ++ cbn [append]. rewrite unquote_char_u.
              rewrite hex_value_hexn0 by (cbn; lia). rewrite Hv. reflexivity.
           ++ unfold char_bytes. destruct (N.ltb_spec r 128); [lia|]. cbn [orb negb].
              rewrite Htake. exact Een.
        -- intros rest. exists c_bs, (String "U" (hexn false 8 r)), r, true.
           split; [reflexivity|]. split; [reflexivity|]. split; [reflexivity|]. split.
           ++ cbn [append]. rewrite unquote_char_U.
              rewrite hex_value_hexn0 by (cbn; lia). rewrite Hv. reflexivity.
           ++ unfold char_bytes. destruct (N.ltb_spec r 128); [lia|]. cbn [orb negb].
              rewrite Htake. exact Een.
Qed.
End Roundtrip.

(** * The loop of unquote reads back the loop of Quote *)
Section Roundtrip2.
Variable ip : N -> bool.

Lemma first_rune_width c r0 :
  (1 <= snd (first_rune c r0) <= String.length (String c r0))%nat.
Proof.
  unfold first_rune. destruct (byte c <? 128); [cbn; lia|].
  destruct (decode_rune (String c r0)) as [r w] eqn:E. cbn [snd].
  destruct (decode_width _ _ _ E) as [[? _]|(_ & Hw & Hl)]; [discriminate|]. lia.
Qed.

Lemma drop_length n s : String.length (drop n s) = (String.length s - n)%nat.
Proof. revert s. induction n; intros s; [cbn; lia|]. destruct s; cbn; [reflexivity|]. apply IHn. Qed.

Lemma append_length a b : String.length (a ++ b) = (String.length a + String.length b)%nat.
Proof. induction a; cbn; [reflexivity|]. rewrite IHa. reflexivity. Qed.

Lemma unquote_quote_loop : forall f s post uf,
  (String.length s <= f)%nat -> (String.length (quote_loop ip f s) < uf)%nat ->
  unquote_loop uf c_dq (quote_loop ip f s ++ String c_dq post) = Some (s, post).
Proof.
  induction f as [|f IH]; intros s post uf Hs Hu.
  - destruct s; [|cbn in Hs; lia]. destruct uf; [lia|]. reflexivity.
  - destruct s as [|c r0].
    + destruct uf; [lia|]. reflexivity.
    + rewrite quote_loop_step in *.
      assert (Hw := first_rune_width c r0). set (w := snd (first_rune c r0)) in *.
      destruct (piece_all ip c r0 (quote_loop ip f (drop w (String c r0)) ++ String c_dq post))
        as (p0 & p' & rn & mb & Hp & Hq & Hlf & Hun & Hbytes).
      rewrite <- append_assoc_s. rewrite append_length in Hu.
      destruct uf as [|uf]; [lia|].
      assert (Hplen : (1 <= String.length (piece ip c r0))%nat) by (rewrite Hp; cbn; lia).
      cbn [unquote_loop].
      rewrite Hp at 1. cbn [append]. rewrite Hq.
      rewrite Hun. rewrite Hlf. change ((c_dq =? c_sq)%char) with false. cbv iota.
      rewrite IH; [| rewrite drop_length; cbn [String.length] in *; lia | lia].
      fold w in Hbytes. rewrite Hbytes, take_drop. reflexivity.
Qed.
End Roundtrip2.

(** * The fast path of strconv.unquote *)
Lemma contains_cons c r a : contains (String c r) a = Ascii.eqb c a || contains r a.
Proof. unfold contains. cbn [index_byte]. destruct (Ascii.eqb c a); [reflexivity|]. destruct (index_byte r a); reflexivity. Qed.

Lemma contains_drop k : forall s a, contains (drop k s) a = true -> contains s a = true.
Proof.
  induction k; intros s a H; [exact H|]. destruct s; [exact H|]. cbn [drop] in H.
  rewrite contains_cons. rewrite (IHk _ _ H). apply orb_true_r.
Qed.

Lemma contains_drop_false k s a : contains s a = false -> contains (drop k s) a = false.
Proof. intros H. destruct (contains (drop k s) a) eqn:E; [|reflexivity]. rewrite (contains_drop _ _ _ E) in H. discriminate. Qed.

Lemma drop_app k : forall s t, (k <= String.length s)%nat -> drop k (s ++ t) = (drop k s ++ t)%string.
Proof. induction k; intros s t H; [reflexivity|]. destruct s; [cbn in H; lia|]. cbn. apply IHk. cbn in H. lia. Qed.

Lemma valid_fuel_step g c r : valid_string_fuel (S g) (String c r) =
  if byte c <? 128 then valid_string_fuel g r
  else let '(_, w) := decode_rune (String c r) in if (w =? 1)%nat then false else valid_string_fuel g (drop w (String c r)).
Proof. reflexivity. Qed.

Lemma encode_rune_ascii r : r < 128 -> encode_rune r = String (chr r) EmptyString.
Proof. intros H. unfold encode_rune. destruct (N.leb_spec r 127); [reflexivity|lia]. Qed.

(** the loop of unquote on a text without escapes, line feeds and quotes that is valid
    UTF-8 gives the text back: what the fast path returns without running the loop *)
Lemma unquote_loop_plain : forall f g inner rest,
  (String.length inner < f)%nat -> (String.length inner <= g)%nat ->
  contains inner c_bs = false -> contains inner c_lf = false -> contains inner c_dq = false ->
  valid_string_fuel g inner = true ->
  unquote_loop f c_dq (inner ++ String c_dq rest) = Some (inner, rest).
Proof.
  induction f as [|f IH]; intros g inner rest Hf Hg Hbs Hlf Hdq Hv; [lia|].
  destruct inner as [|c r].
  - reflexivity.
  - rewrite contains_cons in Hbs, Hlf, Hdq. apply orb_false_iff in Hbs, Hlf, Hdq.
    destruct Hbs as [Hbs Hbs'], Hlf as [Hlf Hlf'], Hdq as [Hdq Hdq'].
    destruct g as [|g]; [cbn in Hg; lia|]. rewrite valid_fuel_step in Hv.
    cbn [append unquote_loop]. rewrite Hdq.
    unfold unquote_char. rewrite Hdq. cbn [andb].
    destruct (N.ltb_spec (byte c) 128) as [Hlt|Hge].
    + destruct (N.leb_spec 128 (byte c)); [lia|]. rewrite Hbs. cbn [negb]. rewrite Hlf.
      change ((c_dq =? c_sq)%char) with false. cbv iota.
      rewrite (IH g r rest); try assumption; cbn in Hf, Hg; try lia.
      unfold char_bytes. rewrite orb_true_r. rewrite chr_byte. reflexivity.
    + destruct (N.leb_spec 128 (byte c)); [|lia].
      destruct (decode_rune (String c r)) as [rn w] eqn:E.
      destruct (Nat.eqb_spec w 1); [discriminate|].
      destruct (decode_width _ _ _ E) as [[? _]|(_ & Hw & Hl)]; [discriminate|].
      assert (Hw2 : (2 <= w)%nat) by lia.
      change (String c (r ++ String c_dq rest)) with (String c r ++ String c_dq rest)%string.
      rewrite (decode_prefix _ _ _ _ E Hw2). rewrite Hlf.
      change ((c_dq =? c_sq)%char) with false. cbv iota.
      rewrite drop_app by exact Hl.
      assert (Hc : forall a, contains (String c r) a = false -> contains (drop w (String c r)) a = false)
        by (intros a; apply contains_drop_false).
      rewrite (IH g (drop w (String c r)) rest).
      * destruct (decode_multibyte _ _ _ E Hw2) as (Hs & Hl' & Hr & Hvr).
        unfold char_bytes. destruct (N.ltb_spec rn 128); [lia|]. cbn [orb negb].
        f_equal. f_equal. symmetry. exact Hs.
      * rewrite drop_length. cbn [String.length] in *. lia.
      * rewrite drop_length. cbn [String.length] in *. lia.
      * apply Hc. rewrite contains_cons, Hbs, Hbs'. reflexivity.
      * apply Hc. rewrite contains_cons, Hlf, Hlf'. reflexivity.
      * apply Hc. rewrite contains_cons, Hdq, Hdq'. reflexivity.
      * exact Hv.
Qed.

Lemma hex_value_rest k : forall s acc v r, hex_value k s acc = Some (v, r) -> r = drop k s.
Proof.
  induction k; intros s acc v r H; cbn in H; [injection H as <- <-; reflexivity|].
  destruct s as [|c s]; [discriminate|]. destruct (unhex c); [|discriminate]. cbn. eapply IHk; eauto.
Qed.

(** what UnquoteChar leaves is what follows the one to ten bytes it read *)
Lemma unquote_char_rest s q rn mb rem : unquote_char s q = Some (rn, mb, rem) ->
  exists k, (1 <= k)%nat /\ rem = drop k s.
Proof.
  unfold unquote_char. destruct s as [|c r]; [discriminate|].
  destruct (Ascii.eqb c q && _); [discriminate|].
  destruct (128 <=? byte c).
  { destruct (decode_rune (String c r)) as [x w] eqn:E. intros [= <- <- <-].
    destruct (decode_width _ _ _ E) as [[? _]|(_ & Hw & Hl)]; [discriminate|]. exists w. split; [lia|reflexivity]. }
  destruct (Ascii.eqb c c_bs); cbn [negb].
  2:{ intros [= <- <- <-]. exists 1%nat. split; [lia|reflexivity]. }
  destruct r as [|e r2]; [discriminate|].
  repeat match goal with
  | |- (if ?b then _ else _) = _ -> _ => destruct b
  | |- Some _ = Some _ -> _ => intros [= <- <- <-]; exists 2%nat; split; [lia|reflexivity]
  | |- None = _ -> _ => discriminate
  end.
  - destruct (hex_value 2 r2 0) as [[v r3]|] eqn:E; [|discriminate]. intros [= <- <- <-].
    apply hex_value_rest in E. exists 4%nat. split; [lia|]. subst r3. reflexivity.
  - destruct (hex_value 4 r2 0) as [[v r3]|] eqn:E; [|discriminate]. destruct (valid_rune v); [|discriminate].
    intros [= <- <- <-]. apply hex_value_rest in E. exists 6%nat. split; [lia|]. subst r3. reflexivity.
  - destruct (hex_value 8 r2 0) as [[v r3]|] eqn:E; [|discriminate]. destruct (valid_rune v); [|discriminate].
    intros [= <- <- <-]. apply hex_value_rest in E. exists 10%nat. split; [lia|]. subst r3. reflexivity.
  - destruct r2 as [|o1 [|o2 r3]]; try discriminate.
    destruct (is_octal o1 && is_octal o2); [|discriminate].
    match goal with |- (if ?b then _ else _) = _ -> _ => destruct b end; [discriminate|].
    intros [= <- <- <-]. exists 4%nat. split; [lia|reflexivity].
Qed.


Lemma unquote_loop_needs_quote : forall f q body, contains body q = false -> unquote_loop f q body = None.
Proof.
  induction f as [|f IH]; intros q body H; [reflexivity|].
  destruct body as [|c r]; [reflexivity|]. cbn [unquote_loop].
  rewrite contains_cons in H. apply orb_false_iff in H. destruct H as [Hc Hr]. rewrite Hc.
  destruct (unquote_char (String c r) q) as [[[rn mb] rem]|] eqn:E; [|reflexivity].
  destruct (unquote_char_rest _ _ _ _ _ E) as (k & Hk & ->).
  assert (Hd : contains (drop k (String c r)) q = false)
    by (apply contains_drop_false; rewrite contains_cons, Hc, Hr; reflexivity).
  destruct (Ascii.eqb c c_lf); [reflexivity|].
  destruct (Ascii.eqb q c_sq).
  - destruct (drop k (String c r)) as [|c' r'] eqn:D; [reflexivity|].
    rewrite contains_cons in Hd. apply orb_false_iff in Hd. destruct Hd as [-> _]. reflexivity.
  - rewrite IH by exact Hd. reflexivity.
Qed.

Lemma index_byte_split s a : forall e, index_byte s a = Some e ->
  s = (take_n e s ++ String a (drop (S e) s))%string /\ contains (take_n e s) a = false /\ (e < String.length s)%nat.
Proof.
  induction s as [|c r IH]; intros e H; [discriminate|]. cbn [index_byte] in H.
  destruct (Ascii.eqb_spec c a).
  - injection H as <-. subst c. cbn. repeat split. lia.
  - destruct (index_byte r a) as [i|] eqn:E; [|discriminate]. injection H as <-.
    destruct (IH i eq_refl) as (H1 & H2 & H3). cbn [take_n drop append String.length]. repeat split.
    + f_equal. exact H1.
    + rewrite contains_cons, H2. apply Ascii.eqb_neq in n. rewrite n. reflexivity.
    + lia.
Qed.

Lemma contains_index_none s a : index_byte s a = None -> contains s a = false.
Proof. unfold contains. intros ->. reflexivity. Qed.

Lemma take_n_length n : forall s, (n <= String.length s)%nat -> String.length (take_n n s) = n.
Proof. induction n; intros s H; [reflexivity|]. destruct s; cbn in *; [lia|]. rewrite IHn; lia. Qed.

Lemma contains_take_le n : forall m s a, (n <= m)%nat -> contains (take_n m s) a = false -> contains (take_n n s) a = false.
Proof.
  induction n; intros m s a H; [reflexivity|]. destruct m; [lia|]. destruct s; [reflexivity|].
  cbn [take_n]. rewrite !contains_cons. intros E. apply orb_false_iff in E. destruct E as [-> E].
  cbn [orb]. eapply IHn; [|exact E]. lia.
Qed.

(** strconv.unquote's fast path is a shortcut: for a double-quoted text the function
    computes what its escape-processing loop computes *)
Lemma unquote_full_dq body :
  unquote_full (String c_dq body) = unquote_loop (S (String.length body)) c_dq body.
Proof.
  unfold unquote_full. cbn [String.length].
  destruct body as [|b0 body']; [reflexivity|]. set (body := String b0 body').
  replace ((S (String.length body) <? 2)%nat) with false by (symmetry; apply Nat.ltb_ge; cbn; lia).
  destruct (index_byte body c_dq) as [e|] eqn:Ei.
  2:{ symmetry. apply unquote_loop_needs_quote. apply contains_index_none. exact Ei. }
  change ((c_dq =? c_bq)%char) with false. change ((c_dq =? c_dq)%char) with true. cbn [orb]. cbv iota.
  destruct (index_byte_split _ _ _ Ei) as (Hsplit & Hnq & Hlen).
  match goal with |- (if ?c then _ else _) = _ => destruct c eqn:C end; [|reflexivity].
  rewrite !andb_true_iff, !negb_true_iff in C. destruct C as [[Cbs Clf] Cv].
  cbn [take_n] in Cbs, Clf. rewrite contains_cons in Cbs, Clf.
  change ((c_dq =? c_bs)%char) with false in Cbs. change ((c_dq =? c_lf)%char) with false in Clf. cbn [orb] in Cbs, Clf.
  apply (contains_take_le e (S e)) in Cbs, Clf; try lia.
  change (drop (S (S e)) (String c_dq body)) with (drop (S e) body).
  assert (Hl : String.length (take_n e body) = e) by (apply take_n_length; lia).
  clearbody body. revert Hsplit Hnq Cbs Clf Cv Hl.
  generalize (take_n e body) as inner. generalize (drop (S e) body) as rest. intros rest inner -> Hnq Cbs Clf Cv Hl.
  symmetry. apply (unquote_loop_plain _ (String.length inner)); try assumption.
  - rewrite append_length. cbn. lia.
  - lia.
Qed.

Section RT.
Variable ip : N -> bool.

(** Unquote (Quote s) = s, for every byte string and every IsPrint table above U+00FF *)
Theorem unquote_quote s : unquote (quote ip s) = Some s.
Proof.
  unfold unquote, quote. rewrite unquote_full_dq.
  rewrite (unquote_quote_loop ip (String.length s) s EmptyString); [reflexivity|lia|].
  rewrite append_length. cbn. lia.
Qed.

Theorem etag_roundtrip s : etag_unmarshal (etag_marshal ip s) = Ok s.
Proof.
  unfold etag_unmarshal, etag_marshal. rewrite unquote_quote. reflexivity.
Qed.
End RT.


Lemma char_bytes_rune v : char_bytes v true = encode_rune v.
Proof.
  unfold char_bytes. destruct (N.ltb_spec v 128); cbn [orb negb]; [|reflexivity].
  rewrite encode_rune_ascii by assumption. reflexivity.
Qed.

Definition oct3 (e o1 o2 : ascii) : N := (byte e - 48) * 64 + (byte o1 - 48) * 8 + (byte o2 - 48).
Arguments oct3 : simpl never.
Local Arguments hex_value : simpl never.
Local Arguments valid_rune : simpl never.
Local Arguments encode_rune : simpl never.
Local Arguments char_bytes : simpl never.

Definition escape_char (e : ascii) (r2 : string) : option (N * bool * string) :=
        if Ascii.eqb e "a" then Some (7, false, r2)
        else if Ascii.eqb e "b" then Some (8, false, r2)
        else if Ascii.eqb e "f" then Some (12, false, r2)
        else if Ascii.eqb e "n" then Some (10, false, r2)
        else if Ascii.eqb e "r" then Some (13, false, r2)
        else if Ascii.eqb e "t" then Some (9, false, r2)
        else if Ascii.eqb e "v" then Some (11, false, r2)
        else if Ascii.eqb e "x" then
          match hex_value 2 r2 0 with Some (v, r3) => Some (v, false, r3) | None => None end
        else if Ascii.eqb e "u" then
          match hex_value 4 r2 0 with
          | Some (v, r3) => if valid_rune v then Some (v, true, r3) else None
          | None => None
          end
        else if Ascii.eqb e "U" then
          match hex_value 8 r2 0 with
          | Some (v, r3) => if valid_rune v then Some (v, true, r3) else None
          | None => None
          end
        else if is_octal e then
          match r2 with
          | String o1 (String o2 r3) =>
              if is_octal o1 && is_octal o2 then
                if 255 <? oct3 e o1 o2 then None else Some (oct3 e o1 o2, false, r3)
              else None
          | _ => None
          end
        else if Ascii.eqb e c_bs then Some (92, false, r2)
        else if Ascii.eqb e c_sq || Ascii.eqb e c_dq then
          if Ascii.eqb e c_dq then Some (byte e, false, r2) else None
        else None.

Lemma unquote_char_bs e r2 : unquote_char (String c_bs (String e r2)) c_dq = escape_char e r2.
Proof. reflexivity. Qed.

Definition den_escape' (e : ascii) (r2 : string) : option (string * string) :=
    match assoc_chr simple_escapes e with
    | Some v => Some (String (chr v) EmptyString, r2)
    | None =>
      if Ascii.eqb e "x" then
        match hex_value 2 r2 0 with Some (v, r3) => Some (String (chr v) EmptyString, r3) | None => None end
      else if Ascii.eqb e "u" then
        match hex_value 4 r2 0 with
        | Some (v, r3) => if valid_rune v then Some (encode_rune v, r3) else None
        | None => None
        end
      else if Ascii.eqb e "U" then
        match hex_value 8 r2 0 with
        | Some (v, r3) => if valid_rune v then Some (encode_rune v, r3) else None
        | None => None
        end
      else if is_octal e then
        match r2 with
        | String o1 (String o2 r3) =>
            if is_octal o1 && is_octal o2 then
              if oct3 e o1 o2 <=? 255 then Some (String (chr (oct3 e o1 o2)) EmptyString, r3) else None
            else None
        | _ => None
        end
      else None
    end.
Lemma den_escape_eq e r2 : den_escape (String e r2) = den_escape' e r2.
Proof. reflexivity. Qed.

(** one escape sequence: UnquoteChar reads what the grammar of escapes denotes *)
Lemma unquote_char_escape r :
  match unquote_char (String c_bs r) c_dq with
  | Some (rn, mb, rem) => den_escape r = Some (char_bytes rn mb, rem)
  | None => den_escape r = None
  end.
Proof.
  destruct r as [|e r2]; [reflexivity|]. rewrite unquote_char_bs, den_escape_eq.
  unfold escape_char, den_escape'.
  destruct e as [b0 b1 b2 b3 b4 b5 b6 b7].
  destruct b0, b1, b2, b3, b4, b5, b6, b7; cbn; try reflexivity.
  all: try (destruct (hex_value _ r2 0) as [[v r3]|]; [|reflexivity]; try (destruct (valid_rune v); [|reflexivity]);
            try rewrite <- char_bytes_rune; try (unfold char_bytes; rewrite orb_true_r); reflexivity).
  all: destruct r2 as [|o1 [|o2 r3]]; try reflexivity.
  all: match goal with |- context [is_octal ?a && is_octal ?b] => destruct (is_octal a && is_octal b) end; [|reflexivity].
  all: match goal with |- context [oct3 ?a ?b ?c] => generalize (oct3 a b c); intros v end.
  all: destruct (N.ltb_spec 255 v); destruct (N.leb_spec v 255); try lia; try reflexivity.
  all: unfold char_bytes; rewrite orb_true_r; reflexivity.
Qed.


Lemma eqb_false_byte c d : Ascii.eqb c d = false -> byte c <> byte d.
Proof. intros H E. apply byte_inj in E. subst. rewrite Ascii.eqb_refl in H. discriminate. Qed.

(** the escape-processing loop of unquote accepts exactly the bodies of (leniently
    read) interpreted string literals, with the bytes they denote *)
Lemma den_body_loop : forall f body,
  den_body true f body
  = match unquote_loop f c_dq body with Some (out, EmptyString) => Some out | _ => None end.
Proof.
  induction f as [|f IH]; intros body; [reflexivity|].
  destruct body as [|c r]; [reflexivity|]. cbn [den_body unquote_loop].
  destruct (Ascii.eqb c c_dq) eqn:Edq; [destruct r; reflexivity|].
  destruct (Ascii.eqb c c_lf) eqn:Elf.
  { destruct (unquote_char (String c r) c_dq) as [[[? ?] ?]|]; reflexivity. }
  change ((c_dq =? c_sq)%char) with false. cbv iota.
  destruct (Ascii.eqb_spec c c_bs) as [->|Hbs].
  - assert (H := unquote_char_escape r).
    destruct (unquote_char (String c_bs r) c_dq) as [[[rn mb] rem]|]; rewrite H; [|reflexivity].
    rewrite IH. destruct (unquote_loop f c_dq rem) as [[out [|? ?]]|]; reflexivity.
  - apply Ascii.eqb_neq in Hbs.
    destruct (N.ltb_spec (byte c) 128) as [Hlt|Hge].
    + rewrite unquote_char_plain; [|assumption|apply (eqb_false_byte _ _ Edq)|apply (eqb_false_byte _ _ Hbs)].
      rewrite IH. unfold char_bytes. rewrite orb_true_r, chr_byte.
      destruct (unquote_loop f c_dq r) as [[out [|? ?]]|]; reflexivity.
    + unfold unquote_char. rewrite Edq. cbn [andb]. destruct (N.leb_spec 128 (byte c)); [|lia].
      destruct (decode_rune (String c r)) as [rn w] eqn:E.
      destruct (decode_width _ _ _ E) as [[? _]|(_ & Hw & Hl)]; [discriminate|].
      destruct (Nat.eqb_spec w 1) as [->|Hw1].
      * assert (rn = rune_error) by (apply (decode_width1 _ _ E); lia). subst rn.
        cbn [drop]. rewrite IH.
        change (char_bytes rune_error true) with (enc3 rune_error).
        destruct (unquote_loop f c_dq r) as [[out [|? ?]]|]; reflexivity.
      * destruct (decode_multibyte _ _ _ E) as (Hs & Hl' & Hr & Hv); [lia|].
        rewrite IH. rewrite char_bytes_rune.
        replace (take_n w (String c r)) with (encode_rune rn)
          by (rewrite Hs at 1; rewrite <- Hl'; symmetry; apply take_n_app_length).
        destruct (unquote_loop f c_dq (drop w (String c r))) as [[out [|? ?]]|]; reflexivity.
Qed.

(** ETag.UnmarshalText accepts exactly the interpreted string literals, read leniently
    (a byte that is not valid UTF-8 stands for U+FFFD), with the bytes they denote *)
Theorem etag_unmarshal_iff s t : etag_unmarshal s = Ok t <-> dq_den true s = Some t.
Proof.
  unfold etag_unmarshal, dq_den. destruct s as [|c body]; [split; discriminate|].
  destruct (Ascii.eqb_spec c c_dq) as [->|]; [|split; discriminate].
  unfold unquote. rewrite unquote_full_dq, den_body_loop.
  destruct (unquote_loop (S (String.length body)) c_dq body) as [[out [|? ?]]|];
    split; intros H; try discriminate; injection H as <-; reflexivity.
Qed.

Lemma den_body_strict_lenient : forall f body t, den_body false f body = Some t -> den_body true f body = Some t.
Proof.
  induction f as [|f IH]; intros body t; [discriminate|].
  destruct body as [|c r]; [discriminate|]. cbn [den_body].
  destruct (Ascii.eqb c c_dq); [auto|]. destruct (Ascii.eqb c c_lf); [auto|].
  destruct (Ascii.eqb c c_bs).
  { destruct (den_escape r) as [[bytes r']|]; [|auto].
    destruct (den_body false f r') eqn:E; [|discriminate]. rewrite (IH _ _ E). auto. }
  destruct (byte c <? 128).
  { destruct (den_body false f r) eqn:E; [|discriminate]. rewrite (IH _ _ E). auto. }
  destruct (decode_rune (String c r)) as [rn w]. destruct (w =? 1)%nat; [discriminate|].
  destruct (den_body false f (drop w (String c r))) eqn:E; [|discriminate]. rewrite (IH _ _ E). auto.
Qed.

(** every interpreted string literal is accepted, with the bytes it denotes *)
Theorem etag_accepts_grammar s t : dq_den false s = Some t -> etag_unmarshal s = Ok t.
Proof.
  intros H. apply etag_unmarshal_iff. unfold dq_den in *. destruct s as [|c body]; [discriminate|].
  destruct (Ascii.eqb c c_dq); [|discriminate]. apply den_body_strict_lenient. exact H.
Qed.

Theorem etag_unmarshal_never_panics s : etag_unmarshal s <> Panic.
Proof.
  unfold etag_unmarshal, plain_err. destruct s as [|c r]; [discriminate|].
  destruct (Ascii.eqb c c_dq); [|discriminate]. destruct (unquote (String c r)); discriminate.
Qed.

(** rejection side, except the listed finding C16-etag-invalid-utf8 *)
Theorem etag_rejects_except_invalid_utf8 s t :
  kf_etag_invalid_utf8 s (obs_of (etag_unmarshal s)) = false ->
  etag_unmarshal s = Ok t -> dq_den false s = Some t.
Proof.
  intros Hk H. rewrite H in Hk. cbn [obs_of] in Hk. apply etag_unmarshal_iff in H.
  unfold kf_etag_invalid_utf8 in Hk. rewrite H in Hk.
  destruct (dq_den false s) as [t'|] eqn:E.
  - assert (H' : dq_den true s = Some t').
    { unfold dq_den in *. destruct s as [|c body]; [discriminate|].
      destruct (Ascii.eqb c c_dq); [|discriminate]. apply den_body_strict_lenient. exact E. }
    congruence.
  - rewrite String.eqb_refl in Hk. discriminate.
Qed.

Theorem etag_rejects_refuted : exists s t,
  etag_unmarshal s = Ok t /\ dq_den false s = None
  /\ kf_etag_invalid_utf8 s (obs_of (etag_unmarshal s)) = true.
Proof.
  exists (String c_dq (String (chr 255) (String c_dq EmptyString))), (enc3 rune_error).
  vm_compute. repeat split.
Qed.

(** the text sent for a tag is a double-quoted literal of the lenient grammar denoting it *)
Theorem etag_marshal_in_lenient_grammar (ip : N -> bool) s : dq_den true (etag_marshal ip s) = Some s.
Proof. apply etag_unmarshal_iff. apply etag_roundtrip. Qed.
