(** PropFindProofs.v — proofs about the model of PropFind.v (property C11), part 1:
    property accounting, the executable specification, statuses, the principal helper. *)
From GW Require Import Base Route RouteProofs PropFind.
From Coq Require Import Permutation.

Local Open Scope string_scope.

(** * Decidable equalities *)

Lemma name_eqb_eq (a b : name) : name_eqb a b = true <-> a = b.
Proof.
  destruct a as [a1 a2], b as [b1 b2]. unfold name_eqb. simpl.
  rewrite andb_true_iff, !String.eqb_eq. split; [intros [-> ->]; reflexivity | intros E; inversion E; auto].
Qed.

Lemma name_eqb_refl a : name_eqb a a = true.
Proof. apply name_eqb_eq. reflexivity. Qed.

Lemma name_eqb_neq (a b : name) : name_eqb a b = false <-> a <> b.
Proof.
  split.
  - intros H E. apply name_eqb_eq in E. congruence.
  - intros H. destruct (name_eqb a b) eqn:E; [|reflexivity]. apply name_eqb_eq in E. contradiction.
Qed.

Lemma name_eq_dec (a b : name) : {a = b} + {a <> b}.
Proof. destruct (name_eqb a b) eqn:E; [left; apply name_eqb_eq; exact E | right; apply name_eqb_neq; exact E]. Qed.

Lemma names_eqb_eq (a b : list name) : names_eqb a b = true <-> a = b.
Proof.
  revert b. induction a as [|x r IH]; destruct b as [|y s]; simpl; try (split; congruence).
  rewrite andb_true_iff, IH, name_eqb_eq. split; [intros [-> ->]; reflexivity | intros E; inversion E; auto].
Qed.

Lemma pval_eqb_eq (a b : pval) : pval_eqb a b = true <-> a = b.
Proof.
  destruct a, b; simpl; try (split; congruence).
  - rewrite String.eqb_eq. split; congruence.
  - rewrite names_eqb_eq. split; congruence.
  - rewrite String.eqb_eq. split; congruence.
Qed.

Lemma optval_eqb_eq (a b : option pval) : optval_eqb a b = true <-> a = b.
Proof.
  destruct a, b; simpl; try (split; congruence).
  rewrite pval_eqb_eq. split; congruence.
Qed.

Lemma fentry_eqb_eq (a b : fentry) : fentry_eqb a b = true <-> a = b.
Proof.
  destruct a as [[n c] v], b as [[n' c'] v']. unfold fentry_eqb. simpl.
  rewrite !andb_true_iff, name_eqb_eq, N.eqb_eq, optval_eqb_eq.
  split; [intros [[-> ->] ->]; reflexivity | intros E; inversion E; auto].
Qed.

(** * perm_b decides Permutation *)

Section PermB.
  Context {A : Type} (eqb : A -> A -> bool) (eqb_eq : forall a b, eqb a b = true <-> a = b).

  Lemma remove1_some x l l' : remove1 eqb x l = Some l' -> Permutation l (x :: l').
  Proof.
    revert l'. induction l as [|y r IH]; intros l' H; simpl in H; [discriminate|].
    destruct (eqb x y) eqn:E.
    - apply eqb_eq in E. subst. inversion H; subst. apply Permutation_refl.
    - destruct (remove1 eqb x r) as [r'|] eqn:R; [|discriminate].
      inversion H; subst. specialize (IH _ eq_refl).
      eapply Permutation_trans; [apply perm_skip; exact IH|]. apply perm_swap.
  Qed.

  Lemma remove1_none x l : remove1 eqb x l = None -> ~ In x l.
  Proof.
    induction l as [|y r IH]; intros H; simpl in *; [tauto|].
    destruct (eqb x y) eqn:E; [discriminate|].
    destruct (remove1 eqb x r) eqn:R; [discriminate|].
    intros [->|Hin]; [|exact (IH eq_refl Hin)].
    assert (eqb x x = true) by (apply eqb_eq; reflexivity). congruence.
  Qed.

  Lemma remove1_in x l : In x l -> exists l', remove1 eqb x l = Some l'.
  Proof.
    intros H. destruct (remove1 eqb x l) eqn:R; [eauto|]. apply remove1_none in R. contradiction.
  Qed.

  Lemma perm_b_sound l1 : forall l2, perm_b eqb l1 l2 = true -> Permutation l1 l2.
  Proof.
    induction l1 as [|x r IH]; intros l2 H; simpl in H.
    - destruct l2; [apply perm_nil|discriminate].
    - destruct (remove1 eqb x l2) as [l2'|] eqn:R; [|discriminate].
      apply remove1_some in R. apply IH in H.
      eapply Permutation_trans; [apply perm_skip; exact H|]. apply Permutation_sym. exact R.
  Qed.

  Lemma perm_b_complete l1 : forall l2, Permutation l1 l2 -> perm_b eqb l1 l2 = true.
  Proof.
    induction l1 as [|x r IH]; intros l2 H; simpl.
    - apply Permutation_nil in H. subst. reflexivity.
    - assert (Hin : In x l2) by (eapply Permutation_in; [exact H|left; reflexivity]).
      destruct (remove1_in x l2 Hin) as [l2' R]. rewrite R.
      apply IH. apply remove1_some in R.
      apply Permutation_cons_inv with (a := x).
      eapply Permutation_trans; [exact H|exact R].
  Qed.

  Lemma perm_b_spec l1 l2 : perm_b eqb l1 l2 = true <-> Permutation l1 l2.
  Proof. split; [apply perm_b_sound | apply perm_b_complete]. Qed.
End PermB.

(** * grouped_b *)

Lemma nodup_N_spec (l : list N) : nodup_N l = true <-> NoDup l.
Proof.
  induction l as [|x r IH]; simpl.
  - split; [constructor|reflexivity].
  - rewrite andb_true_iff, negb_true_iff, IH. split.
    + intros [H1 H2]. constructor; [|exact H2]. intros Hin.
      assert (existsb (N.eqb x) r = true) by (apply existsb_exists; exists x; split; [exact Hin|apply N.eqb_refl]).
      congruence.
    + intros H. inversion H; subst. split; [|assumption].
      destruct (existsb (N.eqb x) r) eqn:E; [|reflexivity].
      apply existsb_exists in E. destruct E as [y [Hy Hxy]]. apply N.eqb_eq in Hxy. subst. contradiction.
Qed.

Definition grouped (ps : list propstat) : Prop :=
  NoDup (map fst ps) /\ (forall cs, In cs ps -> snd cs <> []).

Lemma grouped_b_spec ps : grouped_b ps = true <-> grouped ps.
Proof.
  unfold grouped_b, grouped. rewrite andb_true_iff, nodup_N_spec, forallb_forall.
  split; intros [H1 H2]; split; auto; intros cs Hin; specialize (H2 cs Hin); destruct (snd cs); congruence.
Qed.

(** * EncodeProp *)

Definition fe (code : N) (e : entry) : fentry := (fst e, code, snd e).

Lemma flat_ps_cons c es rest : flat_ps ((c, es) :: rest) = (map (fe c) es ++ flat_ps rest)%list.
Proof. reflexivity. Qed.

Lemma encode_prop_flat ps code e :
  Permutation (flat_ps (encode_prop ps code e)) (flat_ps ps ++ [fe code e]).
Proof.
  induction ps as [|[c es] rest IH]; simpl encode_prop.
  - simpl. apply Permutation_refl.
  - destruct (N.eqb c code) eqn:E.
    + apply N.eqb_eq in E. subst c. rewrite !flat_ps_cons, map_app. simpl map.
      rewrite <- !app_assoc. apply Permutation_app_head.
      simpl. apply Permutation_cons_append.
    + rewrite !flat_ps_cons. rewrite <- app_assoc. apply Permutation_app_head. exact IH.
Qed.

Lemma encode_prop_codes ps code e c :
  In c (map fst (encode_prop ps code e)) <-> In c (map fst ps) \/ c = code.
Proof.
  induction ps as [|[c0 es] rest IH]; simpl encode_prop.
  - simpl. split; [intros [H|[]]; right; congruence | intros [[]|H]; left; congruence].
  - destruct (N.eqb c0 code) eqn:E.
    + apply N.eqb_eq in E. subst. simpl. split; [tauto|]. intros [H|H]; [exact H|left; congruence].
    + simpl. rewrite IH. tauto.
Qed.

Lemma encode_prop_grouped ps code e : grouped ps -> grouped (encode_prop ps code e).
Proof.
  unfold grouped. induction ps as [|[c es] rest IH]; intros [Hnd Hne]; simpl encode_prop.
  - split; [simpl; constructor; [tauto|constructor]|].
    intros cs [<-|[]]. simpl. discriminate.
  - destruct (N.eqb c code) eqn:E.
    + split; [exact Hnd|]. intros cs [<-|Hin]; [simpl; destruct es; discriminate|].
      apply Hne. right. exact Hin.
    + simpl in Hnd. inversion Hnd; subst.
      destruct IH as [IH1 IH2]; [split; [assumption|intros; apply Hne; right; assumption]|].
      split.
      * simpl. constructor; [|exact IH1]. rewrite encode_prop_codes. intros [H|H]; [contradiction|].
        subst. rewrite N.eqb_refl in E. discriminate.
      * intros cs [<-|Hin]; [apply (Hne (c, es)); left; reflexivity | apply IH2; exact Hin].
Qed.

Definition fe_of (ce : N * entry) : fentry := fe (fst ce) (snd ce).

Lemma encode_all_gen (l : list (N * entry)) : forall ps,
  grouped ps ->
  let r := fold_left (fun ps ce => encode_prop ps (fst ce) (snd ce)) l ps in
  grouped r /\ Permutation (flat_ps r) (flat_ps ps ++ map fe_of l).
Proof.
  induction l as [|ce l IH]; intros ps G; cbn [fold_left map].
  - split; [exact G|]. rewrite app_nil_r. apply Permutation_refl.
  - destruct (IH (encode_prop ps (fst ce) (snd ce)) (encode_prop_grouped _ _ _ G)) as [G' P].
    split; [exact G'|].
    eapply Permutation_trans; [exact P|].
    eapply Permutation_trans; [apply Permutation_app_tail; apply encode_prop_flat|].
    rewrite <- app_assoc. apply Permutation_refl.
Qed.

Lemma encode_all_spec (l : list (N * entry)) :
  grouped (encode_all l) /\ Permutation (flat_ps (encode_all l)) (map fe_of l).
Proof.
  unfold encode_all.
  assert (G0 : grouped []) by (split; [constructor|intros ? []]).
  destruct (encode_all_gen l [] G0) as [G P]. split; [exact G|exact P].
Qed.

(** * the [seen] map: distinct names *)

Lemma mem_name_spec n l : mem_name n l = true <-> In n l.
Proof.
  unfold mem_name. rewrite existsb_exists. split.
  - intros [x [Hx E]]. apply name_eqb_eq in E. subst. exact Hx.
  - intros H. exists n. split; [exact H|apply name_eqb_refl].
Qed.

Lemma dedupe_spec l : forall seen,
  NoDup (dedupe seen l) /\
  (forall n, In n (dedupe seen l) <-> In n l /\ ~ In n seen).
Proof.
  induction l as [|x r IH]; intros seen; simpl.
  - split; [constructor|]. intros n. tauto.
  - destruct (mem_name x seen) eqn:M.
    + apply mem_name_spec in M. destruct (IH seen) as [ND I]. split; [exact ND|].
      intros n. rewrite I. split; [tauto|]. intros [[->|H] Hn]; [contradiction|tauto].
    + assert (Hx : ~ In x seen) by (intros H; apply mem_name_spec in H; congruence).
      destruct (IH (x :: seen)) as [ND I]. split.
      * constructor; [|exact ND]. rewrite I. simpl. tauto.
      * intros n. simpl. rewrite I. simpl. split.
        -- intros [->|[H1 H2]]; [tauto|]. split; [tauto|]. tauto.
        -- intros [[->|H1] H2]; [left; reflexivity|].
           destruct (name_eq_dec x n) as [->|Hne]; [left; reflexivity|right]. tauto.
Qed.

Lemma dedupe_nodup l : NoDup (dedupe [] l).
Proof. apply dedupe_spec. Qed.

Lemma dedupe_in l n : In n (dedupe [] l) <-> In n l.
Proof. destruct (dedupe_spec l []) as [_ I]. rewrite I. simpl. tauto. Qed.

(** * C11_accounting *)

Lemma fe_of_answer_name p n : fe_of (answer_name p n) = report_name p n.
Proof.
  unfold answer_name, report_name. destruct (lookup n p) as [[v|c]|]; reflexivity.
Qed.

Lemma fe_of_answer_value n f : fe_of (answer_value n f) = report_value n f.
Proof. destruct f; reflexivity. Qed.

Lemma proj_id_map (l : list fentry) : map (proj (fun v => v)) l = l.
Proof. induction l as [|[[n c] v] r IH]; simpl; [reflexivity|]. rewrite IH. reflexivity. Qed.

Lemma form_of_none pf : form_of pf = FNone <-> no_form pf = true.
Proof.
  unfold form_of, no_form. destruct (pf_propname pf), (pf_allprop pf), (pf_prop pf); simpl;
    split; congruence.
Qed.

(** Every request — any name list: known, unknown, foreign-namespace names,
    repetitions — on every resource — any property map — is answered by one
    response carrying the given href and accounting for the request, or, when
    none of the three forms is present, refused with 400. *)
Theorem accounting : forall path pf p,
  match new_propfind_response path pf p with
  | Ok r => r_href r = path /\ accounted pf p r
  | Err c => c = 400%N /\ form_of pf = FNone
  | Panic => False
  end.
Proof.
  intros path pf p. unfold new_propfind_response, accounted, accounted_gen, form_of.
  destruct (pf_propname pf).
  - split; [reflexivity|]. cbn [r_propstats flat].
    destruct (encode_all_spec (map (fun nf => (200%N, (fst nf, None))) (with_resourcetype p))) as [[G1 G2] P].
    split; [exact G1|]. split; [exact G2|].
    rewrite proj_id_map. unfold flat. cbn [r_propstats].
    eapply Permutation_trans; [exact P|]. rewrite map_map. apply Permutation_refl.
  - destruct (pf_allprop pf).
    + split; [reflexivity|]. cbn [r_propstats].
      destruct (encode_all_spec (map (fun nf => answer_value (fst nf) (snd nf)) (with_resourcetype p))) as [[G1 G2] P].
      split; [exact G1|]. split; [exact G2|].
      rewrite !proj_id_map. unfold flat. cbn [r_propstats].
      eapply Permutation_trans; [exact P|]. rewrite map_map.
      erewrite map_ext; [apply Permutation_refl|]. intros a. apply fe_of_answer_value.
    + destruct (pf_prop pf) as [names|].
      * split; [reflexivity|]. cbn [r_propstats].
        destruct (encode_all_spec (map (answer_name (with_resourcetype p)) (dedupe [] names))) as [[G1 G2] P].
        split; [exact G1|]. split; [exact G2|].
        exists (dedupe [] names). split; [apply dedupe_nodup|]. split; [apply dedupe_in|].
        rewrite !proj_id_map. unfold flat. cbn [r_propstats].
        eapply Permutation_trans; [exact P|]. rewrite map_map.
        erewrite map_ext; [apply Permutation_refl|]. intros a. apply fe_of_answer_name.
      * split; reflexivity.
Qed.

(** * the executable specification *)

Lemma accounted_wire_of pf p r : accounted pf p r -> accounted_wire pf p r.
Proof.
  unfold accounted, accounted_wire, accounted_gen. intros (G1 & G2 & H).
  split; [exact G1|]. split; [exact G2|].
  destruct (form_of pf).
  - rewrite proj_id_map in H. apply (Permutation_map (proj wire)) in H.
    rewrite map_map in H. simpl in H. exact H.
  - rewrite !proj_id_map in H. apply Permutation_map. exact H.
  - destruct H as (ds & ND & I & P). exists ds. split; [exact ND|]. split; [exact I|].
    rewrite !proj_id_map in P. apply Permutation_map. exact P.
  - exact H.
Qed.

Lemma nodup_same_perm (ds : list name) names :
  NoDup ds -> (forall n, In n ds <-> In n names) -> Permutation ds (dedupe [] names).
Proof.
  intros ND I. apply NoDup_Permutation; [exact ND|apply dedupe_nodup|].
  intros n. rewrite I, dedupe_in. tauto.
Qed.

(** [accounted_b] decides "accounted, as far as the wire shows values". *)
Theorem accounted_b_spec : forall pf p r, accounted_b pf p r = true <-> accounted_wire pf p r.
Proof.
  intros pf p r. unfold accounted_b, accounted_wire, accounted_gen.
  rewrite andb_true_iff, grouped_b_spec. unfold grouped.
  destruct (form_of pf).
  - rewrite (perm_b_spec fentry_eqb fentry_eqb_eq). tauto.
  - rewrite (perm_b_spec fentry_eqb fentry_eqb_eq). tauto.
  - rewrite (perm_b_spec fentry_eqb fentry_eqb_eq). split.
    + intros [[G1 G2] P]. split; [exact G1|]. split; [exact G2|].
      exists (dedupe [] names). split; [apply dedupe_nodup|]. split; [apply dedupe_in|]. exact P.
    + intros (G1 & G2 & ds & ND & I & P). split; [tauto|].
      eapply Permutation_trans; [exact P|].
      apply Permutation_map. apply Permutation_map. apply nodup_same_perm; assumption.
  - split; [intros [_ H]; discriminate | tauto].
Qed.

(** A response of the model passes the oracle's accounting check. *)
Corollary accounting_b : forall path pf p r,
  new_propfind_response path pf p = Ok r -> accounted_b pf p r = true.
Proof.
  intros path pf p r H. pose proof (accounting path pf p) as A. rewrite H in A.
  apply accounted_b_spec. apply accounted_wire_of. tauto.
Qed.

(** * Statuses *)

Lemma decode_ok ct bd pf : decode_propfind_request ct bd = Ok pf -> no_form pf = false.
Proof.
  unfold decode_propfind_request. intros H.
  destruct ct, bd; simpl in H; try discriminate; try (inversion H; subst; reflexivity);
    match type of H with
    | (if no_form ?x then _ else _) = _ => destruct (no_form x) eqn:E; [discriminate|inversion H; subst; exact E]
    end.
Qed.

Lemma decode_no_panic ct bd : decode_propfind_request ct bd <> Panic.
Proof.
  unfold decode_propfind_request.
  destruct ct, bd; simpl; try discriminate;
    try match goal with |- (if ?c then _ else _) <> _ => destruct c; discriminate end.
Qed.

Lemma decode_err ct bd c : decode_propfind_request ct bd = Err c -> c = 400%N.
Proof.
  unfold decode_propfind_request.
  destruct ct, bd; simpl; intros H; try (inversion H; reflexivity); try discriminate;
    try match type of H with (if ?c then _ else _) = _ => destruct c; inversion H; reflexivity end.
Qed.

(** A <propfind> with none of the three forms, sent as XML, is refused with 400
    whatever the backend, the path and the Depth. *)
Theorem no_form_refused : forall backend pf dh,
  no_form pf = true -> handle_propfind backend CTXml (BPropfind pf) dh = Err 400.
Proof.
  intros backend pf dh H. unfold handle_propfind, decode_propfind_request. simpl. rewrite H. reflexivity.
Qed.

(** An empty body is an allprop request, with or without a Content-Type. *)
Theorem empty_body_allprop : forall ct, decode_propfind_request ct BEmpty = Ok allprop_pf.
Proof. destruct ct; reflexivity. Qed.

Lemma map_res_new_ok {A} (href : A -> string) (pr : A -> props) pf (l : list A) :
  no_form pf = false ->
  exists rs, map_res (fun a => new_propfind_response (href a) pf (pr a)) l = Ok rs /\
             List.length rs = List.length l /\
             Forall2 (fun a r => new_propfind_response (href a) pf (pr a) = Ok r) l rs.
Proof.
  intros NF. induction l as [|a l IH].
  - exists []. simpl. repeat split. constructor.
  - destruct IH as (rs & E & Len & F).
    pose proof (accounting (href a) pf (pr a)) as A0.
    destruct (new_propfind_response (href a) pf (pr a)) as [r|c|] eqn:R.
    + exists (r :: rs). simpl. rewrite R. simpl. rewrite E. simpl. repeat split; [congruence|].
      constructor; assumption.
    + destruct A0 as [_ FN]. apply form_of_none in FN. congruence.
    + contradiction.
Qed.

(** handlePropfind never panics, refuses only with 400 before consulting the
    backend, and otherwise answers what the backend answers. *)
Theorem handle_status : forall backend ct bd dh,
  (forall pf d, backend pf d <> Panic) ->
  match handle_propfind backend ct bd dh with
  | Ok _ => True
  | Err c => c = 400%N \/ exists pf d, backend pf d = Err c
  | Panic => False
  end.
Proof.
  intros backend ct bd dh NP. unfold handle_propfind.
  destruct (decode_propfind_request ct bd) as [pf|c|] eqn:D; simpl.
  - destruct dh; simpl;
      try (match goal with |- match backend ?p ?d with _ => _ end =>
             specialize (NP p d); destruct (backend p d) eqn:B; [exact I | right; eauto | congruence] end).
    all: left; reflexivity.
  - left. eapply decode_err; eauto.
  - exact (decode_no_panic _ _ D).
Qed.

Lemma hier_backend_status s b prefix path pf d :
  no_form pf = false ->
  match hier_backend s b prefix path pf d with
  | Ok _ => True | Err c => c = 404%N | Panic => False end.
Proof.
  intros NF. unfold hier_backend, propfind_walk, propfind_at.
  destruct (resource_type_at_path prefix path) as [|[|[|[|[|n]]]]]; simpl snd.
  all: repeat match goal with
       | |- context [if ?c then _ else _] => destruct c
       | |- context [match ?d with D0 => _ | D1 => _ | DInf => _ end] => destruct d
       | |- context [match find_coll ?b ?p with _ => _ end] => destruct (find_coll b p)
       | |- context [match find_obj ?b ?p with _ => _ end] => destruct (find_obj b p)
       end; cbn [bind snd]; try reflexivity;
    match goal with
    | |- match map_res ?f ?l with _ => _ end =>
      destruct (map_res_new_ok (href_of b) (props_of s b) pf l NF) as (rs & E & _); rewrite E; exact I
    end.
Qed.

Lemma dav_backend_status t path pf d :
  no_form pf = false ->
  match dav_backend t path pf d with
  | Ok _ => True | Err c => c = 404%N \/ c = 400%N | Panic => False end.
Proof.
  intros NF. unfold dav_backend, dav_scope.
  destruct (has_nul path); [right; reflexivity|].
  destruct (negb (has_prefix (clean path) "/")); [right; reflexivity|].
  destruct (get t (rid path)) as [n|]; [|left; reflexivity].
  destruct (negb (is_d0 d) && is_dir n); cbn [bind];
    match goal with
    | |- match map_res ?f ?l with _ => _ end =>
      destruct (map_res_new_ok (@fst string node) (fun hn => file_props (snd hn)) pf l NF) as (rs & E & _);
        rewrite E; exact I
    end.
Qed.

(** Every PROPFIND on the three servers is answered 207 (Ok) or refused with 400
    (bad body, no form, bad Depth, relative path) or 404 (nothing there); never a panic. *)
Theorem status_hier : forall s hprefix b path ct bd dh,
  match hier_propfind s hprefix b path ct bd dh with
  | Ok _ => True | Err c => c = 400%N \/ c = 404%N | Panic => False end.
Proof.
  intros. unfold hier_propfind, handle_propfind.
  destruct (decode_propfind_request ct bd) as [pf|c|] eqn:D; simpl.
  - pose proof (decode_ok _ _ _ D) as NF.
    destruct dh; simpl; try (left; reflexivity);
      match goal with |- match hier_backend ?s ?b ?p ?q ?pf ?d with _ => _ end =>
        pose proof (hier_backend_status s b p q pf d NF) as H;
        destruct (hier_backend s b p q pf d); [exact I | right; exact H | exact H] end.
  - left. eapply decode_err; eauto.
  - exact (decode_no_panic _ _ D).
Qed.

Theorem status_dav : forall t path ct bd dh,
  match dav_propfind t path ct bd dh with
  | Ok _ => True | Err c => c = 400%N \/ c = 404%N | Panic => False end.
Proof.
  intros. unfold dav_propfind, handle_propfind.
  destruct (decode_propfind_request ct bd) as [pf|c|] eqn:D; simpl.
  - pose proof (decode_ok _ _ _ D) as NF.
    destruct dh; simpl; try (left; reflexivity);
      match goal with |- match dav_backend ?t ?p ?pf ?d with _ => _ end =>
        pose proof (dav_backend_status t p pf d NF) as H;
        destruct (dav_backend t p pf d); [exact I | tauto | exact H] end.
  - left. eapply decode_err; eauto.
  - exact (decode_no_panic _ _ D).
Qed.

(** * The principal helper: one response, with the request path, accounted *)
Theorem principal_ok : forall cup homesets path ct bd dh,
  match serve_principal cup homesets path ct bd dh with
  | Ok rs => exists pf r, decode_propfind_request ct bd = Ok pf /\ rs = [r] /\ r_href r = path /\
                          accounted pf (principal_props cup homesets) r
  | Err c => c = 400%N
  | Panic => False
  end.
Proof.
  intros. unfold serve_principal.
  destruct (decode_propfind_request ct bd) as [pf|c|] eqn:D; simpl.
  - pose proof (decode_ok _ _ _ D) as NF.
    pose proof (accounting path pf (principal_props cup homesets)) as A.
    destruct dh; simpl; try reflexivity;
      (destruct (new_propfind_response path pf (principal_props cup homesets)) as [r|c|]; simpl;
       [ exists pf, r; tauto
       | destruct A as [_ FN]; apply form_of_none in FN; congruence
       | exact A ]).
  - eapply decode_err; eauto.
  - exact (decode_no_panic _ _ D).
Qed.
