(** DavClientProofs.v — proofs about DavClient.v (C05). *)
From GW Require Import Base GoPath Fs DavServer DavClient.
Local Open Scope list_scope.
