(** DavClientProofs.v — proofs about DavClient.v (C05). *)
From GW Require Import Base GoPath Fs DavServer DavClient.
Local Open Scope list_scope.

Arguments dec : simpl never.
Arguments parse_size : simpl never.

(** * The round-trip laws of the library codecs (visible hypotheses; property C16
    is about the codecs themselves). *)
Record codec_laws (X : ext) : Prop := {
  (** net/url: a path that is absolute and does not start with "//" is written and
      parsed back unchanged *)
  law_href : forall p, wf_path p = true -> x_href_dec X (x_text X (x_href_enc X p)) = Some p;
  (** strconv: %q output starts with a double quote and Unquote inverts it *)
  law_quote_shape : forall t, exists r, x_text X (x_quote X t) = String """"%char r;
  law_unquote : forall t, x_unquote X (x_text X (x_quote X t)) = Some t;
  (** HTTP dates: an instant of the years 0..9999 comes back truncated to the second *)
  law_time : forall t, wf_time t = true -> is_zero t = false ->
    x_time_parse X (x_text X (x_time_fmt X t)) = Some (to_second t);
  (** encoding/xml leaves decimal digits alone *)
  law_digits : forall z, x_text X (dec_z z) = dec_z z
}.

(** * Reflexivity of the comparison functions *)
Lemma instant_eqb_refl t : instant_eqb t t = true.
Proof. unfold instant_eqb. now rewrite Z.eqb_refl, N.eqb_refl. Qed.

Lemma info_eqb_refl i : info_eqb i i = true.
Proof.
  unfold info_eqb. now rewrite !String.eqb_refl, Z.eqb_refl, instant_eqb_refl, Bool.eqb_reflx.
Qed.

Lemma infos_eqb_refl l : infos_eqb l l = true.
Proof. induction l; simpl; [reflexivity|]. now rewrite info_eqb_refl. Qed.

Lemma call_eqb_refl c : call_eqb c c = true.
Proof. destruct c; simpl; now rewrite ?String.eqb_refl, ?Bool.eqb_reflx. Qed.

Lemma calls_eqb_refl l : calls_eqb l l = true.
Proof. induction l; simpl; [reflexivity|]. now rewrite call_eqb_refl. Qed.

Lemma outcome_eqb_refl o : outcome_eqb o o = true.
Proof.
  destruct o; simpl; auto using info_eqb_refl, infos_eqb_refl, String.eqb_refl, N.eqb_refl.
Qed.

(** * Decimal sizes *)
Lemma digit_char_code d : (d < 10)%N -> N_of_ascii (digit_char d) = (48 + d)%N.
Proof.
  intros H.
  assert (d = 0 \/ d = 1 \/ d = 2 \/ d = 3 \/ d = 4 \/ d = 5 \/ d = 6 \/ d = 7 \/ d = 8 \/ d = 9)%N as C by lia.
  repeat (destruct C as [->|C]; [reflexivity|]). subst; reflexivity.
Qed.

Lemma parse_digits_digit d acc k : (d < 10)%N ->
  parse_digits (String (digit_char d) acc) k = parse_digits acc (k * 10 + d).
Proof.
  intros H. cbn [parse_digits]. rewrite (digit_char_code d H).
  replace (N.leb 48 (48 + d)) with true by (symmetry; apply N.leb_le; lia).
  replace (N.leb (48 + d) 57) with true by (symmetry; apply N.leb_le; lia).
  cbn [andb]. f_equal. lia.
Qed.

Lemma pd_radix fuel : forall n acc, (n < 10 ^ N.of_nat fuel)%N ->
  parse_digits (radix_aux 10 fuel n acc) 0 = parse_digits acc n.
Proof.
  induction fuel as [|f IH]; intros n acc H.
  - cbn in H. assert (n = 0%N) by lia. subst. reflexivity.
  - cbn [radix_aux].
    assert (Hm : (n mod 10 < 10)%N) by (apply N.mod_lt; lia).
    destruct (N.eqb (n / 10) 0) eqn:E.
    + apply N.eqb_eq in E. rewrite parse_digits_digit by exact Hm.
      f_equal. pose proof (N.div_mod n 10 ltac:(lia)). lia.
    + apply N.eqb_neq in E. rewrite IH.
      * rewrite parse_digits_digit by exact Hm. f_equal.
        pose proof (N.div_mod n 10 ltac:(lia)). lia.
      * rewrite Nat2N.inj_succ, N.pow_succ_r' in H.
        apply N.div_lt_upper_bound; lia.
Qed.

Lemma radix_nonempty fuel n acc : radix_aux 10 (S fuel) n acc <> EmptyString.
Proof.
  revert n acc. induction fuel as [|f IH]; intros n acc; cbn [radix_aux].
  - destruct (N.eqb (n / 10) 0); discriminate.
  - destruct (N.eqb (n / 10) 0); [discriminate|]. apply IH.
Qed.

(** every byte [dec] writes is a decimal digit *)
Definition is_digit_b (c : ascii) : Prop := (48 <= N_of_ascii c <= 57)%N.
Fixpoint all_chars (P : ascii -> Prop) (s : string) : Prop :=
  match s with EmptyString => True | String c r => P c /\ all_chars P r end.

Lemma radix_digits fuel : forall n acc, all_chars is_digit_b acc -> all_chars is_digit_b (radix_aux 10 fuel n acc).
Proof.
  induction fuel as [|f IH]; intros n acc H; cbn [radix_aux]; [exact H|].
  assert (Hm : (n mod 10 < 10)%N) by (apply N.mod_lt; lia).
  assert (D : all_chars is_digit_b (String (digit_char (n mod 10)) acc)).
  { split; [|exact H]. unfold is_digit_b. rewrite (digit_char_code _ Hm). revert Hm. generalize (n mod 10)%N. intros; lia. }
  destruct (N.eqb (n / 10) 0); [exact D|apply IH, D].
Qed.

Lemma dec_digits n : all_chars is_digit_b (dec n).
Proof. unfold dec. apply radix_digits. exact I. Qed.

(** a decimal number has no white space to trim *)
Definition plain_b (c : ascii) : Prop := (45 <= N_of_ascii c <= 57)%N.

Lemma all_chars_impl (P Q : ascii -> Prop) s : (forall c, P c -> Q c) -> all_chars P s -> all_chars Q s.
Proof. intros H. induction s as [|c r IH]; cbn; [auto|]. intros [A B]. split; auto. Qed.

Ltac nat_tests :=
  repeat match goal with
         | |- context [N.leb ?a ?b] => destruct (N.leb_spec a b); try lia
         | |- context [N.eqb ?a ?b] => destruct (N.eqb_spec a b); try lia
         end.

Lemma space_prefix_plain c r : plain_b c -> space_prefix (String c r) = None.
Proof.
  unfold plain_b. intros H. cbn [space_prefix]. set (k := N_of_ascii c) in *. clearbody k.
  nat_tests; cbn [andb orb]; destruct r as [|b [|d r2]]; reflexivity.
Qed.

Lemma space_suffix_plain c r : plain_b c -> space_suffix_rev (String c r) = None.
Proof.
  unfold plain_b. intros H. cbn [space_suffix_rev]. set (k := N_of_ascii c) in *. clearbody k.
  nat_tests; cbn [andb orb]; destruct r as [|b [|d r2]]; try reflexivity;
    rewrite ?andb_false_r; cbn [andb orb]; rewrite ?andb_false_r; try reflexivity.
Qed.

Lemma trim_with_none f fuel s : f s = None -> trim_with f fuel s = s.
Proof. intros H. destruct fuel; cbn; [reflexivity|]. now rewrite H. Qed.

Lemma srev_aux_spec s : forall acc, srev_aux s acc = (srev_aux s "" ++ acc)%string.
Proof.
  induction s as [|a r IH]; intros acc; cbn [srev_aux]; [reflexivity|].
  rewrite (IH (String a acc)), (IH (String a "")). clear IH.
  induction (srev_aux r "") as [|x t IHt]; cbn; [reflexivity|]. now rewrite IHt.
Qed.

Lemma str_app_nil (a : string) : (a ++ "" = a)%string.
Proof. induction a as [|x a IH]; cbn; [reflexivity|]. now rewrite IH. Qed.

Lemma srev_app a b : srev (a ++ b) = (srev b ++ srev a)%string.
Proof.
  unfold srev. revert b. induction a as [|x a IH]; intros b; cbn [append srev_aux].
  - now rewrite str_app_nil.
  - rewrite (srev_aux_spec (a ++ b)), (srev_aux_spec a (String x "")), IH.
    clear IH. induction (srev_aux b "") as [|y t IHt]; cbn; [reflexivity|]. now rewrite IHt.
Qed.

Lemma srev_involutive s : srev (srev s) = s.
Proof.
  induction s as [|a r IH]; [reflexivity|].
  change (String a r) with (String a "" ++ r)%string at 1. rewrite srev_app, srev_app, IH. reflexivity.
Qed.

Lemma all_chars_app P a b : all_chars P a -> all_chars P b -> all_chars P (a ++ b).
Proof. induction a as [|x a IH]; cbn; [auto|]. intros [A B] C. split; auto. Qed.

Lemma all_chars_srev P s : all_chars P s -> all_chars P (srev s).
Proof.
  induction s as [|a r IH]; [auto|]. intros [A B].
  change (String a r) with (String a "" ++ r)%string. rewrite srev_app.
  apply all_chars_app; [auto|]. cbn. auto.
Qed.

Lemma trim_space_plain s : all_chars plain_b s -> trim_space s = s.
Proof.
  intros H. unfold trim_space.
  assert (L : trim_with space_prefix (String.length s) s = s).
  { apply trim_with_none. destruct s as [|c r]; [reflexivity|]. apply space_prefix_plain, H. }
  rewrite L.
  assert (R : trim_with space_suffix_rev (String.length s) (srev s) = srev s).
  { apply trim_with_none. pose proof (all_chars_srev _ _ H) as Hr.
    destruct (srev s) as [|c r]; [reflexivity|]. apply space_suffix_plain, Hr. }
  rewrite R. apply srev_involutive.
Qed.

Lemma dec_z_plain z : all_chars plain_b (dec_z z).
Proof.
  unfold dec_z. assert (D : forall n, all_chars plain_b (dec n)).
  { intros n. eapply all_chars_impl; [|apply dec_digits]. unfold is_digit_b, plain_b. intros; lia. }
  destruct (Z.ltb z 0); [split; [unfold plain_b; cbn; lia|apply D]|apply D].
Qed.

Lemma parse_digits_dec n : parse_digits (dec n) 0 = Some n.
Proof.
  unfold dec. rewrite pd_radix; [reflexivity|].
  rewrite Nat2N.inj_succ, N2Nat.id.
  destruct n as [|p]; [cbn; lia|].
  pose proof (N.size_gt (N.pos p)) as G.
  eapply N.lt_le_trans; [exact G|].
  transitivity (10 ^ N.size (N.pos p))%N.
  - apply N.pow_le_mono_l; lia.
  - apply N.pow_le_mono_r; lia.
Qed.

Lemma dec_shape n : exists c r, dec n = String c r /\ is_digit_b c.
Proof.
  pose proof (dec_digits n) as D. unfold dec in *.
  destruct (radix_aux 10 (S (N.to_nat (N.size n))) n "") as [|c r] eqn:R.
  - exfalso. eapply radix_nonempty; eauto.
  - exists c, r. split; [reflexivity|apply D].
Qed.

Lemma parse_int64_dec_z z : (-9223372036854775808 <= z < 9223372036854775808)%Z ->
  parse_int64 (dec_z z) = Some z.
Proof.
  intros H. unfold dec_z. destruct (Z.ltb_spec z 0) as [Hn|Hp].
  - unfold parse_int64. change (Ascii.eqb "-" "+") with false. change (Ascii.eqb "-" "-") with true. cbv iota.
    destruct (dec_shape (Z.to_N (- z))) as (c & r & E & _). rewrite E, <- E, parse_digits_dec.
    replace (N.leb (Z.to_N (- z)) 9223372036854775808) with true by (symmetry; apply N.leb_le; lia).
    f_equal. lia.
  - destruct (dec_shape (Z.to_N z)) as (c & r & E & Dg). unfold parse_int64. rewrite E.
    assert (Ascii.eqb c "+" = false) as ->.
    { apply Ascii.eqb_neq. intros ->. unfold is_digit_b in Dg. cbn in Dg. lia. }
    assert (Ascii.eqb c "-" = false) as ->.
    { apply Ascii.eqb_neq. intros ->. unfold is_digit_b in Dg. cbn in Dg. lia. }
    rewrite <- E, parse_digits_dec.
    replace (N.ltb (Z.to_N z) 9223372036854775808) with true by (symmetry; apply N.ltb_lt; lia).
    f_equal. lia.
Qed.

Lemma parse_size_dec z : (-9223372036854775808 <= z < 9223372036854775808)%Z ->
  parse_size (dec_z z) = Some z.
Proof.
  intros H. unfold parse_size.
  assert (dec_z z <> EmptyString) as Ne.
  { unfold dec_z. destruct (Z.ltb z 0); [discriminate|]. destruct (dec_shape (Z.to_N z)) as (c & r & E & _). now rewrite E. }
  destruct (dec_z z) eqn:E; [congruence|]. rewrite <- E.
  rewrite (trim_space_plain _ (dec_z_plain z)). now apply parse_int64_dec_z.
Qed.

(** * Status classes *)
Lemma not_2xx c : (400 <= c)%N -> N.eqb (c / 100) 2 = false.
Proof.
  intros H. apply N.eqb_neq. assert (4 <= c / 100)%N by (apply N.div_le_lower_bound; lia). lia.
Qed.

Lemma wf_code_status e : wf_code e = true -> (400 <= status_of e)%N.
Proof.
  destruct e; cbn; intros H; try lia.
  apply andb_true_iff in H as [H _]. now apply N.leb_le in H.
Qed.

Lemma client_do_err c : (400 <= c)%N -> client_do (status_resp c) = Err c.
Proof. intros H. unfold client_do. cbn [h_status status_resp]. now rewrite not_2xx. Qed.

(** * What the server writes for a FileInfo, read back by the client *)
Section RoundTrip.
  Variable X : ext.
  Hypothesis L : codec_laws X.

  Definition wire_of (fi : info) : dresp :=
    {| dr_paths := [i_path fi]; dr_status := None;
       dr_propstats := wr_propstats (prop_find_file X file_info_propfind fi) |}.

  Lemma unmarshal_quoted t : unmarshal_etag X (x_text X (x_quote X t)) = Some t.
  Proof.
    destruct (law_quote_shape X L t) as [r Hr].
    unfold unmarshal_etag. pose proof (law_unquote X L t) as U. rewrite Hr in *.
    now rewrite Ascii.eqb_refl.
  Qed.

  Lemma zero_view t : is_zero t = true -> zero_time = to_second t.
  Proof.
    unfold is_zero, to_second, zero_time. intros H. apply andb_true_iff in H as [A _].
    apply Z.eqb_eq in A. now rewrite A.
  Qed.

  Lemma wf_time_nonzero t : wf_time t = true -> is_zero t = false ->
    x_time_parse X (x_text X (x_time_fmt X t)) = Some (to_second t).
  Proof. apply (law_time X L). Qed.

  (** fileInfoFromResponse (propFindFile fi) = view fi *)
  Theorem file_info_roundtrip fi : wf_info X fi = true ->
    file_info_from_response X (wire_of fi) = Ok (view fi).
  Proof.
    intros W. unfold wf_info in W.
    apply andb_true_iff in W as [W Wm]. apply andb_true_iff in W as [W Ws2]. apply andb_true_iff in W as [W Ws1].
    apply andb_true_iff in W as [_ Wt]. apply Z.ltb_lt in Ws2. apply Z.leb_le in Ws1.
    assert (Ws : (-9223372036854775808 <= i_size fi < 9223372036854775808)%Z) by lia.
    unfold file_info_from_response, wire_of, prop_find_file, fi_props, view.
    cbn [wr_propstats dr_paths dr_status dr_propstats].
    destruct (i_dir fi) eqn:D.
    - (* a collection *)
      destruct (is_zero (i_mod fi)) eqn:Z.
      + cbn. now rewrite (zero_view _ Z).
      + cbn. rewrite (wf_time_nonzero _ Wt Z). reflexivity.
    - cbn [orb] in Wm. apply String.eqb_eq in Wm.
      destruct (is_zero (i_mod fi)) eqn:Z;
      destruct (String.eqb (i_mime fi) "") eqn:M; destruct (String.eqb (i_etag fi) "") eqn:E;
      cbn; rewrite ?(law_digits X L), ?(parse_size_dec _ Ws); cbn;
      rewrite ?unmarshal_quoted, ?Wm; cbn;
      rewrite ?(wf_time_nonzero _ Wt Z), <- ?(zero_view _ Z); cbn;
      try (apply String.eqb_eq in M; rewrite M); try (apply String.eqb_eq in E; rewrite E);
      reflexivity.
  Qed.

  Lemma decode_hrefs_one p : wf_path p = true -> decode_hrefs X [x_href_enc X p] = Some [p].
  Proof. intros H. cbn. now rewrite (law_href X L p H). Qed.

  Lemma wf_info_path fi : wf_info X fi = true -> wf_path (i_path fi) = true.
  Proof.
    unfold wf_info. intros W. apply andb_true_iff in W as [W _]. apply andb_true_iff in W as [W _].
    apply andb_true_iff in W as [W _]. now apply andb_true_iff in W as [W _].
  Qed.

  Lemma decode_ms_map l : forallb (wf_info X) l = true ->
    decode_ms X (map (prop_find_file X file_info_propfind) l) = Some (map wire_of l).
  Proof.
    induction l as [|fi l IH]; intros H; [reflexivity|].
    cbn [forallb] in H. apply andb_true_iff in H as [H1 H2].
    cbn [map decode_ms]. rewrite (IH H2).
    unfold prop_find_file at 1. cbn [wr_hrefs wr_status wr_propstats].
    rewrite (decode_hrefs_one _ (wf_info_path _ H1)). reflexivity.
  Qed.

  Lemma infos_of_map l : forallb (wf_info X) l = true ->
    infos_of X (map wire_of l) = Ok (map view l).
  Proof.
    induction l as [|fi l IH]; intros H; [reflexivity|].
    cbn [forallb] in H. apply andb_true_iff in H as [H1 H2].
    cbn [map infos_of]. rewrite (file_info_roundtrip _ H1). cbn [bind].
    rewrite (IH H2). reflexivity.
  Qed.

  Lemma multistatus_roundtrip l : forallb (wf_info X) l = true ->
    do_multistatus X (ms_resp (map (prop_find_file X file_info_propfind) l)) = Ok (map wire_of l).
  Proof.
    intros H. unfold do_multistatus, client_do, ms_resp. cbn [h_status h_ms bind].
    cbn. rewrite (decode_ms_map _ H). reflexivity.
  Qed.

  Variable fs : filesystem.
  Variable ep : string.

  (** the server's answer to the three PROPFIND depths the client uses *)
  Lemma propfind_d0 p fi : fs_stat fs p = FOk fi ->
    srv_propfind X fs p (depth_string D0) file_info_propfind =
    ([CStat p], ms_resp [prop_find_file X file_info_propfind fi]).
  Proof.
    intros S. unfold srv_propfind. cbn [depth_string]. change (String.eqb "0" "") with false.
    change (parse_depth "0") with (Some D0). cbv iota. rewrite S. reflexivity.
  Qed.

  Lemma propfind_file p d fi : fs_stat fs p = FOk fi -> i_dir fi = false ->
    srv_propfind X fs p (depth_string d) file_info_propfind =
    ([CStat p], ms_resp [prop_find_file X file_info_propfind fi]).
  Proof.
    intros S D. unfold srv_propfind.
    destruct d; cbn [depth_string];
      [change (String.eqb "0" "") with false; change (parse_depth "0") with (Some D0)
      |change (String.eqb "1" "") with false; change (parse_depth "1") with (Some D1)
      |change (String.eqb "infinity" "") with false; change (parse_depth "infinity") with (Some DInf)];
      cbv iota; rewrite S, D; rewrite andb_false_r; reflexivity.
  Qed.

  Lemma propfind_dir p (recursive : bool) fi : fs_stat fs p = FOk fi -> i_dir fi = true ->
    srv_propfind X fs p (depth_string (if recursive then DInf else D1)) file_info_propfind =
    match fs_readdir fs p recursive with
    | FErr e => ([CStat p; CReadDir p recursive], err_resp e)
    | FOk l => ([CStat p; CReadDir p recursive], ms_resp (map (prop_find_file X file_info_propfind) l))
    end.
  Proof.
    intros S D. unfold srv_propfind.
    destruct recursive; cbn [depth_string];
      [change (String.eqb "infinity" "") with false; change (parse_depth "infinity") with (Some DInf)
      |change (String.eqb "1" "") with false; change (parse_depth "1") with (Some D1)];
      cbv iota; rewrite S, D; cbn [depth_eqb negb andb]; reflexivity.
  Qed.

  Lemma propfind_err p d e : fs_stat fs p = FErr e ->
    srv_propfind X fs p (depth_string d) file_info_propfind = ([CStat p], err_resp e).
  Proof.
    intros S. unfold srv_propfind.
    destruct d; cbn [depth_string];
      [change (String.eqb "0" "") with false; change (parse_depth "0") with (Some D0)
      |change (String.eqb "1" "") with false; change (parse_depth "1") with (Some D1)
      |change (String.eqb "infinity" "") with false; change (parse_depth "infinity") with (Some DInf)];
      cbv iota; rewrite S; reflexivity.
  Qed.

  Lemma multistatus_err e : wf_code e = true -> do_multistatus X (err_resp e) = Err (status_of e).
  Proof.
    intros W. unfold do_multistatus, err_resp. rewrite (client_do_err _ (wf_code_status _ W)). reflexivity.
  Qed.

  Lemma one_roundtrip fi : wf_info X fi = true ->
    do_multistatus X (ms_resp [prop_find_file X file_info_propfind fi]) = Ok [wire_of fi].
  Proof.
    intros W. assert (W1 : forallb (wf_info X) [fi] = true) by (cbn [forallb]; now rewrite W).
    exact (multistatus_roundtrip [fi] W1).
  Qed.

  (** ** Stat *)
  Theorem stat_roundtrip name fi :
    fs_stat fs (resolve_href ep name) = FOk fi -> wf_info X fi = true ->
    client_stat X fs ep name = ([CStat (resolve_href ep name)], OInfo (view fi)).
  Proof.
    intros S W. unfold client_stat. rewrite (propfind_d0 _ _ S), (one_roundtrip _ W).
    cbn [bind]. rewrite (file_info_roundtrip _ W). reflexivity.
  Qed.

  Theorem stat_error name e :
    fs_stat fs (resolve_href ep name) = FErr e -> wf_code e = true ->
    client_stat X fs ep name = ([CStat (resolve_href ep name)], OErr (status_of e)).
  Proof.
    intros S W. unfold client_stat. rewrite (propfind_err _ D0 _ S), (multistatus_err _ W). reflexivity.
  Qed.

  (** ** ReadDir *)
  Theorem readdir_roundtrip name recursive fi l :
    let p := resolve_href ep name in
    fs_stat fs p = FOk fi -> i_dir fi = true -> fs_readdir fs p recursive = FOk l ->
    forallb (wf_info X) l = true ->
    client_readdir X fs ep name recursive = ([CStat p; CReadDir p recursive], OList (map view l)).
  Proof.
    intros p S D R W. unfold client_readdir. fold p. rewrite (propfind_dir _ _ _ S D), R.
    rewrite (multistatus_roundtrip _ W). cbn [bind]. rewrite (infos_of_map _ W). reflexivity.
  Qed.

  Theorem readdir_of_file name recursive fi :
    let p := resolve_href ep name in
    fs_stat fs p = FOk fi -> i_dir fi = false -> wf_info X fi = true ->
    client_readdir X fs ep name recursive = ([CStat p], OList [view fi]).
  Proof.
    intros p S D W. unfold client_readdir. fold p. rewrite (propfind_file _ _ _ S D), (one_roundtrip _ W).
    cbn [bind infos_of]. rewrite (file_info_roundtrip _ W). reflexivity.
  Qed.

  Theorem readdir_stat_error name recursive e :
    fs_stat fs (resolve_href ep name) = FErr e -> wf_code e = true ->
    client_readdir X fs ep name recursive = ([CStat (resolve_href ep name)], OErr (status_of e)).
  Proof.
    intros S W. unfold client_readdir. rewrite (propfind_err _ _ _ S), (multistatus_err _ W). reflexivity.
  Qed.

  Theorem readdir_list_error name recursive fi e :
    let p := resolve_href ep name in
    fs_stat fs p = FOk fi -> i_dir fi = true -> fs_readdir fs p recursive = FErr e -> wf_code e = true ->
    client_readdir X fs ep name recursive = ([CStat p; CReadDir p recursive], OErr (status_of e)).
  Proof.
    intros p S D R W. unfold client_readdir. fold p. rewrite (propfind_dir _ _ _ S D), R, (multistatus_err _ W).
    reflexivity.
  Qed.
End RoundTrip.

(** * Open, Create, RemoveAll, Mkdir, Copy, Move: no codec involved *)
Section Plain.
  Variable fs : filesystem.
  Variable ep : string.

  Theorem open_bytes name fi b :
    let p := resolve_href ep name in
    fs_stat fs p = FOk fi -> i_dir fi = false -> fs_open fs p = FOk b ->
    client_open fs ep name = ([CStat p; COpen p], OBytes b).
  Proof. intros p S D O. unfold client_open, srv_get. fold p. rewrite S, D, O. reflexivity. Qed.

  Theorem open_collection name fi :
    let p := resolve_href ep name in
    fs_stat fs p = FOk fi -> i_dir fi = true ->
    client_open fs ep name = ([CStat p], OErr 405).
  Proof. intros p S D. unfold client_open, srv_get. fold p. rewrite S, D. reflexivity. Qed.

  Theorem open_stat_error name e :
    let p := resolve_href ep name in
    fs_stat fs p = FErr e -> wf_code e = true ->
    client_open fs ep name = ([CStat p], OErr (status_of e)).
  Proof.
    intros p S W. unfold client_open, srv_get. fold p. rewrite S. unfold err_resp.
    rewrite (client_do_err _ (wf_code_status _ W)). reflexivity.
  Qed.

  Theorem open_error name fi e :
    let p := resolve_href ep name in
    fs_stat fs p = FOk fi -> i_dir fi = false -> fs_open fs p = FErr e -> wf_code e = true ->
    client_open fs ep name = ([CStat p; COpen p], OErr (status_of e)).
  Proof.
    intros p S D O W. unfold client_open, srv_get. fold p. rewrite S, D, O. unfold err_resp.
    rewrite (client_do_err _ (wf_code_status _ W)). reflexivity.
  Qed.

  (** the bytes written through Create, in order, are the body the backend is given,
      for exactly the resolved name and without conditions *)
  Theorem create_call name chunks :
    fst (client_create fs ep name chunks) = [CCreate (resolve_href ep name) (String.concat "" chunks) "" ""].
  Proof. reflexivity. Qed.

  Theorem remove_all_call name :
    fst (client_remove_all fs ep name) = [CRemoveAll (resolve_href ep name) "" ""].
  Proof. reflexivity. Qed.

  Theorem mkdir_call name : fst (client_mkdir fs ep name) = [CMkdir (resolve_href ep name)].
  Proof. reflexivity. Qed.

  (** Overwrite and Depth survive format/parse, and the two negations cancel *)
  Theorem copy_call name dest nr no :
    fst (client_copy fs ep name dest nr no) = [CCopy (resolve_href ep name) (resolve_href ep dest) nr no].
  Proof. destruct nr, no; reflexivity. Qed.

  Theorem move_call name dest no :
    fst (client_move fs ep name dest no) = [CMove (resolve_href ep name) (resolve_href ep dest) no].
  Proof. destruct no; reflexivity. Qed.

  (** success of the backend call <-> success of the client call *)
  Lemma done_of_status {A} (r : fsres A) (resp : hresp) :
    (forall a, r = FOk a -> N.eqb (h_status resp / 100) 2 = true) ->
    (forall e, r = FErr e -> (400 <= h_status resp)%N) ->
    done_matches r (out_of (fun _ => ODone) (client_do resp)) = true.
  Proof.
    intros Hok Herr. unfold client_do. destruct r as [a|e].
    - rewrite (Hok a eq_refl). reflexivity.
    - rewrite (not_2xx _ (Herr e eq_refl)). reflexivity.
  Qed.

  Lemma created_resp_ok (r : fsres bool) :
    (forall e, r = FErr e -> wf_code e = true) ->
    done_matches r (out_of (fun _ => ODone) (client_do (created_resp r))) = true.
  Proof.
    intros W. apply done_of_status.
    - intros a ->. cbn. now destruct a.
    - intros e ->. specialize (W e eq_refl). destruct e; cbn; try lia.
      apply (wf_code_status (EHttp c) W).
  Qed.
End Plain.

(** * Addressing: the path requested is the clean join of endpoint path and name *)
Lemma endpoint_path_nonempty u : endpoint_path u <> "".
Proof. unfold endpoint_path. destruct (String.eqb u "") eqn:E; [discriminate|]. now apply String.eqb_neq in E. Qed.

Theorem resolve_is_target ep name : ep <> "" -> resolve_href ep name = spec_target ep name.
Proof.
  intros H. unfold resolve_href, spec_target, join2.
  destruct (is_abs name); [reflexivity|].
  apply String.eqb_neq in H. now rewrite H.
Qed.

(** * The model meets the specification, for every backend and every call *)
Section Master.
  Variable X : ext.
  Hypothesis L : codec_laws X.
  Variable fs : filesystem.
  Variable ep : string.
  Hypothesis Hep : ep <> "".

  Ltac tgt := rewrite <- !(resolve_is_target ep _ Hep).

  Lemma err_out e : wf_code e = true ->
    out_is_err (out_of (fun _ : hresp => ODone) (client_do (err_resp e))) = true.
  Proof. intros W. unfold err_resp. now rewrite (client_do_err _ (wf_code_status _ W)). Qed.

  Theorem model_meets_spec_exact o :
    let '(calls, out) := run_op X fs ep o in spec_exact X fs ep o calls out = true.
  Proof.
    destruct o as [n|n r|n|n ch|n|n|n d nr no|n d no]; cbn [run_op].
    - (* Stat *)
      unfold spec_exact. tgt. destruct (fs_stat fs (resolve_href ep n)) as [fi|e] eqn:S.
      + destruct (wf_info X fi) eqn:W.
        * rewrite (stat_roundtrip X L fs ep n fi S W). apply outcome_eqb_refl.
        * now destruct (client_stat X fs ep n).
      + destruct (wf_code e) eqn:W.
        * rewrite (stat_error X fs ep n e S W). reflexivity.
        * now destruct (client_stat X fs ep n).
    - (* ReadDir *)
      unfold spec_exact. tgt. destruct (fs_stat fs (resolve_href ep n)) as [fi|e] eqn:S.
      + destruct (i_dir fi) eqn:D.
        * destruct (fs_readdir fs (resolve_href ep n) r) as [l|e] eqn:R.
          -- destruct (forallb (wf_info X) l) eqn:W.
             ++ rewrite (readdir_roundtrip X L fs ep n r fi l S D R W).
                now rewrite outcome_eqb_refl, calls_eqb_refl.
             ++ now destruct (client_readdir X fs ep n r).
          -- destruct (wf_code e) eqn:W.
             ++ rewrite (readdir_list_error X fs ep n r fi e S D R W). reflexivity.
             ++ now destruct (client_readdir X fs ep n r).
        * destruct (wf_info X fi) eqn:W.
          -- rewrite (readdir_of_file X L fs ep n r fi S D W). apply outcome_eqb_refl.
          -- now destruct (client_readdir X fs ep n r).
      + destruct (wf_code e) eqn:W.
        * rewrite (readdir_stat_error X fs ep n r e S W). reflexivity.
        * now destruct (client_readdir X fs ep n r).
    - (* Open *)
      unfold spec_exact. tgt. destruct (fs_stat fs (resolve_href ep n)) as [fi|e] eqn:S.
      + destruct (i_dir fi) eqn:D.
        * rewrite (open_collection fs ep n fi S D). reflexivity.
        * destruct (fs_open fs (resolve_href ep n)) as [b|e] eqn:O.
          -- rewrite (open_bytes fs ep n fi b S D O).
             destruct (Z.eqb (i_size fi) (Z.of_N (strlen b)) && header_safe (i_mime fi)); [apply outcome_eqb_refl|reflexivity].
          -- destruct (wf_code e) eqn:W.
             ++ rewrite (open_error fs ep n fi e S D O W). reflexivity.
             ++ now destruct (client_open fs ep n).
      + destruct (wf_code e) eqn:W.
        * rewrite (open_stat_error fs ep n e S W). reflexivity.
        * now destruct (client_open fs ep n).
    - (* Create *)
      unfold spec_exact, client_create, srv_put. tgt. rewrite calls_eqb_refl. cbn [andb].
      destruct (fs_create fs (resolve_href ep n) (String.concat "" ch)) as [c|e] eqn:C.
      + now destruct c.
      + destruct (wf_code e) eqn:W; [|reflexivity]. now apply err_out.
    - (* RemoveAll *)
      unfold spec_exact, client_remove_all, srv_delete. tgt. rewrite calls_eqb_refl. cbn [andb].
      destruct (fs_remove_all fs (resolve_href ep n)) as [c|e] eqn:C; [reflexivity|].
      destruct (wf_code e) eqn:W; [|reflexivity]. now apply err_out.
    - (* Mkdir *)
      unfold spec_exact, client_mkdir, srv_mkcol. tgt. cbn [String.eqb negb]. rewrite calls_eqb_refl. cbn [andb].
      destruct (fs_mkdir fs (resolve_href ep n)) as [c|e] eqn:C; [reflexivity|].
      destruct (wf_code e) eqn:W; [|reflexivity].
      destruct (is_not_found e); [reflexivity|]. now apply err_out.
    - (* Copy *)
      unfold spec_exact. tgt.
      pose proof (copy_call fs ep n d nr no) as CC.
      destruct (client_copy fs ep n d nr no) as [calls out] eqn:E. cbn [fst] in CC. subst calls.
      rewrite calls_eqb_refl. cbn [andb].
      assert (out = out_of (fun _ => ODone) (client_do (created_resp (fs_copy fs (resolve_href ep n) (resolve_href ep d) nr no)))) as ->.
      { unfold client_copy in E. destruct nr, no; cbn in E; inversion E; reflexivity. }
      destruct (fs_copy fs (resolve_href ep n) (resolve_href ep d) nr no) as [c|e] eqn:C.
      * now destruct c.
      * destruct (wf_code e) eqn:W; [|reflexivity].
        pose proof (created_resp_ok (FErr e) ltac:(intros e' H; inversion H; subst; exact W)) as Dn.
        cbn [done_matches] in Dn. destruct (out_of _ _); try discriminate; reflexivity.
    - (* Move *)
      unfold spec_exact. tgt.
      pose proof (move_call fs ep n d no) as CC.
      destruct (client_move fs ep n d no) as [calls out] eqn:E. cbn [fst] in CC. subst calls.
      rewrite calls_eqb_refl. cbn [andb].
      assert (out = out_of (fun _ => ODone) (client_do (created_resp (fs_move fs (resolve_href ep n) (resolve_href ep d) no)))) as ->.
      { unfold client_move in E. destruct no; cbn in E; inversion E; reflexivity. }
      destruct (fs_move fs (resolve_href ep n) (resolve_href ep d) no) as [c|e] eqn:C.
      * now destruct c.
      * destruct (wf_code e) eqn:W; [|reflexivity].
        pose proof (created_resp_ok (FErr e) ltac:(intros e' H; inversion H; subst; exact W)) as Dn.
        cbn [done_matches] in Dn. destruct (out_of _ _); try discriminate; reflexivity.
  Qed.

  (** the strict reading implies the outcome clause, whatever the calls *)
  Lemma spec_exact_outcome o calls out :
    spec_exact X fs ep o calls out = true -> outcome_ok X fs ep o out = true.
  Proof.
    destruct o as [n|n r|n|n ch|n|n|n d nr no|n d no]; unfold spec_exact, outcome_ok; intros H;
      try exact H; try (apply andb_true_iff in H as [_ H]; exact H).
    destruct (fs_stat fs (spec_target ep n)) as [fi|e]; [|exact H].
    destruct (i_dir fi); [|exact H].
    destruct (fs_readdir fs (spec_target ep n) r) as [l|e]; [|exact H].
    destruct (forallb (wf_info X) l); [|reflexivity]. now apply andb_true_iff in H as [H _].
  Qed.

  Lemma calls_ok_reads p : calls_ok [p] [] [CStat p] = true /\
    (forall r, calls_ok [p] [] [CStat p; CReadDir p r] = true) /\ calls_ok [p] [] [CStat p; COpen p] = true.
  Proof. unfold calls_ok. cbn. rewrite String.eqb_refl. auto. Qed.

  Lemma calls_ok_one names c : is_mutating c = true -> calls_ok names [c] [c] = true.
  Proof. intros M. unfold calls_ok. cbn. rewrite M. cbn. now rewrite call_eqb_refl. Qed.

  (** the calls the model makes are acceptable *)
  Lemma model_calls_ok o :
    calls_ok (referred_names ep o) (expected_mutations ep o) (fst (run_op X fs ep o)) = true.
  Proof.
    destruct o as [n|n r|n|n ch|n|n|n d nr no|n d no]; cbn [run_op referred_names expected_mutations]; tgt.
    - unfold client_stat. destruct (fs_stat fs (resolve_href ep n)) as [fi|e] eqn:S.
      + rewrite (propfind_d0 X fs _ fi S). apply calls_ok_reads.
      + rewrite (propfind_err X fs _ D0 e S). apply calls_ok_reads.
    - unfold client_readdir. destruct (fs_stat fs (resolve_href ep n)) as [fi|e] eqn:S.
      + destruct (i_dir fi) eqn:D.
        * rewrite (propfind_dir X fs _ r fi S D).
          destruct (fs_readdir fs (resolve_href ep n) r); apply calls_ok_reads.
        * rewrite (propfind_file X fs _ _ fi S D). apply calls_ok_reads.
      + rewrite (propfind_err X fs _ _ e S). apply calls_ok_reads.
    - unfold client_open, srv_get. destruct (fs_stat fs (resolve_href ep n)) as [fi|e]; [|apply calls_ok_reads].
      destruct (i_dir fi); [apply calls_ok_reads|]. destruct (fs_open fs (resolve_href ep n)); apply calls_ok_reads.
    - rewrite create_call. now apply calls_ok_one.
    - rewrite remove_all_call. now apply calls_ok_one.
    - rewrite mkdir_call. now apply calls_ok_one.
    - rewrite copy_call. now apply calls_ok_one.
    - rewrite move_call. now apply calls_ok_one.
  Qed.

  (** the model meets the specification *)
  Theorem model_meets_spec o :
    let '(calls, out) := run_op X fs ep o in spec_ok X fs ep o calls out = true.
  Proof.
    pose proof (model_meets_spec_exact o) as E. pose proof (model_calls_ok o) as C.
    destruct (run_op X fs ep o) as [calls out]. cbn [fst] in C. unfold spec_ok.
    now rewrite C, (spec_exact_outcome o calls out E).
  Qed.
End Master.

(** ** What the specification tolerates and what it does not *)

(** a read-only call naming a resource the request refers to may be added anywhere *)
Theorem calls_ok_extra_read names expected l1 l2 c :
  is_mutating c = false -> name_in (read_name c) names = true ->
  calls_ok names expected (l1 ++ l2) = true -> calls_ok names expected (l1 ++ c :: l2) = true.
Proof.
  unfold calls_ok. intros M N H. apply andb_true_iff in H as [H1 H2].
  rewrite filter_app in *. cbn [filter]. rewrite M, H1. cbn [andb].
  rewrite forallb_app in *. cbn [forallb]. apply andb_true_iff in H2 as [A B]. now rewrite A, B, N, orb_true_r.
Qed.

(** ... but one naming anything else is refused, *)
Theorem calls_ok_foreign_read names expected l1 l2 c :
  is_mutating c = false -> name_in (read_name c) names = false ->
  calls_ok names expected (l1 ++ c :: l2) = false.
Proof.
  unfold calls_ok. intros M N. apply andb_false_iff. right.
  rewrite forallb_app. cbn [forallb]. rewrite M, N. cbn. now rewrite andb_false_r.
Qed.

(** ... and the mutating calls are exactly the expected ones, in order *)
Theorem calls_ok_mutations names expected calls :
  calls_ok names expected calls = true -> calls_eqb (filter is_mutating calls) expected = true.
Proof. unfold calls_ok. intros H. now apply andb_true_iff in H as [H _]. Qed.


(** * LocalFileSystem on a tree: what ReadDir lists *)

(** ** Names and the paths written for them *)
Definition name_ok (s : string) : bool := proper_seg s && negb (has_char nul s).

Lemma name_ok_proper s : name_ok s = true -> proper_seg s = true.
Proof. unfold name_ok. intros H. now apply andb_true_iff in H as [H _]. Qed.

Lemma proper_noslash s : proper_seg s = true -> has_char slash s = false.
Proof.
  unfold proper_seg. intros H. apply andb_true_iff in H as [_ H]. now apply negb_true_iff in H.
Qed.

Lemma proper_plain s : proper_seg s = true ->
  String.eqb s "" = false /\ String.eqb s "." = false /\ String.eqb s ".." = false.
Proof.
  unfold proper_seg. intros H. apply andb_true_iff in H as [H _]. apply andb_true_iff in H as [H H3].
  apply andb_true_iff in H as [H1 H2]. now rewrite negb_true_iff in *.
Qed.

Lemma has_char_app c a b : has_char c (a ++ b) = has_char c a || has_char c b.
Proof. induction a as [|x a IH]; cbn; [reflexivity|]. now rewrite IH, orb_assoc. Qed.

Lemma str_app_assoc (a b c : string) : ((a ++ b) ++ c = a ++ (b ++ c))%string.
Proof. induction a as [|x a IH]; cbn; [reflexivity|]. now rewrite IH. Qed.

Lemma str_app_nil_r (a : string) : (a ++ "" = a)%string.
Proof. induction a as [|x a IH]; cbn; [reflexivity|]. now rewrite IH. Qed.

Lemma split_aux_noslash s : forall cur, has_char slash s = false -> split_slash_aux s cur = [(cur ++ s)%string].
Proof.
  induction s as [|a r IH]; intros cur H; cbn.
  - now rewrite str_app_nil_r.
  - cbn in H. apply orb_false_iff in H as [H1 H2]. rewrite H1, (IH _ H2).
    now rewrite str_app_assoc.
Qed.

Lemma split_aux_app s r : forall cur, has_char slash s = false ->
  split_slash_aux (s ++ String slash r) cur = (cur ++ s)%string :: split_slash_aux r "".
Proof.
  induction s as [|a s IH]; intros cur H; cbn.
  - now rewrite str_app_nil_r.
  - cbn in H. apply orb_false_iff in H as [H1 H2]. rewrite H1, (IH _ H2).
    now rewrite str_app_assoc.
Qed.

Lemma split_join q : q <> [] -> Forall (fun x => has_char slash x = false) q ->
  split_slash_aux (join_slash q) "" = q.
Proof.
  induction q as [|x q IH]; intros Hne H; [congruence|].
  inversion H as [|? ? Hx Hq]; subst.
  destruct q as [|y q].
  - cbn [join_slash]. now rewrite split_aux_noslash.
  - change (join_slash (x :: y :: q)) with (x ++ String slash (join_slash (y :: q)))%string.
    rewrite split_aux_app by exact Hx. cbn [append]. f_equal. apply IH; [discriminate|exact Hq].
Qed.

Lemma clean_stack_id q : forall stack, Forall (fun x => proper_seg x = true) q ->
  clean_stack true q stack = rev stack ++ q.
Proof.
  induction q as [|x q IH]; intros stack H; cbn [clean_stack].
  - now rewrite app_nil_r.
  - inversion H as [|? ? Hx Hq]; subst. destruct (proper_plain _ Hx) as (E1 & E2 & E3).
    rewrite E1, E2, E3. cbn [orb]. rewrite (IH _ Hq). cbn [rev]. now rewrite <- app_assoc.
Qed.

Lemma Forall_name_proper q : Forall (fun x => name_ok x = true) q -> Forall (fun x => proper_seg x = true) q.
Proof. apply Forall_impl. exact name_ok_proper. Qed.

Lemma Forall_name_noslash q : Forall (fun x => name_ok x = true) q -> Forall (fun x => has_char slash x = false) q.
Proof. apply Forall_impl. intros a H. apply proper_noslash, name_ok_proper, H. Qed.

Lemma clean_segs_external q : Forall (fun x => name_ok x = true) q -> clean_segs (external_path q) = q.
Proof.
  intros H. unfold clean_segs, external_path, split_slash.
  destruct q as [|x q].
  - reflexivity.
  - change ("/" ++ join_slash (x :: q))%string with (String slash (join_slash (x :: q))).
    cbn [split_slash_aux]. rewrite Ascii.eqb_refl.
    rewrite split_join; [|discriminate|apply Forall_name_noslash, H].
    change (clean_stack true ("" :: x :: q) []) with (clean_stack true (x :: q) []).
    rewrite clean_stack_id by (apply Forall_name_proper, H). reflexivity.
Qed.

Lemma join_no_nul q : Forall (fun x => name_ok x = true) q -> has_char nul (join_slash q) = false.
Proof.
  induction q as [|x q IH]; intros H; [reflexivity|].
  inversion H as [|? ? Hx Hq]; subst.
  assert (Nx : has_char nul x = false).
  { unfold name_ok in Hx. apply andb_true_iff in Hx as [_ Hx]. now apply negb_true_iff in Hx. }
  destruct q as [|y q]; [exact Nx|].
  change (join_slash (x :: y :: q)) with (x ++ String slash (join_slash (y :: q)))%string.
  rewrite has_char_app, Nx. cbn [has_char orb]. rewrite (IH Hq). reflexivity.
Qed.

Theorem local_segs_external q : Forall (fun x => name_ok x = true) q -> local_segs (external_path q) = Ok q.
Proof.
  intros H. unfold local_segs.
  assert (N : has_char nul (external_path q) = false).
  { unfold external_path. change ("/" ++ join_slash q)%string with (String slash (join_slash q)).
    cbn [has_char]. rewrite (join_no_nul _ H). reflexivity. }
  rewrite N. rewrite (clean_segs_external _ H).
  unfold external_path. change ("/" ++ join_slash q)%string with (String slash (join_slash q)).
  unfold clean. cbn [is_abs]. rewrite Ascii.eqb_refl. reflexivity.
Qed.

Lemma external_path_inj q q' :
  Forall (fun x => name_ok x = true) q -> Forall (fun x => name_ok x = true) q' ->
  external_path q = external_path q' -> q = q'.
Proof.
  intros H H' E. pose proof (local_segs_external _ H) as A. rewrite E, (local_segs_external _ H') in A.
  now inversion A.
Qed.

Lemma wf_path_external q : Forall (fun x => name_ok x = true) q -> wf_path (external_path q) = true.
Proof.
  intros H. unfold wf_path, external_path.
  change ("/" ++ join_slash q)%string with (String slash (join_slash q)).
  cbn [is_abs]. rewrite Ascii.eqb_refl. cbn [andb].
  destruct q as [|x q]; [reflexivity|].
  inversion H as [|? ? Hx Hq]; subst.
  pose proof (proper_noslash _ (name_ok_proper _ Hx)) as Ns.
  destruct (proper_plain _ (name_ok_proper _ Hx)) as (E1 & _ & _).
  destruct x as [|a x]; [discriminate|]. cbn in Ns. apply orb_false_iff in Ns as [Na _].
  assert (J : exists r, join_slash (String a x :: q) = String a r).
  { destruct q; cbn [join_slash append]; eauto. }
  destruct J as [r ->]. cbn [starts_with_2slash]. rewrite Ascii.eqb_refl, Na. reflexivity.
Qed.

(** ** Trees *)
Section NodeInd.
  Variable P : node -> Prop.
  Hypothesis Hf : forall c m, P (File c m).
  Hypothesis Hd : forall ch, Forall (fun kv => P (snd kv)) ch -> P (Dir ch).
  Fixpoint node_ind' (n : node) : P n :=
    match n with
    | File c m => Hf c m
    | Dir ch =>
      Hd ch ((fix go (l : list (string * node)) : Forall (fun kv => P (snd kv)) l :=
                match l with
                | [] => Forall_nil _
                | (k, c) :: r => Forall_cons (k, c) (node_ind' c) (go r)
                end) ch)
    end.
End NodeInd.

Definition big : N := 9223372036854775808.

(** Well-formed: names are directory-entry names, unique in their directory; sizes
    and modification times (ns) are int64 values. *)
Inductive wf_node : node -> Prop :=
| wf_file c m : (strlen c < big)%N -> (m < big)%N -> wf_node (File c m)
| wf_dir ch : NoDup (map fst ch) ->
              (forall k c, In (k, c) ch -> name_ok k = true /\ wf_node c) -> wf_node (Dir ch).

Definition walk_kids (rel : path) (ch : list (string * node)) : list (path * node) :=
  flat_map (fun kc => walk (snd kc) (rel ++ [fst kc])) ch.

Lemma walk_dir ch rel : walk (Dir ch) rel = (rel, Dir ch) :: walk_kids rel ch.
Proof.
  cbn [walk]. f_equal. unfold walk_kids.
  induction ch as [|[k c] r IH]; [reflexivity|]. cbn [flat_map fst snd]. now rewrite <- IH.
Qed.

Lemma assoc_In k c ch : assoc k ch = Some c -> In (k, c) ch.
Proof.
  induction ch as [|[k' v] r IH]; cbn; [discriminate|].
  destruct (String.eqb k' k) eqn:E.
  - intros H. inversion H; subst. apply String.eqb_eq in E. subst. now left.
  - intros H. right. now apply IH.
Qed.

Lemma In_assoc k c ch : NoDup (map fst ch) -> In (k, c) ch -> assoc k ch = Some c.
Proof.
  induction ch as [|[k' v] r IH]; intros ND H; [destruct H|].
  cbn [map fst] in ND. inversion ND as [|? ? Hn ND']; subst. cbn [assoc].
  destruct H as [H|H].
  - inversion H; subst. now rewrite String.eqb_refl.
  - destruct (String.eqb k' k) eqn:E.
    + apply String.eqb_eq in E. subst. exfalso. apply Hn. apply (in_map fst) in H. exact H.
    + now apply IH.
Qed.

(** everything walk lists is mapped, below [rel], under well-formed names *)
Lemma walk_sound n : forall rel q n', wf_node n -> In (q, n') (walk n rel) ->
  exists suf, q = rel ++ suf /\ geto (Some n) suf = Some n' /\
              Forall (fun x => name_ok x = true) suf /\ wf_node n'.
Proof.
  induction n as [c m|ch IH] using node_ind'; intros rel q n' W H.
  - cbn in H. destruct H as [H|[]]. inversion H; subst. exists []. rewrite app_nil_r. repeat split; auto.
  - rewrite walk_dir in H. destruct H as [H|H].
    + inversion H; subst. exists []. rewrite app_nil_r. repeat split; auto.
    + unfold walk_kids in H. apply in_flat_map in H as [[k c] [Hin Hw]]. cbn [fst snd] in Hw.
      inversion W as [|? ND Hch]; subst.
      destruct (Hch k c Hin) as [Hk Hc].
      rewrite Forall_forall in IH. specialize (IH (k, c) Hin). cbn [snd] in IH.
      destruct (IH _ _ _ Hc Hw) as (suf & -> & G & F & Wn).
      exists (k :: suf). rewrite <- app_assoc. repeat split; auto.
      cbn [geto]. now rewrite (In_assoc _ _ _ ND Hin).
Qed.

Lemma geto_None_local p : geto None p = None. Proof. now destruct p. Qed.

(** everything mapped is listed *)
Lemma walk_complete suf : forall n rel n', geto (Some n) suf = Some n' -> In (rel ++ suf, n') (walk n rel).
Proof.
  induction suf as [|k suf IH]; intros n rel n' G.
  - cbn in G. inversion G; subst. rewrite app_nil_r. destruct n'; [cbn; now left|rewrite walk_dir; now left].
  - destruct n as [c m|ch]; [discriminate|]. cbn [geto] in G.
    destruct (assoc k ch) as [c|] eqn:A; [|now rewrite geto_None_local in G].
    rewrite walk_dir. right. unfold walk_kids. apply in_flat_map. exists (k, c). split; [now apply assoc_In|].
    cbn [fst snd]. replace (rel ++ k :: suf) with ((rel ++ [k]) ++ suf) by now rewrite <- app_assoc.
    now apply IH.
Qed.

Lemma walk_paths_prefix n : forall rel q, In q (map fst (walk n rel)) -> exists suf, q = rel ++ suf.
Proof.
  induction n as [c m|ch IH] using node_ind'; intros rel q H.
  - cbn in H. destruct H as [H|[]]. subst. exists []. now rewrite app_nil_r.
  - rewrite walk_dir in H. cbn [map fst] in H. destruct H as [H|H].
    + subst. exists []. now rewrite app_nil_r.
    + unfold walk_kids in H. rewrite in_map_iff in H. destruct H as [[q' n'] [E H]]. cbn [fst] in E. subst q'.
      apply in_flat_map in H as [[k c] [Hin Hw]]. cbn [fst snd] in Hw.
      rewrite Forall_forall in IH. specialize (IH (k, c) Hin). cbn [snd] in IH.
      destruct (IH (rel ++ [k]) q) as [suf ->]; [apply (in_map fst) in Hw; exact Hw|].
      exists (k :: suf). now rewrite <- app_assoc.
Qed.

Lemma map_flat_map {A B C} (f : B -> C) (g : A -> list B) l :
  map f (flat_map g l) = flat_map (fun a => map f (g a)) l.
Proof. induction l; cbn; [reflexivity|]. now rewrite map_app, IHl. Qed.

Lemma NoDup_app_intro {A} (l1 l2 : list A) :
  NoDup l1 -> NoDup l2 -> (forall x, In x l1 -> In x l2 -> False) -> NoDup (l1 ++ l2).
Proof.
  induction l1 as [|a l1 IH]; intros N1 N2 D; [exact N2|].
  inversion N1 as [|? ? Ha N1']; subst. cbn. constructor.
  - rewrite in_app_iff. intros [H|H]; [now apply Ha|]. apply (D a); [now left|exact H].
  - apply IH; auto. intros x H1 H2. apply (D x); [now right|exact H2].
Qed.

(** each path once *)
Lemma walk_nodup n : forall rel, wf_node n -> NoDup (map fst (walk n rel)).
Proof.
  induction n as [c m|ch IH] using node_ind'; intros rel W.
  - cbn. constructor; [intros []|constructor].
  - rewrite walk_dir. cbn [map fst]. inversion W as [|? ND Hch]; subst. constructor.
    + (* rel itself is not below one of its members *)
      intros H. unfold walk_kids in H. rewrite map_flat_map in H. apply in_flat_map in H as [[k c] [Hin Hw]].
      cbn [fst snd] in Hw. apply walk_paths_prefix in Hw as [suf E].
      rewrite <- app_assoc in E. apply (f_equal (@List.length _)) in E. rewrite app_length in E. cbn in E. lia.
    + unfold walk_kids. rewrite map_flat_map.
      clear W. induction ch as [|[k c] r IHr]; [constructor|].
      cbn [flat_map fst snd]. cbn [map fst] in ND. inversion ND as [|? ? Hn ND']; subst.
      inversion IH as [|? ? IHc IHrest]; subst. cbn [snd] in IHc.
      apply NoDup_app_intro.
      * apply IHc. apply (Hch k c). now left.
      * apply IHr; auto. intros k' c' Hin. apply Hch. now right.
      * intros q H1 H2. apply walk_paths_prefix in H1 as [s1 E1].
        apply in_flat_map in H2 as [[k' c'] [Hin Hw]]. cbn [fst snd] in Hw.
        apply walk_paths_prefix in Hw as [s2 E2]. subst q.
        rewrite <- !app_assoc in E2. apply app_inv_head in E2. cbn in E2. inversion E2; subst.
        apply Hn. apply (in_map fst) in Hin. exact Hin.
Qed.

Lemma walk_head n rel : In (rel, n) (walk n rel).
Proof. destruct n; [cbn; now left|rewrite walk_dir; now left]. Qed.

Lemma walk1_sub n rel e : In e (walk1 n rel) -> In e (walk n rel).
Proof.
  destruct n as [c m|ch]; [cbn; tauto|].
  unfold walk1. rewrite walk_dir. intros [H|H]; [now left|right].
  rewrite in_map_iff in H. destruct H as [[k c] [E Hin]]. cbn [fst snd] in E. subst e.
  unfold walk_kids. apply in_flat_map. exists (k, c). split; [exact Hin|]. cbn [fst snd]. apply walk_head.
Qed.

Lemma wf_geto n q n' : wf_node n -> geto (Some n) q = Some n' ->
  Forall (fun x => name_ok x = true) q /\ wf_node n'.
Proof.
  intros W G. pose proof (walk_complete q n [] n' G) as H. cbn [app] in H.
  destruct (walk_sound n [] q n' W H) as (suf & E & _ & F & Wn). cbn [app] in E. subst. now split.
Qed.

Lemma NoDup_map_in {A B} (f : A -> B) l :
  (forall x y, In x l -> In y l -> f x = f y -> x = y) -> NoDup l -> NoDup (map f l).
Proof.
  induction l as [|a l IH]; intros Inj ND; [constructor|].
  inversion ND as [|? ? Ha ND']; subst. cbn. constructor.
  - rewrite in_map_iff. intros [y [E Hy]]. apply Ha.
    rewrite (Inj a y); [exact Hy|now left|now right|now symmetry].
  - apply IH; auto. intros x y Hx Hy. apply Inj; now right.
Qed.

Lemma walk1_nodup ch rel : NoDup (map fst ch) -> NoDup (map fst (walk1 (Dir ch) rel)).
Proof.
  intros ND. unfold walk1. cbn [map fst]. rewrite map_map. cbn [fst]. constructor.
  - rewrite in_map_iff. intros [[k c] [E _]]. cbn [fst] in E.
    apply (f_equal (@List.length _)) in E. rewrite app_length in E. cbn in E. lia.
  - rewrite <- (map_map fst (fun k => rel ++ [k])). apply NoDup_map_in; [|exact ND].
    intros x y _ _ E. apply app_inv_head in E. now inversion E.
Qed.

Lemma geto_app_local on p q : geto on (p ++ q) = geto (geto on p) q.
Proof.
  revert on. induction p as [|s p IH]; intros on; [reflexivity|].
  cbn [app geto]. destruct on as [[c m|ch]|]; try (now rewrite geto_None_local). apply IH.
Qed.

(** ** ReadDir through client and server over LocalFileSystem *)
Section LocalScope.
  Variable X : ext.
  Hypothesis L : codec_laws X.
  (** the MIME types of the extension table are text XML carries unchanged *)
  Hypothesis Hmime : forall p, x_text X (x_mime_ext X p) = x_mime_ext X p.
  Variable dmeta : list string -> N * N.
  Hypothesis Hdm : forall q, (fst (dmeta q) < big)%N /\ (snd (dmeta q) < big)%N.
  Variable t : option node.
  Hypothesis Wt : forall n, t = Some n -> wf_node n.
  Variable writes : filesystem.
  Variable ep : string.

  Definition listing (recursive : bool) (n : node) : list (path * node) :=
    if recursive then walk n [] else walk1 n [].

  (** what the property calls "itself and its direct members" / "all descendants" *)
  Definition scope (recursive : bool) (segs q : path) : Prop :=
    if recursive then exists suf, q = segs ++ suf else q = segs \/ exists k, q = segs ++ [k].

  Lemma wf_time_of_ns m : (m < big)%N -> wf_time (instant_of_ns m) = true.
  Proof.
    intros H. unfold wf_time, instant_of_ns, giga, big in *. cbn [t_sec t_ns]. apply orb_true_iff. right.
    assert (m / 1000000000 < 9223372037)%N by (apply N.div_lt_upper_bound; lia).
    assert (m mod 1000000000 < 1000000000)%N by (apply N.mod_lt; lia).
    set (d := (m / 1000000000)%N) in *. clearbody d.
    rewrite !andb_true_iff. repeat split.
    - apply Z.leb_le. lia.
    - apply Z.ltb_lt. lia.
    - now apply N.ltb_lt.
  Qed.

  Lemma wf_info_of_node q n : Forall (fun x => name_ok x = true) q -> wf_node n ->
    wf_info X (fi_of_node X dmeta q n) = true.
  Proof.
    intros F W. unfold wf_info, fi_of_node.
    destruct n as [c m|ch].
    - inversion W; subst. cbn [i_path i_mod i_size i_dir i_mime].
      rewrite (wf_path_external _ F), wf_time_of_ns by assumption. cbn [andb orb].
      rewrite Hmime, String.eqb_refl, andb_true_r. unfold big in *.
      apply andb_true_iff. split; [apply Z.leb_le|apply Z.ltb_lt]; lia.
    - destruct (dmeta q) as [sz mt] eqn:E. pose proof (Hdm q) as [H1 H2]. rewrite E in H1, H2. cbn [fst snd] in *.
      cbn [i_path i_mod i_size i_dir i_mime].
      rewrite (wf_path_external _ F), wf_time_of_ns by assumption. cbn [andb orb].
      rewrite andb_true_r. unfold big in *.
      apply andb_true_iff. split; [apply Z.leb_le|apply Z.ltb_lt]; lia.
  Qed.

  Lemma listing_sub recursive n e : In e (listing recursive n) -> In e (walk n []).
  Proof. destruct recursive; cbn [listing]; [tauto|apply walk1_sub]. Qed.

  Variable name : string.
  Variable recursive : bool.
  Variable segs : path.
  Variable ch : list (string * node).
  Hypothesis Hsegs : local_segs (resolve_href ep name) = Ok segs.
  Hypothesis Hdir : geto t segs = Some (Dir ch).

  Let p := resolve_href ep name.
  Let entries := listing recursive (Dir ch).
  Let result := map (fun pn => view (fi_of_node X dmeta (segs ++ fst pn) (snd pn))) entries.

  Lemma segs_ok : Forall (fun x => name_ok x = true) segs /\ wf_node (Dir ch).
  Proof.
    destruct t as [n0|] eqn:T; [|now rewrite geto_None_local in Hdir].
    apply (wf_geto n0 segs (Dir ch) (Wt n0 eq_refl) Hdir).
  Qed.

  Lemma entry_ok_local rel n' : In (rel, n') entries ->
    Forall (fun x => name_ok x = true) (segs ++ rel) /\ wf_node n' /\ geto t (segs ++ rel) = Some n'.
  Proof.
    intros H. apply listing_sub in H. destruct segs_ok as [Fs Wd].
    destruct (walk_sound _ _ _ _ Wd H) as (suf & E & G & F & Wn). cbn [app] in E. subst suf.
    repeat split; auto.
    - apply Forall_app. now split.
    - rewrite geto_app_local, Hdir. exact G.
  Qed.

  (** the client's listing is the server's, entry by entry *)
  Theorem readdir_local :
    client_readdir X (local_fs X dmeta t writes) ep name recursive =
    ([CStat p; CReadDir p recursive], OList result).
  Proof.
    pose proof (readdir_roundtrip X L (local_fs X dmeta t writes) ep name recursive
                  (fi_of_node X dmeta segs (Dir ch))
                  (map (fun pn => fi_of_node X dmeta (segs ++ fst pn) (snd pn)) entries)) as R.
    cbn zeta in R. cbn [local_fs fs_stat fs_readdir] in R. unfold local_stat, local_readdir in R.
    rewrite Hsegs, Hdir in R. fold p in R.
    unfold result. rewrite <- (map_map (fun pn => fi_of_node X dmeta (segs ++ fst pn) (snd pn)) view).
    apply R; try reflexivity.
    - unfold fi_of_node. now destruct (dmeta segs).
    - apply forallb_forall. intros fi Hfi. rewrite in_map_iff in Hfi. destruct Hfi as [[rel n'] [E Hin]].
      cbn [fst snd] in E. subst fi. destruct (entry_ok_local _ _ Hin) as (F & Wn & _).
      now apply wf_info_of_node.
  Qed.

  Lemma path_of_view fi : i_path (view fi) = i_path fi.
  Proof. unfold view. now destruct (i_dir fi). Qed.

  Lemma dir_of_view fi : i_dir (view fi) = i_dir fi.
  Proof. unfold view. now destruct (i_dir fi) eqn:E. Qed.

  Lemma result_paths : map i_path result = map (fun pn => external_path (segs ++ fst pn)) entries.
  Proof.
    unfold result. rewrite map_map. apply map_ext. intros [rel n']. cbn [fst snd].
    rewrite path_of_view. unfold fi_of_node. now destruct n'; [|destruct (dmeta (segs ++ rel))].
  Qed.

  Lemma entries_nodup : NoDup (map fst entries).
  Proof.
    destruct segs_ok as [_ Wd]. unfold entries, listing. destruct recursive.
    - now apply walk_nodup.
    - inversion Wd; subst. now apply walk1_nodup.
  Qed.

  (** each exactly once *)
  Theorem readdir_local_nodup : NoDup (map i_path result).
  Proof.
    rewrite result_paths. rewrite <- (map_map fst (fun rel => external_path (segs ++ rel))).
    apply NoDup_map_in; [|apply entries_nodup].
    intros x y Hx Hy E. rewrite in_map_iff in Hx, Hy.
    destruct Hx as [[rx nx] [Ex Hx]], Hy as [[ry ny] [Ey Hy]]. cbn [fst] in Ex, Ey. subst rx ry.
    destruct (entry_ok_local _ _ Hx) as (Fx & _), (entry_ok_local _ _ Hy) as (Fy & _).
    apply (external_path_inj _ _ Fx Fy) in E. now apply app_inv_head in E.
  Qed.

  (** every entry: in scope, and under the path by which it can be addressed again —
      the path is absolute (so it resolves to itself against any endpoint),
      LocalFileSystem maps it back to the node the entry describes, of the kind and
      (for a file) size reported *)
  Theorem readdir_local_sound e : In e result ->
    exists q n, i_path e = external_path q /\ resolve_href ep (i_path e) = i_path e /\
      local_segs (i_path e) = Ok q /\ geto t q = Some n /\ scope recursive segs q /\
      match n with
      | Dir _ => i_dir e = true
      | File c m => i_dir e = false /\ i_size e = Z.of_N (strlen c) /\ i_etag e = etag_of m (strlen c) /\
                    i_mod e = to_second (instant_of_ns m)
      end.
  Proof.
    unfold result. rewrite in_map_iff. intros [[rel n'] [E Hin]]. cbn [fst snd] in E. subst e.
    destruct (entry_ok_local _ _ Hin) as (F & Wn & G).
    exists (segs ++ rel), n'.
    assert (P : i_path (view (fi_of_node X dmeta (segs ++ rel) n')) = external_path (segs ++ rel)).
    { rewrite path_of_view. unfold fi_of_node. now destruct n'; [|destruct (dmeta (segs ++ rel))]. }
    rewrite P. split; [reflexivity|]. split; [reflexivity|]. split; [now apply local_segs_external|].
    split; [exact G|]. split.
    - unfold entries, listing, scope in *. destruct recursive; [now exists rel|].
      unfold walk1 in Hin. destruct Hin as [H|H].
      + inversion H; subst. left. now rewrite app_nil_r.
      + rewrite in_map_iff in H. destruct H as [[k c] [E _]]. cbn [fst snd app] in E. inversion E; subst.
        right. now exists k.
    - destruct n' as [c m|ch']; unfold view, fi_of_node.
      + cbn. repeat split; reflexivity.
      + destruct (dmeta (segs ++ rel)). reflexivity.
  Qed.

  (** everything mapped in scope is listed *)
  Theorem readdir_local_complete q n : geto t q = Some n -> scope recursive segs q ->
    In (external_path q) (map i_path result).
  Proof.
    intros G S. rewrite result_paths. rewrite in_map_iff.
    unfold scope, entries, listing in *. destruct recursive.
    - destruct S as [suf ->]. rewrite geto_app_local, Hdir in G. exists (suf, n). split; [reflexivity|].
      exact (walk_complete suf (Dir ch) [] n G).
    - destruct S as [->|[k ->]].
      + exists ([], Dir ch). rewrite app_nil_r. split; [reflexivity|]. now left.
      + rewrite geto_app_local, Hdir in G. cbn [geto] in G. destruct (assoc k ch) as [c|] eqn:A; [|discriminate].
        inversion G; subst c. exists ([k], n). split; [reflexivity|]. right.
        rewrite in_map_iff. exists (k, n). split; [reflexivity|]. now apply assoc_In.
  Qed.
End LocalScope.

(** ReadDir of a collection served by LocalFileSystem, as the client sees it. *)
Theorem readdir_scope X dmeta t writes ep name recursive segs ch :
  codec_laws X ->
  (forall p, x_text X (x_mime_ext X p) = x_mime_ext X p) ->
  (forall q, (fst (dmeta q) < big)%N /\ (snd (dmeta q) < big)%N) ->
  (forall n, t = Some n -> wf_node n) ->
  local_segs (resolve_href ep name) = Ok segs ->
  geto t segs = Some (Dir ch) ->
  exists l,
    client_readdir X (local_fs X dmeta t writes) ep name recursive =
      ([CStat (resolve_href ep name); CReadDir (resolve_href ep name) recursive], OList l) /\
    NoDup (map i_path l) /\
    (forall e, In e l ->
       exists q n, i_path e = external_path q /\ resolve_href ep (i_path e) = i_path e /\
         local_segs (i_path e) = Ok q /\ geto t q = Some n /\ scope recursive segs q /\
         match n with
         | Dir _ => i_dir e = true
         | File c m => i_dir e = false /\ i_size e = Z.of_N (strlen c) /\ i_etag e = etag_of m (strlen c) /\
                       i_mod e = to_second (instant_of_ns m)
         end) /\
    (forall q n, geto t q = Some n -> scope recursive segs q -> In (external_path q) (map i_path l)).
Proof.
  intros L Hm Hd Wt Hs Hg.
  exists (map (fun pn => view (fi_of_node X dmeta (segs ++ fst pn) (snd pn))) (listing recursive (Dir ch))).
  split; [exact (readdir_local X L Hm dmeta Hd t Wt writes ep name recursive segs ch Hs Hg)|].
  split; [exact (readdir_local_nodup X dmeta t Wt recursive segs ch Hg)|].
  split; [exact (readdir_local_sound X dmeta t Wt ep recursive segs ch Hg)|].
  exact (readdir_local_complete X dmeta t recursive segs ch Hg).
Qed.

(** Stat of anything LocalFileSystem maps: the client sees the node's metadata. *)
Theorem stat_local X dmeta t writes ep name segs n :
  codec_laws X ->
  (forall p, x_text X (x_mime_ext X p) = x_mime_ext X p) ->
  (forall q, (fst (dmeta q) < big)%N /\ (snd (dmeta q) < big)%N) ->
  (forall n0, t = Some n0 -> wf_node n0) ->
  local_segs (resolve_href ep name) = Ok segs ->
  geto t segs = Some n ->
  client_stat X (local_fs X dmeta t writes) ep name =
    ([CStat (resolve_href ep name)], OInfo (view (fi_of_node X dmeta segs n))).
Proof.
  intros L Hm Hd Wt Hs Hg.
  apply (stat_roundtrip X L).
  - cbn [local_fs fs_stat]. unfold local_stat. now rewrite Hs, Hg.
  - destruct t as [n0|] eqn:T; [|now rewrite geto_None_local in Hg].
    destruct (wf_geto n0 segs n (Wt n0 eq_refl) Hg) as [F W].
    now apply wf_info_of_node.
Qed.

(** Open of a file LocalFileSystem maps: its bytes. *)
Theorem open_local X dmeta t writes ep name segs c m :
  local_segs (resolve_href ep name) = Ok segs ->
  geto t segs = Some (File c m) ->
  client_open (local_fs X dmeta t writes) ep name =
    ([CStat (resolve_href ep name); COpen (resolve_href ep name)], OBytes c).
Proof.
  intros Hs Hg. apply (open_bytes _ _ _ (fi_of_node X dmeta segs (File c m))).
  - cbn [local_fs fs_stat]. unfold local_stat. now rewrite Hs, Hg.
  - reflexivity.
  - cbn [local_fs fs_open]. unfold local_open. now rewrite Hs, Hg.
Qed.

(** * The executable scope check of the oracle accepts the model's listing *)
Lemma mem_str_In s l : mem_str s l = true <-> In s l.
Proof.
  induction l as [|x l IH]; cbn; [split; [discriminate|tauto]|].
  rewrite orb_true_iff, IH, String.eqb_eq. tauto.
Qed.

Lemma nodup_str_NoDup l : NoDup l -> nodup_str l = true.
Proof.
  induction 1 as [|x l Hx ND IH]; cbn; [reflexivity|]. rewrite IH, andb_true_r.
  apply negb_true_iff. destruct (mem_str x l) eqn:E; [|reflexivity]. apply mem_str_In in E. contradiction.
Qed.

Lemma list_eqb_eq a : forall b, list_eqb a b = true <-> a = b.
Proof.
  induction a as [|x a IH]; intros [|y b]; cbn; try (split; [discriminate|congruence]); [tauto|].
  rewrite andb_true_iff, String.eqb_eq, IH. split; [intros [-> ->]; reflexivity|intros H; inversion H; auto].
Qed.

Lemma is_prefix_app_local p q : is_prefix p (p ++ q) = true.
Proof. induction p as [|a p IH]; cbn; [reflexivity|]. now rewrite String.eqb_refl. Qed.

Lemma scope_in_scope recursive segs q : scope recursive segs q -> in_scope recursive segs q = true.
Proof.
  unfold scope, in_scope. destruct recursive.
  - intros [suf ->]. apply is_prefix_app_local.
  - intros [->|[k ->]].
    + apply orb_true_iff. left. now apply list_eqb_eq.
    + apply orb_true_iff. right. rewrite removelast_last, is_prefix_app_local.
      replace (list_eqb segs segs) with true by (symmetry; now apply list_eqb_eq).
      cbn [andb]. rewrite andb_true_r. apply negb_true_iff.
      destruct (list_eqb (segs ++ [k]) segs) eqn:E; [|reflexivity].
      apply list_eqb_eq in E. apply (f_equal (@List.length _)) in E. rewrite app_length in E. cbn in E. lia.
Qed.

Lemma in_scope_scope recursive segs rel : in_scope recursive segs (segs ++ rel) = true -> scope recursive segs (segs ++ rel).
Proof.
  unfold scope, in_scope. destruct recursive; [intros _; now exists rel|].
  intros H. apply orb_true_iff in H as [H|H].
  - left. now apply list_eqb_eq.
  - apply andb_true_iff in H as [H _]. apply andb_true_iff in H as [H1 H2].
    apply list_eqb_eq in H1. apply negb_true_iff in H2.
    destruct (exists_last (l := rel)) as (r' & k & ->).
    { intros ->. rewrite app_nil_r in H2. replace (list_eqb segs segs) with true in H2; [discriminate|].
      symmetry. now apply list_eqb_eq. }
    rewrite app_assoc, removelast_last in H1.
    assert (r' = []) as ->.
    { apply (f_equal (@List.length _)) in H1. rewrite app_length in H1. destruct r'; [reflexivity|cbn in H1; lia]. }
    right. now exists k.
Qed.

Theorem tree_spec_sound X dmeta t writes ep name recursive segs ch :
  codec_laws X ->
  (forall p, x_text X (x_mime_ext X p) = x_mime_ext X p) ->
  (forall q, (fst (dmeta q) < big)%N /\ (snd (dmeta q) < big)%N) ->
  (forall n, t = Some n -> wf_node n) ->
  ep <> "" ->
  local_segs (resolve_href ep name) = Ok segs ->
  geto t segs = Some (Dir ch) ->
  tree_spec_ok t ep name recursive (snd (client_readdir X (local_fs X dmeta t writes) ep name recursive)) = true.
Proof.
  intros L Hm Hd Wt Hep Hs Hg.
  destruct (readdir_scope X dmeta t writes ep name recursive segs ch L Hm Hd Wt Hs Hg) as (l & E & ND & Snd & Cpl).
  rewrite E. cbn [snd]. unfold tree_spec_ok. rewrite <- (resolve_is_target ep name Hep), Hs, Hg.
  rewrite (nodup_str_NoDup _ ND). cbn [andb].
  rewrite !andb_true_iff. repeat split.
  - apply forallb_forall. intros e He. destruct (Snd e He) as (q & n & P & _ & Ls & G & _ & K).
    unfold entry_ok. rewrite Ls, G. rewrite P at 1. rewrite String.eqb_refl. cbn [andb].
    destruct n as [c m|ch']; [destruct K as (K1 & K2 & _); rewrite K1, K2, Z.eqb_refl; reflexivity|exact K].
  - apply forallb_forall. intros e He. destruct (Snd e He) as (q & n & _ & _ & Ls & _ & Sc & _).
    rewrite Ls. now apply scope_in_scope.
  - apply forallb_forall. intros q Hq. rewrite in_map_iff in Hq. destruct Hq as [rel [<- Hrel]].
    unfold all_paths in Hrel. rewrite in_map_iff in Hrel. destruct Hrel as [[rel' n'] [Er Hin]]. cbn [fst] in Er. subst rel'.
    destruct (in_scope recursive segs (segs ++ rel)) eqn:Sc; [|reflexivity]. cbn [negb orb].
    apply mem_str_In. apply in_scope_scope in Sc.
    assert (Wd : wf_node (Dir ch)).
    { destruct t as [n0|] eqn:T; [|now rewrite geto_None_local in Hg]. apply (wf_geto n0 segs (Dir ch) (Wt n0 eq_refl) Hg). }
    destruct (walk_sound _ _ _ _ Wd Hin) as (suf & Es & G & _ & _). cbn [app] in Es. subst suf.
    apply (Cpl (segs ++ rel) n'); [|exact Sc]. now rewrite geto_app_local, Hg.
Qed.

(** * The hypotheses are not contradictory: a (toy) codec family satisfying the laws *)
Definition toy_ext : ext :=
  {| x_href_enc := fun p => p;
     x_href_dec := fun s => Some s;
     x_quote := fun t => String """"%char t;
     x_unquote := fun s => match s with String _ r => Some r | EmptyString => None end;
     x_time_fmt := fun t => dec_z (t_sec t + 62167219200);
     x_time_parse := fun s => match parse_size s with
                              | Some n => Some {| t_sec := n - 62167219200; t_ns := 0 |}
                              | None => None
                              end;
     x_text := fun s => s;
     x_mime_ext := fun _ => "" |}.

Lemma codec_laws_satisfiable : codec_laws toy_ext /\ (forall p, x_text toy_ext (x_mime_ext toy_ext p) = x_mime_ext toy_ext p).
Proof.
  split; [constructor|reflexivity]; cbn [toy_ext x_href_enc x_href_dec x_quote x_unquote x_time_fmt x_time_parse x_text].
  - reflexivity.
  - intros t. now exists t.
  - reflexivity.
  - intros t W Z. unfold wf_time in W. rewrite Z in W. cbn [orb] in W.
    apply andb_true_iff in W as [W _]. apply andb_true_iff in W as [W1 W2].
    apply Z.leb_le in W1. apply Z.ltb_lt in W2.
    rewrite parse_size_dec by lia. unfold to_second. f_equal. f_equal. lia.
  - reflexivity.
Qed.
