(** CalTimeProofs.v — [parse_utc (fmt_utc s) = Some s] for every instant whose
    year has four digits.  One 400-year era is checked by computation
    ([vm_compute] over its 146097 days), the rest follows from the era
    decomposition the two functions share. *)
From GW Require Import Base CalTime.
Open Scope Z_scope.

(** * A bounded universal quantifier that computes *)
Fixpoint all_from (k : nat) (i : Z) (f : Z -> bool) : bool :=
  match k with
  | O => true
  | S k' => f i && all_from k' (i + 1) f
  end.

Lemma all_from_spec k f : forall i0,
  all_from k i0 f = true -> forall i, i0 <= i < i0 + Z.of_nat k -> f i = true.
Proof.
  induction k as [|k IH]; intros i0 H i Hi.
  - simpl in Hi. lia.
  - cbn [all_from] in H. apply andb_true_iff in H. destruct H as [H1 H2].
    destruct (Z.eq_dec i i0) as [->|Hne]; [exact H1|].
    apply (IH (i0 + 1)); [exact H2|]. lia.
Qed.

(** * The era sweep *)
Definition era_check (doe : Z) : bool :=
  let '(yoe, m, d) := civil_of_doe doe in
  (0 <=? yoe) && (yoe <=? 399) && (1 <=? m) && (m <=? 12) && (1 <=? d)
  && (d <=? days_in_month (yoe + jan_feb m) m)
  && (doe_of_civil yoe m d =? doe)
  && Bool.eqb (doe <? 146037) (yoe + jan_feb m <=? 399).

Lemma era_sweep : all_from (Z.to_nat 146097) 0 era_check = true.
Proof. vm_cast_no_check (eq_refl true). Qed.

Lemma era_ok doe : 0 <= doe < 146097 -> era_check doe = true.
Proof.
  intros H. apply (all_from_spec _ _ _ era_sweep).
  rewrite Z2Nat.id by lia. lia.
Qed.

(** * Leap years are 400-periodic *)
Lemma is_leap_period y k : is_leap (y + k * 400) = is_leap y.
Proof.
  unfold is_leap.
  replace ((y + k * 400) mod 4) with (y mod 4)
    by (replace (k * 400) with ((k * 100) * 4) by ring; now rewrite Z.mod_add).
  replace ((y + k * 400) mod 100) with (y mod 100)
    by (replace (k * 400) with ((k * 4) * 100) by ring; now rewrite Z.mod_add).
  replace ((y + k * 400) mod 400) with (y mod 400) by (now rewrite Z.mod_add).
  reflexivity.
Qed.

Lemma days_in_month_period y k m : days_in_month (y + k * 400) m = days_in_month y m.
Proof. unfold days_in_month. now rewrite is_leap_period. Qed.

(** * Days <-> civil date *)
Lemma civil_round_trip days y m d :
  civil_from_days days = (y, m, d) ->
  1 <= m <= 12 /\ 1 <= d <= days_in_month y m /\ days_from_civil y m d = days.
Proof.
  unfold civil_from_days. intros H.
  set (z := days + 719468) in *.
  assert (Hdoe : 0 <= z mod 146097 < 146097) by (apply Z.mod_pos_bound; lia).
  pose proof (era_ok _ Hdoe) as Hc. unfold era_check in Hc.
  destruct (civil_of_doe (z mod 146097)) as [[yoe m0] d0].
  inversion H; subst y m d; clear H.
  repeat (apply andb_true_iff in Hc; destruct Hc as [Hc ?]).
  repeat match goal with
         | H : (_ <=? _) = true |- _ => apply Z.leb_le in H
         | H : (_ =? _) = true |- _ => apply Z.eqb_eq in H
         end.
  split; [lia|]. split.
  - replace (yoe + z / 146097 * 400 + jan_feb m0)
      with (yoe + jan_feb m0 + z / 146097 * 400) by ring.
    rewrite days_in_month_period. lia.
  - unfold days_from_civil.
    replace (yoe + z / 146097 * 400 + jan_feb m0 - jan_feb m0)
      with (yoe + z / 146097 * 400) by ring.
    rewrite Z.div_add by lia. rewrite Z.mod_add by lia.
    rewrite (Z.div_small yoe 400) by lia. rewrite (Z.mod_small yoe 400) by lia.
    match goal with H : doe_of_civil _ _ _ = _ |- _ => rewrite H end.
    pose proof (Z.div_mod z 146097 ltac:(lia)). unfold z in *. lia.
Qed.

Lemma civil_year_range days y m d :
  civil_from_days days = (y, m, d) ->
  -719528 <= days < 2932897 -> 0 <= y <= 9999.
Proof.
  unfold civil_from_days. intros H Hr.
  set (z := days + 719468) in *.
  assert (Hdoe : 0 <= z mod 146097 < 146097) by (apply Z.mod_pos_bound; lia).
  pose proof (era_ok _ Hdoe) as Hc. unfold era_check in Hc.
  destruct (civil_of_doe (z mod 146097)) as [[yoe m0] d0].
  inversion H; subst y m d; clear H.
  repeat (apply andb_true_iff in Hc; destruct Hc as [Hc ?]).
  match goal with H : Bool.eqb _ _ = true |- _ => apply Bool.eqb_prop in H; rename H into Hb end.
  repeat match goal with
         | H : (_ <=? _) = true |- _ => apply Z.leb_le in H
         | H : (_ =? _) = true |- _ => apply Z.eqb_eq in H
         end.
  assert (Hz : -60 <= z < 3652365) by (unfold z; lia).
  pose proof (Z.div_mod z 146097 ltac:(lia)) as Hdm.
  assert (He : -1 <= z / 146097 <= 24) by lia.
  assert (Hj : 0 <= jan_feb m0 <= 1) by (unfold jan_feb; destruct (m0 <=? 2); lia).
  destruct (Z.eq_dec (z / 146097) (-1)) as [E|E].
  - assert (Hd : (z mod 146097 <? 146037) = false) by (apply Z.ltb_ge; lia).
    rewrite Hd in Hb. symmetry in Hb. apply Z.leb_gt in Hb. lia.
  - destruct (Z.eq_dec (z / 146097) 24) as [E2|E2].
    + assert (Hd : (z mod 146097 <? 146037) = true) by (apply Z.ltb_lt; lia).
      rewrite Hd in Hb. symmetry in Hb. apply Z.leb_le in Hb. lia.
    + lia.
Qed.

(** * Digits *)
Lemma dval_digit n : dval (digit n) = Some (n mod 10).
Proof.
  unfold dval, digit.
  pose proof (Z.mod_pos_bound n 10 ltac:(lia)) as Hb.
  rewrite N_ascii_embedding.
  2:{ apply N2Z.inj_lt. rewrite Z2N.id by lia. change (Z.of_N 256) with 256. lia. }
  rewrite Z2N.id by lia.
  destruct (48 <=? 48 + n mod 10) eqn:E1; [|apply Z.leb_gt in E1; lia].
  destruct (48 + n mod 10 <=? 57) eqn:E2; [|apply Z.leb_gt in E2; lia].
  cbn [andb]. f_equal. lia.
Qed.

Lemma num2_digits n : 0 <= n < 100 -> num2 (digit (n / 10)) (digit n) = Some n.
Proof.
  intros H. unfold num2. rewrite !dval_digit. f_equal.
  rewrite (Z.mod_small (n / 10) 10).
  2:{ split; [apply Z.div_pos; lia | apply Z.div_lt_upper_bound; lia]. }
  pose proof (Z.div_mod n 10 ltac:(lia)). lia.
Qed.

Lemma num4_digits n :
  0 <= n < 10000 ->
  num4 (digit (n / 1000)) (digit (n / 100)) (digit (n / 10)) (digit n) = Some n.
Proof.
  intros H. unfold num4, num2. rewrite !dval_digit. f_equal.
  Z.div_mod_to_equations. lia.
Qed.

(** * The round trip *)
Theorem parse_fmt_utc s : in_range s = true -> parse_utc (fmt_utc s) = Some s.
Proof.
  unfold in_range, range_lo, range_hi. intros Hr.
  apply andb_true_iff in Hr. destruct Hr as [Hlo Hhi].
  apply Z.leb_le in Hlo. apply Z.ltb_lt in Hhi.
  unfold fmt_utc.
  pose proof (Z.div_mod s 86400 ltac:(lia)) as Hdm.
  pose proof (Z.mod_pos_bound s 86400 ltac:(lia)) as Hrem.
  set (days := s / 86400) in *. set (rem := s mod 86400) in *.
  assert (Hdays : -719528 <= days < 2932897) by lia.
  destruct (civil_from_days days) as [[y m] d] eqn:Hciv.
  destruct (civil_round_trip _ _ _ _ Hciv) as (Hm & Hd & Hback).
  pose proof (civil_year_range _ _ _ _ Hciv Hdays) as Hy.
  assert (Hdim : days_in_month y m <= 31).
  { unfold days_in_month. repeat match goal with |- context [if ?c then _ else _] => destruct c end; lia. }
  unfold parse_utc. cbn [list_ascii_of_string].
  rewrite !Ascii.eqb_refl. cbn [andb].
  rewrite (num4_digits y) by lia.
  rewrite (num2_digits m) by lia.
  rewrite (num2_digits d) by lia.
  assert (Hhh : 0 <= rem / 3600 < 24)
    by (split; [apply Z.div_pos; lia | apply Z.div_lt_upper_bound; lia]).
  assert (Hmi : 0 <= (rem / 60) mod 60 < 60) by (apply Z.mod_pos_bound; lia).
  assert (Hss : 0 <= rem mod 60 < 60) by (apply Z.mod_pos_bound; lia).
  rewrite (num2_digits (rem / 3600)) by lia.
  rewrite (num2_digits ((rem / 60) mod 60)) by lia.
  rewrite (num2_digits (rem mod 60)) by lia.
  replace (1 <=? m) with true by (symmetry; apply Z.leb_le; lia).
  replace (m <=? 12) with true by (symmetry; apply Z.leb_le; lia).
  replace (1 <=? d) with true by (symmetry; apply Z.leb_le; lia).
  replace (d <=? days_in_month y m) with true by (symmetry; apply Z.leb_le; lia).
  replace (rem / 3600 <? 24) with true by (symmetry; apply Z.ltb_lt; lia).
  replace ((rem / 60) mod 60 <? 60) with true by (symmetry; apply Z.ltb_lt; lia).
  replace (rem mod 60 <? 60) with true by (symmetry; apply Z.ltb_lt; lia).
  cbn [andb]. f_equal. rewrite Hback.
  clearbody days rem. clear - Hdm Hrem.
  assert (H1 : rem / 3600 = (rem / 60) / 60) by (rewrite Z.div_div by lia; reflexivity).
  rewrite H1.
  pose proof (Z.div_mod rem 60 ltac:(lia)).
  pose proof (Z.div_mod (rem / 60) 60 ltac:(lia)).
  lia.
Qed.

(** The zero instant is inside the range. *)
Lemma zero_in_range : in_range zero_sec = true.
Proof. reflexivity. Qed.
