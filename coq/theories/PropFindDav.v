(** PropFindDav.v — proofs about the model of PropFind.v (property C11), part 4:
    the WebDAV file server answers for exactly the resources in scope, and its
    answers meet the executable specification. *)
From GW Require Import Base Route RouteProofs PropFind PropFindProofs PropFindScope PropFindSpec.

Local Open Scope string_scope.

(** * Induction over trees; the functions unfolded once *)

Fixpoint node_ind' (P : node -> Prop) (HF : forall m, P (File m))
         (HD : forall ch, Forall (fun sc => P (snd sc)) ch -> P (Dir ch)) (n : node) : P n :=
  match n with
  | File m => HF m
  | Dir ch =>
    HD ch ((fix go (l : list (string * node)) : Forall (fun sc => P (snd sc)) l :=
              match l with
              | [] => Forall_nil _
              | sc :: r => Forall_cons sc (node_ind' P HF HD (snd sc)) (go r)
              end) ch)
  end.

Definition kids (f : list string -> node -> list (list string * node)) (p : list string)
           (ch : list (string * node)) : list (list string * node) :=
  flat_map (fun sc => f (p ++ [fst sc])%list (snd sc)) ch.

Lemma all_nodes_dir p ch : all_nodes p (Dir ch) = (p, Dir ch) :: kids all_nodes p ch.
Proof.
  cbn [all_nodes]. f_equal. unfold kids.
  induction ch as [|[s c] r IH]; [reflexivity|]. cbn [flat_map fst snd]. rewrite <- IH. reflexivity.
Qed.

Lemma walk_dir recursive top p ch :
  walk recursive top p (Dir ch)
  = (p, Dir ch) :: (if negb recursive && negb top then [] else kids (walk recursive false) p ch).
Proof.
  cbn [walk]. f_equal. destruct (negb recursive && negb top); [reflexivity|]. unfold kids.
  induction ch as [|[s c] r IH]; [reflexivity|]. cbn [flat_map fst snd]. rewrite <- IH. reflexivity.
Qed.

Lemma tree_ok_dir ch :
  tree_ok (Dir ch) = segs_ok (map fst ch) && nodup_b (map fst ch) && forallb (fun sc => tree_ok (snd sc)) ch.
Proof.
  cbn [tree_ok]. f_equal.
  induction ch as [|[s c] r IH]; [reflexivity|]. cbn [forallb snd]. rewrite <- IH. reflexivity.
Qed.

(** * Shape of [all_nodes]: the node itself, then only proper extensions of its path *)

Definition extends (p q : list string) : Prop := exists x l, q = (p ++ x :: l)%list.

Lemma extends_trans p x q : extends (p ++ [x]) q \/ q = (p ++ [x])%list -> extends p q.
Proof.
  intros [[y [l ->]]| ->].
  - exists x, (y :: l). rewrite <- app_assoc. reflexivity.
  - exists x, []. reflexivity.
Qed.

Lemma all_nodes_shape n : forall p,
  exists tl, all_nodes p n = (p, n) :: tl /\ forall q m, In (q, m) tl -> extends p q.
Proof.
  induction n as [m|ch IH] using node_ind'; intros p.
  - exists []. split; [reflexivity|]. intros q m' [].
  - rewrite all_nodes_dir. exists (kids all_nodes p ch). split; [reflexivity|].
    intros q m Hin. unfold kids in Hin. apply in_flat_map in Hin. destruct Hin as [[s c] [Hsc Hin]].
    rewrite Forall_forall in IH. specialize (IH (s, c) Hsc (p ++ [s])%list). cbn [fst snd] in *.
    destruct IH as (tl & E & T). rewrite E in Hin. apply (extends_trans p s).
    destruct Hin as [Hq|Hq]; [right; inversion Hq; reflexivity|left; eapply T; exact Hq].
Qed.

Lemma in_all_nodes n p q m : In (q, m) (all_nodes p n) -> q = p \/ extends p q.
Proof.
  destruct (all_nodes_shape n p) as (tl & E & T). rewrite E. intros [H|H].
  - left. inversion H. reflexivity.
  - right. eapply T. exact H.
Qed.

(** * in_scope_b on paths of these shapes *)

Lemma prefix_b_app a r : prefix_b a (a ++ r) = true.
Proof. apply prefix_b_spec. exists r. reflexivity. Qed.

Lemma prefix_b_refl a : prefix_b a a = true.
Proof. apply prefix_b_spec. exists []. rewrite app_nil_r. reflexivity. Qed.

Lemma scope_self d p : in_scope_b d p p = true.
Proof. unfold in_scope_b. rewrite prefix_b_refl, Nat.eqb_refl. reflexivity. Qed.

Lemma scope_child d p x : in_scope_b d p (p ++ [x]) = negb (is_d0 d).
Proof.
  unfold in_scope_b. rewrite prefix_b_app, app_length. cbn [List.length].
  replace (List.length p + 1 =? List.length p)%nat with false by (symmetry; apply Nat.eqb_neq; lia).
  replace (List.length p + 1 =? S (List.length p))%nat with true by (symmetry; apply Nat.eqb_eq; lia).
  destruct d; reflexivity.
Qed.

Lemma scope_deeper d p x y l : in_scope_b d p (p ++ x :: y :: l) = is_inf d.
Proof.
  unfold in_scope_b. rewrite prefix_b_app, app_length. cbn [List.length].
  replace (List.length p + S (S (List.length l)) =? List.length p)%nat with false
    by (symmetry; apply Nat.eqb_neq; lia).
  replace (List.length p + S (S (List.length l)) =? S (List.length p))%nat with false
    by (symmetry; apply Nat.eqb_neq; lia).
  destruct d; reflexivity.
Qed.

Lemma scope_extends_inf p q : extends p q -> in_scope_b DInf p q = true.
Proof. intros [x [l ->]]. unfold in_scope_b. rewrite prefix_b_app. cbn. rewrite !Bool.orb_true_r. reflexivity. Qed.

Definition sc (d : depth) (target : list string) (pn : list string * node) : bool := in_scope_b d target (fst pn).

Lemma filter_none {A} (f : A -> bool) (l : list A) : (forall a, In a l -> f a = false) -> filter f l = [].
Proof.
  induction l as [|a r IH]; [reflexivity|]. intros H. simpl. rewrite (H a) by (left; reflexivity).
  apply IH. intros a' Ha. apply H. right. exact Ha.
Qed.

Lemma filter_all {A} (f : A -> bool) (l : list A) : (forall a, In a l -> f a = true) -> filter f l = l.
Proof.
  induction l as [|a r IH]; [reflexivity|]. intros H. simpl. rewrite (H a) by (left; reflexivity).
  f_equal. apply IH. intros a' Ha. apply H. right. exact Ha.
Qed.

(** * The subtree at the target *)

(** Depth infinity: the whole subtree, which is what the recursive walk lists *)
Lemma walk_inf n : forall top p, walk true top p n = all_nodes p n.
Proof.
  induction n as [m|ch IH] using node_ind'; intros top p; [reflexivity|].
  rewrite walk_dir, all_nodes_dir. cbn [negb andb]. f_equal. unfold kids.
  rewrite Forall_forall in IH.
  induction ch as [|sc0 r IHr]; [reflexivity|]. cbn [flat_map].
  rewrite (IH sc0) by (left; reflexivity). f_equal. apply IHr. intros x Hx. apply IH. right. exact Hx.
Qed.

Lemma filter_self_inf n p : filter (sc DInf p) (all_nodes p n) = all_nodes p n.
Proof.
  apply filter_all. intros [q m] Hin. unfold sc. cbn [fst].
  destruct (in_all_nodes _ _ _ _ Hin) as [->|E]; [apply scope_self|apply scope_extends_inf; exact E].
Qed.

(** the nodes of a child's subtree seen from the parent: the child itself is a
    member, everything below it is deeper *)
Lemma filter_child d p s c :
  filter (sc d p) (all_nodes (p ++ [s]) c) = if is_d0 d then [] else if is_inf d then all_nodes (p ++ [s]) c else [((p ++ [s])%list, c)].
Proof.
  destruct (all_nodes_shape c (p ++ [s])%list) as (tl & E & T).
  destruct d; cbn [is_d0 is_inf].
  - apply filter_none. intros [q m] Hin. unfold sc. cbn [fst].
    destruct (in_all_nodes _ _ _ _ Hin) as [->|[x [l ->]]].
    + rewrite scope_child. reflexivity.
    + rewrite <- app_assoc. cbn [app]. rewrite scope_deeper. reflexivity.
  - rewrite E. cbn [filter]. unfold sc at 1. cbn [fst]. rewrite scope_child. cbn [is_d0 negb]. f_equal.
    apply filter_none. intros [q m] Hin. unfold sc. cbn [fst].
    destruct (T q m Hin) as [x [l ->]]. rewrite <- app_assoc. cbn [app]. rewrite scope_deeper. reflexivity.
  - apply filter_all. intros [q m] Hin. unfold sc. cbn [fst].
    destruct (in_all_nodes _ _ _ _ Hin) as [->|[x [l ->]]].
    + rewrite scope_child. reflexivity.
    + rewrite <- app_assoc. cbn [app]. rewrite scope_deeper. reflexivity.
Qed.

Lemma walk_flat_leaf p c : walk false false p c = [(p, c)].
Proof. destruct c; [reflexivity|]. rewrite walk_dir. reflexivity. Qed.

(** what the target's own subtree contributes *)
Lemma filter_subtree d p n :
  filter (sc d p) (all_nodes p n)
  = if negb (is_d0 d) && is_dir n then walk (is_inf d) true p n else [(p, n)].
Proof.
  destruct n as [m|ch].
  - cbn [is_dir]. rewrite Bool.andb_false_r. cbn [all_nodes filter]. unfold sc. cbn [fst].
    rewrite scope_self. reflexivity.
  - cbn [is_dir]. rewrite Bool.andb_true_r. rewrite all_nodes_dir. cbn [filter]. unfold sc at 1. cbn [fst].
    rewrite scope_self.
    assert (K : filter (sc d p) (kids all_nodes p ch)
                = if is_d0 d then [] else if is_inf d then kids all_nodes p ch
                  else map (fun x => ((p ++ [fst x])%list, snd x)) ch).
    { unfold kids. induction ch as [|[s c] r IHr].
      - destruct (is_d0 d), (is_inf d); reflexivity.
      - cbn [flat_map fst snd map]. rewrite filter_app, filter_child, IHr.
        destruct (is_d0 d), (is_inf d); reflexivity. }
    rewrite K. clear K. destruct d; cbn [is_d0 is_inf negb].
    + reflexivity.
    + rewrite walk_dir. cbn [negb andb]. f_equal. unfold kids.
      induction ch as [|[s c] r IHr]; [reflexivity|]. cbn [flat_map map fst snd].
      rewrite walk_flat_leaf, <- IHr. reflexivity.
    + rewrite (walk_inf (Dir ch) true p), all_nodes_dir. reflexivity.
Qed.

(** * Finding the target in the whole tree *)

Lemma assoc_in s ch c : assoc s ch = Some c -> In (s, c) ch.
Proof.
  induction ch as [|[k v] r IH]; [discriminate|]. simpl. destruct (String.eqb s k) eqn:E.
  - intros H. inversion H. apply String.eqb_eq in E. subst. left. reflexivity.
  - intros H. right. apply IH. exact H.
Qed.

(** nothing below a sibling is in scope of a target below [p ++ [x]] *)
Lemma filter_sibling d p x rest s c : s <> x ->
  filter (sc d (p ++ x :: rest)) (all_nodes (p ++ [s]) c) = [].
Proof.
  intros Ne. apply filter_none. intros [q m] Hin. unfold sc. cbn [fst]. unfold in_scope_b.
  replace (prefix_b (p ++ x :: rest) q) with false; [reflexivity|].
  symmetry. apply Bool.not_true_iff_false. intros H. apply prefix_b_spec in H. destruct H as [r ->].
  assert (E : exists r', (p ++ x :: rest ++ r)%list = ((p ++ [s]) ++ r')%list).
  { destruct (in_all_nodes _ _ _ _ Hin) as [E|[y [l E]]].
    - exists []. rewrite app_nil_r, <- E, <- app_assoc. reflexivity.
    - exists (y :: l). rewrite <- E, <- app_assoc. reflexivity. }
  destruct E as [r' E]. rewrite <- app_assoc in E. apply app_inv_head in E. cbn [app] in E.
  inversion E. congruence.
Qed.

(** the children of a directory with distinct names: only the child named [x]
    (found by [assoc]) contributes *)
Lemma filter_kids d p x rest ch c :
  NoDup (map fst ch) -> assoc x ch = Some c ->
  filter (sc d (p ++ x :: rest)) (kids all_nodes p ch)
  = filter (sc d (p ++ x :: rest)) (all_nodes (p ++ [x]) c).
Proof.
  unfold kids. induction ch as [|[k v] r IH]; [discriminate|].
  intros ND A. cbn [map fst] in ND. inversion ND as [|? ? Nin ND']; subst.
  cbn [flat_map fst snd]. rewrite filter_app. cbn [assoc] in A.
  destruct (String.eqb x k) eqn:E.
  - apply String.eqb_eq in E. subst k. inversion A; subst v.
    replace (filter _ (flat_map _ r)) with (@nil (list string * node)); [apply app_nil_r|].
    symmetry. apply filter_none. intros a Ha. apply in_flat_map in Ha. destruct Ha as [[s' c'] [Hs Ha]].
    cbn [fst snd] in Ha.
    assert (Ne : s' <> x) by (intros ->; apply Nin; apply (in_map fst) in Hs; exact Hs).
    pose proof (filter_sibling d p x rest s' c' Ne) as F.
    destruct (sc d (p ++ x :: rest) a) eqn:S; [|reflexivity].
    assert (In a (filter (sc d (p ++ x :: rest)) (all_nodes (p ++ [s']) c'))) by (apply filter_In; split; assumption).
    rewrite F in H. contradiction.
  - apply String.eqb_neq in E. rewrite filter_sibling by congruence. cbn [app]. apply IH; assumption.
Qed.

(** The resources in scope, read off the whole tree, are what the walk from the
    target lists: the target alone for Depth 0 or a file; plus its members for
    Depth 1; the whole subtree for Depth infinity. *)
Theorem scope_tree d : forall rest t p n,
  tree_ok t = true -> get t rest = Some n ->
  filter (sc d (p ++ rest)) (all_nodes p t)
  = if negb (is_d0 d) && is_dir n then walk (is_inf d) true (p ++ rest) n else [((p ++ rest)%list, n)].
Proof.
  induction rest as [|x rest IH]; intros t p n OK G.
  - cbn [get] in G. inversion G; subst. rewrite app_nil_r. apply filter_subtree.
  - destruct t as [m|ch]; [discriminate G|]. cbn [get] in G.
    destruct (assoc x ch) as [c|] eqn:A; [|discriminate G].
    rewrite tree_ok_dir in OK. apply andb_prop in OK. destruct OK as [OK OKc].
    apply andb_prop in OK. destruct OK as [_ ND]. apply nodup_b_spec in ND.
    rewrite all_nodes_dir. cbn [filter]. unfold sc at 1. cbn [fst]. unfold in_scope_b at 1.
    replace (prefix_b (p ++ x :: rest) p) with false.
    2:{ symmetry. apply Bool.not_true_iff_false. intros H. apply prefix_b_spec in H. destruct H as [r E].
        rewrite <- app_assoc in E. rewrite <- (app_nil_r p) in E at 1. apply app_inv_head in E. discriminate E. }
    cbn [andb]. rewrite (filter_kids d p x rest ch c ND A).
    replace (p ++ x :: rest)%list with ((p ++ [x]) ++ rest)%list by (rewrite <- app_assoc; reflexivity).
    apply IH; [|exact G].
    rewrite forallb_forall in OKc. apply (OKc (x, c)). apply assoc_in. exact A.
Qed.

(** * Paths of a well-formed tree are made of good segments, each node once *)

Lemma segs_ok_snoc p s : segs_ok p = true -> seg_ok s = true -> segs_ok (p ++ [s]) = true.
Proof. intros Hp Hs. apply segs_ok_app. split; [exact Hp|]. apply seg1. exact Hs. Qed.

Lemma all_nodes_segs_ok t : forall p, tree_ok t = true -> segs_ok p = true ->
  forall q m, In (q, m) (all_nodes p t) -> segs_ok q = true.
Proof.
  induction t as [m0|ch IH] using node_ind'; intros p OK Hp q m Hin.
  - destruct Hin as [H|[]]. inversion H; subst. exact Hp.
  - rewrite all_nodes_dir in Hin. destruct Hin as [H|Hin]; [inversion H; subst; exact Hp|].
    rewrite tree_ok_dir in OK. apply andb_prop in OK. destruct OK as [OK OKc].
    apply andb_prop in OK. destruct OK as [SO _].
    unfold kids in Hin. apply in_flat_map in Hin. destruct Hin as [[s c] [Hsc Hin]]. cbn [fst snd] in Hin.
    rewrite Forall_forall in IH. apply (IH (s, c) Hsc (p ++ [s])%list) with (m := m); cbn [snd].
    + rewrite forallb_forall in OKc. apply (OKc (s, c) Hsc).
    + apply segs_ok_snoc; [exact Hp|]. unfold segs_ok in SO. rewrite forallb_forall in SO.
      apply SO. apply (in_map fst) in Hsc. exact Hsc.
    + exact Hin.
Qed.

Definition NoDup_app_intro {A} := @NoDup_app_intro_spec A.

(** every resource is enumerated once: the paths of [all_nodes] are distinct *)
Lemma all_nodes_nodup t : forall p, tree_ok t = true -> NoDup (map fst (all_nodes p t)).
Proof.
  induction t as [m0|ch IH] using node_ind'; intros p OK.
  - cbn. constructor; [intros []|constructor].
  - rewrite all_nodes_dir. cbn [map fst]. rewrite tree_ok_dir in OK. apply andb_prop in OK. destruct OK as [OK OKc].
    apply andb_prop in OK. destruct OK as [_ ND]. apply nodup_b_spec in ND.
    constructor.
    + intros Hin. apply in_map_iff in Hin. destruct Hin as [[q m] [E Hin]]. cbn [fst] in E. subst q.
      unfold kids in Hin. apply in_flat_map in Hin. destruct Hin as [[s c] [_ Hin]]. cbn [fst snd] in Hin.
      destruct (in_all_nodes _ _ _ _ Hin) as [E|[x [l E]]].
      * rewrite <- (app_nil_r p) in E at 1. apply app_inv_head in E. discriminate E.
      * rewrite <- app_assoc in E. rewrite <- (app_nil_r p) in E at 1. apply app_inv_head in E. discriminate E.
    + rewrite Forall_forall in IH. rewrite forallb_forall in OKc. unfold kids.
      induction ch as [|[s c] r IHr]; [constructor|].
      cbn [flat_map fst snd map]. rewrite map_app. cbn [map fst] in ND. inversion ND as [|? ? Nin ND']; subst.
      apply NoDup_app_intro.
      * apply (IH (s, c)); [left; reflexivity|]. apply (OKc (s, c)). left. reflexivity.
      * apply IHr; [|exact ND'|]; intros x Hx; [apply IH|apply OKc]; right; exact Hx.
      * intros q H1 H2. apply in_map_iff in H1. destruct H1 as [[q1 m1] [E1 H1]]. cbn [fst] in E1. subst q1.
        apply in_map_iff in H2. destruct H2 as [[q2 m2] [E2 H2]]. cbn [fst] in E2. subst q2.
        apply in_flat_map in H2. destruct H2 as [[s' c'] [Hs' H2]]. cbn [fst snd] in H2.
        assert (Ne : s' <> s) by (intros ->; apply Nin; apply (in_map fst) in Hs'; exact Hs').
        assert (P1 : exists r1, q = ((p ++ [s]) ++ r1)%list).
        { destruct (in_all_nodes _ _ _ _ H1) as [E|[y [l E]]]; [exists []; rewrite app_nil_r; exact E|exists (y :: l); exact E]. }
        assert (P2 : exists r2, q = ((p ++ [s']) ++ r2)%list).
        { destruct (in_all_nodes _ _ _ _ H2) as [E|[y [l E]]]; [exists []; rewrite app_nil_r; exact E|exists (y :: l); exact E]. }
        destruct P1 as [r1 E1]. destruct P2 as [r2 E2]. rewrite E1 in E2. rewrite <- !app_assoc in E2.
        apply app_inv_head in E2. cbn [app] in E2. inversion E2. congruence.
Qed.

(** * The file server's scope *)

Lemma clean_abs rs rt : segs_ok rs = true -> has_prefix (clean (req_path [] rs rt)) "/" = true.
Proof.
  intros H. rewrite clean_req_path by (try reflexivity; exact H). cbn [app].
  destruct rs; reflexivity.
Qed.

Lemma rid_clean rs rt : segs_ok rs = true -> rid (clean (req_path [] rs rt)) = rs.
Proof.
  intros H. rewrite clean_req_path by (try reflexivity; exact H). cbn [app].
  destruct rs as [|x r]; [reflexivity|].
  pose proof (rid_req_path [] (x :: r) false eq_refl H) as R. unfold req_path in R. cbn [app] in R.
  rewrite append_nil_r in R. exact R.
Qed.

Lemma rid_ext_path q : segs_ok q = true -> rid (ext_path q) = q.
Proof.
  intros H. destruct q as [|x r]; [reflexivity|]. cbn [ext_path].
  pose proof (rid_req_path [] (x :: r) false eq_refl H) as R. unfold req_path in R. cbn [app] in R.
  rewrite append_nil_r in R. exact R.
Qed.

Lemma has_nul_app a b : has_nul (a ++ b) = has_nul a || has_nul b.
Proof. induction a as [|c a IH]; [reflexivity|]. simpl. rewrite IH. apply Bool.orb_assoc. Qed.

Lemma has_nul_join l : nul_free l = true -> has_nul (join l) = false.
Proof.
  induction l as [|x r IH]; [reflexivity|]. intros H. cbn [nul_free forallb] in H.
  apply andb_prop in H. destruct H as [Hx Hr]. apply negb_true_iff in Hx.
  cbn [join]. rewrite !has_nul_app, Hx, (IH Hr). reflexivity.
Qed.

Lemma has_nul_req_path rs rt : nul_free rs = true -> has_nul (req_path [] rs rt) = false.
Proof.
  intros H. unfold req_path. cbn [app]. destruct rs as [|x r]; [reflexivity|].
  rewrite has_nul_app, (has_nul_join _ H). destruct rt; reflexivity.
Qed.

(** The resources the file server answers for, in answer order, are exactly the
    nodes of the served tree in scope of (target, Depth) — every node of the
    tree is enumerated once by [all_nodes] ([all_nodes_nodup]) — each under an
    href naming it; a target that does not exist is refused with 404. *)
Theorem scope_dav : forall t rs rt d,
  tree_ok t = true -> segs_ok rs = true -> nul_free rs = true ->
  match dav_scope t (req_path [] rs rt) d with
  | Ok l => get t rs <> None /\
            exists hf, l = map (fun pn => (hf pn, snd pn)) (dav_expected t d rs) /\
                       forall pn, In pn (dav_expected t d rs) -> rid (hf pn) = fst pn
  | Err c => c = 404%N /\ get t rs = None
  | Panic => False
  end.
Proof.
  intros t rs rt d OK Ors NN. unfold dav_scope.
  rewrite (has_nul_req_path rs rt NN).
  rewrite (clean_abs rs rt Ors). cbn [negb].
  rewrite (rid_req_path [] rs rt eq_refl Ors). cbn [app].
  destruct (get t rs) as [n|] eqn:G; [|split; reflexivity].
  pose proof (scope_tree d rs t [] n OK G) as S. cbn [app] in S.
  change (filter (sc d rs) (all_nodes [] t)) with (dav_expected t d rs) in S.
  destruct (negb (is_d0 d) && is_dir n).
  - split; [discriminate|]. exists (fun pn => ext_path (fst pn)). rewrite S. split; [reflexivity|].
    intros [q m] Hin. cbn [fst]. apply rid_ext_path.
    rewrite <- S in Hin. unfold dav_expected in Hin. apply filter_In in Hin. destruct Hin as [Hin _].
    apply (all_nodes_segs_ok t [] OK eq_refl q m Hin).
  - split; [discriminate|]. exists (fun _ => clean (req_path [] rs rt)). rewrite S. split; [reflexivity|].
    intros pn [<-|[]]. cbn [fst]. apply rid_clean. exact Ors.
Qed.

(** * The model meets the executable specification *)

Lemma Forall2_map_l {A B C} (P : B -> C -> Prop) (k : A -> B) (l : list A) (rs : list C) :
  Forall2 P (map k l) rs -> Forall2 (fun a r => P (k a) r) l rs.
Proof.
  revert rs. induction l as [|a l IH]; intros rs F; inversion F; subst; constructor; [assumption|].
  apply IH. assumption.
Qed.

Theorem dav_meets_spec : forall t rs rt ct bd dh,
  tree_ok t = true -> segs_ok rs = true -> nul_free rs = true ->
  dav_spec t rs ct bd dh (observe (dav_model t (req_path [] rs rt) ct bd dh)) = true.
Proof.
  intros t rs rt ct bd dh OK Ors NN.
  pose proof (status_dav t (req_path [] rs rt) ct bd dh) as ST.
  unfold dav_spec, spec_answer_gen, dav_model.
  apply andb_true_intro. split.
  { apply observe_strict. intros E. rewrite E in ST. exact ST. }
  clear ST. pose proof (decode_asked ct bd) as DA.
  destruct (asked_of ct bd) as [pf| |]; [| |reflexivity].
  2:{ unfold dav_propfind, handle_propfind. rewrite DA. reflexivity. }
  destruct DA as [D NF].
  unfold dav_propfind, handle_propfind. rewrite D. cbn [bind].
  assert (B : forall d,
    match (match get t rs with
           | None => None
           | Some _ => Some (map (fun pn => (fst pn, file_props (snd pn))) (dav_expected t d rs))
           end) with
    | None => negb (N.eqb (ob_status (observe (dav_backend t (req_path [] rs rt) pf d))) 207)
              || match ob_responses (observe (dav_backend t (req_path [] rs rt) pf d)) with [] => true | _ => false end
    | Some l =>
      N.eqb (ob_status (observe (dav_backend t (req_path [] rs rt) pf d))) 207
      && all2 (fun e r => list_eqb String.eqb (rid (r_href r)) (fst e) && accounted_dav_b pf (snd e) r)
              l (ob_responses (observe (dav_backend t (req_path [] rs rt) pf d)))
    end = true).
  { intros d. pose proof (scope_dav t rs rt d OK Ors NN) as S. unfold dav_backend.
    destruct (dav_scope t (req_path [] rs rt) d) as [l|c|]; cbn [bind].
    - destruct S as [G [hf [-> RH]]].
      destruct (get t rs) as [n|]; [|congruence].
      set (E := dav_expected t d rs) in *.
      destruct (map_res_new_ok (@fst string node) (fun hn => file_props (snd hn)) pf
                               (map (fun pn => (hf pn, snd pn)) E) NF) as (rs' & MR & _ & F2).
      rewrite MR. cbn [observe ob_status ob_responses N.eqb Pos.eqb andb].
      apply Forall2_map_l in F2. cbn [fst snd] in F2.
      apply (all2_map_Forall2 _ _ _ E rs' F2).
      intros pn r Hp NR. cbn [fst snd].
      pose proof (accounting (hf pn) pf (file_props (snd pn))) as A. rewrite NR in A. destruct A as [HR _].
      apply andb_true_intro. split.
      + rewrite HR, (RH pn Hp). apply list_eqb_string_spec. reflexivity.
      + unfold accounted_dav_b. rewrite (accounting_b _ _ _ _ NR). reflexivity.
    - destruct S as [-> G]. rewrite G. reflexivity.
    - contradiction. }
  destruct dh; cbn [parse_depth depth_asked bind is_infcase]; try reflexivity; apply B.
Qed.

Theorem principal_meets_spec : forall cup homesets path ct bd dh,
  principal_spec cup homesets (rid path) ct bd dh (observe (principal_model cup homesets path ct bd dh)) = true.
Proof.
  intros cup homesets path ct bd dh.
  pose proof (principal_ok cup homesets path ct bd dh) as PO.
  unfold principal_spec, spec_answer, spec_answer_gen, principal_model in *.
  apply andb_true_intro. split.
  { apply observe_strict. intros E. rewrite E in PO. exact PO. }
  pose proof (decode_asked ct bd) as DA.
  destruct (asked_of ct bd) as [pf| |]; [| |reflexivity].
  2:{ unfold serve_principal. rewrite DA. reflexivity. }
  destruct DA as [D NF]. unfold serve_principal in *. rewrite D in *. cbn [bind] in *.
  assert (B : N.eqb (ob_status (observe (do r <- new_propfind_response path pf (principal_props cup homesets); Ok [r]))) 207
              && all2 (fun e r => list_eqb String.eqb (rid (r_href r)) (fst e) && accounted_b pf (snd e) r)
                      [(rid path, principal_props cup homesets)]
                      (ob_responses (observe (do r <- new_propfind_response path pf (principal_props cup homesets); Ok [r])))
              = true).
  { pose proof (accounting path pf (principal_props cup homesets)) as A.
    destruct (new_propfind_response path pf (principal_props cup homesets)) as [r|c|] eqn:NR; cbn [bind].
    - cbn [observe ob_status ob_responses N.eqb Pos.eqb andb all2 fst snd].
      destruct A as [HR _]. rewrite Bool.andb_true_r. apply andb_true_intro. split.
      + rewrite HR. apply list_eqb_string_spec. reflexivity.
      + eapply accounting_b. exact NR.
    - destruct A as [_ FN]. apply form_of_none in FN. congruence.
    - contradiction. }
  destruct dh; cbn [parse_depth depth_asked bind is_infcase]; try reflexivity; exact B.
Qed.

(** the file server's verdict only widens the exact accounting *)
Lemma accounted_dav_of_exact pf p r : accounted_b pf p r = true -> accounted_dav_b pf p r = true.
Proof. intros H. unfold accounted_dav_b. rewrite H. reflexivity. Qed.
