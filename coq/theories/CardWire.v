(** CardWire.v — C09: CardDAV queries on the wire.

    Model, function by function, of
      carddav/client.go   encodeAddressPropReq, encodePropFilter, encodeParamFilter,
                          encodeTextMatch, QueryAddressBook, MultiGetAddressBook
      carddav/elements.go the wire structs and what xml.Marshal / xml.Unmarshal make of
                          them (struct <-> tree; see CardXml.v), the enumerations'
                          UnmarshalText
      carddav/server.go   handleReport, decodePropFilter, decodeParamFilter,
                          decodeTextMatch, decodeAddressDataReq, handleQuery,
                          handleMultiget
    and, written from RFC 6352 sections 8.7 and 10.3-10.7 only, a reference writer
    and reader of request documents ([rfc_write_raw], [rfc_read]).

    No proofs here: this file is extracted and must build even when a proof breaks. *)
From Coq Require Import DecimalString DecimalN Decimal Permutation.
From GW Require Import Base CardXml.

(* ------------------------------------------------------------------------- *)
(** * Small helpers *)

Definition is_some {A} (o : option A) : bool := match o with Some _ => true | None => false end.
Definition nonempty {A} (l : list A) : bool := match l with [] => false | _ => true end.
Definition dflt {A} (d : A) (o : option A) : A := match o with Some x => x | None => d end.
Definition mem (s : string) (l : list string) : bool := existsb (String.eqb s) l.

Fixpoint nodupb (l : list string) : bool :=
  match l with [] => true | x :: r => negb (mem x r) && nodupb r end.

Definition obind {A B} (o : option A) (f : A -> option B) : option B :=
  match o with Some a => f a | None => None end.
Notation "'olet' x <- o ; k" := (obind o (fun x => k))
  (at level 200, x pattern, o at level 100, k at level 200, right associativity).

Fixpoint omapM {A B} (f : A -> option B) (l : list A) : option (list B) :=
  match l with
  | [] => Some []
  | x :: r => olet y <- f x; olet ys <- omapM f r; Some (y :: ys)
  end.

Fixpoint mapM {A B} (f : A -> res B) (l : list A) : res (list B) :=
  match l with
  | [] => Ok []
  | x :: r => do y <- f x; do ys <- mapM f r; Ok (y :: ys)
  end.

(** Decimal numerals (strconv.FormatUint / the digits an RFC reader expects). *)
Definition dec_of_N (n : N) : string := NilZero.string_of_uint (N.to_uint n).

(** digits only, at least one: the value.  (Leading zeros are accepted, as by
    strconv.ParseUint.) *)
Definition digits_to_N (s : string) : option N :=
  if str_empty s then None
  else match NilEmpty.uint_of_string s with
       | Some d => Some (N.of_uint d)
       | None => None
       end.

Definition two64 : N := 18446744073709551616%N.
Definition two63 : N := 9223372036854775808%N.

(** strconv.ParseUint(s, 10, 64): no sign, no underscore, range checked. *)
Definition parse_uint64 (s : string) : option N :=
  match digits_to_N s with
  | Some n => if (n <? two64)%N then Some n else None
  | None => None
  end.

(** strings.TrimSpace: leading and trailing Unicode white space (the code points
    unicode.IsSpace accepts, in their UTF-8 encoding). *)
Definition b (n : nat) : ascii := ascii_of_nat n.
Definition is_ascii_space (c : ascii) : bool :=
  match c with
  | " "%char | "009"%char | "010"%char | "011"%char | "012"%char | "013"%char => true
  | _ => false
  end.

(** one white-space code point at the head of the byte list, if any *)
Definition strip_one (l : list ascii) : option (list ascii) :=
  match l with
  | [] => None
  | c :: r =>
    if is_ascii_space c then Some r
    else if Ascii.eqb c (b 194) then                      (* U+0085, U+00A0 *)
      match r with
      | d :: r' => if Ascii.eqb d (b 133) || Ascii.eqb d (b 160) then Some r' else None
      | _ => None
      end
    else if Ascii.eqb c (b 225) then                      (* U+1680 *)
      match r with
      | d :: e :: r' => if Ascii.eqb d (b 154) && Ascii.eqb e (b 128) then Some r' else None
      | _ => None
      end
    else if Ascii.eqb c (b 226) then                      (* U+2000-200A, 2028, 2029, 202F, 205F *)
      match r with
      | d :: e :: r' =>
        if Ascii.eqb d (b 128) &&
           ((Nat.leb 128 (nat_of_ascii e) && Nat.leb (nat_of_ascii e) 138)
            || Ascii.eqb e (b 168) || Ascii.eqb e (b 169) || Ascii.eqb e (b 175))
        then Some r'
        else if Ascii.eqb d (b 129) && Ascii.eqb e (b 159) then Some r'
        else None
      | _ => None
      end
    else if Ascii.eqb c (b 227) then                      (* U+3000 *)
      match r with
      | d :: e :: r' => if Ascii.eqb d (b 128) && Ascii.eqb e (b 128) then Some r' else None
      | _ => None
      end
    else None
  end.

(** the same, read from the end: [l] is the reversed string *)
Definition strip_one_rev (l : list ascii) : option (list ascii) :=
  match l with
  | [] => None
  | c :: r =>
    if is_ascii_space c then Some r
    else match r with
         | d :: r' =>
           match strip_one [d; c] with
           | Some [] => Some r'
           | _ =>
             match r' with
             | e :: r'' => match strip_one [e; d; c] with Some [] => Some r'' | _ => None end
             | [] => None
             end
           end
         | [] => None
         end
  end.

Fixpoint strip_many (one : list ascii -> option (list ascii)) (fuel : nat) (l : list ascii) : list ascii :=
  match fuel with
  | O => l
  | S f => match one l with Some r => strip_many one f r | None => l end
  end.

Definition go_trim_space (s : string) : string :=
  let l := list_ascii_of_string s in
  let l1 := strip_many strip_one (List.length l) l in
  let l2 := strip_many strip_one_rev (List.length l1) (rev l1) in
  string_of_list_ascii (rev l2).

(* ------------------------------------------------------------------------- *)
(** * Public values (carddav/carddav.go) *)

Record TextMatch := mkTM { tm_text : string; tm_negate : bool; tm_match : string }.
Record ParamFilter := mkPA { pa_name : string; pa_ind : bool; pa_tm : option TextMatch }.
Record PropFilter := mkPF {
  pf_name : string; pf_test : string; pf_ind : bool;
  pf_tms : list TextMatch; pf_params : list ParamFilter }.
Record DataRequest := mkDR { dr_props : list string; dr_allprop : bool }.
(** [q_limit] is a Go int; "<= 0 means unlimited". *)
Record Query := mkQ {
  q_data : DataRequest; q_filters : list PropFilter; q_test : string; q_limit : Z }.
Record MultiGet := mkMG { mg_paths : list string; mg_data : DataRequest }.

Definition dr_zero : DataRequest := mkDR [] false.

(* ------------------------------------------------------------------------- *)
(** * Wire structs (carddav/elements.go).  A [*struct{}] field is a bool (non-nil),
      a pointer to a struct an option. *)

Record w_text_match := mkWTM {
  wtm_text : string; wtm_collation : string; wtm_negate : bool; wtm_match : string }.
Record w_param_filter := mkWPA { wpa_name : string; wpa_ind : bool; wpa_tm : option w_text_match }.
Record w_prop_filter := mkWPF {
  wpf_name : string; wpf_test : string; wpf_ind : bool;
  wpf_tms : list w_text_match; wpf_params : list w_param_filter }.
Record w_filter := mkWF { wf_test : string; wf_props : list w_prop_filter }.
Record w_address_data := mkWAD { wad_props : list string; wad_allprop : bool }.

(** internal.RawXMLValue: either a value to be marshalled ([out]) or captured tokens. *)
Inductive raw_value := RawOut (a : w_address_data) | RawTok (t : xtree).
Definition w_prop := list raw_value.                                  (* internal.Prop.Raw *)

Record w_query := mkWQ {
  wq_prop : option w_prop; wq_allprop : bool; wq_propname : bool;
  wq_filter : w_filter; wq_limit : option N (* *limit, NResults *) }.
(** [wm_hrefs]: internal.Href values; only their Path is ever set or read here. *)
Record w_multiget := mkWM {
  wm_hrefs : list string; wm_prop : option w_prop; wm_allprop : bool; wm_propname : bool }.

Definition wtm_zero := mkWTM "" "" false "".
Definition wpa_zero := mkWPA "" false None.
Definition wpf_zero := mkWPF "" "" false [] [].
Definition wf_zero := mkWF "" [].
Definition wad_zero := mkWAD [] false.
Definition wq_zero := mkWQ None false false wf_zero None.
Definition wm_zero := mkWM [] None false false.

(* ------------------------------------------------------------------------- *)
(** * Client: public value -> wire struct (carddav/client.go).
      A Go [error] returned by the client is [Err 0]. *)

Definition client_error {A} : res A := Err 0.

(** encodeTextMatch, client.go:192 *)
Definition encode_text_match (tm : TextMatch) : w_text_match :=
  mkWTM (tm_text tm) "" (tm_negate tm) (tm_match tm).

(** encodeParamFilter, client.go:178 *)
Definition encode_param_filter (pa : ParamFilter) : res w_param_filter :=
  if pa_ind pa && is_some (pa_tm pa) then client_error
  else Ok (mkWPA (pa_name pa) (pa_ind pa)
                 (match pa_tm pa with Some t => Some (encode_text_match t) | None => None end)).

(** encodePropFilter, client.go:157 *)
Definition encode_prop_filter (pf : PropFilter) : res w_prop_filter :=
  if pf_ind pf && (nonempty (pf_tms pf) || nonempty (pf_params pf)) then client_error
  else
    do ps <- mapM encode_param_filter (pf_params pf);
    Ok (mkWPF (pf_name pf) (pf_test pf) (pf_ind pf) (map encode_text_match (pf_tms pf)) ps).

Definition DAV_getlastmodified : qname := (NS_DAV, "getlastmodified").
Definition DAV_getetag : qname := (NS_DAV, "getetag").

(** encodeAddressPropReq, client.go:142 (internal.EncodeProp never fails) *)
Definition encode_address_prop_req (dr : DataRequest) : w_prop :=
  [ RawOut (if dr_allprop dr then mkWAD [] true else mkWAD (dr_props dr) false);
    RawTok (Elem DAV_getlastmodified [] []);
    RawTok (Elem DAV_getetag [] []) ].

(** QueryAddressBook, client.go:246, up to the request body *)
Definition query_address_book (q : Query) : res w_query :=
  let prop := encode_address_prop_req (q_data q) in
  do pfs <- mapM encode_prop_filter (q_filters q);
  Ok (mkWQ (Some prop) false false (mkWF (q_test q) pfs)
           (if (0 <? q_limit q)%Z then Some (Z.to_N (q_limit q)) else None)).

(** MultiGetAddressBook, client.go:280, up to the request body *)
Definition multi_get_address_book (path : string) (mg : MultiGet) : w_multiget :=
  mkWM (match mg_paths mg with [] => [path] | l => l end)
       (Some (encode_address_prop_req (mg_data mg))) false false.

(* ------------------------------------------------------------------------- *)
(** * xml.Marshal of the wire structs, as a conformant parser reads the output.

    Rules of encoding/xml used here (marshal.go): children in field order; a field
    is skipped when it is a nil pointer, or has [omitempty] and is empty in the
    sense of isEmptyValue (empty string, false, empty slice); an attribute field
    without [omitempty] is always written; a [,chardata] string is written as text
    (nothing when empty); the element name is the struct's XMLName, else the field
    tag.  The encoder prints [xmlns="ns"] on every element whose name has a
    namespace, and nothing on an element whose tag names none — which a parser
    then reads in the namespace of the enclosing element ([el_inh]). *)

Definition nsd (ns : string) : attr := (("", "xmlns"), ns).
Definition el (ns local : string) (attrs : list attr) (kids : list xtree) : xtree :=
  Elem (ns, local) (nsd ns :: attrs) kids.
Definition el_inh (parent_ns local : string) (attrs : list attr) (kids : list xtree) : xtree :=
  Elem (parent_ns, local) attrs kids.
Definition at_always (local v : string) : list attr := [(("", local), v)].
Definition at_omitempty (local v : string) : list attr :=
  if str_empty v then [] else [(("", local), v)].
Definition text_kid (s : string) : list xtree := if str_empty s then [] else [Text s].
Definition opt_kid {A} (f : A -> xtree) (o : option A) : list xtree :=
  match o with Some a => [f a] | None => [] end.
Definition flag_kid (present : bool) (t : xtree) : list xtree := if present then [t] else [].

(** textMatch; negateCondition.MarshalText gives "yes" for true, and the attribute
    is omitted for false (omitempty on a bool) *)
Definition marshal_text_match (w : w_text_match) : xtree :=
  el NS_CARD "text-match"
     (at_omitempty "collation" (wtm_collation w)
      ++ (if wtm_negate w then [(("", "negate-condition"), "yes")] else [])
      ++ at_omitempty "match-type" (wtm_match w))
     (text_kid (wtm_text w)).

Definition marshal_param_filter (w : w_param_filter) : xtree :=
  el NS_CARD "param-filter" (at_always "name" (wpa_name w))
     (flag_kid (wpa_ind w) (el_inh NS_CARD "is-not-defined" [] [])
      ++ opt_kid marshal_text_match (wpa_tm w)).

Definition marshal_prop_filter (w : w_prop_filter) : xtree :=
  el NS_CARD "prop-filter" (at_always "name" (wpf_name w) ++ at_omitempty "test" (wpf_test w))
     (flag_kid (wpf_ind w) (el_inh NS_CARD "is-not-defined" [] [])
      ++ map marshal_text_match (wpf_tms w)
      ++ map marshal_param_filter (wpf_params w)).

Definition marshal_filter (w : w_filter) : xtree :=
  el NS_CARD "filter" (at_omitempty "test" (wf_test w)) (map marshal_prop_filter (wf_props w)).

Definition marshal_limit (n : N) : xtree :=
  el NS_CARD "limit" [] [el_inh NS_CARD "nresults" [] [Text (dec_of_N n)]].

Definition marshal_address_data (w : w_address_data) : xtree :=
  el NS_CARD "address-data" []
     (map (fun n => el NS_CARD "prop" (at_always "name" n) []) (wad_props w)
      ++ flag_kid (wad_allprop w) (el_inh NS_CARD "allprop" [] [])).

(** RawXMLValue.MarshalXML.  On the encoding path the only token values are
    childless, attribute-less elements (NewRawXMLElement(name, nil, nil)); the
    encoder prints them with their xmlns.  Other token trees are C15's subject. *)
Definition marshal_raw (r : raw_value) : xtree :=
  match r with
  | RawOut a => marshal_address_data a
  | RawTok (Elem (ns, l) a k) => Elem (ns, l) (nsd ns :: a) k
  | RawTok t => t
  end.

Definition marshal_prop (p : w_prop) : xtree := el NS_DAV "prop" [] (map marshal_raw p).

Definition marshal_query (w : w_query) : xtree :=
  el NS_CARD "addressbook-query" []
     (opt_kid marshal_prop (wq_prop w)
      ++ flag_kid (wq_allprop w) (el NS_DAV "allprop" [] [])
      ++ flag_kid (wq_propname w) (el NS_DAV "propname" [] [])
      ++ [marshal_filter (wq_filter w)]
      ++ opt_kid marshal_limit (wq_limit w)).

(* ------------------------------------------------------------------------- *)
(** * xml.Unmarshal into the wire structs (read.go).

    For a struct: the element name is checked against XMLName (local name, then
    namespace) -> error; every attribute, in document order, is assigned to each
    attribute field whose name equals its LOCAL name (these tags name no namespace,
    so the attribute's namespace is not looked at — this includes namespace
    declarations, which Go leaves in the attribute list); then every child element
    is given to the first element field whose name equals its local name and whose
    tag namespace, if any, equals its namespace; other children are skipped; a
    slice field grows by one zero value per child, a pointer field is allocated
    once and then re-used (so a repeated child merges into it), a string / uint
    field is overwritten; character data directly inside the element goes to the
    [,chardata] field.  Every error surfaces as 400 (internal.DecodeXMLRequest). *)

Definition bad_request {A} : res A := Err 400.

Fixpoint assign_attrs {W} (set : string -> string -> W -> res W) (w : W) (attrs : list attr) : res W :=
  match attrs with
  | [] => Ok w
  | a :: r => do w1 <- set (snd (fst a)) (snd a) w; assign_attrs set w1 r
  end.

Fixpoint walk_kids {W} (step : qname -> list attr -> list xtree -> W -> res W) (w : W) (kids : list xtree) : res W :=
  match kids with
  | [] => Ok w
  | Elem n a k :: r => do w1 <- step n a k w; walk_kids step w1 r
  | _ :: r => walk_kids step w r
  end.

Definition check_name (ns local : string) (n : qname) : bool :=
  String.eqb (snd n) local && String.eqb (fst n) ns.

(** filterTest.UnmarshalText, elements.go:78 *)
Definition unmarshal_filter_test (s : string) : res string :=
  if String.eqb s "anyof" || String.eqb s "allof" then Ok s else bad_request.

(** matchType.UnmarshalText, elements.go:131 *)
Definition unmarshal_match_type (s : string) : res string :=
  if String.eqb s "equals" || String.eqb s "contains" || String.eqb s "starts-with" || String.eqb s "ends-with"
  then Ok s else bad_request.

(** negateCondition.UnmarshalText, elements.go:110 *)
Definition unmarshal_negate (s : string) : res bool :=
  if String.eqb s "yes" then Ok true else if String.eqb s "no" then Ok false else bad_request.

(** copyValue for a uint field: empty data is 0, otherwise ParseUint(TrimSpace) *)
Definition unmarshal_uint (s : string) : res N :=
  if str_empty s then Ok 0%N
  else match parse_uint64 (go_trim_space s) with Some n => Ok n | None => bad_request end.

Definition tm_set (local v : string) (w : w_text_match) : res w_text_match :=
  if String.eqb local "collation" then Ok (mkWTM (wtm_text w) v (wtm_negate w) (wtm_match w))
  else if String.eqb local "negate-condition" then
    do x <- unmarshal_negate v; Ok (mkWTM (wtm_text w) (wtm_collation w) x (wtm_match w))
  else if String.eqb local "match-type" then
    do m <- unmarshal_match_type v; Ok (mkWTM (wtm_text w) (wtm_collation w) (wtm_negate w) m)
  else Ok w.

Definition unmarshal_text_match (w0 : w_text_match) (n : qname) (a : list attr) (k : list xtree) : res w_text_match :=
  if negb (check_name NS_CARD "text-match" n) then bad_request
  else do w <- assign_attrs tm_set w0 a;
       Ok (mkWTM (chardata k) (wtm_collation w) (wtm_negate w) (wtm_match w)).

Definition pa_set (local v : string) (w : w_param_filter) : res w_param_filter :=
  if String.eqb local "name" then Ok (mkWPA v (wpa_ind w) (wpa_tm w)) else Ok w.

Definition pa_step (n : qname) (a : list attr) (k : list xtree) (w : w_param_filter) : res w_param_filter :=
  if String.eqb (snd n) "is-not-defined" then Ok (mkWPA (wpa_name w) true (wpa_tm w))
  else if String.eqb (snd n) "text-match" then
    do t <- unmarshal_text_match (dflt wtm_zero (wpa_tm w)) n a k;
    Ok (mkWPA (wpa_name w) (wpa_ind w) (Some t))
  else Ok w.

Definition unmarshal_param_filter (w0 : w_param_filter) (n : qname) (a : list attr) (k : list xtree) : res w_param_filter :=
  if negb (check_name NS_CARD "param-filter" n) then bad_request
  else do w <- assign_attrs pa_set w0 a; walk_kids pa_step w k.

Definition pf_set (local v : string) (w : w_prop_filter) : res w_prop_filter :=
  if String.eqb local "name" then Ok (mkWPF v (wpf_test w) (wpf_ind w) (wpf_tms w) (wpf_params w))
  else if String.eqb local "test" then
    do t <- unmarshal_filter_test v; Ok (mkWPF (wpf_name w) t (wpf_ind w) (wpf_tms w) (wpf_params w))
  else Ok w.

Definition pf_step (n : qname) (a : list attr) (k : list xtree) (w : w_prop_filter) : res w_prop_filter :=
  if String.eqb (snd n) "is-not-defined" then
    Ok (mkWPF (wpf_name w) (wpf_test w) true (wpf_tms w) (wpf_params w))
  else if String.eqb (snd n) "text-match" then
    do t <- unmarshal_text_match wtm_zero n a k;
    Ok (mkWPF (wpf_name w) (wpf_test w) (wpf_ind w) (wpf_tms w ++ [t]) (wpf_params w))
  else if String.eqb (snd n) "param-filter" then
    do p <- unmarshal_param_filter wpa_zero n a k;
    Ok (mkWPF (wpf_name w) (wpf_test w) (wpf_ind w) (wpf_tms w) (wpf_params w ++ [p]))
  else Ok w.

Definition unmarshal_prop_filter (w0 : w_prop_filter) (n : qname) (a : list attr) (k : list xtree) : res w_prop_filter :=
  if negb (check_name NS_CARD "prop-filter" n) then bad_request
  else do w <- assign_attrs pf_set w0 a; walk_kids pf_step w k.

Definition f_set (local v : string) (w : w_filter) : res w_filter :=
  if String.eqb local "test" then do t <- unmarshal_filter_test v; Ok (mkWF t (wf_props w)) else Ok w.

Definition f_step (n : qname) (a : list attr) (k : list xtree) (w : w_filter) : res w_filter :=
  if String.eqb (snd n) "prop-filter" then
    do p <- unmarshal_prop_filter wpf_zero n a k; Ok (mkWF (wf_test w) (wf_props w ++ [p]))
  else Ok w.

Definition unmarshal_filter (w0 : w_filter) (n : qname) (a : list attr) (k : list xtree) : res w_filter :=
  if negb (check_name NS_CARD "filter" n) then bad_request
  else do w <- assign_attrs f_set w0 a; walk_kids f_step w k.

(** limit: the uint field takes the character data directly inside <nresults> *)
Definition lim_step (n : qname) (a : list attr) (k : list xtree) (w : N) : res N :=
  if String.eqb (snd n) "nresults" then unmarshal_uint (chardata k) else Ok w.

Definition unmarshal_limit (w0 : N) (n : qname) (a : list attr) (k : list xtree) : res N :=
  if negb (check_name NS_CARD "limit" n) then bad_request else walk_kids lim_step w0 k.

(** RawXMLValue.UnmarshalXML (internal/xml.go): the element is captured with all its
    content, but without namespace declarations (withoutNamespaceDecls), at every depth *)
Definition without_nsdecls (a : list attr) : list attr := filter (fun x => negb (is_nsdecl x)) a.

Fixpoint capture (t : xtree) : xtree :=
  match t with
  | Elem n a k => Elem n (without_nsdecls a) (map capture k)
  | _ => t
  end.

(** internal.Prop: every child element is captured (Raw, [,any]) *)
Fixpoint raw_kids (kids : list xtree) : list raw_value :=
  match kids with
  | [] => []
  | Elem n a k :: r => RawTok (capture (Elem n a k)) :: raw_kids r
  | _ :: r => raw_kids r
  end.

Definition q_step (n : qname) (a : list attr) (k : list xtree) (w : w_query) : res w_query :=
  if qname_eqb n (NS_DAV, "prop") then
    Ok (mkWQ (Some (dflt [] (wq_prop w) ++ raw_kids k)%list) (wq_allprop w) (wq_propname w) (wq_filter w) (wq_limit w))
  else if qname_eqb n (NS_DAV, "allprop") then
    Ok (mkWQ (wq_prop w) true (wq_propname w) (wq_filter w) (wq_limit w))
  else if qname_eqb n (NS_DAV, "propname") then
    Ok (mkWQ (wq_prop w) (wq_allprop w) true (wq_filter w) (wq_limit w))
  else if String.eqb (snd n) "filter" then
    do f <- unmarshal_filter (wq_filter w) n a k;
    Ok (mkWQ (wq_prop w) (wq_allprop w) (wq_propname w) f (wq_limit w))
  else if String.eqb (snd n) "limit" then
    do l <- unmarshal_limit (dflt 0%N (wq_limit w)) n a k;
    Ok (mkWQ (wq_prop w) (wq_allprop w) (wq_propname w) (wq_filter w) (Some l))
  else Ok w.

Definition unmarshal_query (n : qname) (a : list attr) (k : list xtree) : res w_query :=
  if negb (check_name NS_CARD "addressbook-query" n) then bad_request
  else walk_kids q_step wq_zero k.

(** addressDataReq, reached through Prop.Decode on the captured element *)
Definition cprop_set (local v : string) (w : string) : res string :=
  if String.eqb local "name" then Ok v else Ok w.

Definition unmarshal_cprop (n : qname) (a : list attr) (k : list xtree) : res string :=
  if negb (check_name NS_CARD "prop" n) then bad_request else assign_attrs cprop_set "" a.

Definition ad_step (n : qname) (a : list attr) (k : list xtree) (w : w_address_data) : res w_address_data :=
  if String.eqb (snd n) "prop" then
    do p <- unmarshal_cprop n a k; Ok (mkWAD (wad_props w ++ [p]) (wad_allprop w))
  else if String.eqb (snd n) "allprop" then Ok (mkWAD (wad_props w) true)
  else Ok w.

Definition unmarshal_address_data (w0 : w_address_data) (n : qname) (a : list attr) (k : list xtree) : res w_address_data :=
  if negb (check_name NS_CARD "address-data" n) then bad_request else walk_kids ad_step w0 k.

(* ------------------------------------------------------------------------- *)
(** * hrefs.  net/url is not modelled (DESIGN.md section 6, external calls): the two
      functions the code uses enter as parameters, supplied per case by the harness
      with the real functions:
        [us p]  = (&url.URL{Path: p}).String()       (Href.MarshalText)
        [up s]  = url.Parse(s) -> Some u.Path | None  (Href.UnmarshalText) *)

Definition marshal_multiget (us : string -> string) (w : w_multiget) : xtree :=
  el NS_CARD "addressbook-multiget" []
     (map (fun p => el NS_DAV "href" [] (text_kid (us p))) (wm_hrefs w)
      ++ opt_kid marshal_prop (wm_prop w)
      ++ flag_kid (wm_allprop w) (el NS_DAV "allprop" [] [])
      ++ flag_kid (wm_propname w) (el NS_DAV "propname" [] [])).

Definition m_step (up : string -> option string)
    (n : qname) (a : list attr) (k : list xtree) (w : w_multiget) : res w_multiget :=
  if qname_eqb n (NS_DAV, "href") then
    match up (chardata k) with
    | Some p => Ok (mkWM (wm_hrefs w ++ [p]) (wm_prop w) (wm_allprop w) (wm_propname w))
    | None => bad_request
    end
  else if qname_eqb n (NS_DAV, "prop") then
    Ok (mkWM (wm_hrefs w) (Some (dflt [] (wm_prop w) ++ raw_kids k)%list) (wm_allprop w) (wm_propname w))
  else if qname_eqb n (NS_DAV, "allprop") then
    Ok (mkWM (wm_hrefs w) (wm_prop w) true (wm_propname w))
  else if qname_eqb n (NS_DAV, "propname") then
    Ok (mkWM (wm_hrefs w) (wm_prop w) (wm_allprop w) true)
  else Ok w.

Definition unmarshal_multiget (up : string -> option string)
    (n : qname) (a : list attr) (k : list xtree) : res w_multiget :=
  if negb (check_name NS_CARD "addressbook-multiget" n) then bad_request
  else walk_kids (m_step up) wm_zero k.

(* ------------------------------------------------------------------------- *)
(** * Server: wire struct -> public value -> backend call (carddav/server.go).
      A plain Go error is [Err 500] (what ServeError makes of it) until a caller
      wraps it. *)

Definition plain_error {A} : res A := Err 500.

(** decodeTextMatch, server.go:136 *)
Definition decode_text_match (w : w_text_match) : TextMatch :=
  mkTM (wtm_text w) (wtm_negate w) (wtm_match w).

(** decodeParamFilter, server.go:122 *)
Definition decode_param_filter (w : w_param_filter) : res ParamFilter :=
  if wpa_ind w && is_some (wpa_tm w) then plain_error
  else Ok (mkPA (wpa_name w) (wpa_ind w)
                (match wpa_tm w with Some t => Some (decode_text_match t) | None => None end)).

(** decodePropFilter, server.go:101 *)
Definition decode_prop_filter (w : w_prop_filter) : res PropFilter :=
  if wpf_ind w && (nonempty (wpf_tms w) || nonempty (wpf_params w)) then plain_error
  else
    do ps <- mapM decode_param_filter (wpf_params w);
    Ok (mkPF (wpf_name w) (wpf_test w) (wpf_ind w) (map decode_text_match (wpf_tms w)) ps).

(** decodeAddressDataReq, server.go:144 *)
Definition decode_address_data_req (w : w_address_data) : res DataRequest :=
  if wad_allprop w && nonempty (wad_props w) then bad_request
  else Ok (mkDR (wad_props w) (wad_allprop w)).

(** RawXMLValue.XMLName / Prop.Get: the first captured element with that name *)
Fixpoint prop_get (p : w_prop) (name : qname) : option xtree :=
  match p with
  | [] => None
  | RawTok (Elem n a k) :: r => if qname_eqb n name then Some (Elem n a k) else prop_get r name
  | _ :: r => prop_get r name
  end.

Definition addressDataName : qname := (NS_CARD, "address-data").

(** the common prelude of handleQuery / handleMultiget: Prop.Decode(&addressData)
    (a missing property is ignored; any other decoding error is wrapped in 400,
    commit 3a8ceea), then decodeAddressDataReq *)
Definition data_request_of (p : option w_prop) : res DataRequest :=
  match p with
  | None => Ok dr_zero
  | Some raw =>
    do ad <- match prop_get raw addressDataName with
             | None => Ok wad_zero
             | Some (Elem n a k) =>
               match unmarshal_address_data wad_zero n a k with
               | Ok x => Ok x
               | Err _ => bad_request
               | Panic => Panic
               end
             | Some _ => Ok wad_zero
             end;
    decode_address_data_req ad
  end.

(** what reaches the backend *)
Inductive outcome :=
| CallQuery (path : string) (q : Query)               (* Backend.QueryAddressObjects *)
| EmptyMultiStatus                                    (* 207 without any backend call *)
| CallsGet (calls : list (string * DataRequest)).     (* Backend.GetAddressObject, in order *)

(** int(uint64) on a 64-bit platform *)
Definition int_of_uint (n : N) : Z :=
  if (n <? two63)%N then Z.of_N n else (Z.of_N n - Z.of_N two64)%Z.

(** handleQuery, server.go:156, up to the backend call *)
Definition handle_query (path : string) (w : w_query) : res outcome :=
  do dr <- data_request_of (wq_prop w);
  do pfs <- mapM (fun el => match decode_prop_filter el with
                            | Ok pf => Ok pf
                            | Err _ => bad_request
                            | Panic => Panic
                            end) (wf_props (wq_filter w));
  match wq_limit w with
  | Some n =>
    let lim := int_of_uint n in
    if (lim <=? 0)%Z then Ok EmptyMultiStatus
    else Ok (CallQuery path (mkQ dr pfs (wf_test (wq_filter w)) lim))
  | None => Ok (CallQuery path (mkQ dr pfs (wf_test (wq_filter w)) 0%Z))
  end.

(** handleMultiget, server.go:211, up to the backend calls *)
Definition handle_multiget (w : w_multiget) : res outcome :=
  do dr <- data_request_of (wm_prop w);
  Ok (CallsGet (map (fun p => (p, dr)) (wm_hrefs w))).

(** unqualifiedAttrReader (elements.go): the token stream reportReq.UnmarshalXML decodes
    from carries, at every depth, only the attributes that are in no namespace.  That
    leaves out the declarations xmlns:p="..." (Go gives them the name space "xmlns") and
    attributes of foreign namespaces; a default-namespace declaration xmlns="..." has an
    empty name space and stays (no field is called xmlns). *)
Definition unqualified (a : attr) : bool := String.eqb (fst (fst a)) "".
Definition strip_attrs (a : list attr) : list attr := filter unqualified a.

Fixpoint strip_qualified (t : xtree) : xtree :=
  match t with
  | Elem n a k => Elem n (strip_attrs a) (map strip_qualified k)
  | _ => t
  end.

(** handleReport, server.go:87, after the request body has been tokenised: the switch of
    reportReq.UnmarshalXML on the root name, Decode into the chosen struct, handleQuery /
    handleMultiget.  [t] is what the decoder is given. *)
Definition handle_decoded (up : string -> option string) (path : string) (t : xtree) : res outcome :=
  match t with
  | Elem n a k =>
    if qname_eqb n (NS_CARD, "addressbook-query") then
      do w <- unmarshal_query n a k; handle_query path w
    else if qname_eqb n (NS_CARD, "addressbook-multiget") then
      do w <- unmarshal_multiget up n a k; handle_multiget w
    else bad_request
  | _ => bad_request
  end.

(** handleReport for a request whose Content-Type is XML and whose body parses to the
    element [t]: reportReq.UnmarshalXML decodes through unqualifiedAttrReader.  (The root
    switch looks at the element name only, which the reader leaves alone.) *)
Definition handle_report (up : string -> option string) (path : string) (t : xtree) : res outcome :=
  handle_decoded up path (strip_qualified t).

(** the two client entry points down to the tree of the body they send *)
Definition client_query_doc (q : Query) : res xtree :=
  do w <- query_address_book q; Ok (marshal_query w).
Definition client_multiget_doc (us : string -> string) (path : string) (mg : MultiGet) : xtree :=
  marshal_multiget us (multi_get_address_book path mg).

(* ========================================================================= *)
(** * The reference: RFC 6352 request documents.

    Written from RFC 6352 only (section 8.7 and 10.7 addressbook-multiget, 10.3
    addressbook-query, 10.4 address-data, 10.5 filter / prop-filter / param-filter /
    is-not-defined / text-match, 10.6 limit / nresults), independently of the Go
    structs above.

      addressbook-query    ((DAV:allprop | DAV:propname | DAV:prop)?, filter, limit?)
      addressbook-multiget ((DAV:allprop | DAV:propname | DAV:prop)?, DAV:href+)
      address-data         (allprop | prop* )          prop: name, novalue (yes|no) "no"
      filter               (prop-filter* )             test (anyof | allof) "anyof"
      prop-filter          (is-not-defined | (text-match*, param-filter* ))
                                                       name #REQUIRED, test (anyof | allof) "anyof"
      param-filter         (is-not-defined | text-match)?            name #REQUIRED
      text-match           (#PCDATA)   collation "i;unicode-casemap",
                                       negate-condition (yes | no) "no",
                                       match-type (equals|contains|starts-with|ends-with) "contains"
      limit                (nresults)                  nresults (#PCDATA), a positive integer

    Not representable in the library's public types and therefore outside the
    request type below: a collation other than the default, novalue="yes", and
    content-type / version on address-data.  As in WebDAV, the relative order of
    children of different kinds is not significant; order within a kind is. *)

Inductive rtest := AnyOf | AllOf.
Inductive rmatch := Equals | Contains | StartsWith | EndsWith.

Record r_tm := mkRT { rt_text : string; rt_negate : bool; rt_match : rmatch }.
Inductive r_pcond := RParamDefined | RParamNotDefined | RParamText (t : r_tm).
Record r_param := mkRP { rp_name : string; rp_cond : r_pcond }.
Inductive r_fcond := RPropNotDefined | RPropMatches (tms : list r_tm) (params : list r_param).
Record r_pf := mkRF { rf_name : string; rf_test : rtest; rf_cond : r_fcond }.
Inductive r_data := RAllProp | RProps (names : list string).
Inductive r_item := RAddressData (d : r_data) | ROther (n : qname).
Inductive r_sel := RSelNone | RSelAllProp | RSelPropName | RSelProp (items : list r_item).
Record r_query := mkRQ {
  rq_sel : r_sel; rq_test : rtest; rq_filters : list r_pf; rq_limit : option N }.
Record r_multiget := mkRM { rm_sel : r_sel; rm_hrefs : list string }.
Inductive request := RQuery (q : r_query) | RMultiget (m : r_multiget).

(** ** Documents with arbitrary attribute strings.  A "raw" request is a request in
    which every enumerated attribute is an optional, arbitrary string ([None] = the
    attribute is absent) and nresults an arbitrary string: the documents an
    arbitrary — possibly non-conformant — sender can produce with this vocabulary. *)

Record x_tm := mkXT { xt_text : string; xt_negate : option string; xt_match : option string }.
Inductive x_pcond := XParamDefined | XParamNotDefined | XParamText (t : x_tm).
Record x_param := mkXP { xp_name : string; xp_cond : x_pcond }.
Inductive x_fcond := XPropNotDefined | XPropMatches (tms : list x_tm) (params : list x_param).
Record x_pf := mkXF { xf_name : string; xf_test : option string; xf_cond : x_fcond }.
Record x_query := mkXQ {
  xq_sel : r_sel; xq_test : option string; xq_filters : list x_pf; xq_limit : option string }.
Inductive x_request := XQuery (q : x_query) | XMultiget (m : r_multiget).

(** *** which raw requests are RFC-conformant, and what they denote *)

Definition val_test (o : option string) : option rtest :=
  match o with
  | None => Some AnyOf
  | Some s => if String.eqb s "anyof" then Some AnyOf
              else if String.eqb s "allof" then Some AllOf else None
  end.

Definition val_match (o : option string) : option rmatch :=
  match o with
  | None => Some Contains
  | Some s => if String.eqb s "equals" then Some Equals
              else if String.eqb s "contains" then Some Contains
              else if String.eqb s "starts-with" then Some StartsWith
              else if String.eqb s "ends-with" then Some EndsWith else None
  end.

Definition val_negate (o : option string) : option bool :=
  match o with
  | None => Some false
  | Some s => if String.eqb s "yes" then Some true
              else if String.eqb s "no" then Some false else None
  end.

(** nresults: decimal digits denoting a positive integer *)
Definition val_nresults (s : string) : option N :=
  match digits_to_N s with
  | Some n => if (0 <? n)%N then Some n else None
  | None => None
  end.

Definition val_tm (t : x_tm) : option r_tm :=
  olet n <- val_negate (xt_negate t);
  olet m <- val_match (xt_match t);
  Some (mkRT (xt_text t) n m).

Definition val_param (p : x_param) : option r_param :=
  match xp_cond p with
  | XParamDefined => Some (mkRP (xp_name p) RParamDefined)
  | XParamNotDefined => Some (mkRP (xp_name p) RParamNotDefined)
  | XParamText t => olet t' <- val_tm t; Some (mkRP (xp_name p) (RParamText t'))
  end.

Definition val_pf (f : x_pf) : option r_pf :=
  olet t <- val_test (xf_test f);
  match xf_cond f with
  | XPropNotDefined => Some (mkRF (xf_name f) t RPropNotDefined)
  | XPropMatches tms ps =>
    olet tms' <- omapM val_tm tms;
    olet ps' <- omapM val_param ps;
    Some (mkRF (xf_name f) t (RPropMatches tms' ps'))
  end.

(** a requested property other than address-data: any other element name *)
Definition item_ok (i : r_item) : bool :=
  match i with
  | RAddressData _ => true
  | ROther n => negb (qname_eqb n (NS_CARD, "address-data"))
  end.

Definition sel_ok (s : r_sel) : bool :=
  match s with RSelProp items => forallb item_ok items | _ => true end.

Definition val_query (q : x_query) : option r_query :=
  if negb (sel_ok (xq_sel q)) then None else
  olet t <- val_test (xq_test q);
  olet fs <- omapM val_pf (xq_filters q);
  olet l <- match xq_limit q with
            | None => Some None
            | Some s => olet n <- val_nresults s; Some (Some n)
            end;
  Some (mkRQ (xq_sel q) t fs l).

Definition val_multiget (m : r_multiget) : option r_multiget :=
  if sel_ok (rm_sel m) && nonempty (rm_hrefs m) then Some m else None.

Definition validate (x : x_request) : option request :=
  match x with
  | XQuery q => olet r <- val_query q; Some (RQuery r)
  | XMultiget m => olet r <- val_multiget m; Some (RMultiget r)
  end.

(** *** the canonical embedding of a request (every attribute written out) *)

Definition test_str (t : rtest) : string := match t with AnyOf => "anyof" | AllOf => "allof" end.
Definition match_str (m : rmatch) : string :=
  match m with Equals => "equals" | Contains => "contains"
             | StartsWith => "starts-with" | EndsWith => "ends-with" end.
Definition negate_str (x : bool) : string := if x then "yes" else "no".

Definition raw_tm (t : r_tm) : x_tm :=
  mkXT (rt_text t) (Some (negate_str (rt_negate t))) (Some (match_str (rt_match t))).
Definition raw_param (p : r_param) : x_param :=
  mkXP (rp_name p) (match rp_cond p with
                    | RParamDefined => XParamDefined
                    | RParamNotDefined => XParamNotDefined
                    | RParamText t => XParamText (raw_tm t)
                    end).
Definition raw_pf (f : r_pf) : x_pf :=
  mkXF (rf_name f) (Some (test_str (rf_test f)))
       (match rf_cond f with
        | RPropNotDefined => XPropNotDefined
        | RPropMatches tms ps => XPropMatches (map raw_tm tms) (map raw_param ps)
        end).
Definition raw_query (q : r_query) : x_query :=
  mkXQ (rq_sel q) (Some (test_str (rq_test q))) (map raw_pf (rq_filters q))
       (match rq_limit q with Some n => Some (dec_of_N n) | None => None end).
Definition raw_request (r : request) : x_request :=
  match r with RQuery q => XQuery (raw_query q) | RMultiget m => XMultiget m end.

(** ** The writer *)

Definition C (local : string) : qname := (NS_CARD, local).
Definition D (local : string) : qname := (NS_DAV, local).
Definition plain_attr (local v : string) : attr := (("", local), v).
Definition opt_attr (local : string) (o : option string) : list attr :=
  match o with Some v => [plain_attr local v] | None => [] end.

Definition write_tm (t : x_tm) : xtree :=
  Elem (C "text-match")
       (opt_attr "negate-condition" (xt_negate t) ++ opt_attr "match-type" (xt_match t))
       (text_kid (xt_text t)).

Definition write_param (p : x_param) : xtree :=
  Elem (C "param-filter") [plain_attr "name" (xp_name p)]
       (match xp_cond p with
        | XParamDefined => []
        | XParamNotDefined => [Elem (C "is-not-defined") [] []]
        | XParamText t => [write_tm t]
        end).

Definition write_pf (f : x_pf) : xtree :=
  Elem (C "prop-filter") (plain_attr "name" (xf_name f) :: opt_attr "test" (xf_test f))
       (match xf_cond f with
        | XPropNotDefined => [Elem (C "is-not-defined") [] []]
        | XPropMatches tms ps => map write_tm tms ++ map write_param ps
        end).

Definition write_data (d : r_data) : xtree :=
  Elem (C "address-data") []
       (match d with
        | RAllProp => [Elem (C "allprop") [] []]
        | RProps names => map (fun n => Elem (C "prop") [plain_attr "name" n] []) names
        end).

Definition write_item (i : r_item) : xtree :=
  match i with RAddressData d => write_data d | ROther n => Elem n [] [] end.

Definition write_sel (s : r_sel) : list xtree :=
  match s with
  | RSelNone => []
  | RSelAllProp => [Elem (D "allprop") [] []]
  | RSelPropName => [Elem (D "propname") [] []]
  | RSelProp items => [Elem (D "prop") [] (map write_item items)]
  end.

Definition write_limit (s : string) : xtree :=
  Elem (C "limit") [] [Elem (C "nresults") [] (text_kid s)].

Definition write_query (q : x_query) : xtree :=
  Elem (C "addressbook-query") []
       (write_sel (xq_sel q)
        ++ [Elem (C "filter") (opt_attr "test" (xq_test q)) (map write_pf (xq_filters q))]
        ++ match xq_limit q with Some s => [write_limit s] | None => [] end).

Definition write_multiget (m : r_multiget) : xtree :=
  Elem (C "addressbook-multiget") []
       (write_sel (rm_sel m) ++ map (fun h => Elem (D "href") [] (text_kid h)) (rm_hrefs m)).

Definition rfc_write_raw (x : x_request) : xtree :=
  match x with XQuery q => write_query q | XMultiget m => write_multiget m end.

Definition rfc_write (r : request) : xtree := rfc_write_raw (raw_request r).

(** ** The reader *)

(** element content: the child elements; comments and white-space-only text are
    not content, any other text is an error *)
Definition elem3 := (qname * list attr * list xtree)%type.

Fixpoint elems (kids : list xtree) : option (list elem3) :=
  match kids with
  | [] => Some []
  | Elem n a k :: r => olet es <- elems r; Some ((n, a, k) :: es)
  | Text s :: r => if is_ws s then elems r else None
  | Comment _ :: r => elems r
  end.

(** #PCDATA content: the text, comments removed; child elements are an error *)
Fixpoint pcdata (kids : list xtree) : option string :=
  match kids with
  | [] => Some ""
  | Text s :: r => olet t <- pcdata r; Some (s ++ t)
  | Comment _ :: r => pcdata r
  | Elem _ _ _ :: _ => None
  end.

(** EMPTY content *)
Definition no_content (kids : list xtree) : bool := match kids with [] => true | _ => false end.

(** attributes: namespace declarations are not attributes; every attribute must be
    un-namespaced, declared for the element ([allowed]) and occur once *)
Definition real_attrs (a : list attr) : list attr := filter (fun x => negb (is_nsdecl x)) a.

Definition attrs_ok (allowed : list string) (a : list attr) : bool :=
  forallb (fun x => String.eqb (fst (fst x)) "" && mem (snd (fst x)) allowed) (real_attrs a)
  && nodupb (map (fun x => snd (fst x)) (real_attrs a)).

Fixpoint find_attr (local : string) (a : list attr) : option string :=
  match a with
  | [] => None
  | x :: r => if String.eqb (snd (fst x)) local then Some (snd x) else find_attr local r
  end.
Definition get_attr (local : string) (a : list attr) : option string := find_attr local (real_attrs a).

Definition default_collation : string := "i;unicode-casemap".

Definition read_tm (e : elem3) : option r_tm :=
  let '(n, a, k) := e in
  if negb (qname_eqb n (C "text-match")) then None else
  if negb (attrs_ok ["collation"; "negate-condition"; "match-type"] a) then None else
  if negb (match get_attr "collation" a with
           | None => true | Some c => String.eqb c default_collation end) then None else
  olet x <- val_negate (get_attr "negate-condition" a);
  olet m <- val_match (get_attr "match-type" a);
  olet s <- pcdata k;
  Some (mkRT s x m).

Definition is_empty_elem (name : qname) (e : elem3) : bool :=
  let '(n, a, k) := e in
  qname_eqb n name && attrs_ok [] a && no_content k.

Definition read_param (e : elem3) : option r_param :=
  let '(n, a, k) := e in
  if negb (qname_eqb n (C "param-filter")) then None else
  if negb (attrs_ok ["name"] a) then None else
  olet name <- get_attr "name" a;
  olet es <- elems k;
  match es with
  | [] => Some (mkRP name RParamDefined)
  | [c] =>
    if is_empty_elem (C "is-not-defined") c then Some (mkRP name RParamNotDefined)
    else olet t <- read_tm c; Some (mkRP name (RParamText t))
  | _ => None
  end.

(** children of a prop-filter that is not an is-not-defined one: text-matches and
    param-filters, each kind in document order *)
Fixpoint read_pf_kids (es : list elem3) : option (list r_tm * list r_param) :=
  match es with
  | [] => Some ([], [])
  | e :: r =>
    olet rest <- read_pf_kids r;
    if qname_eqb (fst (fst e)) (C "text-match") then
      olet t <- read_tm e; Some (t :: fst rest, snd rest)
    else if qname_eqb (fst (fst e)) (C "param-filter") then
      olet p <- read_param e; Some (fst rest, p :: snd rest)
    else None
  end.

Definition read_pf (e : elem3) : option r_pf :=
  let '(n, a, k) := e in
  if negb (qname_eqb n (C "prop-filter")) then None else
  if negb (attrs_ok ["name"; "test"] a) then None else
  olet name <- get_attr "name" a;
  olet t <- val_test (get_attr "test" a);
  olet es <- elems k;
  match es with
  | [c] =>
    if is_empty_elem (C "is-not-defined") c then Some (mkRF name t RPropNotDefined)
    else olet x <- read_pf_kids es; Some (mkRF name t (RPropMatches (fst x) (snd x)))
  | _ => olet x <- read_pf_kids es; Some (mkRF name t (RPropMatches (fst x) (snd x)))
  end.

Definition read_filter (e : elem3) : option (rtest * list r_pf) :=
  let '(n, a, k) := e in
  if negb (qname_eqb n (C "filter")) then None else
  if negb (attrs_ok ["test"] a) then None else
  olet t <- val_test (get_attr "test" a);
  olet es <- elems k;
  olet fs <- omapM read_pf es;
  Some (t, fs).

Definition read_limit (e : elem3) : option N :=
  let '(n, a, k) := e in
  if negb (qname_eqb n (C "limit") && attrs_ok [] a) then None else
  olet es <- elems k;
  match es with
  | [(n1, a1, k1)] =>
    if negb (qname_eqb n1 (C "nresults") && attrs_ok [] a1) then None else
    olet s <- pcdata k1; val_nresults s
  | _ => None
  end.

Definition read_cprop (e : elem3) : option string :=
  let '(n, a, k) := e in
  if negb (qname_eqb n (C "prop") && attrs_ok ["name"; "novalue"] a && no_content k) then None else
  if negb (match get_attr "novalue" a with None => true | Some v => String.eqb v "no" end) then None else
  get_attr "name" a.

Definition read_data (e : elem3) : option r_data :=
  let '(n, a, k) := e in
  if negb (qname_eqb n (C "address-data") && attrs_ok [] a) then None else
  olet es <- elems k;
  match es with
  | [c] =>
    if is_empty_elem (C "allprop") c then Some RAllProp
    else olet names <- omapM read_cprop es; Some (RProps names)
  | _ => olet names <- omapM read_cprop es; Some (RProps names)
  end.

(** a requested property: address-data, or any other element (only its name matters) *)
Definition read_item (e : elem3) : option r_item :=
  if qname_eqb (fst (fst e)) (C "address-data") then olet d <- read_data e; Some (RAddressData d)
  else Some (ROther (fst (fst e))).

(** DAV:allprop | DAV:propname | DAV:prop *)
Definition read_sel (e : elem3) : option r_sel :=
  let '(n, a, k) := e in
  if is_empty_elem (D "allprop") e then Some RSelAllProp
  else if is_empty_elem (D "propname") e then Some RSelPropName
  else if qname_eqb n (D "prop") && attrs_ok [] a then
    olet es <- elems k; olet items <- omapM read_item es; Some (RSelProp items)
  else None.

Definition is_sel_name (n : qname) : bool :=
  qname_eqb n (D "allprop") || qname_eqb n (D "propname") || qname_eqb n (D "prop").

(** children of addressbook-query: at most one selector, exactly one filter, at
    most one limit, nothing else *)
Record q_acc := mkQA {
  qa_sel : option r_sel; qa_filter : option (rtest * list r_pf); qa_limit : option N }.

Fixpoint read_query_kids (es : list elem3) (acc : q_acc) : option q_acc :=
  match es with
  | [] => Some acc
  | e :: r =>
    let n := fst (fst e) in
    if is_sel_name n then
      match qa_sel acc with
      | Some _ => None
      | None => olet s <- read_sel e; read_query_kids r (mkQA (Some s) (qa_filter acc) (qa_limit acc))
      end
    else if qname_eqb n (C "filter") then
      match qa_filter acc with
      | Some _ => None
      | None => olet f <- read_filter e; read_query_kids r (mkQA (qa_sel acc) (Some f) (qa_limit acc))
      end
    else if qname_eqb n (C "limit") then
      match qa_limit acc with
      | Some _ => None
      | None => olet l <- read_limit e; read_query_kids r (mkQA (qa_sel acc) (qa_filter acc) (Some l))
      end
    else None
  end.

Definition read_query (a : list attr) (k : list xtree) : option r_query :=
  if negb (attrs_ok [] a) then None else
  olet es <- elems k;
  olet acc <- read_query_kids es (mkQA None None None);
  olet f <- qa_filter acc;
  Some (mkRQ (dflt RSelNone (qa_sel acc)) (fst f) (snd f) (qa_limit acc)).

Definition read_href (e : elem3) : option string :=
  let '(n, a, k) := e in
  if negb (qname_eqb n (D "href") && attrs_ok [] a) then None else pcdata k.

(** children of addressbook-multiget: at most one selector, hrefs in order *)
Fixpoint read_multiget_kids (es : list elem3) (sel : option r_sel) : option (option r_sel * list string) :=
  match es with
  | [] => Some (sel, [])
  | e :: r =>
    let n := fst (fst e) in
    if is_sel_name n then
      match sel with
      | Some _ => None
      | None => olet s <- read_sel e; read_multiget_kids r (Some s)
      end
    else if qname_eqb n (D "href") then
      olet h <- read_href e;
      olet rest <- read_multiget_kids r sel;
      Some (fst rest, h :: snd rest)
    else None
  end.

Definition read_multiget (a : list attr) (k : list xtree) : option r_multiget :=
  if negb (attrs_ok [] a) then None else
  olet es <- elems k;
  olet x <- read_multiget_kids es None;
  if nonempty (snd x) then Some (mkRM (dflt RSelNone (fst x)) (snd x)) else None.

Definition rfc_read (t : xtree) : option request :=
  match t with
  | Elem n a k =>
    if qname_eqb n (C "addressbook-query") then olet q <- read_query a k; Some (RQuery q)
    else if qname_eqb n (C "addressbook-multiget") then olet m <- read_multiget a k; Some (RMultiget m)
    else None
  | _ => None
  end.

(* ========================================================================= *)
(** * What a public value denotes, and what a request means for the backend *)

(** ** public value -> request ("" is the documented default of FilterTest and MatchType) *)

Definition den_test (s : string) : option rtest := if str_empty s then Some AnyOf else val_test (Some s).
Definition den_match (s : string) : option rmatch := if str_empty s then Some Contains else val_match (Some s).

Definition den_tm (t : TextMatch) : option r_tm :=
  olet m <- den_match (tm_match t); Some (mkRT (tm_text t) (tm_negate t) m).

Definition den_param (p : ParamFilter) : option r_param :=
  match pa_ind p, pa_tm p with
  | true, Some _ => None
  | true, None => Some (mkRP (pa_name p) RParamNotDefined)
  | false, None => Some (mkRP (pa_name p) RParamDefined)
  | false, Some t => olet t' <- den_tm t; Some (mkRP (pa_name p) (RParamText t'))
  end.

Definition den_pf (f : PropFilter) : option r_pf :=
  olet t <- den_test (pf_test f);
  if pf_ind f then
    if nonempty (pf_tms f) || nonempty (pf_params f) then None
    else Some (mkRF (pf_name f) t RPropNotDefined)
  else
    olet tms <- omapM den_tm (pf_tms f);
    olet ps <- omapM den_param (pf_params f);
    Some (mkRF (pf_name f) t (RPropMatches tms ps)).

Definition den_data (dr : DataRequest) : r_data :=
  if dr_allprop dr then RAllProp else RProps (dr_props dr).

(** the client always asks for address-data, getlastmodified and getetag *)
Definition client_sel (dr : DataRequest) : r_sel :=
  RSelProp [RAddressData (den_data dr); ROther DAV_getlastmodified; ROther DAV_getetag].

Definition den_limit (z : Z) : option N := if (0 <? z)%Z then Some (Z.to_N z) else None.

Definition den_query (q : Query) : option r_query :=
  olet t <- den_test (q_test q);
  olet fs <- omapM den_pf (q_filters q);
  Some (mkRQ (client_sel (q_data q)) t fs (den_limit (q_limit q))).

(** a multiget names at least one resource (RFC 6352 8.7: DAV:href+) *)
Definition den_multiget (us : string -> string) (mg : MultiGet) : option r_multiget :=
  match mg_paths mg with
  | [] => None
  | l => Some (mkRM (client_sel (mg_data mg)) (map us l))
  end.

(** ** request -> the call the backend must see (enumerations written out) *)

Definition pub_tm (t : r_tm) : TextMatch := mkTM (rt_text t) (rt_negate t) (match_str (rt_match t)).
Definition pub_param (p : r_param) : ParamFilter :=
  match rp_cond p with
  | RParamDefined => mkPA (rp_name p) false None
  | RParamNotDefined => mkPA (rp_name p) true None
  | RParamText t => mkPA (rp_name p) false (Some (pub_tm t))
  end.
Definition pub_pf (f : r_pf) : PropFilter :=
  match rf_cond f with
  | RPropNotDefined => mkPF (rf_name f) (test_str (rf_test f)) true [] []
  | RPropMatches tms ps => mkPF (rf_name f) (test_str (rf_test f)) false (map pub_tm tms) (map pub_param ps)
  end.
Definition pub_data (d : r_data) : DataRequest :=
  match d with RAllProp => mkDR [] true | RProps l => mkDR l false end.

Fixpoint items_data (items : list r_item) : DataRequest :=
  match items with
  | [] => dr_zero
  | RAddressData d :: _ => pub_data d
  | ROther _ :: r => items_data r
  end.
Definition sel_data (s : r_sel) : DataRequest :=
  match s with RSelProp items => items_data items | _ => dr_zero end.

Definition pub_query (q : r_query) : Query :=
  mkQ (sel_data (rq_sel q)) (map pub_pf (rq_filters q)) (test_str (rq_test q))
      (match rq_limit q with Some n => Z.of_N n | None => 0%Z end).

Definition backend_call_of (up : string -> option string) (path : string) (r : request) : option outcome :=
  match r with
  | RQuery q => Some (CallQuery path (pub_query q))
  | RMultiget m =>
    olet ps <- omapM up (rm_hrefs m);
    Some (CallsGet (map (fun p => (p, sel_data (rm_sel m))) ps))
  end.

(** ** the defaults made explicit in a public value *)
Definition canon_test (s : string) : string := if str_empty s then "anyof" else s.
Definition canon_match (s : string) : string := if str_empty s then "contains" else s.
Definition canon_tm (t : TextMatch) : TextMatch := mkTM (tm_text t) (tm_negate t) (canon_match (tm_match t)).
Definition canon_param (p : ParamFilter) : ParamFilter :=
  mkPA (pa_name p) (pa_ind p) (match pa_tm p with Some t => Some (canon_tm t) | None => None end).
Definition canon_pf (f : PropFilter) : PropFilter :=
  mkPF (pf_name f) (canon_test (pf_test f)) (pf_ind f) (map canon_tm (pf_tms f)) (map canon_param (pf_params f)).
Definition canon_query (q : Query) : Query :=
  mkQ (q_data q) (map canon_pf (q_filters q)) (canon_test (q_test q)) (q_limit q).
Definition canon_outcome (o : outcome) : outcome :=
  match o with CallQuery p q => CallQuery p (canon_query q) | _ => o end.

(** ** what a round trip may change in a public query: a non-positive limit is
    "unlimited" (0 at the backend), and AllProp makes Props irrelevant *)
Definition norm_data (dr : DataRequest) : DataRequest :=
  if dr_allprop dr then mkDR [] true else dr.
Definition norm_query (q : Query) : Query :=
  mkQ (norm_data (q_data q)) (q_filters q) (q_test q) (if (0 <? q_limit q)%Z then q_limit q else 0%Z).

(** domain restrictions that come from Go's integer types *)
Definition limit_fits (r : request) : bool :=
  match r with
  | RQuery q => match rq_limit q with Some n => (n <? two63)%N | None => true end
  | RMultiget _ => true
  end.

(* ------------------------------------------------------------------------- *)
(** * The region of the repaired defect "namespace declaration taken for an attribute".
      encoding/xml matches an attribute field whose tag names no namespace by local name
      only, and namespace declarations are in the attribute list: before the repair a
      declaration [xmlns:test="..."], [xmlns:name="..."], [xmlns:match-type="..."] on a
      filter element was taken for the attribute itself.  [collides] delimits the
      documents in which that could happen; it is kept as a statistic of the input
      distribution and as a hypothesis of the lemmas about [handle_decoded]. *)

Definition attr_fields (n : qname) : list string :=
  if qname_eqb n (C "filter") then ["test"]
  else if qname_eqb n (C "prop-filter") then ["name"; "test"]
  else if qname_eqb n (C "param-filter") then ["name"]
  else if qname_eqb n (C "text-match") then ["collation"; "negate-condition"; "match-type"]
  else [].

Definition attr_collides (fields : list string) (a : list attr) : bool :=
  existsb (fun x => is_nsdecl x && mem (snd (fst x)) fields) a.

Fixpoint collides (t : xtree) : bool :=
  match t with
  | Elem n a k => attr_collides (attr_fields n) a || existsb collides k
  | _ => false
  end.

(* ========================================================================= *)
(** * Correspondence verdicts (extracted; used by oracle/c09/main.ml) *)

Definition bool_eqb (a b : bool) : bool := Bool.eqb a b.
Definition opt_eqb {A} (e : A -> A -> bool) (a b : option A) : bool :=
  match a, b with Some x, Some y => e x y | None, None => true | _, _ => false end.

Definition TextMatch_eqb (a b : TextMatch) : bool :=
  String.eqb (tm_text a) (tm_text b) && bool_eqb (tm_negate a) (tm_negate b) && String.eqb (tm_match a) (tm_match b).
Definition ParamFilter_eqb (a b : ParamFilter) : bool :=
  String.eqb (pa_name a) (pa_name b) && bool_eqb (pa_ind a) (pa_ind b) && opt_eqb TextMatch_eqb (pa_tm a) (pa_tm b).
Definition PropFilter_eqb (a b : PropFilter) : bool :=
  String.eqb (pf_name a) (pf_name b) && String.eqb (pf_test a) (pf_test b) && bool_eqb (pf_ind a) (pf_ind b)
  && list_eqb TextMatch_eqb (pf_tms a) (pf_tms b) && list_eqb ParamFilter_eqb (pf_params a) (pf_params b).
Definition DataRequest_eqb (a b : DataRequest) : bool :=
  list_eqb String.eqb (dr_props a) (dr_props b) && bool_eqb (dr_allprop a) (dr_allprop b).
Definition Query_eqb (a b : Query) : bool :=
  DataRequest_eqb (q_data a) (q_data b) && list_eqb PropFilter_eqb (q_filters a) (q_filters b)
  && String.eqb (q_test a) (q_test b) && Z.eqb (q_limit a) (q_limit b).
Definition get_eqb (a b : string * DataRequest) : bool :=
  String.eqb (fst a) (fst b) && DataRequest_eqb (snd a) (snd b).

Definition rtest_eqb (a b : rtest) : bool :=
  match a, b with AnyOf, AnyOf | AllOf, AllOf => true | _, _ => false end.
Definition rmatch_eqb (a b : rmatch) : bool :=
  match a, b with
  | Equals, Equals | Contains, Contains | StartsWith, StartsWith | EndsWith, EndsWith => true
  | _, _ => false
  end.
Definition r_tm_eqb (a b : r_tm) : bool :=
  String.eqb (rt_text a) (rt_text b) && bool_eqb (rt_negate a) (rt_negate b) && rmatch_eqb (rt_match a) (rt_match b).
Definition r_pcond_eqb (a b : r_pcond) : bool :=
  match a, b with
  | RParamDefined, RParamDefined | RParamNotDefined, RParamNotDefined => true
  | RParamText x, RParamText y => r_tm_eqb x y
  | _, _ => false
  end.
Definition r_param_eqb (a b : r_param) : bool :=
  String.eqb (rp_name a) (rp_name b) && r_pcond_eqb (rp_cond a) (rp_cond b).
Definition r_fcond_eqb (a b : r_fcond) : bool :=
  match a, b with
  | RPropNotDefined, RPropNotDefined => true
  | RPropMatches t1 p1, RPropMatches t2 p2 => list_eqb r_tm_eqb t1 t2 && list_eqb r_param_eqb p1 p2
  | _, _ => false
  end.
Definition r_pf_eqb (a b : r_pf) : bool :=
  String.eqb (rf_name a) (rf_name b) && rtest_eqb (rf_test a) (rf_test b) && r_fcond_eqb (rf_cond a) (rf_cond b).
Definition r_data_eqb (a b : r_data) : bool :=
  match a, b with
  | RAllProp, RAllProp => true
  | RProps x, RProps y => list_eqb String.eqb x y
  | _, _ => false
  end.
Definition r_item_eqb (a b : r_item) : bool :=
  match a, b with
  | RAddressData x, RAddressData y => r_data_eqb x y
  | ROther x, ROther y => qname_eqb x y
  | _, _ => false
  end.
Definition r_sel_eqb (a b : r_sel) : bool :=
  match a, b with
  | RSelNone, RSelNone | RSelAllProp, RSelAllProp | RSelPropName, RSelPropName => true
  | RSelProp x, RSelProp y => list_eqb r_item_eqb x y
  | _, _ => false
  end.
Definition r_query_eqb (a b : r_query) : bool :=
  r_sel_eqb (rq_sel a) (rq_sel b) && rtest_eqb (rq_test a) (rq_test b)
  && list_eqb r_pf_eqb (rq_filters a) (rq_filters b) && opt_eqb N.eqb (rq_limit a) (rq_limit b).
Definition r_multiget_eqb (a b : r_multiget) : bool :=
  r_sel_eqb (rm_sel a) (rm_sel b) && list_eqb String.eqb (rm_hrefs a) (rm_hrefs b).
Definition request_eqb (a b : request) : bool :=
  match a, b with
  | RQuery x, RQuery y => r_query_eqb x y
  | RMultiget x, RMultiget y => r_multiget_eqb x y
  | _, _ => false
  end.

(** ** stage "client": carddav.Client.QueryAddressBook / MultiGetAddressBook *)

Inductive client_input := CIQuery (q : Query) | CIMultiget (path : string) (mg : MultiGet).
(** the client returned an error before sending | the tree of the body it sent *)
Inductive client_obs := COError | COBody (t : xtree).

Definition client_model (us : string -> string) (i : client_input) : res xtree :=
  match i with
  | CIQuery q => client_query_doc q
  | CIMultiget p mg => Ok (client_multiget_doc us p mg)
  end.

Definition client_agrees (us : string -> string) (i : client_input) (o : client_obs) : bool :=
  match client_model us i, o with
  | Ok t, COBody t' => tree_eqb t t'
  | Err _, COError => true
  | _, _ => false
  end.

Definition client_denotation (us : string -> string) (i : client_input) : option request :=
  match i with
  | CIQuery q => olet r <- den_query q; Some (RQuery r)
  | CIMultiget _ mg => olet r <- den_multiget us mg; Some (RMultiget r)
  end.

(** What the property says must cross the wire of a selector: the address-data request
    (requested vCard properties or all-properties).  Which DAV: live properties
    (getetag, getlastmodified, getcontentlength, ...) are asked for beside it is not part
    of the request the statement speaks about: the specification compares requests up to
    the other children of DAV:prop.  address-data itself must still be there, with the
    right content, as often as denoted (once). *)
Definition is_address_data (i : r_item) : bool :=
  match i with RAddressData _ => true | ROther _ => false end.
Definition sel_essence (s : r_sel) : r_sel :=
  match s with RSelProp items => RSelProp (filter is_address_data items) | _ => s end.
Definition request_essence (r : request) : request :=
  match r with
  | RQuery q => RQuery (mkRQ (sel_essence (rq_sel q)) (rq_test q) (rq_filters q) (rq_limit q))
  | RMultiget m => RMultiget (mkRM (sel_essence (rm_sel m)) (rm_hrefs m))
  end.
Definition same_request (a b : request) : bool :=
  request_eqb (request_essence a) (request_essence b).

(** the specification of the client side: a value that denotes a request is sent as
    a document the RFC reader reads as that request (up to the live properties asked for
    beside address-data, [same_request]); a value that denotes none
    (invalid enumeration string, contradictory filter, empty multiget) must not be
    sent as a document that reads as a request — except the empty multiget, which
    the client documents nothing about and turns into a multiget of the collection
    path itself (reported separately, see C09_multiget_empty_paths) *)
Definition client_spec_ok (us : string -> string) (i : client_input) (o : client_obs) : bool :=
  match client_denotation us i, o with
  | Some r, COBody t => match rfc_read t with Some r' => same_request r' r | None => false end
  | Some _, COError => false
  | None, COError => true
  | None, COBody t =>
    match i with
    | CIMultiget _ _ => true
    | CIQuery _ => negb (is_some (rfc_read t))
    end
  end.

(** ** stage "server": carddav.Handler answering a REPORT, with a recording backend *)

Record server_obs := mkSO {
  so_panic : bool;
  so_status : N;
  so_queries : list (string * Query);          (* QueryAddressObjects calls *)
  so_gets : list (string * DataRequest) }.     (* GetAddressObject calls, in order *)

Definition no_calls (o : server_obs) : bool :=
  negb (nonempty (so_queries o)) && negb (nonempty (so_gets o)).

Definition obs_matches (o : server_obs) (m : res outcome) : bool :=
  match m with
  | Panic => so_panic o
  | Err c => negb (so_panic o) && N.eqb (so_status o) c && no_calls o
  | Ok (CallQuery p q) =>
    negb (so_panic o) && N.eqb (so_status o) 207
    && list_eqb (fun a b => String.eqb (fst a) (fst b) && Query_eqb (snd a) (snd b)) (so_queries o) [(p, q)]
    && negb (nonempty (so_gets o))
  | Ok EmptyMultiStatus => negb (so_panic o) && N.eqb (so_status o) 207 && no_calls o
  | Ok (CallsGet l) =>
    negb (so_panic o) && N.eqb (so_status o) 207 && negb (nonempty (so_queries o))
    && list_eqb get_eqb (so_gets o) l
  end.

Definition server_agrees (up : string -> option string) (path : string) (d : xtree) (o : server_obs) : bool :=
  obs_matches o (handle_report up path d).

(** does a raw request carry an invalid enumeration value / an invalid nresults? *)
Definition tm_enum_bad (t : x_tm) : bool :=
  negb (is_some (val_negate (xt_negate t))) || negb (is_some (val_match (xt_match t))).
Definition param_enum_bad (p : x_param) : bool :=
  match xp_cond p with XParamText t => tm_enum_bad t | _ => false end.
Definition pf_enum_bad (f : x_pf) : bool :=
  negb (is_some (val_test (xf_test f)))
  || match xf_cond f with
     | XPropNotDefined => false
     | XPropMatches tms ps => existsb tm_enum_bad tms || existsb param_enum_bad ps
     end.
Definition enum_bad (x : x_request) : bool :=
  match x with
  | XQuery q => negb (is_some (val_test (xq_test q))) || existsb pf_enum_bad (xq_filters q)
  | XMultiget _ => false
  end.

Definition is_4xx (c : N) : bool := (400 <=? c)%N && (c <? 500)%N.

Definition canon_obs_queries (l : list (string * Query)) : list (string * Query) :=
  map (fun x => (fst x, canon_query (snd x))) l.

(** the specification of the server side.  [x] is the raw request the document [d]
    was written from (by the harness's own writer, with lexical variation).
    - [x] conformant, denoting [r] (and within Go's integer range, hrefs parseable):
      [d] must read as [r] (this ties the harness's writer to the reference), and the
      backend must have been called with the call [r] denotes (defaults explicit);
    - an invalid enumeration value: refused with a 4xx, no backend call;
    - otherwise not conformant (an nresults that is not a positive decimal numeral, a
      multiget without href): answered 207 or 4xx (the nresults = 0 short cut answers
      207 without a backend call; Go trims blanks around the number). *)
Definition server_spec_ok (up : string -> option string) (path : string)
    (x : x_request) (d : xtree) (o : server_obs) : bool :=
  match validate x with
  | Some r =>
    opt_eqb request_eqb (rfc_read d) (Some r) &&
    (if limit_fits r then
       match backend_call_of up path r with
       | Some c => obs_matches (mkSO (so_panic o) (so_status o) (canon_obs_queries (so_queries o)) (so_gets o)) (Ok c)
       | None => true
       end
     else true)
  | None =>
    negb (so_panic o) &&
    (if enum_bad x then is_4xx (so_status o) && no_calls o
     else is_4xx (so_status o) || N.eqb (so_status o) 207)
  end.

(** conversions used by the oracle's parser (decimal atoms -> N / Z) *)
Definition n_of_dec (s : string) : option N := digits_to_N s.
Definition z_of_dec (neg : bool) (s : string) : option Z :=
  match digits_to_N s with
  | Some n => Some (if neg then Z.opp (Z.of_N n) else Z.of_N n)
  | None => None
  end.

(* ========================================================================= *)
(** * Lexical variants of a document (statement of C09_server_denotes / C09_rfc_codec).

    What XML lets a sender vary without changing the request: the order of the
    attributes of a start tag, namespace declarations (any number, anywhere: they are
    not attributes), comments, white-space-only text between the children of an
    element with element content, and comments inside text content (which split the
    text).  Prefixes, character references and CDATA sections are not visible in a
    tree at all.  [kind_of] says which content each RFC 6352 element has. *)

Inductive content_kind := KElems | KText | KEmpty.

Definition kind_of (n : qname) : content_kind :=
  if qname_eqb n (C "text-match") || qname_eqb n (C "nresults") || qname_eqb n (D "href") then KText
  else if qname_eqb n (C "addressbook-query") || qname_eqb n (C "addressbook-multiget")
          || qname_eqb n (C "filter") || qname_eqb n (C "prop-filter") || qname_eqb n (C "param-filter")
          || qname_eqb n (C "limit") || qname_eqb n (C "address-data") || qname_eqb n (D "prop") then KElems
  else KEmpty.

Inductive var : xtree -> xtree -> Prop :=
| V_elem n a a' k k' :
    Permutation (real_attrs a) (real_attrs a') -> var_kids (kind_of n) k k' ->
    var (Elem n a k) (Elem n a' k')
| V_text s : var (Text s) (Text s)
| V_comment s : var (Comment s) (Comment s)
with var_kids : content_kind -> list xtree -> list xtree -> Prop :=
| VK_nil c : var_kids c [] []
| VK_cons c x x' r r' : var x x' -> var_kids c r r' -> var_kids c (x :: r) (x' :: r')
| VK_comment c s r r' : c <> KEmpty -> var_kids c r r' -> var_kids c r (Comment s :: r')
| VK_ws s r r' : is_ws s = true -> var_kids KElems r r' -> var_kids KElems r (Text s :: r')
| VK_split s1 s2 cm r r' :
    var_kids KText r r' -> var_kids KText (Text (s1 ++ s2) :: r) (Text s1 :: Comment cm :: Text s2 :: r').
