(** PropFindScope.v — proofs about the model of PropFind.v (property C11), part 2:
    the resources a PROPFIND answers for are exactly those in scope for the Depth. *)
From GW Require Import Base Route RouteProofs PropFind PropFindProofs.

Local Open Scope string_scope.

(** * in_scope_b decides in_scope *)

Lemma prefix_b_spec (a l : list string) : prefix_b a l = true <-> exists r, l = (a ++ r)%list.
Proof.
  revert l. induction a as [|x a IH]; intros l; simpl.
  - split; [intros _; exists l; reflexivity | reflexivity].
  - destruct l as [|y l]; [split; [discriminate | intros [r H]; discriminate]|].
    rewrite andb_true_iff, String.eqb_eq, IH. split.
    + intros [-> [r ->]]. exists r. reflexivity.
    + intros [r H]. inversion H; subst. split; [reflexivity|exists r; reflexivity].
Qed.

Theorem in_scope_b_spec d target r : in_scope_b d target r = true <-> in_scope d target r.
Proof.
  unfold in_scope_b, in_scope. rewrite andb_true_iff, prefix_b_spec, !orb_true_iff, andb_true_iff.
  rewrite !Nat.eqb_eq, negb_true_iff. split.
  - intros [[rest ->] H]. rewrite app_length in H. destruct H as [[H|[Hd H]]|H].
    + destruct rest; [left; apply app_nil_r | simpl in H; lia].
    + destruct rest as [|x [|y rest]]; simpl in H; try lia.
      right. left. split; [destruct d; simpl in Hd; congruence | exists x; reflexivity].
    + destruct d; try discriminate. destruct rest as [|x rest]; [left; apply app_nil_r|].
      right. right. split; [reflexivity | exists x, rest; reflexivity].
  - intros [->|[[Hd [x ->]]|[-> [x [l ->]]]]].
    + split; [exists []; symmetry; apply app_nil_r | left; left; reflexivity].
    + split; [exists [x]; reflexivity|]. left. right. split; [destruct d; simpl; congruence|].
      rewrite app_length. simpl. lia.
    + split; [exists (x :: l); reflexivity | right; reflexivity].
Qed.

(** * Lists *)

Definition optl {A} (b : bool) (a : A) : list A := if b then [a] else [].

Lemma find_map {A B} (f : B -> bool) (g : A -> B) (l : list A) :
  find f (map g l) = option_map g (find (fun a => f (g a)) l).
Proof. induction l as [|a l IH]; simpl; [reflexivity|]. destruct (f (g a)); [reflexivity|exact IH]. Qed.

Lemma find_ext_in {A} (f g : A -> bool) (l : list A) :
  (forall a, In a l -> f a = g a) -> find f l = find g l.
Proof.
  induction l as [|a l IH]; intros H; simpl; [reflexivity|].
  rewrite (H a (or_introl eq_refl)). destruct (g a); [reflexivity|]. apply IH. intros; apply H; right; assumption.
Qed.

Lemma find_none_all {A} (f : A -> bool) (l : list A) : (forall a, In a l -> f a = false) -> find f l = None.
Proof.
  induction l as [|a l IH]; intros H; simpl; [reflexivity|].
  rewrite (H a (or_introl eq_refl)). apply IH. intros; apply H; right; assumption.
Qed.

Lemma flat_map_nil {A B} (f : A -> list B) (l : list A) : (forall a, In a l -> f a = []) -> flat_map f l = [].
Proof.
  induction l as [|a l IH]; intros H; simpl; [reflexivity|].
  rewrite (H a (or_introl eq_refl)). apply IH. intros; apply H; right; assumption.
Qed.

Lemma flat_map_ext_in {A B} (f g : A -> list B) (l : list A) :
  (forall a, In a l -> f a = g a) -> flat_map f l = flat_map g l.
Proof.
  induction l as [|a l IH]; intros H; simpl; [reflexivity|].
  rewrite (H a (or_introl eq_refl)). f_equal. apply IH. intros; apply H; right; assumption.
Qed.

Lemma flat_map_map {A B C} (f : B -> list C) (g : A -> B) (l : list A) :
  flat_map f (map g l) = flat_map (fun a => f (g a)) l.
Proof. induction l as [|a l IH]; simpl; [reflexivity|]. rewrite IH. reflexivity. Qed.

Lemma map_flat_map {A B C} (g : B -> C) (f : A -> list B) (l : list A) :
  map g (flat_map f l) = flat_map (fun a => map g (f a)) l.
Proof. induction l as [|a l IH]; simpl; [reflexivity|]. rewrite map_app, IH. reflexivity. Qed.

Lemma filter_flat_map {A B} (p : B -> bool) (f : A -> list B) (l : list A) :
  filter p (flat_map f l) = flat_map (fun a => filter p (f a)) l.
Proof. induction l as [|a l IH]; simpl; [reflexivity|]. rewrite filter_app, IH. reflexivity. Qed.

Lemma filter_map_const {A B} (p : B -> bool) (g : A -> B) (k : bool) (l : list A) :
  (forall a, In a l -> p (g a) = k) -> filter p (map g l) = if k then map g l else [].
Proof.
  induction l as [|a l IH]; intros H; simpl; [destruct k; reflexivity|].
  rewrite (H a (or_introl eq_refl)).
  rewrite IH by (intros; apply H; right; assumption). destruct k; reflexivity.
Qed.

Lemma nodup_b_spec (l : list string) : nodup_b l = true <-> NoDup l.
Proof.
  induction l as [|x r IH]; simpl.
  - split; [constructor|reflexivity].
  - rewrite andb_true_iff, negb_true_iff, IH. split.
    + intros [H1 H2]. constructor; [|exact H2]. intros Hin.
      assert (existsb (String.eqb x) r = true) by (apply existsb_exists; exists x; split; [exact Hin|apply String.eqb_refl]).
      congruence.
    + intros H. inversion H; subst. split; [|assumption].
      destruct (existsb (String.eqb x) r) eqn:E; [|reflexivity].
      apply existsb_exists in E. destruct E as [y [Hy Hxy]]. apply String.eqb_eq in Hxy. subst. contradiction.
Qed.

(** the first element with a key, in a list with distinct keys, is the only one *)
Lemma find_key_unique {A} (key : A -> string) (l : list A) (z : string) (a : A) :
  NoDup (map key l) -> find (fun c => String.eqb z (key c)) l = Some a ->
  In a l /\ key a = z /\ forall c, In c l -> key c = z -> c = a.
Proof.
  induction l as [|c0 l IH]; intros ND H; simpl in H; [discriminate|].
  simpl in ND. inversion ND as [|? ? Hnotin ND']; subst.
  destruct (String.eqb z (key c0)) eqn:E.
  - inversion H; subst. apply String.eqb_eq in E. subst z.
    split; [left; reflexivity|]. split; [reflexivity|].
    intros c [->|Hin] Hk; [reflexivity|]. exfalso. apply Hnotin. rewrite <- Hk. apply in_map. exact Hin.
  - destruct (IH ND' H) as (Hin & Hk & U). split; [right; exact Hin|]. split; [exact Hk|].
    intros c [->|Hc] Hkc; [|apply U; assumption].
    apply String.eqb_neq in E. congruence.
Qed.

Lemma find_key_none {A} (key : A -> string) (l : list A) (z : string) :
  find (fun c => String.eqb z (key c)) l = None -> forall c, In c l -> String.eqb z (key c) = false.
Proof.
  induction l as [|c0 l IH]; intros H c Hin; simpl in *; [contradiction|].
  destruct (String.eqb z (key c0)) eqn:E; [discriminate|].
  destruct Hin as [->|Hin]; [exact E|apply IH; assumption].
Qed.

(** * The hierarchy placed under a prefix *)

Section Hier.
  Variable h : hier.
  Hypothesis OK : hier_ok h = true.

  Let ps := h_ps h.
  Let u := h_user h.
  Let hm := h_home h.
  Let b := backend_of h.

  Lemma ok_parts :
    segs_ok ps = true /\ seg_ok u = true /\ seg_ok hm = true /\
    segs_ok (map hc_name (h_colls h)) = true /\ nodup_b (map hc_name (h_colls h)) = true /\
    forallb (fun c => segs_ok (map ho_name (hc_objs c)) && nodup_b (map ho_name (hc_objs c))) (h_colls h) = true.
  Proof.
    pose proof OK as H. unfold hier_ok in H.
    repeat (apply andb_prop in H; let H' := fresh "H" in destruct H as [H H']).
    repeat split; assumption.
  Qed.

  Lemma ok_ps : segs_ok ps = true.
  Proof. apply ok_parts. Qed.
  Lemma ok_u : seg_ok u = true.
  Proof. apply ok_parts. Qed.
  Lemma ok_hm : seg_ok hm = true.
  Proof. apply ok_parts. Qed.
  Lemma ok_cnames : segs_ok (map hc_name (h_colls h)) = true.
  Proof. apply ok_parts. Qed.
  Lemma ok_cnodup : NoDup (map hc_name (h_colls h)).
  Proof. apply nodup_b_spec. apply ok_parts. Qed.
  Lemma ok_objs c : In c (h_colls h) ->
    segs_ok (map ho_name (hc_objs c)) = true /\ NoDup (map ho_name (hc_objs c)).
  Proof.
    intros Hin. destruct ok_parts as (_ & _ & _ & _ & _ & F).
    rewrite forallb_forall in F. specialize (F c Hin). apply andb_prop in F. destruct F as [F1 F2].
    split; [exact F1|apply nodup_b_spec; exact F2].
  Qed.

  Lemma ok_cname c : In c (h_colls h) -> seg_ok (hc_name c) = true.
  Proof.
    intros Hin. pose proof ok_cnames as H. unfold segs_ok in H. rewrite forallb_forall in H.
    apply H. apply in_map. exact Hin.
  Qed.
  Lemma ok_oname c o : In c (h_colls h) -> In o (hc_objs c) -> seg_ok (ho_name o) = true.
  Proof.
    intros Hc Ho. destruct (ok_objs c Hc) as [H _]. unfold segs_ok in H. rewrite forallb_forall in H.
    apply H. apply in_map. exact Ho.
  Qed.

  (** ** same_path and equality of stored and requested paths *)

  Lemma req_path_cons (x : string) (r : list string) (rt : bool) :
    req_path ps (x :: r) rt = join (ps ++ x :: r) ++ tsl rt.
  Proof.
    unfold req_path, tsl. destruct (ps ++ x :: r)%list eqn:E; [|reflexivity].
    destruct ps; discriminate.
  Qed.

  Lemma segs_ok_list (l : list string) : Forall (fun s => seg_ok s = true) l -> segs_ok l = true.
  Proof. intros F. unfold segs_ok. apply forallb_forall. apply Forall_forall. exact F. Qed.

  Lemma same_path_req (l1 l2 : list string) (rt t2 : bool) :
    l1 <> [] -> l2 <> [] -> segs_ok l1 = true -> segs_ok l2 = true ->
    same_path (match l1 with [] => "/" | _ => join (ps ++ l1) ++ tsl rt end) (join (ps ++ l2) ++ tsl t2)
    = list_eqb String.eqb l1 l2.
  Proof.
    intros N1 N2 O1 O2. destruct l1 as [|x l1]; [congruence|].
    apply Bool.eq_true_iff_eq. unfold tsl.
    rewrite same_path_layout.
    - rewrite list_eqb_string_spec. split; [apply app_inv_head | congruence].
    - destruct ps; discriminate.
    - destruct ps, l2; try discriminate; congruence.
    - apply segs_ok_app. split; [apply ok_ps|exact O1].
    - apply segs_ok_app. split; [apply ok_ps|exact O2].
  Qed.

  Lemma same_path_sym a c : same_path a c = same_path c a.
  Proof. unfold same_path. apply String.eqb_sym. Qed.

  Lemma seg2 x y : seg_ok x = true -> seg_ok y = true -> segs_ok [x; y] = true.
  Proof. intros. unfold segs_ok. simpl. rewrite H, H0. reflexivity. Qed.
  Lemma seg3 x y z : seg_ok x = true -> seg_ok y = true -> seg_ok z = true -> segs_ok [x; y; z] = true.
  Proof. intros. unfold segs_ok. simpl. rewrite H, H0, H1. reflexivity. Qed.
  Lemma seg4 x y z w : seg_ok x = true -> seg_ok y = true -> seg_ok z = true -> seg_ok w = true ->
    segs_ok [x; y; z; w] = true.
  Proof. intros. unfold segs_ok. simpl. rewrite H, H0, H1, H2. reflexivity. Qed.
  Lemma seg1 x : seg_ok x = true -> segs_ok [x] = true.
  Proof. intros. unfold segs_ok. simpl. rewrite H. reflexivity. Qed.

  (** principal *)
  Lemma same_principal x rt : seg_ok x = true ->
    same_path (req_path ps [x] rt) (principal b) = String.eqb x u.
  Proof.
    intros Ox. rewrite req_path_cons. unfold b, backend_of, principal. fold ps u.
    pose proof (same_path_req [x] [u] rt (h_uslash h)) as H. cbn [list_eqb andb] in H.
    rewrite Bool.andb_true_r in H. apply H; try discriminate; apply seg1; [exact Ox|apply ok_u].
  Qed.

  (** home set *)
  Lemma same_home x y rt : seg_ok x = true -> seg_ok y = true ->
    same_path (req_path ps [x; y] rt) (homeset b) = String.eqb x u && String.eqb y hm.
  Proof.
    intros Ox Oy. rewrite req_path_cons. unfold b, backend_of, homeset. fold ps u hm.
    pose proof (same_path_req [x; y] [u; hm] rt (h_hslash h)) as H. cbn [list_eqb andb] in H.
    rewrite Bool.andb_true_r in H. apply H; try discriminate; apply seg2; auto using ok_u, ok_hm.
  Qed.

  (** collections *)
  Lemma same_coll x y z rt c : seg_ok x = true -> seg_ok y = true -> seg_ok z = true -> In c (h_colls h) ->
    same_path (c_path (coll_of h c)) (req_path ps [x; y; z] rt)
    = String.eqb x u && String.eqb y hm && String.eqb z (hc_name c).
  Proof.
    intros Ox Oy Oz Hc. rewrite same_path_sym, req_path_cons. unfold coll_of, c_path. fold ps u hm.
    pose proof (same_path_req [x; y; z] [u; hm; hc_name c] rt (hc_slash c)) as H. cbn [list_eqb andb] in H.
    rewrite Bool.andb_true_r, Bool.andb_assoc in H.
    apply H; try discriminate; apply seg3; auto using ok_u, ok_hm, ok_cname.
  Qed.

  Lemma find_coll_req x y z rt : seg_ok x = true -> seg_ok y = true -> seg_ok z = true ->
    find_coll b (req_path ps [x; y; z] rt)
    = if String.eqb x u && String.eqb y hm
      then option_map (coll_of h) (find (fun c => String.eqb z (hc_name c)) (h_colls h))
      else None.
  Proof.
    intros Ox Oy Oz. unfold find_coll, b, backend_of, colls. rewrite find_map.
    destruct (String.eqb x u && String.eqb y hm) eqn:K.
    - f_equal. apply find_ext_in. intros c Hc. rewrite same_coll by assumption. rewrite K. reflexivity.
    - replace (find _ (h_colls h)) with (@None hcoll); [reflexivity|]. symmetry. apply find_none_all.
      intros c Hc. rewrite same_coll by assumption. rewrite K. reflexivity.
  Qed.

  (** a collection's own stored path finds the collection itself *)
  Lemma find_coll_own c : In c (h_colls h) -> find_coll b (c_path (coll_of h c)) = Some (coll_of h c).
  Proof.
    intros Hc. unfold find_coll, b, backend_of, colls. rewrite find_map.
    assert (E : forall c', In c' (h_colls h) ->
              same_path (c_path (coll_of h c')) (c_path (coll_of h c)) = String.eqb (hc_name c) (hc_name c')).
    { intros c' Hc'. unfold coll_of, c_path. fold ps u hm.
      pose proof (same_path_req [u; hm; hc_name c] [u; hm; hc_name c'] (hc_slash c) (hc_slash c')) as H.
      cbn [list_eqb andb] in H. rewrite !String.eqb_refl, Bool.andb_true_r in H. cbn [andb] in H.
      rewrite same_path_sym. apply H; try discriminate; apply seg3; auto using ok_u, ok_hm, ok_cname. }
    rewrite (find_ext_in _ (fun c' => String.eqb (hc_name c) (hc_name c')) _ E).
    destruct (find (fun c' => String.eqb (hc_name c) (hc_name c')) (h_colls h)) as [c'|] eqn:F.
    - destruct (find_key_unique hc_name _ _ _ ok_cnodup F) as (_ & _ & U).
      simpl. f_equal. f_equal. symmetry. apply U; [exact Hc|reflexivity].
    - pose proof (find_key_none hc_name _ _ F c Hc) as N. rewrite String.eqb_refl in N. discriminate.
  Qed.

  Lemma list_objs_own c : In c (h_colls h) ->
    list_objs b (c_path (coll_of h c)) = map (obj_of h c) (hc_objs c).
  Proof. intros Hc. unfold list_objs. rewrite find_coll_own by exact Hc. reflexivity. Qed.

  (** objects *)
  Lemma obj_path_eq x y z w c o :
    seg_ok x = true -> seg_ok y = true -> seg_ok z = true -> seg_ok w = true ->
    In c (h_colls h) -> In o (hc_objs c) ->
    String.eqb (o_path (obj_of h c o)) (req_path ps [x; y; z; w] false)
    = String.eqb x u && String.eqb y hm && String.eqb z (hc_name c) && String.eqb w (ho_name o).
  Proof.
    intros Ox Oy Oz Ow Hc Ho. rewrite req_path_cons. unfold obj_of, o_path, tsl. fold ps u hm.
    rewrite append_nil_r. apply Bool.eq_true_iff_eq.
    rewrite String.eqb_eq, !andb_true_iff, !String.eqb_eq. split.
    - intros E. apply join_inj in E.
      + apply app_inv_head in E. inversion E; subst. tauto.
      + apply segs_ok_no_slash. apply segs_ok_app. split; [apply ok_ps|].
        apply seg4; eauto using ok_u, ok_hm, ok_cname, ok_oname.
      + apply segs_ok_no_slash. apply segs_ok_app. split; [apply ok_ps|]. apply seg4; assumption.
    - intros [[[-> ->] ->] ->]. reflexivity.
  Qed.

  Lemma obj_path_slash x y z w c o :
    seg_ok x = true -> seg_ok y = true -> seg_ok z = true -> seg_ok w = true ->
    In c (h_colls h) -> In o (hc_objs c) ->
    String.eqb (o_path (obj_of h c o)) (req_path ps [x; y; z; w] true) = false.
  Proof.
    intros Ox Oy Oz Ow Hc Ho. rewrite req_path_cons. unfold obj_of, o_path, tsl. fold ps u hm.
    apply String.eqb_neq. intros E.
    assert (E1 : ends_slash (join (ps ++ [u; hm; hc_name c; ho_name o])) = false).
    { apply ends_slash_join. apply segs_ok_app. split; [apply ok_ps|].
      apply seg4; eauto using ok_u, ok_hm, ok_cname, ok_oname. }
    rewrite E in E1. rewrite ends_slash_app in E1 by discriminate. discriminate.
  Qed.

  (** ** The expected positions, computed *)

  Definition full_colls : list pos := flat_map (fun c => PColl c :: map (PObj c) (hc_objs c)) (h_colls h).

  Definition FM (f : pos -> bool) : list pos :=
    flat_map (fun c => (optl (f (PColl c)) (PColl c) ++ filter f (map (PObj c) (hc_objs c)))%list) (h_colls h).

  Lemma filter_all_pos f :
    filter f (all_pos h) = (optl (f PRoot) PRoot ++ optl (f PPrincipal) PPrincipal ++ optl (f PHome) PHome ++ FM f)%list.
  Proof.
    unfold all_pos, FM, optl. cbn [filter].
    rewrite filter_flat_map.
    assert (E : flat_map (fun a => filter f (PColl a :: map (PObj a) (hc_objs a))) (h_colls h)
              = flat_map (fun c => ((if f (PColl c) then [PColl c] else []) ++ filter f (map (PObj c) (hc_objs c)))%list) (h_colls h)).
    { apply flat_map_ext_in. intros c _. cbn [filter]. destruct (f (PColl c)); reflexivity. }
    rewrite E. destruct (f PRoot), (f PPrincipal), (f PHome); reflexivity.
  Qed.

  (** the test is the same on all collections, and the same on all objects *)
  Lemma FM_const f k1 k2 :
    (forall c, In c (h_colls h) -> f (PColl c) = k1) ->
    (forall c o, In c (h_colls h) -> In o (hc_objs c) -> f (PObj c o) = k2) ->
    FM f = flat_map (fun c => (optl k1 (PColl c) ++ (if k2 then map (PObj c) (hc_objs c) else []))%list) (h_colls h).
  Proof.
    intros H1 H2. unfold FM. apply flat_map_ext_in. intros c Hc.
    rewrite (H1 c Hc). f_equal. apply filter_map_const. intros o Ho. apply H2; assumption.
  Qed.

  Lemma FM_none f :
    (forall c, In c (h_colls h) -> f (PColl c) = false) ->
    (forall c o, In c (h_colls h) -> In o (hc_objs c) -> f (PObj c o) = false) ->
    FM f = [].
  Proof.
    intros H1 H2. rewrite (FM_const f false false H1 H2). apply flat_map_nil. reflexivity.
  Qed.

  Lemma FM_all f :
    (forall c, In c (h_colls h) -> f (PColl c) = true) ->
    (forall c o, In c (h_colls h) -> In o (hc_objs c) -> f (PObj c o) = true) ->
    FM f = full_colls.
  Proof. intros H1 H2. rewrite (FM_const f true true H1 H2). reflexivity. Qed.

  (** the test selects the collection named [z] (and, if [g], its objects) *)
  Lemma FM_coll f z g :
    (forall c, In c (h_colls h) -> f (PColl c) = String.eqb z (hc_name c)) ->
    (forall c o, In c (h_colls h) -> In o (hc_objs c) -> f (PObj c o) = String.eqb z (hc_name c) && g) ->
    FM f = match find (fun c => String.eqb z (hc_name c)) (h_colls h) with
           | Some c => PColl c :: (if g then map (PObj c) (hc_objs c) else [])
           | None => []
           end.
  Proof.
    unfold FM. pose proof ok_cnodup as ND. revert ND.
    induction (h_colls h) as [|c0 l IH]; intros ND H1 H2; [reflexivity|].
    simpl in ND. inversion ND as [|? ? Hnotin ND']; subst.
    cbn [flat_map find].
    rewrite (H1 c0 (or_introl eq_refl)).
    rewrite (filter_map_const f (PObj c0) (String.eqb z (hc_name c0) && g))
      by (intros o Ho; apply H2; [left; reflexivity|exact Ho]).
    destruct (String.eqb z (hc_name c0)) eqn:E.
    - apply String.eqb_eq in E. subst z. cbn [optl andb app].
      rewrite flat_map_nil; [rewrite app_nil_r; reflexivity|].
      intros c Hc.
      assert (N : String.eqb (hc_name c0) (hc_name c) = false).
      { apply String.eqb_neq. intros E. apply Hnotin. rewrite E. apply in_map. exact Hc. }
      rewrite (H1 c (or_intror Hc)), N. cbn [optl app].
      apply (filter_map_const f (PObj c) false). intros o Ho. rewrite (H2 c o (or_intror Hc) Ho), N. reflexivity.
    - cbn [optl andb app]. apply IH; [exact ND'| |]; intros; [apply H1|apply H2]; auto; right; assumption.
  Qed.

  (** the test selects the object [w] of the collection [z] *)
  Lemma FM_obj f z w :
    (forall c, In c (h_colls h) -> f (PColl c) = false) ->
    (forall c o, In c (h_colls h) -> In o (hc_objs c) ->
       f (PObj c o) = String.eqb z (hc_name c) && String.eqb w (ho_name o)) ->
    FM f = match find (fun c => String.eqb z (hc_name c)) (h_colls h) with
           | Some c => match find (fun o => String.eqb w (ho_name o)) (hc_objs c) with
                       | Some o => [PObj c o]
                       | None => []
                       end
           | None => []
           end.
  Proof.
    intros H1 H2.
    assert (Sel : forall c, In c (h_colls h) ->
              filter f (map (PObj c) (hc_objs c))
              = if String.eqb z (hc_name c)
                then match find (fun o => String.eqb w (ho_name o)) (hc_objs c) with Some o => [PObj c o] | None => [] end
                else []).
    { intros c Hc. destruct (ok_objs c Hc) as [_ ND].
      assert (H2c : forall o, In o (hc_objs c) -> f (PObj c o) = String.eqb z (hc_name c) && String.eqb w (ho_name o))
        by (intros; apply H2; assumption).
      clear H2. revert ND H2c. induction (hc_objs c) as [|o0 l IH]; intros ND H2c.
      - destruct (String.eqb z (hc_name c)); reflexivity.
      - simpl in ND. inversion ND as [|? ? Hnotin ND']; subst. cbn [map filter find].
        rewrite (H2c o0 (or_introl eq_refl)).
        destruct (String.eqb z (hc_name c)) eqn:Ez; cbn [andb].
        + destruct (String.eqb w (ho_name o0)) eqn:Ew.
          * apply String.eqb_eq in Ew. subst w. f_equal.
            apply (filter_map_const f (PObj c) false). intros o Ho. rewrite (H2c o (or_intror Ho)).
            assert (N : String.eqb (ho_name o0) (ho_name o) = false).
            { apply String.eqb_neq. intros E. apply Hnotin. rewrite E. apply in_map. exact Ho. }
            rewrite N. apply Bool.andb_false_r.
          * rewrite IH; [rewrite ?Ez; reflexivity|exact ND'|]. intros; apply H2c; right; assumption.
        + rewrite IH; [rewrite ?Ez; reflexivity|exact ND'|]. intros; apply H2c; right; assumption. }
    clear H2. unfold FM. pose proof ok_cnodup as ND. revert ND H1 Sel.
    induction (h_colls h) as [|c0 l IH]; intros ND H1 Sel; [reflexivity|].
    simpl in ND. inversion ND as [|? ? Hnotin ND']; subst.
    cbn [flat_map find]. rewrite (H1 c0 (or_introl eq_refl)), (Sel c0 (or_introl eq_refl)). cbn [optl app].
    destruct (String.eqb z (hc_name c0)) eqn:E.
    - apply String.eqb_eq in E. subst z.
      rewrite flat_map_nil; [apply app_nil_r|].
      intros c Hc. rewrite (H1 c (or_intror Hc)), (Sel c (or_intror Hc)).
      assert (N : String.eqb (hc_name c0) (hc_name c) = false).
      { apply String.eqb_neq. intros E. apply Hnotin. rewrite E. apply in_map. exact Hc. }
      rewrite N. reflexivity.
    - cbn [app]. apply IH; [exact ND'| |]; intros; [apply H1|apply Sel]; right; assumption.
  Qed.

  (** ** The model's walk, in terms of positions *)

  Lemma colls_answered_true path :
    colls_answered b true = map (answered_of h path) full_colls.
  Proof.
    unfold colls_answered, full_colls, b, backend_of, colls. rewrite flat_map_map, map_flat_map.
    apply flat_map_ext_in. intros c Hc. fold b. rewrite list_objs_own by exact Hc.
    cbn [map answered_of]. rewrite !map_map. reflexivity.
  Qed.

  Lemma colls_answered_false path :
    colls_answered b false
    = map (answered_of h path) (flat_map (fun c => (optl true (PColl c) ++ [])%list) (h_colls h)).
  Proof.
    unfold colls_answered, b, backend_of, colls. rewrite flat_map_map, map_flat_map.
    apply flat_map_ext_in. intros c Hc. reflexivity.
  Qed.

  Lemma find_app {A} (f : A -> bool) (l1 l2 : list A) :
    find f (l1 ++ l2) = match find f l1 with Some a => Some a | None => find f l2 end.
  Proof. induction l1 as [|a l1 IH1]; simpl; [reflexivity|]. destruct (f a); [reflexivity|exact IH1]. Qed.

  Lemma find_obj_in x y z w (l : list hcoll) :
    seg_ok x = true -> seg_ok y = true -> seg_ok z = true -> seg_ok w = true ->
    NoDup (map hc_name l) -> (forall c, In c l -> In c (h_colls h)) ->
    find (fun o => String.eqb (o_path o) (req_path ps [x; y; z; w] false))
         (flat_map (fun a => map (obj_of h a) (hc_objs a)) l)
    = if String.eqb x u && String.eqb y hm
      then match find (fun c => String.eqb z (hc_name c)) l with
           | Some c => option_map (obj_of h c) (find (fun o => String.eqb w (ho_name o)) (hc_objs c))
           | None => None end
      else None.
  Proof.
    intros Ox Oy Oz Ow.
    induction l as [|c0 l IH]; intros ND HC.
    - destruct (String.eqb x u && String.eqb y hm); reflexivity.
    - simpl in ND. inversion ND as [|? ? Hnotin ND']; subst.
      cbn [flat_map find].
      assert (Hc0 : In c0 (h_colls h)) by (apply HC; left; reflexivity).
      assert (E0 : find (fun o => String.eqb (o_path o) (req_path ps [x; y; z; w] false)) (map (obj_of h c0) (hc_objs c0))
                   = if String.eqb x u && String.eqb y hm && String.eqb z (hc_name c0)
                     then option_map (obj_of h c0) (find (fun o => String.eqb w (ho_name o)) (hc_objs c0))
                     else None).
      { rewrite find_map.
        destruct (String.eqb x u && String.eqb y hm && String.eqb z (hc_name c0)) eqn:G.
        - f_equal. apply find_ext_in. intros o Ho.
          rewrite obj_path_eq by assumption. rewrite G. reflexivity.
        - replace (find _ (hc_objs c0)) with (@None hobj); [reflexivity|]. symmetry.
          apply find_none_all. intros o Ho. rewrite obj_path_eq by assumption. rewrite G. reflexivity. }
      rewrite find_app, E0.
      specialize (IH ND' (fun c Hc => HC c (or_intror Hc))).
      destruct (String.eqb x u && String.eqb y hm) eqn:G; cbn [andb].
      + destruct (String.eqb z (hc_name c0)) eqn:Ez.
        * destruct (find (fun o => String.eqb w (ho_name o)) (hc_objs c0)) as [o|]; cbn [option_map]; [reflexivity|].
          rewrite IH. apply String.eqb_eq in Ez. subst z.
          replace (find (fun c => String.eqb (hc_name c0) (hc_name c)) l) with (@None hcoll); [reflexivity|].
          symmetry. apply find_none_all. intros c Hc. apply String.eqb_neq. intros E.
          apply Hnotin. rewrite E. apply in_map. exact Hc.
        * exact IH.
      + exact IH.
  Qed.

  (** ** The theorem *)

  Ltac isb := unfold hier_in_scope_b, in_scope_b; cbn [pos_rest prefix_b List.length Nat.eqb]; fold u hm.

  (** The resources answered, in order, are exactly the exposed positions in
      scope; a refusal is a 404 on a path where nothing is exposed (an object
      path spelled with a trailing slash does not name the object). *)
  Theorem scope_hier_walk : forall (s : server) (rs : list string) (rt : bool) (d : depth),
    segs_ok rs = true ->
    let path := req_path ps rs rt in
    match snd (propfind_walk s b (join ps) path d) with
    | Ok l => l = map (answered_of h path) (hier_expected h d rs)
    | Err c => c = 404%N /\ (hier_expected h d rs = [] \/ (List.length rs = 4 /\ rt = true))
    | Panic => False
    end.
  Proof.
    intros s rs rt d Ors path.
    unfold propfind_walk. unfold path at 1.
    rewrite (depth_only_plain ps rs rt ok_ps Ors).
    unfold hier_expected.
    destruct rs as [|x [|y [|z [|w [|v rest]]]]]; cbn [List.length propfind_at snd].
    - (* root *)
      rewrite filter_all_pos. cbn [hier_in_scope_b optl app].
      rewrite FM_none by reflexivity. reflexivity.
    - (* principal level *)
      apply segs_ok_cons in Ors. destruct Ors as [Ox _].
      unfold path. rewrite (same_principal x rt Ox).
      rewrite filter_all_pos.
      isb.
      rewrite (FM_const _ (String.eqb x u && is_inf d) (String.eqb x u && is_inf d))
        by (intros; isb;
            destruct (String.eqb x u), d; reflexivity).
      destruct (String.eqb x u); [|cbn [andb optl app]; rewrite flat_map_nil by reflexivity; reflexivity].
      destruct d; cbn [andb orb negb is_d0 is_inf optl app snd].
      + rewrite flat_map_nil by reflexivity. reflexivity.
      + rewrite flat_map_nil by reflexivity. reflexivity.
      + rewrite (colls_answered_true (req_path ps [x] rt)). reflexivity.
    - (* home-set level *)
      apply segs_ok_cons in Ors. destruct Ors as [Ox Ors]. apply segs_ok_cons in Ors. destruct Ors as [Oy _].
      unfold path. rewrite (same_home x y rt Ox Oy).
      rewrite filter_all_pos.
      isb.
      rewrite (FM_const _ (String.eqb x u && String.eqb y hm && negb (is_d0 d)) (String.eqb x u && String.eqb y hm && is_inf d))
        by (intros; isb;
            destruct (String.eqb x u), (String.eqb y hm), d; reflexivity).
      destruct (String.eqb x u); [|cbn [andb optl app]; rewrite flat_map_nil by reflexivity; reflexivity].
      destruct (String.eqb y hm); [|cbn [andb optl app]; rewrite flat_map_nil by reflexivity; reflexivity].
      destruct d; cbn [andb orb negb is_d0 is_inf optl app snd].
      + rewrite flat_map_nil by reflexivity. reflexivity.
      + rewrite (colls_answered_false (req_path ps [x; y] rt)). reflexivity.
      + rewrite (colls_answered_true (req_path ps [x; y] rt)). reflexivity.
    - (* collection level *)
      apply segs_ok_cons in Ors. destruct Ors as [Ox Ors]. apply segs_ok_cons in Ors. destruct Ors as [Oy Ors].
      apply segs_ok_cons in Ors. destruct Ors as [Oz _].
      unfold path. rewrite (find_coll_req x y z rt Ox Oy Oz).
      rewrite filter_all_pos.
      isb.
      destruct (String.eqb x u && String.eqb y hm) eqn:K.
      + apply andb_prop in K. destruct K as [Kx Ky]. rewrite Kx, Ky.
        rewrite (FM_coll _ z (negb (is_d0 d)))
          by (intros; isb;
              rewrite Kx, Ky; destruct (String.eqb z (hc_name c)), d; reflexivity).
        cbn [andb optl app].
        destruct (find (fun c => String.eqb z (hc_name c)) (h_colls h)) as [c|] eqn:F; cbn [option_map].
        * destruct (find_key_unique hc_name _ _ _ ok_cnodup F) as (Hc & _ & _).
          destruct d; cbn [is_d0 negb snd map answered_of]; try reflexivity;
            rewrite list_objs_own by exact Hc; rewrite !map_map; reflexivity.
        * split; [reflexivity|left; reflexivity].
      + rewrite FM_none
          by (intros; isb; destruct (String.eqb x u), (String.eqb y hm); try discriminate; reflexivity).
        destruct (String.eqb x u), (String.eqb y hm); try discriminate; cbn [andb optl app snd];
          (split; [reflexivity|left; reflexivity]).
    - (* object level *)
      apply segs_ok_cons in Ors. destruct Ors as [Ox Ors]. apply segs_ok_cons in Ors. destruct Ors as [Oy Ors].
      apply segs_ok_cons in Ors. destruct Ors as [Oz Ors]. apply segs_ok_cons in Ors. destruct Ors as [Ow _].
      rewrite filter_all_pos.
      set (K := String.eqb x u && String.eqb y hm).
      assert (EFM : FM (hier_in_scope_b h d [x; y; z; w])
                    = if K then match find (fun c => String.eqb z (hc_name c)) (h_colls h) with
                                | Some c => match find (fun o => String.eqb w (ho_name o)) (hc_objs c) with
                                            | Some o => [PObj c o] | None => [] end
                                | None => [] end
                      else []).
      { unfold K. destruct (String.eqb x u) eqn:Kx, (String.eqb y hm) eqn:Ky; cbn [andb];
          try (apply FM_none; intros; isb;
               rewrite ?Kx, ?Ky; rewrite ?Bool.andb_false_r; reflexivity).
        apply FM_obj; intros; isb;
          rewrite Kx, Ky; cbn [andb].
        - rewrite !Bool.andb_false_r. reflexivity.
        - destruct (String.eqb z (hc_name c)), (String.eqb w (ho_name o)), d; reflexivity. }
      rewrite EFM. clear EFM.
      isb. rewrite !Bool.andb_false_r. cbn [optl app].
      (* the model's lookup *)
      destruct rt.
      + (* trailing slash: never found *)
        assert (N : find_obj b path = None).
        { unfold find_obj, all_objs, b, backend_of, colls. rewrite flat_map_map.
          apply find_none_all. intros o Ho. apply in_flat_map in Ho. destruct Ho as [c [Hc Ho]].
          cbn [c_objs coll_of] in Ho. apply in_map_iff in Ho. destruct Ho as [o' [<- Ho']].
          apply obj_path_slash; assumption. }
        rewrite N. split; [reflexivity|right; split; reflexivity].
      + assert (FO : find_obj b path
                     = if K then match find (fun c => String.eqb z (hc_name c)) (h_colls h) with
                                 | Some c => option_map (obj_of h c) (find (fun o => String.eqb w (ho_name o)) (hc_objs c))
                                 | None => None end
                       else None).
        { unfold find_obj, all_objs, b, backend_of, colls. rewrite flat_map_map. cbn [c_objs coll_of].
          unfold K, path. apply find_obj_in; auto using ok_cnodup. }
        rewrite FO. clear FO.
        destruct K; [|split; [reflexivity|left; reflexivity]].
        destruct (find (fun c => String.eqb z (hc_name c)) (h_colls h)) as [c|]; [|split; [reflexivity|left; reflexivity]].
        destruct (find (fun o => String.eqb w (ho_name o)) (hc_objs c)) as [o|]; cbn [option_map snd];
          [reflexivity | split; [reflexivity|left; reflexivity]].
    - (* below object depth *)
      rewrite filter_all_pos.
      isb.
      rewrite !Bool.andb_false_r. cbn [optl app].
      rewrite FM_none; [reflexivity| |];
        intros; isb;
        rewrite ?Bool.andb_false_r; reflexivity.
  Qed.
End Hier.
