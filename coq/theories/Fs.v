(** Fs.v — the file-system state the file server works on: a tree of regular
    files and directories, and the path-indexed operations the OS calls of
    fs_local.go amount to.  Everything recurses on the *path*; the state is an
    [option node] (what is mapped at the top of the modelled sandbox).
    No proofs here (extracted). *)
From GW Require Import Base.
Local Open Scope list_scope.

Inductive node :=
| File (content : string) (mtime : N)
| Dir (children : list (string * node)).

Definition path := list string.

Fixpoint assoc (k : string) (l : list (string * node)) : option node :=
  match l with
  | [] => None
  | (k', v) :: r => if String.eqb k' k then Some v else assoc k r
  end.

(** Byte-wise string order (what sort.Strings / filepath.Walk use). *)
Definition str_ltb (a b : string) : bool :=
  match String.compare a b with Lt => true | _ => false end.

(** Sorted insertion of a key that is not in the list. *)
Fixpoint ins_assoc (k : string) (v : node) (l : list (string * node)) : list (string * node) :=
  match l with
  | [] => [(k, v)]
  | (k', v') :: r => if str_ltb k k' then (k, v) :: l else (k', v') :: ins_assoc k v r
  end.

Fixpoint rep_assoc (k : string) (v : node) (l : list (string * node)) : list (string * node) :=
  match l with
  | [] => []
  | (k', v') :: r => if String.eqb k' k then (k, v) :: r else (k', v') :: rep_assoc k v r
  end.

(** Replace the binding of [k] in place, or insert it in sorted position. *)
Definition set_assoc (k : string) (v : node) (l : list (string * node)) : list (string * node) :=
  match assoc k l with
  | Some _ => rep_assoc k v l
  | None => ins_assoc k v l
  end.

Definition del_assoc (k : string) (l : list (string * node)) : list (string * node) :=
  filter (fun kv => negb (String.eqb (fst kv) k)) l.

(** Lookup. *)
Fixpoint geto (on : option node) (p : path) : option node :=
  match p with
  | [] => on
  | s :: r =>
    match on with
    | Some (Dir ch) => geto (assoc s ch) r
    | _ => None
    end
  end.

(** Map [x] at [p]: succeeds iff [p] is the top or its parent is a directory. *)
Fixpoint seto (on : option node) (p : path) (x : node) : option node :=
  match p with
  | [] => Some x
  | s :: r =>
    match on with
    | Some (Dir ch) =>
      match seto (assoc s ch) r x with
      | Some c' => Some (Dir (set_assoc s c' ch))
      | None => None
      end
    | _ => None
    end
  end.

(** Unmap everything at and below [p] (os.RemoveAll); a missing path is a no-op. *)
Fixpoint remo (on : option node) (p : path) : option node :=
  match p with
  | [] => None
  | s :: r =>
    match on with
    | Some (Dir ch) =>
      match assoc s ch with
      | None => on
      | Some c =>
        match remo (Some c) r with
        | Some c' => Some (Dir (set_assoc s c' ch))
        | None => Some (Dir (del_assoc s ch))
        end
      end
    | _ => on
    end
  end.

Definition is_dir (on : option node) : bool :=
  match on with Some (Dir _) => true | _ => false end.
Definition is_file (on : option node) : bool :=
  match on with Some (File _ _) => true | _ => false end.
Definition exists_ (on : option node) : bool :=
  match on with Some _ => true | None => false end.

Definition parent (p : path) : path := removelast p.

(** filepath.Walk order: the node itself, then its members in name order, depth first. *)
Fixpoint walk (n : node) (rel : path) : list (path * node) :=
  (rel, n) ::
  match n with
  | File _ _ => []
  | Dir ch =>
    (fix go (l : list (string * node)) : list (path * node) :=
       match l with
       | [] => []
       | (k, c) :: r => walk c (rel ++ [k])%list ++ go r
       end) ch
  end.

(** Non-recursive ReadDir: the node and its direct members. *)
Definition walk1 (n : node) (rel : path) : list (path * node) :=
  (rel, n) ::
  match n with
  | File _ _ => []
  | Dir ch => map (fun kc => ((rel ++ [fst kc])%list, snd kc)) ch
  end.

(** What a recursive copy writes: same shape and bytes, new modification times. *)
Fixpoint copy_tree (stamp : N) (n : node) : node :=
  match n with
  | File c _ => File c stamp
  | Dir ch =>
    Dir ((fix go (l : list (string * node)) : list (string * node) :=
            match l with
            | [] => []
            | (k, c) :: r => (k, copy_tree stamp c) :: go r
            end) ch)
  end.

(** Depth 0 copy: the bare collection, or the file. *)
Definition copy_shallow (stamp : N) (n : node) : node :=
  match n with
  | File c _ => File c stamp
  | Dir _ => Dir []
  end.

(** Observable content: names, kinds, bytes — modification times ignored. *)
Fixpoint node_eqb (a b : node) : bool :=
  match a, b with
  | File c1 _, File c2 _ => String.eqb c1 c2
  | Dir l1, Dir l2 =>
    (fix go (x y : list (string * node)) : bool :=
       match x, y with
       | [], [] => true
       | (k1, n1) :: r1, (k2, n2) :: r2 => String.eqb k1 k2 && node_eqb n1 n2 && go r1 r2
       | _, _ => false
       end) l1 l2
  | _, _ => false
  end.

Definition onode_eqb (a b : option node) : bool :=
  match a, b with
  | None, None => true
  | Some x, Some y => node_eqb x y
  | _, _ => false
  end.

(** All paths mapped in a tree (for the executable specification check). *)
Definition all_paths (on : option node) : list path :=
  match on with None => [] | Some n => map fst (walk n []) end.
