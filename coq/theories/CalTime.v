(** CalTime.v — the iCalendar "date with UTC time" text form (RFC 5545 3.3.5,
    layout 20060102T150405Z) of an instant given as unix seconds, as Go's
    [time.Time.UTC().Format] writes it and as [dateWithUTCTime.UnmarshalText]
    (length check + [time.Parse]) reads it.  Definitions only (extracted);
    the round trip is proved in CalTimeProofs.v.  Self-contained on purpose:
    C08 does not depend on other properties' files.

    Faithful for years 0..9999 ([in_range]); outside, Go prints more than four
    year digits or a sign, which no generator of the C08 harness produces. *)
From GW Require Import Base.
Open Scope Z_scope.

(** Day of a 400-year era (starting 1 March of a year divisible by 400)
    -> (year of era, month, day); the algorithm is the classical one on
    March-based years, all divisions are floor divisions on non-negative
    numbers. *)
Definition civil_of_doe (doe : Z) : Z * Z * Z :=
  let yoe := (doe - doe / 1460 + doe / 36524 - doe / 146096) / 365 in
  let doy := doe - (365 * yoe + yoe / 4 - yoe / 100) in
  let mp := (5 * doy + 2) / 153 in
  let d := doy - (153 * mp + 2) / 5 + 1 in
  let m := if mp <? 10 then mp + 3 else mp - 9 in
  (yoe, m, d).

Definition jan_feb (m : Z) : Z := if m <=? 2 then 1 else 0.

(** Days since 1970-01-01 -> (year, month, day), proleptic Gregorian. *)
Definition civil_from_days (days : Z) : Z * Z * Z :=
  let z := days + 719468 in
  let era := z / 146097 in
  let doe := z mod 146097 in
  let '(yoe, m, d) := civil_of_doe doe in
  (yoe + era * 400 + jan_feb m, m, d).

Definition doe_of_civil (yoe m d : Z) : Z :=
  let mp := if m >? 2 then m - 3 else m + 9 in
  let doy := (153 * mp + 2) / 5 + d - 1 in
  yoe * 365 + yoe / 4 - yoe / 100 + doy.

Definition days_from_civil (y m d : Z) : Z :=
  let y1 := y - jan_feb m in
  let era := y1 / 400 in
  let yoe := y1 mod 400 in
  era * 146097 + doe_of_civil yoe m d - 719468.

Definition is_leap (y : Z) : bool :=
  (y mod 4 =? 0) && (negb (y mod 100 =? 0) || (y mod 400 =? 0)).

Definition days_in_month (y m : Z) : Z :=
  if m =? 2 then (if is_leap y then 29 else 28)
  else if (m =? 4) || (m =? 6) || (m =? 9) || (m =? 11) then 30 else 31.

(** Decimal digits. *)
Definition digit (n : Z) : ascii := ascii_of_N (Z.to_N (48 + n mod 10)).
Definition dval (c : ascii) : option Z :=
  let n := Z.of_N (N_of_ascii c) in
  if (48 <=? n) && (n <=? 57) then Some (n - 48) else None.

Definition num2 (a b : ascii) : option Z :=
  match dval a, dval b with Some x, Some y => Some (10 * x + y) | _, _ => None end.
Definition num4 (a b c d : ascii) : option Z :=
  match num2 a b, num2 c d with Some x, Some y => Some (100 * x + y) | _, _ => None end.

(** [time.Time.UTC().Format("20060102T150405Z")] of the instant [s]. *)
Definition fmt_utc (s : Z) : string :=
  let days := s / 86400 in
  let rem := s mod 86400 in
  let '(y, m, d) := civil_from_days days in
  let hh := rem / 3600 in
  let mi := (rem / 60) mod 60 in
  let ss := rem mod 60 in
  String (digit (y / 1000)) (String (digit (y / 100)) (String (digit (y / 10)) (String (digit y)
  (String (digit (m / 10)) (String (digit m)
  (String (digit (d / 10)) (String (digit d)
  (String "T"
  (String (digit (hh / 10)) (String (digit hh)
  (String (digit (mi / 10)) (String (digit mi)
  (String (digit (ss / 10)) (String (digit ss)
  (String "Z" EmptyString))))))))))))))).

(** [dateWithUTCTime.UnmarshalText]: exactly sixteen bytes, then [time.Parse]
    with the layout: four year digits, two-digit month 01-12, day valid for
    the month, hour < 24, minute < 60, second < 60, literal T and Z.
    [None] = the error. *)
Definition parse_utc (t : string) : option Z :=
  match list_ascii_of_string t with
  | [y1; y2; y3; y4; m1; m2; d1; d2; ct; h1; h2; i1; i2; s1; s2; cz] =>
    if Ascii.eqb ct "T" && Ascii.eqb cz "Z" then
      match num4 y1 y2 y3 y4, num2 m1 m2, num2 d1 d2 with
      | Some y, Some m, Some d =>
        match num2 h1 h2, num2 i1 i2, num2 s1 s2 with
        | Some hh, Some mi, Some ss =>
          if (1 <=? m) && (m <=? 12) && (1 <=? d) && (d <=? days_in_month y m)
             && (hh <? 24) && (mi <? 60) && (ss <? 60)
          then Some (days_from_civil y m d * 86400 + hh * 3600 + mi * 60 + ss)
          else None
        | _, _, _ => None
        end
      | _, _, _ => None
      end
    else None
  | _ => None
  end.

(** Instants the four-digit year can express: 0000-01-01T00:00:00Z up to
    9999-12-31T23:59:59Z. *)
Definition range_lo : Z := -62167219200.
Definition range_hi : Z := 253402300800.
Definition in_range (s : Z) : bool := (range_lo <=? s) && (s <? range_hi).

(** Go's zero [time.Time] (0001-01-01T00:00:00Z), the public API's "no bound". *)
Definition zero_sec : Z := -62135596800.
