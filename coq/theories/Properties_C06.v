(** Properties_C06.v — C06: CalDAV filter evaluation follows RFC 4791 section 9.7-9.9.
    Statements only; each is closed by [exact] of a lemma proved in CalMatchProofs.v.

    [match_] models caldav.match (what Match runs on the object's component),
    [match_top] Match, [filter_objs] Filter (CalMatch.v, after caldav/match.go);
    [rfc4791_comp] is the specification.  Hypotheses that appear below:
    - [times_ok f c]: no time range of the query is evaluated on a value go-ical
      cannot read (otherwise Match answers with an error, see C06_errors);
    - [between_ok f c]: rrule-go's Between returned what its documentation says
      (oracle data; re-checked by the oracle on every case);
    - [kf_recurring_overlap f c = false]: the known finding [recurring_overlap]
      (known_findings.json) does not apply. *)
From GW Require Import Base CalMatch CalMatchProofs.

(** ** Every filter tree x every component tree *)

(** On calendars without recurring components Match computes the RFC's verdict,
    for every filter tree (any depth, any flags) and every component tree. *)
Theorem C06_match : forall f c,
  no_recurring c = true -> times_ok f c = true ->
  match_ f c = Ok (rfc4791_comp f c).
Proof. exact match_rfc_nonrecurring. Qed.
Print Assumptions C06_match.

(** With recurring components, away from the listed finding. *)
Theorem C06_match_except_recurring_overlap : forall f c,
  times_ok f c = true -> between_ok f c = true -> kf_recurring_overlap f c = false ->
  match_ f c = Ok (rfc4791_comp f c).
Proof. exact match_rfc_except_recurring. Qed.
Print Assumptions C06_match_except_recurring_overlap.

(** Whenever Match returns a verdict at all — also on objects holding unreadable
    time values elsewhere — it is the RFC's. *)
Theorem C06_match_verdict_except_recurring_overlap : forall f c b,
  between_ok f c = true -> kf_recurring_overlap f c = false ->
  match_ f c = Ok b -> b = rfc4791_comp f c.
Proof. exact match_verdict_rfc. Qed.
Print Assumptions C06_match_verdict_except_recurring_overlap.

(** The finding is real: a daily one-hour event, a range inside its first instance. *)
Theorem C06_recurring_overlap_refuted :
  exists f c,
    times_ok f c = true /\ between_ok f c = true /\ kf_recurring_overlap f c = true /\
    match_ f c = Ok false /\ rfc4791_comp f c = true.
Proof. exact recurring_overlap_refuted. Qed.
Print Assumptions C06_recurring_overlap_refuted.

(** ** Time ranges *)

(** For a non-recurring VEVENT in row [k] of the section 9.9 table, matchCompTimeRange
    decides the row's condition: for all range bounds (each possibly absent) and all
    DTSTART/DTEND/DURATION values in Z — every relative ordering, every equality. *)
Theorem C06_overlap : forall s e c k,
  c_rec c = NoRRule -> c_name c = "VEVENT" -> event_kind c = Some k ->
  match_comp_time_range s e c = Ok (overlaps s e k).
Proof. exact comp_time_range_event. Qed.
Print Assumptions C06_overlap.

(** [overlaps] is the table of section 9.9 (absent start = -infinity, absent end = +infinity). *)
Theorem C06_overlap_table : forall s e k, overlaps s e k = true <-> overlaps_P s e k.
Proof. exact overlaps_table. Qed.
Print Assumptions C06_overlap_table.

(** A recurring component: where Between kept its contract and the finding does not
    apply, the answer is "some instance overlaps". *)
Theorem C06_recurring_except_recurring_overlap : forall s e c tbl insts,
  c_rec c = RSet tbl insts ->
  lookup_tr s e tbl = Some (spec_between s e insts) ->
  rec_disagree ((s, e), c) = false ->
  match_comp_time_range s e c = Ok (rec_spec s e c insts).
Proof. exact recurring_time_range. Qed.
Print Assumptions C06_recurring_except_recurring_overlap.

Theorem C06_recurring_meaning : forall s e c insts,
  rec_spec s e c insts = true <->
  exists k i, event_kind c = Some k /\ In i insts /\ overlaps_P s e (shift_kind k i).
Proof. exact rec_spec_meaning. Qed.
Print Assumptions C06_recurring_meaning.

(** ** Filter *)

(** Exactly the matching objects, in input order, each the value passed in. *)
Theorem C06_filter : forall f os,
  (forall o, In o os -> obj_ok f o) ->
  filter_objs (Some f) os = Ok (filter (obj_matches f) os).
Proof. exact filter_rfc. Qed.
Print Assumptions C06_filter.

(** All of them for a nil query. *)
Theorem C06_filter_nil_query : forall os, filter_objs None os = Ok os.
Proof. exact filter_nil_query. Qed.
Print Assumptions C06_filter_nil_query.

(** Whatever Filter returns is a selection of its input that keeps the order. *)
Theorem C06_filter_selects : forall q os r, filter_objs q os = Ok r -> sublist r os.
Proof. exact filter_selects. Qed.
Print Assumptions C06_filter_selects.

(** ** Errors and panics *)

(** An error has a cause: a time value go-ical cannot read under a time range. *)
Theorem C06_errors : forall f c code,
  match_ f c = Err code -> times_ok f c && between_ok f c = false.
Proof. exact match_err_cause. Qed.
Print Assumptions C06_errors.

(** Such a value yields an error, never a verdict. *)
Theorem C06_errors_rrule : forall s e c,
  c_rec c = RRuleErr -> match_comp_time_range s e c = Err 500.
Proof. exact comp_time_range_rrule_err. Qed.
Print Assumptions C06_errors_rrule.

Theorem C06_errors_event : forall s e c,
  c_rec c = NoRRule -> c_name c = "VEVENT" ->
  first_named "DTSTART" c <> None -> event_kind c = None ->
  match_comp_time_range s e c = Err 500.
Proof. exact comp_time_range_event_err. Qed.
Print Assumptions C06_errors_event.

Theorem C06_errors_prop : forall s e p,
  p_time p = TBad -> match_prop_time_range s e p = Err 500.
Proof. exact prop_time_range_err. Qed.
Print Assumptions C06_errors_prop.

(** Match panics exactly on an object without data. *)
Theorem C06_panic_iff : forall f o, match_top f o = Panic <-> o_data o = None.
Proof. exact match_top_panic_iff. Qed.
Print Assumptions C06_panic_iff.

(** ** What the specification says *)

(** text-match: the text occurs in the value, inverted by negate-condition. *)
Theorem C06_text_match : forall txt v,
  match_text_match txt v = true <->
  ((exists a b, v = a ++ tm_text txt ++ b) <-> tm_negate txt = false).
Proof. exact text_match_meaning. Qed.
Print Assumptions C06_text_match.

(** comp-filter in a scope [l]: with is-not-defined iff no component of that name
    exists, otherwise iff one of that name satisfies the rest. *)
Theorem C06_spec_comp_filter : forall tr f l,
  scope_with tr f l = true <->
  if cf_nd f then ~ (exists ch, In ch l /\ c_name ch = cf_name f)
  else exists ch, In ch l /\ c_name ch = cf_name f /\ holds_with tr f ch = true.
Proof. exact scope_meaning. Qed.
Print Assumptions C06_spec_comp_filter.

(** ... the rest: its time range, all nested comp-filters, all prop-filters. *)
Theorem C06_spec_holds : forall tr name nd s e props comps c,
  holds_with tr (CF name nd s e props comps) c = true <->
  (has_range s e = true -> tr s e c = true) /\
  (forall cf, In cf comps -> scope_with tr cf (c_children c) = true) /\
  (forall pf, In pf props -> rfc4791_prop pf c = true).
Proof. exact holds_meaning. Qed.
Print Assumptions C06_spec_holds.

(** prop-filter: with is-not-defined iff no property of that name exists, otherwise
    iff one of that name passes text-match, time range and param-filters. *)
Theorem C06_spec_prop_filter : forall f c,
  rfc4791_prop f c = true <->
  if prf_nd f then ~ (exists p, In p (c_props c) /\ p_name p = upper (prf_name f))
  else exists p, In p (c_props c) /\ p_name p = upper (prf_name f) /\ rfc4791_prop_inst f p = true.
Proof. exact prop_filter_meaning. Qed.
Print Assumptions C06_spec_prop_filter.

(** ** The oracle's verdict functions *)

(** Agreement of the implementation with the model entails the specification,
    outside the listed finding. *)
Theorem C06_agree_implies_spec_ok : forall f o ob,
  match_agrees f o ob = true -> match_kf f o = false -> match_spec_ok f o ob = true.
Proof. exact match_agree_spec_ok. Qed.
Print Assumptions C06_agree_implies_spec_ok.

Theorem C06_filter_agree_implies_spec_ok : forall q os ob,
  filter_agrees q os ob = true -> filter_kf q os = false -> filter_spec_ok q os ob = true.
Proof. exact filter_agree_spec_ok. Qed.
Print Assumptions C06_filter_agree_implies_spec_ok.
