(** Properties_C06.v — C06: CalDAV filter evaluation follows RFC 4791 section 9.7-9.9.
    Statements only; each is closed by [exact] of a lemma proved in CalMatchProofs.v.

    [match_] models caldav.match (what Match runs on the object's component),
    [match_top] Match, [filter_objs] Filter (CalMatch.v, after caldav/match.go);
    [rfc4791_comp] is the specification.  Hypotheses that appear below:
    - [times_ok f c]: no time range of the query is evaluated on a value go-ical
      cannot read (otherwise Match answers with an error, see C06_errors);
    - [rset_ok f c]: wherever the query puts a time range on a recurring component,
      rrule-go's iterator yielded exactly the instances of the component, in
      ascending order (oracle data; re-checked by the oracle on every case against
      an instance list computed independently), and an instance list cut at a
      horizon (rules that do not end) is cut where it cannot matter
      (C06_recurring_later_instances).
    The former known finding [recurring_overlap] is repaired (known_findings.json,
    "fixed"): no theorem carries a selector any more. *)
From GW Require Import Base CalMatch CalMatchProofs.

(** ** Every filter tree x every component tree *)

(** On calendars without recurring components Match computes the RFC's verdict,
    for every filter tree (any depth, any flags) and every component tree. *)
Theorem C06_match : forall f c,
  no_recurring c = true -> times_ok f c = true ->
  match_ f c = Ok (rfc4791_comp f c).
Proof. exact match_rfc_nonrecurring. Qed.
Print Assumptions C06_match.

(** With recurring components: the same, for every filter tree and every component
    tree, given that rrule-go kept its contract. *)
Theorem C06_match_recurring : forall f c,
  times_ok f c = true -> rset_ok f c = true ->
  match_ f c = Ok (rfc4791_comp f c).
Proof. exact match_rfc_recurring. Qed.
Print Assumptions C06_match_recurring.

(** Whenever Match returns a verdict at all — also on objects holding unreadable
    time values elsewhere — it is the RFC's. *)
Theorem C06_match_verdict : forall f c b,
  rset_ok f c = true ->
  match_ f c = Ok b -> b = rfc4791_comp f c.
Proof. exact match_verdict_rfc. Qed.
Print Assumptions C06_match_verdict.

(** The witness of the former finding (a daily one-hour event, a range inside its
    first instance; match.go answered false): Match now answers true, as the RFC does. *)
Theorem C06_recurring_overlap_repaired :
  times_ok old_witness_filter old_witness_calendar = true /\
  rset_ok old_witness_filter old_witness_calendar = true /\
  match_ old_witness_filter old_witness_calendar = Ok true /\
  rfc4791_comp old_witness_filter old_witness_calendar = true.
Proof. exact recurring_overlap_repaired. Qed.
Print Assumptions C06_recurring_overlap_repaired.

(** ** Time ranges *)

(** For a non-recurring VEVENT in row [k] of the section 9.9 table, matchCompTimeRange
    decides the row's condition: for all range bounds (each possibly absent) and all
    DTSTART/DTEND/DURATION values in Z — every relative ordering, every equality. *)
Theorem C06_overlap : forall s e c k,
  c_rec c = NoRRule -> c_name c = "VEVENT" -> event_kind c = Some k ->
  match_comp_time_range s e c = Ok (overlaps s e k).
Proof. exact comp_time_range_event. Qed.
Print Assumptions C06_overlap.

(** [overlaps] is the table of section 9.9 (absent start = -infinity, absent end = +infinity). *)
Theorem C06_overlap_table : forall s e k, overlaps s e k = true <-> overlaps_P s e k.
Proof. exact overlaps_table. Qed.
Print Assumptions C06_overlap_table.

(** A recurring component (its DTSTART, DTEND, DURATION readable, rrule-go's iterator
    on contract): the answer is "some instance overlaps", every instance having the
    extent of the first — for all range bounds, each possibly absent. *)
Theorem C06_recurring : forall s e c seq hz insts,
  c_rec c = RSet seq hz insts -> comp_time_ok c = true -> rset_ok_at ((s, e), c) = true ->
  match_comp_time_range s e c = Ok (rec_spec s e c insts).
Proof. exact recurring_time_range. Qed.
Print Assumptions C06_recurring.

(** matchEventTimeRange on the instance starting at [i] of an event in row [k] decides
    the condition of that row shifted to [i] (all of Z). *)
Theorem C06_instance_overlap : forall s e k i a b he,
  kind_extent k = (a, b, he) ->
  match_event_time_range s e i (i + (b - a)) he = overlaps s e (shift_kind k i).
Proof. exact extent_overlap. Qed.
Print Assumptions C06_instance_overlap.

(** Rules that do not end: the oracle data lists the instances up to a horizon [h].
    Where [horizon_covers] holds (part of [rset_ok]) the instances after [h],
    whatever they are, do not change the RFC's answer. *)
Theorem C06_recurring_later_instances : forall s e c insts h later,
  (forall j, In j later -> (h < j)%Z) ->
  horizon_covers s e c (Some h) insts = true ->
  rec_spec s e c (insts ++ later) = rec_spec s e c insts.
Proof. exact rec_spec_later_instances. Qed.
Print Assumptions C06_recurring_later_instances.

Theorem C06_recurring_meaning : forall s e c insts,
  rec_spec s e c insts = true <->
  exists k i, event_kind c = Some k /\ In i insts /\ overlaps_P s e (shift_kind k i).
Proof. exact rec_spec_meaning. Qed.
Print Assumptions C06_recurring_meaning.

(** ** Filter *)

(** Exactly the matching objects, in input order, each the value passed in. *)
Theorem C06_filter : forall f os,
  (forall o, In o os -> obj_ok f o) ->
  filter_objs (Some f) os = Ok (filter (obj_matches f) os).
Proof. exact filter_rfc. Qed.
Print Assumptions C06_filter.

(** All of them for a nil query. *)
Theorem C06_filter_nil_query : forall os, filter_objs None os = Ok os.
Proof. exact filter_nil_query. Qed.
Print Assumptions C06_filter_nil_query.

(** Whatever Filter returns is a selection of its input that keeps the order. *)
Theorem C06_filter_selects : forall q os r, filter_objs q os = Ok r -> sublist r os.
Proof. exact filter_selects. Qed.
Print Assumptions C06_filter_selects.

(** ** Errors and panics *)

(** An error has a cause: a time value go-ical cannot read under a time range. *)
Theorem C06_errors : forall f c code,
  match_ f c = Err code -> times_ok f c && rset_ok f c = false.
Proof. exact match_err_cause. Qed.
Print Assumptions C06_errors.

(** Such a value yields an error, never a verdict. *)
Theorem C06_errors_rrule : forall s e c,
  c_rec c = RRuleErr -> match_comp_time_range s e c = Err 500.
Proof. exact comp_time_range_rrule_err. Qed.
Print Assumptions C06_errors_rrule.

Theorem C06_errors_event : forall s e c,
  c_rec c = NoRRule -> c_name c = "VEVENT" ->
  first_named "DTSTART" c <> None -> event_kind c = None ->
  match_comp_time_range s e c = Err 500.
Proof. exact comp_time_range_event_err. Qed.
Print Assumptions C06_errors_event.

(** In general: a component whose rule set, DTSTART, DTEND or DURATION go-ical cannot
    read (a recurring component needs them as well: every instance has the extent
    of the first). *)
Theorem C06_errors_comp : forall s e c,
  comp_time_ok c = false -> match_comp_time_range s e c = Err 500.
Proof. exact comp_time_range_unreadable. Qed.
Print Assumptions C06_errors_comp.

Theorem C06_errors_prop : forall s e p,
  p_time p = TBad -> match_prop_time_range s e p = Err 500.
Proof. exact prop_time_range_err. Qed.
Print Assumptions C06_errors_prop.

(** Match panics exactly on an object without data. *)
Theorem C06_panic_iff : forall f o, match_top f o = Panic <-> o_data o = None.
Proof. exact match_top_panic_iff. Qed.
Print Assumptions C06_panic_iff.

(** ** What the specification says *)

(** text-match: the text occurs in the value, inverted by negate-condition. *)
Theorem C06_text_match : forall txt v,
  match_text_match txt v = true <->
  ((exists a b, v = a ++ tm_text txt ++ b) <-> tm_negate txt = false).
Proof. exact text_match_meaning. Qed.
Print Assumptions C06_text_match.

(** comp-filter in a scope [l]: with is-not-defined iff no component of that name
    exists, otherwise iff one of that name satisfies the rest. *)
Theorem C06_spec_comp_filter : forall tr f l,
  scope_with tr f l = true <->
  if cf_nd f then ~ (exists ch, In ch l /\ c_name ch = cf_name f)
  else exists ch, In ch l /\ c_name ch = cf_name f /\ holds_with tr f ch = true.
Proof. exact scope_meaning. Qed.
Print Assumptions C06_spec_comp_filter.

(** ... the rest: its time range, all nested comp-filters, all prop-filters. *)
Theorem C06_spec_holds : forall tr name nd s e props comps c,
  holds_with tr (CF name nd s e props comps) c = true <->
  (has_range s e = true -> tr s e c = true) /\
  (forall cf, In cf comps -> scope_with tr cf (c_children c) = true) /\
  (forall pf, In pf props -> rfc4791_prop pf c = true).
Proof. exact holds_meaning. Qed.
Print Assumptions C06_spec_holds.

(** prop-filter: with is-not-defined iff no property of that name exists, otherwise
    iff one of that name passes text-match, time range and param-filters. *)
Theorem C06_spec_prop_filter : forall f c,
  rfc4791_prop f c = true <->
  if prf_nd f then ~ (exists p, In p (c_props c) /\ p_name p = upper (prf_name f))
  else exists p, In p (c_props c) /\ p_name p = upper (prf_name f) /\ rfc4791_prop_inst f p = true.
Proof. exact prop_filter_meaning. Qed.
Print Assumptions C06_spec_prop_filter.

(** ** The oracle's verdict functions *)

(** The specification the oracle applies is three-valued ([rfc3_comp]): where a time
    range meets a component that is not a VEVENT the statement says nothing, the
    value is [U3], combined upwards by Kleene's conjunction and disjunction; a
    boolean verdict is acceptable iff [admits].  The strict boolean specification
    [rfc4791_comp] (which also records the code's "false" there) is one of the
    readings it admits, *)
Theorem C06_relaxed_admits_strict : forall f c, admits (rfc3_comp f c) (rfc4791_comp f c) = true.
Proof. exact rfc3_admits. Qed.
Print Assumptions C06_relaxed_admits_strict.

(** and where the time ranges of the query meet events only nothing is relaxed. *)
Theorem C06_relaxed_exact_on_events : forall f c b,
  events_only f c -> admits (rfc3_comp f c) b = Bool.eqb b (rfc4791_comp f c).
Proof. exact relaxed_is_strict_on_events. Qed.
Print Assumptions C06_relaxed_exact_on_events.

(** Agreement of the implementation with the model entails the strict specification, *)
Theorem C06_agree_implies_strict_spec : forall f o ob,
  match_agrees f o ob = true -> match_spec_strict f o ob = true.
Proof. exact match_agree_spec_ok. Qed.
Print Assumptions C06_agree_implies_strict_spec.

Theorem C06_filter_agree_implies_strict_spec : forall q os ob,
  filter_agrees q os ob = true -> filter_spec_strict q os ob = true.
Proof. exact filter_agree_spec_ok. Qed.
Print Assumptions C06_filter_agree_implies_strict_spec.

(** the strict one entails the relaxed one, *)
Theorem C06_strict_implies_relaxed : forall f o ob,
  match_spec_strict f o ob = true -> match_spec_ok f o ob = true.
Proof. exact match_strict_relaxed. Qed.
Print Assumptions C06_strict_implies_relaxed.

Theorem C06_filter_strict_implies_relaxed : forall q os ob,
  (forall f tags u, q = Some f -> ob = FOk tags u -> existsb obj_nil os = false) ->
  filter_spec_strict q os ob = true -> filter_spec_ok q os ob = true.
Proof. exact filter_strict_relaxed. Qed.
Print Assumptions C06_filter_strict_implies_relaxed.

(** hence agreement with the model entails the specification the oracle applies. *)
Theorem C06_agree_implies_spec_ok : forall f o ob,
  match_agrees f o ob = true -> match_spec_ok f o ob = true.
Proof. exact match_agree_relaxed. Qed.
Print Assumptions C06_agree_implies_spec_ok.

Theorem C06_filter_agree_implies_spec_ok : forall q os ob,
  filter_agrees q os ob = true -> filter_spec_ok q os ob = true.
Proof. exact filter_agree_relaxed. Qed.
Print Assumptions C06_filter_agree_implies_spec_ok.

(** The model of the unchanged code meets the relaxed specification on every input
    ([Err 0] is the model's "the oracle data do not tell", never a Go outcome). *)
Theorem C06_model_meets_relaxed_spec : forall f o,
  match_top f o <> Err 0 -> match_spec_ok f o (mobs_of_res (match_top f o)) = true.
Proof. exact model_meets_relaxed. Qed.
Print Assumptions C06_model_meets_relaxed_spec.

Theorem C06_filter_model_meets_relaxed_spec : forall q os,
  filter_objs q os <> Err 0 -> filter_spec_ok q os (fobs_of_res (filter_objs q os)) = true.
Proof. exact filter_model_meets_relaxed. Qed.
Print Assumptions C06_filter_model_meets_relaxed_spec.
