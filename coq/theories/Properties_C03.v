(** Properties_C03.v — C03: the file server never touches anything outside the
    served directory.  Statements only. *)
From GW Require Import Base GoPath Fs DavServer Rfc4918 FsProofs DavRefine DavCorollaries RelocProofs.
Local Open Scope list_scope.

(** For every byte string [name]: if localPath maps it at all, every segment below
    the root is a proper directory-entry name (non-empty, not "." or "..", no
    slash), so the host path is the root or lies strictly below it. *)
Theorem C03_local_segs_proper : forall name segs,
  local_segs name = Ok segs -> Forall (fun x => proper_seg x = true) segs.
Proof. exact local_segs_proper. Qed.
Print Assumptions C03_local_segs_proper.

Theorem C03_local_path_confined : forall root name p,
  local_path root name = Ok p ->
  exists segs, Forall (fun x => proper_seg x = true) segs /\ p = host_path root segs.
Proof. exact local_path_confined. Qed.
Print Assumptions C03_local_path_confined.

(** A name with a NUL byte, or one that is not absolute after cleaning, is refused. *)
Theorem C03_local_path_refuses : forall root name,
  (has_char nul name = true \/ is_abs (clean name) = false) -> local_path root name = Err 400.
Proof. exact local_path_refuses. Qed.
Print Assumptions C03_local_path_refuses.

(** Every path a request names (request path and Destination) lies at or below the root. *)
Theorem C03_request_paths_confined : forall root r p,
  In p (areq_paths (parse_req root r)) -> is_prefix root p = true.
Proof. exact parse_req_confined. Qed.
Print Assumptions C03_request_paths_confined.

(** For every request whatsoever — any request-path string, any Destination — what
    is mapped at any path outside the served root is the same before and after. *)
Theorem C03_outside_untouched : forall root sb r q,
  is_prefix root q = false -> abs (fst (serve root sb r)) q = abs sb q.
Proof. exact outside_root_untouched. Qed.
Print Assumptions C03_outside_untouched.

(** ... and along every history. *)
Theorem C03_history : forall root rs sb0 sb,
  (forall q, is_prefix root q = false -> abs sb q = abs sb0 q) ->
  outside_untouched_along root sb0 sb rs.
Proof. exact history_outside_untouched. Qed.
Print Assumptions C03_history.

(** A request path that cannot be mapped below the root is refused with 400 and
    changes nothing. *)
Theorem C03_unmappable_refused : forall root sb r,
  known_method (meth r) = true ->
  (String.eqb (meth r) "MKCOL" && negb (String.eqb (h_ctype r) "")) = false ->
  local_segs (rpath r) = Err 400 ->
  status (snd (serve root sb r)) = 400%N /\ fst (serve root sb r) = sb.
Proof. exact unmappable_path_refused. Qed.
Print Assumptions C03_unmappable_refused.

(** * Non-interference

    Serving from the directory at [root] inside any sandbox is serving the subtree
    mapped at [root] at its own top: the response is the same, and what is mapped at
    the root afterwards is what the subtree becomes.  Hence nothing beside or above
    the root is ever read: two sandboxes that agree on the served directory (an
    existing one) give the same answers and agree afterwards.  (When the served
    directory is missing, MKCOL of "/" looks at the root's parent:
    [RelocProofs.mkcol_root_reads_parent].) *)
Theorem C03_serve_relocates : forall root sb n0 r,
  geto sb root = Some n0 ->
  snd (serve root sb r) = snd (serve [] (Some n0) r) /\
  geto (fst (serve root sb r)) root = fst (serve [] (Some n0) r).
Proof. exact serve_relocates. Qed.
Print Assumptions C03_serve_relocates.

Theorem C03_noninterference : forall root sb1 sb2 r,
  geto sb1 root = geto sb2 root -> exists_ (geto sb1 root) = true ->
  snd (serve root sb1 r) = snd (serve root sb2 r) /\
  geto (fst (serve root sb1 r)) root = geto (fst (serve root sb2 r)) root.
Proof. exact serve_noninterference. Qed.
Print Assumptions C03_noninterference.
