(** Properties_C04.v — C04: If-Match / If-None-Match preconditions are honoured
    exactly.  Statements only.  The decoding of a header value into a tag
    (ConditionalMatch.ETag, i.e. the ETag codec of property C16) is an input:
    [d_if_match r] / [d_if_none_match r] are what it returned. *)
From GW Require Import Base GoPath Fs DavServer Rfc4918 FsProofs DavRefine DavCorollaries Quote CondWire CondWireProofs.
Local Open Scope list_scope.

(** The check the server performs is the truth table of the specification: it
    lets the request through iff no precondition refuses, and otherwise answers
    with one of the refusing codes (412, or 400 for an undecodable tag). *)
Theorem C04_truth_table : forall tag r,
  match req_cond r tag with
  | None => cond_refusals tag r = []
  | Some e => In (ecode e) (cond_refusals tag r)
  end.
Proof. exact check_cond_spec. Qed.
Print Assumptions C04_truth_table.

(** The table spelled out, for an existing resource with current tag [tag] ... *)
Theorem C04_table_existing : forall tag r,
  tag <> ""%string ->
  (cond_refusals tag r = [] <->
   (h_if_match r = ""%string \/ h_if_match r = "*"%string \/ d_if_match r = Some tag) /\
   (h_if_none_match r = ""%string \/
    (h_if_none_match r <> "*"%string /\ exists t, d_if_none_match r = Some t /\ t <> tag))).
Proof. exact cond_table_exists. Qed.
Print Assumptions C04_table_existing.

(** ... and for an absent one. *)
Theorem C04_table_absent : forall r, cond_refusals "" r = [] <-> h_if_match r = ""%string.
Proof. exact cond_table_absent. Qed.
Print Assumptions C04_table_absent.

(** DELETE and PUT are carried out iff the table allows; otherwise 412/400 and the
    state is equal to what it was. *)
Theorem C04_conditional_delete : forall root sb r s n,
  meth r = "DELETE"%string -> local_segs (rpath r) = Ok s -> geto sb (root ++ s) = Some n ->
  let tag := fi_etag (fi_of (dir_tag r) n) in
  let '(sb', resp) := serve root sb r in
  match cond_refusals tag r with
  | [] => status resp = 204%N /\ (forall q, abs sb' q = if is_prefix (root ++ s) q then None else abs sb q)
  | refs => In (status resp) refs /\ sb' = sb
  end.
Proof. exact conditional_delete. Qed.
Print Assumptions C04_conditional_delete.

Theorem C04_conditional_put : forall root sb r s,
  meth r = "PUT"%string -> local_segs (rpath r) = Ok s -> s <> [] ->
  is_dir (geto sb (root ++ s)) = false -> is_dir (geto sb (root ++ parent s)) = true ->
  body_fails r = false ->
  let tag := tag_at (dir_tag r) sb (root ++ s) in
  let '(sb', resp) := serve root sb r in
  match cond_refusals tag r with
  | [] => status resp = (if exists_ (geto sb (root ++ s)) then 204 else 201)%N /\
          abs sb' (root ++ s) = Some (AFile (body r)) /\
          (forall q, is_prefix (root ++ s) q = false -> abs sb' q = abs sb q)
  | refs => In (status resp) refs /\ sb' = sb
  end.
Proof. exact conditional_put. Qed.
Print Assumptions C04_conditional_put.

(** MatchETag: true exactly for "*" or an equal tag against an existing resource;
    an error (400) exactly for an undecodable tag against an existing resource. *)
Theorem C04_match_etag_true : forall v d etag,
  match_etag v d etag = GOk true <->
  etag <> ""%string /\ (v = "*"%string \/ (v <> "*"%string /\ d = Some etag)).
Proof. exact match_etag_true. Qed.
Print Assumptions C04_match_etag_true.

Theorem C04_match_etag_error : forall v d etag e,
  match_etag v d etag = GErr e ->
  etag <> ""%string /\ v <> "*"%string /\ d = None /\ ecode e = 400%N.
Proof. exact match_etag_error. Qed.
Print Assumptions C04_match_etag_error.

(** One tag: the tag PUT announces is the one GET, HEAD and PROPFIND announce for the
    stored file afterwards. *)
Theorem C04_one_tag : forall root sb r sb' resp,
  meth r = "PUT"%string -> serve root sb r = (sb', resp) -> (status resp < 300)%N ->
  exists t,
    r_etag resp = quote_tag t /\
    r_etag (snd (serve root sb' (get_req r "GET"))) = quote_tag t /\
    r_etag (snd (serve root sb' (get_req r "HEAD"))) = quote_tag t /\
    map me_etag (r_ms (snd (serve root sb' (get_req r "PROPFIND")))) = [t] /\
    tag_at "" sb' (req_target root r) = t.
Proof. exact one_tag. Qed.
Print Assumptions C04_one_tag.

(** A tag so obtained is accepted back (given that the header decoder inverts the
    quoting, property C16): If-Match lets the request through, If-None-Match stops it. *)
Theorem C04_tag_accepted_back : forall tag r,
  tag <> ""%string -> h_if_match r = quote_tag tag -> d_if_match r = Some tag ->
  if_match_refusals tag (h_if_match r) (d_if_match r) = [].
Proof. exact tag_accepted_back. Qed.
Print Assumptions C04_tag_accepted_back.

Theorem C04_tag_stops_if_none_match : forall tag r,
  tag <> ""%string -> h_if_none_match r = quote_tag tag -> d_if_none_match r = Some tag ->
  if_none_match_refusals tag (h_if_none_match r) (d_if_none_match r) = [412%N].
Proof. exact tag_stops_if_none_match. Qed.
Print Assumptions C04_tag_stops_if_none_match.

(** A stored file always has a non-empty tag, so "no tag" means "no resource". *)
Theorem C04_file_tag_nonempty : forall m size, etag_of m size <> ""%string.
Proof. exact file_tag_nonempty. Qed.
Print Assumptions C04_file_tag_nonempty.

(** * From the bytes of the headers

    Composition with the entity-tag codec of property C16 (Quote.v): [wire_decoded r]
    says that the decoded tags the model receives are what the model of
    ETag.UnmarshalText yields from the header bytes; the oracle evaluates it on every
    explored request (the harness obtains the tags from the real
    ConditionalMatch.ETag).  [etag_marshal is_print_hi t] is the text the server
    announces for tag [t] in ETag headers and getetag properties, for every table of
    printable code points above U+00FF. *)
Theorem C04_if_match_announced : forall (is_print_hi : N -> bool) r t cur,
  cur <> ""%string -> wire_decoded r = true ->
  h_if_match r = etag_marshal is_print_hi t -> h_if_none_match r = ""%string ->
  (req_cond r cur = None <-> t = cur).
Proof. exact if_match_announced. Qed.
Print Assumptions C04_if_match_announced.

Theorem C04_if_none_match_announced : forall (is_print_hi : N -> bool) r t cur,
  cur <> ""%string -> wire_decoded r = true ->
  h_if_none_match r = etag_marshal is_print_hi t -> h_if_match r = ""%string ->
  (req_cond r cur = None <-> t <> cur).
Proof. exact if_none_match_announced. Qed.
Print Assumptions C04_if_none_match_announced.

Theorem C04_announced_on_absent : forall (is_print_hi : N -> bool) r t,
  wire_decoded r = true ->
  (h_if_match r = etag_marshal is_print_hi t -> req_cond r "" <> None) /\
  (h_if_match r = ""%string -> h_if_none_match r = etag_marshal is_print_hi t -> req_cond r "" = None).
Proof. exact announced_on_absent. Qed.
Print Assumptions C04_announced_on_absent.

(** A value that is not one double-quoted literal (unquoted, single-quoted, weak, a
    list) is answered 400 on an existing resource. *)
Theorem C04_undecodable_is_400 : forall r cur,
  cur <> ""%string -> wire_decoded r = true ->
  needs_decoding (h_if_match r) = true -> decode_cond (h_if_match r) = None ->
  exists e, req_cond r cur = Some e /\ ecode e = 400%N.
Proof. exact undecodable_is_400. Qed.
Print Assumptions C04_undecodable_is_400.

(** * One tag in the four places, for every tag a backend can report

    [announce] is what server.go writes for a backend's tag in the ETag header of PUT,
    GET and HEAD and in getetag of PROPFIND ([tags_agree] compares the four observed
    texts with it on every run, over arbitrary byte strings as tags).  The text is the
    same in the four places, decodes to the tag, and is accepted back by
    ConditionalMatch.MatchETag. *)
Theorem C04_announce_meets_spec : forall (is_print_hi : N -> bool) t,
  let a := announce is_print_hi t in
  tags_spec_ok t a a a a (match a with Some s => match_back s t | None => None end) = true.
Proof. exact announce_meets_spec. Qed.
Print Assumptions C04_announce_meets_spec.

Theorem C04_tags_agree_implies_spec : forall (is_print_hi : N -> bool) t put get head pf,
  tags_agree is_print_hi t put get head pf = true ->
  tags_spec_ok t put get head pf (match get with Some s => match_back s t | None => None end) = true.
Proof. exact tags_agree_implies_spec. Qed.
Print Assumptions C04_tags_agree_implies_spec.

(** The CalDAV and CardDAV servers hand both header values to the backend unaltered
    (the model of backend.Put is the identity on them; the [cdav] stage compares what a
    recording backend receives, byte for byte). *)
Theorem C04_cdav_options_unaltered : forall im inm,
  cdav_options (Some im) (Some inm) = (im, inm) /\ cdav_options None None = (""%string, ""%string).
Proof. exact cdav_options_unaltered. Qed.
Print Assumptions C04_cdav_options_unaltered.
