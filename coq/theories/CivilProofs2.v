(** CivilProofs2.v — every IMF-fixdate of RFC 7231 7.1.1.1 is accepted by
    internal.Time.UnmarshalText with the instant it denotes. *)
From GW Require Import Base Wire WireProofs Civil CivilSweep CivilProofs.
Local Open Scope Z_scope.

Lemma exact_name_inv tab : forall s i j rest, exact_name tab s i = Some (j, rest) ->
  i <= j < i + Z.of_nat (List.length tab) /\ s = (nth (Z.to_nat (j - i)) tab EmptyString ++ rest)%string.
Proof.
  induction tab as [|name tab IH]; intros s i j rest H; [discriminate|]. cbn [exact_name] in H.
  destruct (strip_prefix name s) as [r|] eqn:E.
  - injection H as <- <-. apply strip_prefix_spec in E. rewrite Z.sub_diag. cbn [Z.to_nat nth List.length].
    split; [lia|exact E].
  - destruct (IH _ _ _ _ H) as [H1 H2]. cbn [List.length]. split; [lia|].
    replace (Z.to_nat (j - i)) with (S (Z.to_nat (j - (i + 1)))) by lia. exact H2.
Qed.

Lemma getnum_2digits' a b r fixed : is_digit a = true -> is_digit b = true ->
  getnum (String a (String b r)) fixed = Some (v2 a b, r).
Proof. apply getnum_2digits. Qed.

Theorem imf_accepted s t : den_imf s = Some t -> parse_with layout_http s = Some (t, 0).
Proof.
  unfold den_imf.
  destruct (exact_name short_day_names s 0) as [[j r0]|] eqn:Ed; [|discriminate].
  destruct (exact_name_inv _ _ _ _ _ Ed) as [Hj ->]. cbn [List.length short_day_names] in Hj.
  destruct r0 as [|c [|sp1 [|d1 [|d2 [|sp2 r1]]]]]; try discriminate.
  destruct (Ascii.eqb_spec c ","); [subst c|discriminate].
  destruct (Ascii.eqb_spec sp1 " "); [subst sp1|discriminate].
  destruct (Ascii.eqb_spec sp2 " "); [subst sp2|discriminate]. cbn [andb].
  destruct (exact_name short_month_names r1 0) as [[mi r2]|] eqn:Em; [|discriminate].
  destruct (exact_name_inv _ _ _ _ _ Em) as [Hmi ->]. cbn [List.length short_month_names] in Hmi.
  destruct r2 as [|sp3 [|y1 [|y2 [|y3 [|y4 [|sp4 r3]]]]]]; try discriminate.
  destruct (Ascii.eqb_spec sp3 " "); [subst sp3|discriminate].
  destruct (Ascii.eqb_spec sp4 " "); [subst sp4|discriminate]. cbn [andb].
  unfold den_time_of_day.
  destruct r3 as [|h1 [|h2 [|c1 [|n1 [|n2 [|c2 [|s1 [|s2 rest]]]]]]]]; try discriminate.
  destruct (Ascii.eqb_spec c1 ":"); [subst c1|discriminate].
  destruct (Ascii.eqb_spec c2 ":"); [subst c2|discriminate]. cbn [andb].
  destruct (String.eqb_spec rest " GMT"); [subst rest|discriminate].
  unfold den_fields.
  destruct (four_digits y1 y2 y3 y4) as [y|] eqn:Ey; [|discriminate].
  destruct (two_digits d1 d2) as [d|] eqn:Edd; [|discriminate].
  destruct (two_digits h1 h2) as [h|] eqn:Eh; [|discriminate].
  destruct (two_digits n1 n2) as [mn|] eqn:En; [|discriminate].
  destruct (two_digits s1 s2) as [sec|] eqn:Es; [|discriminate].
  apply four_digits_some in Ey. destruct Ey as (Hy1&Hy2&Hy3&Hy4&->).
  apply two_digits_some in Edd, Eh, En, Es.
  destruct Edd as (Hd1&Hd2&->). destruct Eh as (Hh1&Hh2&->).
  destruct En as (Hn1&Hn2&->). destruct Es as (Hs1&Hs2&->).
  destruct (valid_fields _ _ _ _ _ _) eqn:Ev; [|discriminate]. intros [= <-].
  assert (Ev' := Ev). unfold valid_fields in Ev'. rewrite !andb_true_iff, !Z.leb_le in Ev'.
  clear Ed Em. rewrite !Z.sub_0_r. fold (nth_name short_day_names j). fold (nth_name short_month_names mi).
  unfold parse_with, time_parse, layout_http. cbn [fst snd]. pstep.
  rewrite skip_empty, parse_std_weekday by lia. pstep.
  rewrite skip_comma_space by (apply head_not_space_digit; exact Hd1).
  cbn [parse_std]. rewrite getnum_2digits by assumption. pstep.
  assert (Hhm := fun r => head_not_space_month (mi + 1) r). assert (Hpm := fun r => lookup_short_month (mi + 1) r).
  replace (mi + 1 - 1) with mi in Hhm, Hpm by lia.
  rewrite skip_space by (apply Hhm; lia). rewrite Hpm by lia. pstep.
  rewrite skip_space by (apply head_not_space_digit; exact Hy1).
  cbn [parse_std take]. rewrite Hy1.
  rewrite atoi_time_digit_first by exact Hy1. cbn [all_digits]. rewrite Hy1, Hy2, Hy3, Hy4. cbn [andb].
  unfold dec_value. cbn [dec_value_acc].
  replace ((((0 * 10 + digit_val y1) * 10 + digit_val y2) * 10 + digit_val y3) * 10 + digit_val y4)
    with (v4 y1 y2 y3 y4) by (unfold v4; lia).
  pstep. rewrite skip_space by (apply head_not_space_digit; exact Hh1).
  cbn [parse_std]. rewrite getnum_2digits by assumption.
  destruct (Z.leb_spec 24 (v2 h1 h2)); [lia|].
  pstep. rewrite skip_lit1 by reflexivity. cbn [parse_std]. rewrite getnum_2digits by assumption.
  destruct (Z.leb_spec 60 (v2 n1 n2)); [lia|].
  pstep. rewrite skip_lit1 by reflexivity. cbn [parse_std]. rewrite getnum_2digits by assumption.
  destruct (Z.leb_spec 60 (v2 s1 s2)); [lia|].
  change (parse_frac " GMT") with (0, " GMT"%string). cbv iota beta. pstep.
  rewrite skip_gmt. cbv iota beta.
  rewrite finish_valid; try (apply v2_range; assumption).
  - rewrite Ev. reflexivity.
  - apply negb_true_iff, orb_false_iff. split; [apply Z.leb_gt|apply Z.ltb_ge]; lia.
  - apply Z.leb_gt; lia.
  - apply Z.leb_gt; lia.
  - apply Z.leb_gt; lia.
Qed.

(** every IMF-fixdate (the preferred HTTP-date form, the only one a sender may
    generate) is accepted with the instant it denotes and no sub-second part *)
Theorem time_accepts_imf s t : den_imf s = Some t -> time_unmarshal s = Ok (t, 0).
Proof.
  intros H. unfold time_unmarshal, http_parse_time. rewrite (imf_accepted _ _ H). reflexivity.
Qed.
